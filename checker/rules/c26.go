package rules

import (
	"fmt"
	"go/ast"
	"go/constant"
	"go/token"
	"go/types"

	"verif/checker/core"
)

const dqPkg = "pkg/durablequeue"

func init() {
	register(&Prop{
		ID:       "C26",
		Patterns: []string{"./pkg/durablequeue"},
		Level:    "other",
		Explanation: "Necessary-condition rules for the durable queue, decided on the CFGs of pkg/durablequeue with type-resolved callees and fields: " +
			"(1) append-durable (segment.append): scratch is reset before and filled by three writes before the single file write; the file write is preceded by seekEnd(-footerSize) (it overwrites the old footer) and followed by File.Sync; segment.size is advanced only after the Sync, on every success exit, never after a failed write or sync; the write is reached only when size is within maxSize and the full branch returns ErrSegmentFull; every error is propagated; " +
			"(2) advance-durable (segment.advanceTo): footer write then File.Sync, both on every `return nil` path; the new position is stored only after the 'never move backwards' test; the footer value is the new position; errors propagated; " +
			"(3) open-repair (segment.open / repair): every size update is preceded by File.Sync and every Sync by the footer write; a block that fails verification is truncated at the block position before the footer is rewritten; repair writes footer ≺ Sync ≺ size, never truncates after the footer write; errors propagated; " +
			"(4) append-limit (Queue.Append): tail.append is reached only when queueTotalSize+len is within maxSize, the rejecting branch touches neither the segment nor the counter and returns ErrQueueFull; queueTotalSize.Add happens only under err == nil, always on that branch, with the byte count returned by append; ErrSegmentFull leads to addSegment; trimHead always settles the counter; " +
			"(5) trim-when-drained: Queue.Advance, Queue.Open and queueScanner.Advance call trimHead only on a branch that established io.EOF or a non-nil error from the head segment (PurgeOlderThan trims by age — exempt by design); " +
			"(6) guarded-by: segment.{size,maxSize,pos,file} are accessed under segment.mu, Queue.{head,tail,segments,maxSize,maxSegmentSize} under Queue.mu (helpers checked at their call sites).",
		NotCovered:  "the byte layout and its recovery at every truncation point, FIFO order across segments (scanner arithmetic), that fsync makes data durable, the legacy Queue.Advance path dropping non-EOF errors (allowed: at-least-once re-delivery).",
		Assumptions: []string{"os.File.Sync makes the written bytes durable", "a single File.Write of the staged entry followed by Sync is the atomic append protocol"},
		Run:         runC26,
	})
}

var dqLocks = &core.LockRules{
	Pkg: dqPkg,
	Guards: []core.Guard{
		{Type: "segment", Fields: []string{"size", "maxSize", "pos", "file"}, Locks: []string{"mu"}},
		{Type: "Queue", Fields: []string{"head", "tail", "segments", "maxSize", "maxSegmentSize"}, Locks: []string{"mu"}},
	},
	CallerHolds: map[string]map[string]byte{
		"segment.open":          {"mu": 'W'},
		"segment.repair":        {"mu": 'W'},
		"segment.seekToCurrent": {"mu": 'R'},
		"segment.seek":          {"mu": 'R'},
		"segment.seekEnd":       {"mu": 'R'},
		"segment.filePos":       {"mu": 'R'},
		"segment.readUint64":    {"mu": 'R'},
		"segment.writeUint64":   {"mu": 'R'},
		"segment.writeBytes":    {"mu": 'R'},
		"segment.readBytes":     {"mu": 'R'},
		"Queue.addSegment":      {"mu": 'W'},
		"Queue.loadSegments":    {"mu": 'W'},
		"Queue.trimHead":        {"mu": 'W'},
	},
	ExemptFunc: map[string]string{
		"segment.advance": "legacy head-advance: reads pos/file before advanceTo takes segment.mu; its only caller Queue.Advance holds Queue.mu(W) and has no caller in this tree (replication uses the scanner)",
	},
	ExemptAccess: map[string]string{
		"Queue.DiskUsage:segments":       "lock-free size read: called from Open under Queue.mu and from the replication size metrics without it; a stale read cannot change queue contents or order (outside the C26 statement)",
		"Queue.Position:pos":             "diagnostic read of head.pos under Queue.mu(R) only; no caller in this tree; cannot change queue contents",
		"Queue.Position:segment.filePos": "diagnostic read of the tail file offset under Queue.mu(R) only; no caller in this tree",
	},
}

var (
	dqWriteBytes = call("pkg/durablequeue.segment.writeBytes")
	dqWriteU64   = call("pkg/durablequeue.segment.writeUint64")
	dqSeekEnd    = call("pkg/durablequeue.segment.seekEnd")
	dqSegAppend  = call("pkg/durablequeue.segment.append")
	dqAdd        = call("pkg/durablequeue.SharedCount.Add")
	dqValue      = call("pkg/durablequeue.SharedCount.Value")
	dqAddSegment = call("pkg/durablequeue.Queue.addSegment")
	dqTrim       = call("pkg/durablequeue.Queue.trimHead")
	fileSync     = call("os.File.Sync")
	fileTruncate = call("os.File.Truncate")
	dqIO         = call("pkg/durablequeue.segment.writeBytes", "pkg/durablequeue.segment.writeUint64", "pkg/durablequeue.segment.seekEnd",
		"pkg/durablequeue.segment.seek", "pkg/durablequeue.segment.seekToCurrent", "pkg/durablequeue.segment.readUint64", "pkg/durablequeue.segment.readBytes",
		"pkg/durablequeue.segment.repair", "pkg/durablequeue.segment.open", "os.File.Sync", "os.File.Truncate", "os.File.Seek", "bytes.Buffer.Write")
	// dqAnchors: the call classes the C26 rules talk about. The path rules are
	// evaluated on the CFG with every OTHER same-package helper (declared function
	// or local closure) spliced in at its call site (core.(*Func).Inline), so that
	// extracting a run of statements into a helper does not change a verdict.
	dqAnchors = core.Or(dqIO, dqSegAppend, dqAdd, dqValue, dqAddSegment, dqTrim, call("bytes.Buffer.Reset"),
		call("pkg/durablequeue.newSegment", "pkg/durablequeue.Queue.loadSegments", "pkg/durablequeue.segment.advanceTo"),
		// segment.filePos is a position query (Seek(0, SeekCurrent)) that drops Seek's error by design; kept opaque
		call("pkg/durablequeue.segment.filePos"))
)

// notAfterFailureN: no node selected by b is reachable from the failure branch of a call of class a.
func notAfterFailureN(r *core.Report, f *core.Func, g *core.Graph, rule, aName string, a core.Matcher, bName string, b core.NodePred) {
	n := 0
	ok := true
	for _, an := range g.Select(g.Calling(a)) {
		// (also `return a(…)`: the forwarded error is tested at the spliced call
		// site, or leaves the function)
		fail, _, has, exit := g.ErrEdgesFwd(an)
		if !has {
			continue
		}
		n++
		if exit {
			continue
		}
		reach := g.Reach([]*core.Node{fail.To}, nil, nil)
		for _, bn := range g.Select(b) {
			if reach[bn] {
				r.Bad(rule, f.String(), bName+"-after-failed-"+aName, g.Line(bn), bName+" is reachable from the failure branch of "+aName)
				ok = false
			}
		}
	}
	if n == 0 {
		r.Bad(rule, f.String(), aName+":unchecked", f.Pos(), "the error of "+aName+" is not tested by a following `!= nil` branch")
		return
	}
	if ok {
		r.Ok(rule, f.String(), f.Pos(), "no "+bName+" on the failure branch of "+aName)
	}
}

// dominatedBy: every node of class b is reachable only through a node of class a.
func dominatedBy(r *core.Report, f *core.Func, g *core.Graph, rule, aName string, a core.NodePred, bName string, b core.NodePred, min int) {
	bs := g.Select(b)
	if !r.Check(len(bs) >= min && len(g.Select(a)) >= 1, rule, f.String(), aName+"<"+bName+":count", f.Pos(), fmt.Sprintf("%d %s site(s) (>= %d confirmed by reading), %d %s", len(bs), bName, min, len(g.Select(a)), aName)) {
		return
	}
	reach := g.ReachFromEntry(a, nil)
	for _, n := range bs {
		r.Check(!reach[n] || a(n), rule, f.String(), aName+"<"+bName, g.Line(n), aName+" precedes "+bName+" on every path")
	}
}

// returnsVar: every return among exits has the given package-level variable as error operand.
func returnsVar(g *core.Graph, exits []*core.Node, v types.Object) bool {
	if len(exits) == 0 || v == nil {
		return false
	}
	for _, x := range exits {
		rs, ok := x.N.(*ast.ReturnStmt)
		if !ok || len(rs.Results) == 0 {
			return false
		}
		if core.ObjOf(g.Info, rs.Results[len(rs.Results)-1]) != v {
			return false
		}
	}
	return true
}

func runC26(p *core.Prog, r *core.Report, tier string) {
	pk := p.Pkg(dqPkg)
	if pk == nil {
		r.Bad("anchor", dqPkg, "unresolved", "-", "package not loaded")
		return
	}
	fld := func(typ, name string) *types.Var {
		v := core.LookupField(pk.Types, typ, name)
		r.Check(v != nil, "anchor", dqPkg+"."+typ+"."+name, "unresolved", "-", "field resolved")
		return v
	}
	pkgVar := func(name string) types.Object {
		o := pk.Types.Scope().Lookup(name)
		r.Check(o != nil, "anchor", dqPkg+"."+name, "unresolved", "-", "package-level object resolved")
		return o
	}
	fSize, fMax, fPos, fVerify, fQMax := fld("segment", "size"), fld("segment", "maxSize"), fld("segment", "pos"), fld("segment", "verifyBlockFn"), fld("Queue", "maxSize")
	errSegFull, errQFull, footer := pkgVar("ErrSegmentFull"), pkgVar("ErrQueueFull"), pkgVar("footerSize")
	if fSize == nil || fMax == nil || fPos == nil || fVerify == nil || fQMax == nil || errSegFull == nil || errQFull == nil || footer == nil {
		return
	}
	isField := func(info *types.Info, fv *types.Var) func(ast.Expr) bool {
		return func(e ast.Expr) bool { return core.FieldOf(info, core.StripConv(info, e)) == fv }
	}

	// ---- (1) segment.append
	if f := r.Need(p, dqPkg, "segment.append"); f != nil {
		const rule = "append-durable"
		in := f.Inline(dqAnchors)
		g, info := in.G, f.Info()
		sizeStore := g.Assigning(fSize)
		bufWrite, bufReset := call("bytes.Buffer.Write"), call("bytes.Buffer.Reset")
		core.RulePrecedeG(r, g, f, rule, "Buffer.Reset", bufReset, "Buffer.Write", bufWrite)
		dominatedBy(r, f, g, rule, "seekEnd", g.Calling(dqSeekEnd), "writeBytes", g.Calling(dqWriteBytes), 1)
		core.RulePrecedeG(r, g, f, rule, "writeBytes", dqWriteBytes, "File.Sync", fileSync)
		// every staged piece (length, body, footer) is in scratch before the file write
		ws := g.Select(g.Calling(bufWrite))
		if r.Check(len(ws) >= 3, rule, f.String(), "Buffer.Write:count", f.Pos(), fmt.Sprintf("%d scratch writes (length, body, footer: >= 3)", len(ws))) {
			for _, w := range ws {
				reach := g.ReachFromEntry(func(n *core.Node) bool { return n == w }, nil)
				for _, fw := range g.Select(g.Calling(dqWriteBytes)) {
					r.Check(!reach[fw], rule, f.String(), "Buffer.Write<writeBytes", g.Line(w), "each staged piece is written to scratch before the single file write")
				}
			}
		}
		// seekEnd(-footerSize): the entry overwrites the old footer
		for _, c := range in.AllCalls(dqSeekEnd) {
			want := constant.UnaryOp(token.SUB, footer.(*types.Const).Val(), 0)
			v := core.ConstVal(info, in.ArgOf(c.Args[0]))
			r.Check(v != nil && constant.Compare(v, token.EQL, want), rule, f.String(), "seekEnd-offset", p.Pos(c.Pos()), "the entry is written at end-footerSize (overwrites the old footer)")
		}
		core.RuleMustPassG(r, f, g, rule, "File.Sync", fileSync, false)
		core.RuleMustPassN(r, f, g, rule, "size-update", sizeStore, nil)
		dominatedBy(r, f, g, rule, "File.Sync", g.Calling(fileSync), "size-update", sizeStore, 1)
		notAfterFailureN(r, f, g, rule, "writeBytes", dqWriteBytes, "size-update", core.AnyOf(sizeStore, g.Calling(fileSync)))
		notAfterFailureN(r, f, g, rule, "File.Sync", fileSync, "size-update", sizeStore)
		// full gate
		full := g.ExceedsEdge(isField(info, fSize), isField(info, fMax), false)
		within := g.ExceedsEdge(isField(info, fSize), isField(info, fMax), true)
		if r.Check(len(g.Edges(full)) >= 1, rule, f.String(), "full-test:absent", f.Pos(), "segment.size is compared with segment.maxSize") {
			for _, w := range g.Select(g.Calling(dqWriteBytes)) {
				r.Check(g.OnlyVia(w, within), rule, f.String(), "write-when-full", g.Line(w), "the file write is reached only when size is within maxSize")
			}
			for _, e := range g.Edges(full) {
				exits := g.ExitsFrom([]*core.Node{e.To}, g.Calling(dqWriteBytes))
				r.Check(returnsVar(g, exits, errSegFull), rule, f.String(), "full-returns-ErrSegmentFull", g.Line(e.From), "a full segment answers ErrSegmentFull (the queue rolls a new segment on that value)")
			}
		}
		core.RuleErrorsUsedInl(r, in, rule, "seek/stage/write/sync", dqIO, false, 6)
	}

	// ---- (2) segment.advanceTo
	if f := r.Need(p, dqPkg, "segment.advanceTo"); f != nil {
		const rule = "advance-durable"
		in := f.Inline(dqAnchors)
		g, info := in.G, f.Info()
		core.RulePrecedeG(r, g, f, rule, "seekEnd", dqSeekEnd, "writeUint64", dqWriteU64)
		core.RulePrecedeG(r, g, f, rule, "writeUint64", dqWriteU64, "File.Sync", fileSync)
		// every `return nil` passes the footer write and the sync
		nNil := 0
		for _, gate := range []struct {
			name string
			pred core.NodePred
		}{{"writeUint64", g.Calling(dqWriteU64)}, {"File.Sync", g.Calling(fileSync)}} {
			reach := g.ReachFromEntry(gate.pred, nil)
			for _, x := range g.Exits {
				rs, ok := x.N.(*ast.ReturnStmt)
				if !ok || len(rs.Results) != 1 || !core.IsNilIdent(info, rs.Results[0]) {
					continue
				}
				nNil++
				r.Check(!reach[x], rule, f.String(), "return-nil-without-"+gate.name, g.Line(x), "success is reported only after "+gate.name)
			}
		}
		r.Check(nNil >= 2, rule, f.String(), "return-nil:absent", f.Pos(), "advanceTo has a `return nil` exit")
		// never move backwards
		posParam := f.Param(0)
		isParam := func(e ast.Expr) bool {
			return posParam != nil && core.ObjOf(info, core.StripConv(info, in.ArgOf(core.StripConv(info, e)))) == types.Object(posParam)
		}
		forward := g.ExceedsEdge(isField(info, fPos), isParam, true)
		stores := g.Select(g.Assigning(fPos))
		if r.Check(len(stores) >= 1 && len(g.Edges(forward)) >= 1, rule, f.String(), "pos-store/backward-test:absent", f.Pos(), "position store and `pos < l.pos` test found") {
			for _, s := range stores {
				r.Check(g.OnlyVia(s, forward), rule, f.String(), "pos-store-unguarded", g.Line(s), "the head position is stored only after the test that it does not move backwards")
			}
		}
		for _, c := range in.AllCalls(dqWriteU64) {
			a := core.StripConv(info, in.ArgOf(core.StripConv(info, c.Args[0])))
			r.Check(isParam(a) || core.FieldOf(info, a) == fPos, rule, f.String(), "footer-value", p.Pos(c.Pos()), "the footer records the new head position")
		}
		core.RuleErrorsUsedInl(r, in, rule, "seek/write/sync/read", dqIO, false, 5)
	}

	// ---- (3) segment.open / segment.repair
	if f := r.Need(p, dqPkg, "segment.open"); f != nil {
		const rule = "open-repair"
		in := f.Inline(dqAnchors)
		g, info := in.G, f.Info()
		dominatedBy(r, f, g, rule, "File.Sync", g.Calling(fileSync), "size-update", g.Assigning(fSize), 2)
		dominatedBy(r, f, g, rule, "writeUint64", g.Calling(dqWriteU64), "File.Sync", g.Calling(fileSync), 2)
		verify := core.CallsField(fVerify)
		n := 0
		for _, vn := range g.Select(g.Calling(verify)) {
			fail, _, ok := g.ErrEdges(vn)
			if !ok {
				continue
			}
			n++
			reach := g.Reach([]*core.Node{fail.To}, g.Calling(fileTruncate), nil)
			bad := false
			for x := range reach {
				if len(x.Succ) == 0 || g.Calling(dqWriteU64)(x) || g.Calling(fileSync)(x) || g.Assigning(fSize)(x) {
					bad = true
				}
			}
			r.Check(!bad, rule, f.String(), "Truncate-on-bad-block", g.Line(vn), "a block failing verification is truncated before the footer is rewritten")
			// and the failure branch does rewrite footer + sync before re-opening
			esc := g.ExitsFrom([]*core.Node{fail.To}, g.Calling(fileSync))
			okEsc := true
			for _, x := range esc {
				if !isFailingReturn(g, x) {
					okEsc = false
				}
			}
			r.Check(okEsc, rule, f.String(), "Sync-after-truncate", g.Line(vn), "after the truncation every non-error path syncs the rewritten footer")
		}
		r.Check(n >= 1, rule, f.String(), "verifyBlockFn:unchecked", f.Pos(), "the result of verifyBlockFn is tested")
		for _, c := range in.AllCalls(fileTruncate) {
			r.Check(len(c.Args) == 1 && core.FieldOf(info, core.StripConv(info, in.ArgOf(core.StripConv(info, c.Args[0])))) == fPos, rule, f.String(), "Truncate-offset", p.Pos(c.Pos()), "the bad block is cut at the position of the current block")
		}
		core.RuleErrorsUsedInl(r, in, rule, "segment io", dqIO, false, 14)
		r.Check(len(in.AllCalls(call("pkg/durablequeue.segment.repair"))) >= 3, rule, f.String(), "repair:count", f.Pos(), "corrupt footer / size / short block lead to repair (>= 3 sites)")
	}
	if f := r.Need(p, dqPkg, "segment.repair"); f != nil {
		const rule = "open-repair"
		in := f.Inline(dqAnchors)
		g := in.G
		core.RulePrecedeG(r, g, f, rule, "writeUint64", dqWriteU64, "File.Sync", fileSync)
		dominatedBy(r, f, g, rule, "File.Sync", g.Calling(fileSync), "size-update", g.Assigning(fSize), 1)
		core.RuleMustPassG(r, f, g, rule, "File.Sync", fileSync, false)
		core.RuleMustPassN(r, f, g, rule, "size-update", g.Assigning(fSize), nil)
		ruleNoneAfter(r, f, g, rule, "writeUint64", g.Calling(dqWriteU64), "File.Truncate", g.Calling(fileTruncate))
		r.Check(len(in.AllCalls(fileTruncate)) >= 1, rule, f.String(), "File.Truncate:absent", f.Pos(), "repair truncates the file at the block position")
		core.RuleErrorsUsedInl(r, in, rule, "segment io", dqIO, false, 6)
	}
	if f := r.Need(p, dqPkg, "newSegment"); f != nil {
		core.RuleMustPass(r, f, "open-repair", "segment.open", call("pkg/durablequeue.segment.open"), false)
		core.RuleErrorsUsed(r, f, "open-repair", "segment.open", call("pkg/durablequeue.segment.open"), false, 1)
	}

	// ---- (4) Queue.Append, trimHead accounting
	if f := r.Need(p, dqPkg, "Queue.Append"); f != nil {
		const rule = "append-limit"
		in := f.Inline(dqAnchors)
		g, info := in.G, f.Info()
		apps := g.Select(g.Calling(dqSegAppend))
		adds := g.Select(g.Calling(dqAdd))
		if r.Check(len(apps) >= 2 && len(adds) >= 1, rule, f.String(), "append/Add:absent", f.Pos(), "tail.append (first try and retry) and queueTotalSize.Add found") {
			isTotal := func(e ast.Expr) bool { return core.MentionsCall(info, e, dqValue) }
			over := g.ExceedsEdge(isTotal, isField(info, fQMax), false)
			within := g.ExceedsEdge(isTotal, isField(info, fQMax), true)
			if r.Check(len(g.Edges(over)) >= 1, rule, f.String(), "limit-test:absent", f.Pos(), "queueTotalSize.Value()+len is compared with Queue.maxSize") {
				for _, a := range apps {
					r.Check(g.OnlyVia(a, within), rule, f.String(), "append-over-limit", g.Line(a), "tail.append is reached only when the new total is within maxSize")
				}
				for _, e := range g.Edges(over) {
					reach := g.Reach([]*core.Node{e.To}, nil, nil)
					touched := false
					for x := range reach {
						if g.Calling(dqSegAppend)(x) || g.Calling(dqAdd)(x) || g.Calling(dqAddSegment)(x) {
							touched = true
						}
					}
					r.Check(!touched, rule, f.String(), "reject-touches-queue", g.Line(e.From), "the rejecting branch neither appends nor changes the size counter")
					r.Check(returnsVar(g, g.ExitsFrom([]*core.Node{e.To}, nil), errQFull), rule, f.String(), "reject-returns-ErrQueueFull", g.Line(e.From), "an over-limit append answers ErrQueueFull")
				}
			}
			// err / bytesWritten of tail.append
			var errVar, nVar types.Object
			for _, a := range apps {
				if as, ok := a.N.(*ast.AssignStmt); ok && len(as.Lhs) == 2 {
					nVar, errVar = core.ObjOf(info, as.Lhs[0]), core.ObjOf(info, as.Lhs[1])
				}
			}
			if r.Check(errVar != nil && nVar != nil && core.AssignedFrom(info, f.Decl.Body, errVar, dqSegAppend, 1).OnlyFrom() && core.AssignedFrom(info, f.Decl.Body, nVar, dqSegAppend, 0).OnlyFrom(),
				rule, f.String(), "append-results", f.Pos(), "the (bytes, err) variables hold only results of tail.append") {
				okEdge := g.NilEdgeObj(errVar, true)
				for _, a := range adds {
					r.Check(g.OnlyVia(a, okEdge), rule, f.String(), "Add-without-success", g.Line(a), "queueTotalSize.Add happens only under err == nil")
					for _, c := range core.CallsIn(info, a.N, dqAdd, core.WalkOpts{}) {
						r.Check(len(c.Args) == 1 && core.ObjOf(info, in.ArgOf(c.Args[0])) == nVar, rule, f.String(), "Add-amount", p.Pos(c.Pos()), "the counter grows by the byte count tail.append returned")
					}
				}
				es := g.Edges(okEdge)
				r.Check(len(es) >= 1, rule, f.String(), "err==nil:absent", f.Pos(), "success of tail.append is tested")
				for _, e := range es {
					r.Check(len(g.ExitsFrom([]*core.Node{e.To}, g.Calling(dqAdd))) == 0, rule, f.String(), "success-without-Add", g.Line(e.From), "every successful append is added to the size counter")
				}
				// ErrSegmentFull ⇒ addSegment
				roll := g.Edges(func(e *core.Edge) bool {
					for _, ft := range core.EdgeFacts(e) {
						be, ok := ft.Cond.(*ast.BinaryExpr)
						if ok && be.Op == token.EQL && ft.Truth &&
							((core.ObjOf(info, be.X) == errVar && core.ObjOf(info, be.Y) == errSegFull) || (core.ObjOf(info, be.Y) == errVar && core.ObjOf(info, be.X) == errSegFull)) {
							return true
						}
					}
					return false
				})
				r.Check(len(roll) >= 1, rule, f.String(), "ErrSegmentFull-test:absent", f.Pos(), "a full tail segment is recognised")
				for _, e := range roll {
					r.Check(len(g.ExitsFrom([]*core.Node{e.To}, g.Calling(dqAddSegment))) == 0, rule, f.String(), "full-without-addSegment", g.Line(e.From), "a full tail segment leads to addSegment before returning")
				}
			}
		}
		core.RuleMustPassG(r, f, g, rule, "segment.append", dqSegAppend, false)
		core.RuleErrorsUsedInl(r, in, rule, "append/addSegment", core.Or(dqSegAppend, dqAddSegment), false, 3)
	}
	if f := r.Need(p, dqPkg, "Queue.trimHead"); f != nil {
		in := f.Inline(dqAnchors)
		core.RuleMustPassG(r, f, in.G, "append-limit", "queueTotalSize.Add", dqAdd, false)
		core.RuleErrorsUsedInl(r, in, "append-limit", "addSegment", dqAddSegment, false, 1)
	}

	// ---- (5) trim only when the head segment is drained / broken
	ioPk := p.Pkg("io")
	var eof types.Object
	if ioPk != nil {
		eof = ioPk.Types.Scope().Lookup("EOF")
	}
	if r.Check(eof != nil, "anchor", "io.EOF", "unresolved", "-", "io.EOF resolved") {
		nTrim := 0
		for _, name := range []string{"Queue.Advance", "Queue.Open", "queueScanner.Advance"} {
			f := r.Need(p, dqPkg, name)
			if f == nil {
				continue
			}
			g, info := f.Inline(dqAnchors).G, f.Info()
			drained := func(e *core.Edge) bool {
				for _, ft := range core.EdgeFacts(e) {
					if be, ok := ft.Cond.(*ast.BinaryExpr); ok && be.Op == token.EQL && ft.Truth || ok && be.Op == token.NEQ && !ft.Truth {
						if usesObj(info, be.X, eof) || usesObj(info, be.Y, eof) {
							return true
						}
					}
					if x, nonNilOnTrue, ok := core.NilTest(info, ft.Cond); ok && core.IsErrorType(info.TypeOf(x)) && ft.Truth == nonNilOnTrue {
						return true
					}
				}
				return false
			}
			for _, t := range g.Select(g.Calling(dqTrim)) {
				nTrim++
				r.Check(g.OnlyVia(t, drained), "trim-when-drained", f.String(), "trimHead-unguarded", g.Line(t), "the head segment is dropped only after it reported io.EOF (drained) or an error")
			}
		}
		r.Check(nTrim >= 3, "trim-when-drained", dqPkg, "trimHead:count", "-", fmt.Sprintf("%d trimHead sites examined (>= 3 confirmed by reading)", nTrim))
	}

	// ---- (6) guarded-by
	// methods extracted from a locked region (not in the table) are checked at their call sites
	locks, inferred := core.InferCallerHolds(p, dqLocks)
	for _, name := range inferred {
		r.Note("guarded-by: %s is not in the lock table; it touches guarded state of its receiver without locking, so it is checked as a caller-holds helper at its call sites", name)
	}
	core.RuleLocks(r, p, locks, "guarded-by", 120)
}

// usesObj: e is (a selector/identifier denoting) obj.
func usesObj(info *types.Info, e ast.Expr, obj types.Object) bool {
	switch x := ast.Unparen(e).(type) {
	case *ast.Ident:
		return info.Uses[x] == obj
	case *ast.SelectorExpr:
		return info.Uses[x.Sel] == obj
	}
	return false
}

// isFailingReturn: x is a return whose error operand is provably non-nil
// (x is not among the success exits of its graph).
func isFailingReturn(g *core.Graph, x *core.Node) bool {
	for _, s := range g.SuccessExits() {
		if s == x {
			return false
		}
	}
	return true
}
