package rules

import (
	"fmt"
	"go/ast"
	"go/constant"
	"go/token"
	"go/types"
	"sort"
	"strings"

	"verif/checker/core"
)

// C23, part 3: integral window bookkeeping and the dispatch tables.

// ---------------------------------------------------------------- (11) integral

func (c *c23) integral() {
	const rule = "integral-window"
	info := c.info
	n := 0
	for _, k := range c23Num {
		rc := c.red(k, "Integral")
		if rc == nil {
			continue
		}
		prev, sum, ch, win := rc.fld("prev"), rc.fld("sum"), rc.fld("ch"), rc.fld("window")
		if prev == nil || sum == nil || ch == nil || win == nil {
			continue
		}
		pNil, pTime := core.N1FieldOfType(prev.Type(), "Nil"), core.N1FieldOfType(prev.Type(), "Time")
		wStart := core.N1FieldOfType(win.Type(), "start")
		inTime := rc.in("Time")
		if !c.r.Check(pNil != nil && pTime != nil && wStart != nil && inTime != nil, "anchor", qP+"."+rc.typ, "fields:unresolved", "", "point and window fields resolved") {
			continue
		}
		n++
		isSum := c.path(sum)
		sendOn := func(g *core.Graph) core.NodePred {
			return func(nd *core.Node) bool {
				s, ok := nd.N.(*ast.SendStmt)
				return ok && c.path(ch)(ast.Unparen(s.Chan))
			}
		}
		checkSent := func(g *core.Graph, fn *core.Func, roots []ast.Node) {
			for _, nd := range g.Select(sendOn(g)) {
				s := nd.N.(*ast.SendStmt)
				cl, ok := core.N1ResolveIn(info, roots, s.Value).(*ast.CompositeLit)
				if !c.r.Check(ok, "output-time", fn.String(), "sent-value-not-a-literal", g.Line(nd), "a point literal is sent") {
					continue
				}
				tv := core.N1KeyValue(info, cl, core.N1FieldOfType(info.TypeOf(cl), "Time"))
				vv := core.N1KeyValue(info, cl, core.N1FieldOfType(info.TypeOf(cl), "Value"))
				c.r.Check(tv != nil && c.path(win, wStart)(core.N1ResolveIn(info, roots, tv)), "output-time", fn.String(), "sent-time-is-not-window.start", g.Line(nd), "the window's integral is stamped with window.start")
				c.r.Check(vv != nil && isSum(core.N1ResolveIn(info, roots, vv)), "output-time", fn.String(), "sent-value-is-not-sum", g.Line(nd), "the window's integral is the accumulated sum")
			}
		}

		// ---- Aggregate
		g, name := rc.ga, rc.agg.String()
		store := g.N1Assign(token.ASSIGN, c.path(prev), core.N1DerefOfType(info, rc.inPt))
		acc := g.N1Assign(token.ADD_ASSIGN, isSum, nil)
		reset := g.N1Assign(token.ASSIGN, isSum, func(e ast.Expr) bool {
			v := core.ConstVal(info, e)
			return v != nil && constant.Sign(v) == 0
		})
		send := sendOn(g)
		for _, x := range []struct {
			what string
			p    core.NodePred
		}{{"prev = *p", store}, {"sum += …", acc}, {"sum = 0", reset}, {"ch <- point", send}} {
			c.r.Check(len(g.Select(x.p)) >= 1, rule, name, x.what+":absent", rc.agg.Pos(), x.what+" present")
		}
		miss := g.N1ExitsWithout(store, nil)
		var m *core.Node
		if len(miss) > 0 {
			m = miss[0]
		}
		c.r.Check(m == nil, rule, name, "point-not-remembered", c.line(g, m), "every path stores the new point into prev")
		havePrev := c.boolEdge(c.path(prev, pNil), false)
		bad := g.N1ReachableWithout(core.AnyOf(acc, send), nil, havePrev)
		c.r.Check(bad == nil, rule, name, "first-point-accumulated", c.line(g, bad), "sum is updated / a window is sent only on a path that established prev.Nil == false")
		newTime := c.cmpEdge(c.path(prev, pTime), c.path(inTime), core.X1NE)
		bad = g.N1ReachableWithout(core.AnyOf(acc, send), nil, newTime)
		c.r.Check(bad == nil, rule, name, "duplicate-time-accumulated", c.line(g, bad), "sum is updated / a window is sent only on a path that established prev.Time != p.Time")
		// after a send: reset before accumulating again or leaving
		after := g.Reach(core.X1SuccsOf(g.Select(send)), reset, nil)
		var hit *core.Node
		for _, nd := range g.Nodes {
			if after[nd] && nd.N != nil && (acc(nd) || (core.X1IsExit(nd) && nd.Kind != core.KPanic)) {
				hit = nd
				break
			}
		}
		c.r.Check(hit == nil, rule, name, "sum-not-reset-after-send", c.line(g, hit), "sum = 0 follows the send before sum accumulates again or the method returns")
		// the reset never precedes the send of the same window
		bad = g.N1Between(g.Select(reset), nil, send)
		c.r.Check(bad == nil, rule, name, "reset-before-send", c.line(g, bad), "no send after the reset (the finished window's sum is sent before it is cleared)")
		checkSent(g, rc.agg, rc.ina.Roots)
		// window orientation: (start, end) = Window(t) when ascending, (end, start) when descending
		opt := rc.fld("opt")
		wEnd := core.N1FieldOfType(win.Type(), "end")
		if opt != nil && wEnd != nil {
			asc := core.N1FieldOfType(opt.Type(), "Ascending")
			winCall := call(qP + ".IteratorOptions.Window")
			orient := func(fwd bool) core.NodePred {
				return func(nd *core.Node) bool {
					as, ok := nd.N.(*ast.AssignStmt)
					if !ok || len(as.Lhs) != 2 || len(as.Rhs) != 1 {
						return false
					}
					cl, ok := ast.Unparen(as.Rhs[0]).(*ast.CallExpr)
					if !ok || !winCall(info, cl) {
						return false
					}
					a, b := core.N1Path(info, win, wStart), core.N1Path(info, win, wEnd)
					if !fwd {
						a, b = b, a
					}
					return a(ast.Unparen(as.Lhs[0])) && b(ast.Unparen(as.Lhs[1]))
				}
			}
			nf, nb := len(g.Select(orient(true))), len(g.Select(orient(false)))
			c.r.Check(asc != nil && nf >= 2 && nb >= 2, rule, name, "window-assignments:absent", rc.agg.Pos(), fmt.Sprintf("%d ascending and %d descending window assignments", nf, nb))
			if asc != nil {
				bad = g.N1ReachableWithout(orient(true), nil, c.boolEdge(c.path(opt, asc), true))
				c.r.Check(bad == nil, rule, name, "window-orientation:ascending", c.line(g, bad), "(window.start, window.end) = Window(t) only on a path that established opt.Ascending == true")
				bad = g.N1ReachableWithout(orient(false), nil, c.boolEdge(c.path(opt, asc), false))
				c.r.Check(bad == nil, rule, name, "window-orientation:descending", c.line(g, bad), "(window.end, window.start) = Window(t) only on a path that established opt.Ascending == false")
			}
		}

		// ---- Close
		if cf := c.r.Need(c.p, qP, rc.typ+".Close"); cf != nil {
			in := cf.Inline(nil)
			cg := in.G
			csend := sendOn(cg)
			closeN := cg.X1CallingWith(core.Builtin("close"), func(cl *ast.CallExpr) bool { return len(cl.Args) == 1 && c.path(ch)(ast.Unparen(cl.Args[0])) })
			c.r.Check(len(cg.Select(csend)) >= 1 && len(cg.Select(closeN)) >= 1, rule, cf.String(), "send/close:absent", cf.Pos(), "Close flushes and closes the channel")
			bad := cg.N1ReachableWithout(csend, nil, c.boolEdge(c.path(prev, pNil), false))
			c.r.Check(bad == nil, rule, cf.String(), "flush-without-points", c.line(cg, bad), "the last window is sent only on a path that established prev.Nil == false")
			c.r.Check(len(cg.N1ExitsWithout(closeN, nil)) == 0, rule, cf.String(), "channel-not-closed", cf.Pos(), "close(ch) on every path")
			bad = cg.N1Between(cg.Select(closeN), nil, csend)
			c.r.Check(bad == nil, rule, cf.String(), "send-after-close", c.line(cg, bad), "no send after close(ch)")
			checkSent(cg, cf, in.Roots)
		}
		// ---- Emit: non-blocking receive
		nSel, nDef := 0, 0
		for _, root := range rc.ine.Roots {
			ast.Inspect(root, func(x ast.Node) bool {
				if ss, ok := x.(*ast.SelectStmt); ok {
					nSel++
					for _, cl := range ss.Body.List {
						if cl.(*ast.CommClause).Comm == nil {
							nDef++
						}
					}
				}
				return true
			})
		}
		c.r.Check(nSel >= 1 && nSel == nDef, rule, rc.em.String(), "blocking-receive", rc.em.Pos(), "Emit polls the channel with a default case (it is called after every point, usually with nothing to emit)")
		// the received point is emitted exactly when the receive succeeded
		ge := rc.ge
		var okObj types.Object
		recv := func(nd *core.Node) bool {
			as, ok := nd.N.(*ast.AssignStmt)
			if !ok || len(as.Lhs) != 2 || len(as.Rhs) != 1 {
				return false
			}
			u, ok := ast.Unparen(as.Rhs[0]).(*ast.UnaryExpr)
			return ok && u.Op == token.ARROW && core.N1Path(info, ch)(ast.Unparen(u.X))
		}
		recvs := ge.Select(recv)
		if c.r.Check(len(recvs) == 1, rule, rc.em.String(), "receive:not-exactly-one", rc.em.Pos(), "pt, ok := <-ch present") {
			okObj = core.ObjOf(info, recvs[0].N.(*ast.AssignStmt).Lhs[1])
			isOk := func(e ast.Expr) bool { return okObj != nil && core.ObjOf(info, ast.Unparen(e)) == okObj }
			sites := rc.emitSites(ge)
			bad := ge.N1ReachableWithout(sites, nil, c.boolEdge(isOk, true))
			c.r.Check(bad == nil && len(ge.Select(sites)) >= 1, rule, rc.em.String(), "emission-from-closed-channel", c.line(ge, bad), "a point is built only on a path that established ok == true")
			var okTargets []*core.Node
			okTrue := c.boolEdge(isOk, true)
			for _, nd := range ge.Nodes {
				for _, ed := range nd.Succ {
					if okTrue(ed) {
						okTargets = append(okTargets, ed.To)
					}
				}
			}
			lost := core.X1ExitsIn(ge.Reach(okTargets, sites, c.boolEdge(isOk, false)))
			var l *core.Node
			for _, x := range lost {
				if !sites(x) {
					l = x
					break
				}
			}
			c.r.Check(l == nil, rule, rc.em.String(), "received-point-dropped", c.line(ge, l), "after a successful receive every path emits the point")
		}
	}
	c.r.Check(n >= 3, rule, qP, "reducers:fewer-than-confirmed", "", fmt.Sprintf("%d integral reducers examined", n))
}

// ---------------------------------------------------------------- (12) dispatch

// c23Builders: transformation name -> builder, reducer family, iterator kind.
var c23Builders = []struct {
	names   []string
	builder string
	family  string // reducer family (New<K><family>Reducer) or slice function suffix
	slice   bool   // family is a <K><family>ReduceSlice function handed to a slice reducer
	stream  bool
	kinds   []string
}{
	{[]string{"derivative", "non_negative_derivative"}, "newDerivativeIterator", "Derivative", false, true, c23Num},
	{[]string{"difference", "non_negative_difference"}, "newDifferenceIterator", "Difference", false, true, c23Num},
	{[]string{"elapsed"}, "newElapsedIterator", "Elapsed", false, true, c23All},
	{[]string{"moving_average"}, "newMovingAverageIterator", "MovingAverage", false, true, c23Num},
	{[]string{"cumulative_sum"}, "newCumulativeSumIterator", "CumulativeSum", false, true, c23Num},
	{[]string{"integral"}, "newIntegralIterator", "Integral", false, true, c23Num},
	{[]string{"top"}, "newTopIterator", "Top", false, false, c23Num},
	{[]string{"bottom"}, "newBottomIterator", "Bottom", false, false, c23Num},
	{[]string{"distinct"}, "NewDistinctIterator", "Distinct", false, false, c23All},
	{[]string{"spread"}, "newSpreadIterator", "Spread", false, false, c23Num},
	{[]string{"median"}, "newMedianIterator", "Median", true, false, c23Num},
	{[]string{"mode"}, "NewModeIterator", "Mode", true, false, c23All},
	{[]string{"stddev"}, "newStddevIterator", "Stddev", true, false, c23Num},
	{[]string{"percentile"}, "newPercentileIterator", "Percentile", false, false, c23Num},
}

func (c *c23) callNameField() *types.Var {
	for _, imp := range c.pk.Imports() {
		if imp.Path() == "github.com/influxdata/influxql" {
			return core.LookupField(imp, "Call", "Name")
		}
	}
	return nil
}

func (c *c23) dispatch() {
	const rule = "dispatch"
	info := c.info
	nameF := c.callNameField()
	if !c.r.Check(nameF != nil, "anchor", "influxql.Call.Name", "unresolved", "", "field resolved") {
		return
	}
	tagIn := func(body ast.Node) func(ast.Expr) bool {
		return func(e ast.Expr) bool {
			return core.FieldOf(info, core.ResolveLocal(info, body, e)) == nameF
		}
	}
	compileExpr := c.r.Need(c.p, qP, "compiledField.compileExpr")
	compileFn := c.r.Need(c.p, qP, "compiledField.compileFunction")
	build := c.r.Need(c.p, qP, "exprIteratorBuilder.buildCallIterator")
	newCall := c.r.Need(c.p, qP, "NewCallIterator")
	if compileExpr == nil || compileFn == nil || build == nil || newCall == nil {
		return
	}
	// ---- (a) accepted ⊆ handled
	acc1, n1 := core.N1StringCases(info, compileExpr.Decl.Body, tagIn(compileExpr.Decl.Body))
	acc2, n2 := core.N1StringCases(info, compileFn.Decl.Body, tagIn(compileFn.Decl.Body))
	handled, n3 := core.N1StringCases(info, build.Decl.Body, tagIn(build.Decl.Body))
	stor, n4 := core.N1StringCases(info, newCall.Decl.Body, tagIn(newCall.Decl.Body))
	c.r.Check(n1 >= 1 && n2 >= 1 && n3 >= 3 && n4 >= 1, rule, qP, "name-switches:absent", "", fmt.Sprintf("switches on Call.Name: compileExpr %d, compileFunction %d, buildCallIterator %d, NewCallIterator %d", n1, n2, n3, n4))
	accepted := map[string]bool{}
	for k := range acc1 {
		accepted[k] = true
	}
	for k := range acc2 {
		accepted[k] = true
	}
	c.r.Check(len(accepted) >= 30 && len(handled) >= 30, rule, qP, "name-tables:too-small", "", fmt.Sprintf("%d accepted names, %d handled names", len(accepted), len(handled)))
	var missing []string
	for k := range accepted {
		if !handled[k] {
			missing = append(missing, k)
		}
	}
	sort.Strings(missing)
	c.r.Check(len(missing) == 0, rule, build.String(), "accepted-but-not-built:"+strings.Join(missing, ","), build.Pos(),
		"every function name the compiler accepts has a case in buildCallIterator")
	// names handed to the storage call iterator must be known there
	routed := map[string]bool{}
	for _, g := range build.Graphs() {
		isTag := tagIn(build.Decl.Body)
		toCall := g.Calling(call(qP + ".exprIteratorBuilder.callIterator"))
		for name := range handled {
			e := core.N1TagEdge(info, isTag, name)
			for _, nd := range g.Nodes {
				for _, ed := range nd.Succ {
					if !e(ed) {
						continue
					}
					// does this case reach callIterator directly (before another name test)?
					reach := g.Reach([]*core.Node{ed.To}, nil, func(x *core.Edge) bool { return x.Tag != nil && x.Branch && isTag(ast.Unparen(x.Tag)) })
					for x := range reach {
						if toCall(x) {
							routed[name] = true
						}
					}
				}
			}
		}
	}
	delete(routed, "top")
	delete(routed, "bottom") // they call callIterator with a synthetic max/min call
	var unknown []string
	for k := range routed {
		if !stor[k] {
			unknown = append(unknown, k)
		}
	}
	sort.Strings(unknown)
	c.r.Check(len(routed) >= 8, rule, build.String(), "routed-names:absent", build.Pos(), fmt.Sprintf("%d names are routed to the storage call iterator", len(routed)))
	c.r.Check(len(unknown) == 0, rule, newCall.String(), "routed-but-unknown:"+strings.Join(unknown, ","), newCall.Pos(), "every name routed to callIterator has a case in NewCallIterator")

	// ---- (b) name -> builder
	isTag := tagIn(build.Decl.Body)
	graphs := build.Graphs()
	for _, b := range c23Builders {
		bm := call(qP + "." + b.builder)
		for _, name := range b.names {
			c.r.Check(handled[name], rule, build.String(), name+":no-case", build.Pos(), "case \""+name+"\" present")
			infeasible := func(e *core.Edge) bool {
				if e.Tag == nil || !isTag(ast.Unparen(e.Tag)) {
					return false
				}
				v := core.ConstVal(info, e.Cond)
				if v == nil || v.Kind() != constant.String {
					return false
				}
				return (constant.StringVal(v) == name) != e.Branch
			}
			var bad *core.Node
			var bg *core.Graph
			nReached := 0
			for _, g := range graphs {
				reach := g.ReachFromEntry(g.Calling(bm), infeasible)
				for _, x := range g.SuccessExits() {
					if reach[x] && bad == nil {
						bad, bg = x, g
					}
				}
				nReached += len(g.Select(g.Calling(bm)))
			}
			c.r.Check(bad == nil, rule, build.String(), name+":wrong-builder", c.line(bg, bad), "with Call.Name == \""+name+"\" every successful path goes through "+b.builder)
			c.r.Check(nReached >= 1, rule, build.String(), name+":builder-call-absent", build.Pos(), b.builder+" is called")
		}
	}

	// ---- (c) the non-negative flag
	for _, b := range c23Builders[:2] {
		bf := c.r.Need(c.p, qP, b.builder)
		if bf == nil {
			continue
		}
		// position of the flag among the builder's parameters: the argument that reaches the reducer's isNonNegative field
		flagIdx, nCtor := -1, 0
		for _, k := range b.kinds {
			typ := k + b.family + "Reducer"
			ctor := c.r.Need(c.p, qP, "New"+typ)
			fv := core.LookupField(c.pk, typ, "isNonNegative")
			if ctor == nil || !c.r.Check(fv != nil, "anchor", qP+"."+typ+".isNonNegative", "unresolved", "", "field resolved") {
				continue
			}
			ci := -1
			ast.Inspect(ctor.Decl.Body, func(x ast.Node) bool {
				if cl, ok := x.(*ast.CompositeLit); ok {
					if v := core.N1KeyValue(info, cl, fv); v != nil {
						for i := 0; ctor.X1Param(i) != nil; i++ {
							if core.ObjOf(info, ast.Unparen(v)) == types.Object(ctor.X1Param(i)) {
								ci = i
							}
						}
					}
				}
				return true
			})
			if !c.r.Check(ci >= 0, rule, ctor.String(), "flag-not-stored", ctor.Pos(), "the constructor stores one of its parameters into isNonNegative") {
				continue
			}
			for _, cl := range core.AllCalls(info, bf.Decl.Body, call(qP+".New"+typ)) {
				nCtor++
				if ci >= len(cl.Args) {
					continue
				}
				for i := 0; bf.X1Param(i) != nil; i++ {
					if core.ObjOf(info, ast.Unparen(cl.Args[ci])) == types.Object(bf.X1Param(i)) {
						if flagIdx == -1 || flagIdx == i {
							flagIdx = i
						} else {
							flagIdx = -2
						}
					}
				}
			}
		}
		if !c.r.Check(nCtor >= 3 && flagIdx >= 0, rule, bf.String(), "flag-not-forwarded", bf.Pos(), fmt.Sprintf("%d constructors receive the builder's flag parameter (index %d) as isNonNegative", nCtor, flagIdx)) {
			continue
		}
		nn := b.names[1]
		nCall := 0
		for _, cl := range core.AllCalls(info, build.Decl.Body, call(qP+"."+b.builder)) {
			nCall++
			ok := false
			if flagIdx < len(cl.Args) {
				if be, isBin := core.ResolveLocal(info, build.Decl.Body, cl.Args[flagIdx]).(*ast.BinaryExpr); isBin && be.Op == token.EQL {
					x, y := ast.Unparen(be.X), ast.Unparen(be.Y)
					if core.FieldOf(info, x) != nameF {
						x, y = y, x
					}
					v := core.ConstVal(info, y)
					ok = core.FieldOf(info, x) == nameF && v != nil && v.Kind() == constant.String && constant.StringVal(v) == nn
				}
			}
			c.r.Check(ok, rule, build.String(), b.builder+":flag-is-not-name==\""+nn+"\"", c.p.Pos(cl.Pos()), "the non-negative flag is Call.Name == \""+nn+"\"")
		}
		c.r.Check(nCall >= 1, rule, build.String(), b.builder+":call-absent", build.Pos(), "builder called")
	}

	// ---- (d) builder -> reducer family and iterator kind
	for _, b := range c23Builders {
		bf := c.r.Need(c.p, qP, b.builder)
		if bf == nil {
			continue
		}
		want := map[string]bool{}
		for _, k := range b.kinds {
			switch {
			case b.family == "Percentile":
				want[qP+".New"+k+"PercentileReduceSliceFunc"] = false
			case b.slice:
				want[qP+"."+k+b.family+"ReduceSlice"] = false
			default:
				want[qP+".New"+k+b.family+"Reducer"] = false
			}
		}
		// every reducer constructor / slice function mentioned in the builder belongs to the family
		var foreign []string
		ast.Inspect(bf.Decl.Body, func(x ast.Node) bool {
			id, ok := x.(*ast.Ident)
			if !ok {
				return true
			}
			fn, ok := info.Uses[id].(*types.Func)
			if !ok || fn.Pkg() != c.pk {
				return true
			}
			nm := core.FName(fn)
			if _, ok := want[nm]; ok {
				want[nm] = true
				return true
			}
			short := fn.Name()
			isCtor := strings.HasPrefix(short, "New") && strings.HasSuffix(short, "Reducer") && !strings.Contains(short, "SliceFunc")
			isSlice := strings.HasSuffix(short, "ReduceSlice") || strings.HasSuffix(short, "ReduceSliceFunc")
			if isCtor || isSlice {
				foreign = append(foreign, short)
			}
			return true
		})
		var absent []string
		for k, seen := range want {
			if !seen {
				absent = append(absent, strings.TrimPrefix(k, qP+"."))
			}
		}
		sort.Strings(absent)
		sort.Strings(foreign)
		c.r.Check(len(absent) == 0, rule, bf.String(), "family-member-absent:"+strings.Join(absent, ","), bf.Pos(), fmt.Sprintf("all %d %s reducers are constructed", len(want), b.family))
		c.r.Check(len(foreign) == 0, rule, bf.String(), "foreign-reducer:"+strings.Join(foreign, ","), bf.Pos(), "only "+b.family+" reducers are constructed")
		// iterator kind
		nWrap := 0
		for _, cl := range core.AllCalls(info, bf.Decl.Body, call(qP+".new*Iterator")) {
			fn := core.Callee(info, cl)
			if fn == nil {
				continue
			}
			isStream := strings.Contains(fn.Name(), "Stream")
			isReduce := strings.Contains(fn.Name(), "Reduce")
			if !isStream && !isReduce {
				continue
			}
			nWrap++
			c.r.Check(isStream == b.stream, rule, bf.String(), "iterator-kind:"+fn.Name(), c.p.Pos(cl.Pos()),
				map[bool]string{true: "a per-point function is wrapped in a stream iterator (emits after every point)", false: "a per-window function is wrapped in a reduce iterator (emits once per window)"}[b.stream])
		}
		c.r.Check(nWrap >= len(b.kinds), rule, bf.String(), "iterator-wrapper:absent", bf.Pos(), fmt.Sprintf("%d reduce/stream iterators constructed", nWrap))
	}
}
