package rules

import (
	"fmt"
	"go/ast"
	"go/token"
	"go/types"
	"sort"
	"strings"

	"verif/checker/core"
)

func init() {
	register(&Prop{
		ID:       "C12",
		Patterns: []string{"./models", "./pkg/escape", "./http/points"},
		Level:    "other",
		Explanation: "Necessary conditions for a total and exact line-protocol parser, decided on the CFGs of the anchored functions and the static call graph of the module: " +
			"(1) line-accounting (ParsePointsWithPrecision): inside the line loop every path from the parsePoint call back to the loop head passes exactly one of append(points, pt) / append(failed, …); the first only on the err==nil edge, the second only on the err!=nil edge; an iteration skips parsePoint only through the three tests empty block, all-whitespace (start >= len(block)) and comment byte; parsePoint receives block[start:]; the function returns a non-nil error built from `failed` exactly when len(failed) > 0 and returns `points` on both exits; each failed entry mentions the line and the error. " +
			"(2) parse-guards (parsePoint): every success exit is reached only through the success edges of scanKey, scanFields, walkFields and scanTime, the edges len(key)!=0, len(key)<=MaxKeyLength, len(fields)!=0 and maxKeyErr==nil, and either len(ts)==0 (default time) or the success edges of parseIntBytes and SafeCalcTime; the walkFields callback returns true only where seriesKeySize(key,k) <= MaxKeyLength and assigns maxKeyErr otherwise; walkFields calls the callback in every iteration; the returned point is built from the scanned key/fields/ts; SafeCalcTime succeeds only after safeSignedMult reported ok and returns CheckTime's verdict; pointKey (NewPoint) passes the fields-present, CheckTime (unless zero time), non-empty-field-name and seriesKeySize guards; the http points parser reaches success only on the err==nil edge of the parse call, fails the whole request when a line was rejected and carries the parse error in the returned error. " +
			"(3) no-panic: no explicit panic (builtin panic, log.Panic*, zap Panic) is reachable in the static call graph from ParsePoints, ParsePointsString, ParsePointsWithPrecision, ParseKey, ParseKeyBytes, ParseKeyBytesWithTags, ParseTags, ParseTagsWithTags, ParseName, NewPoint, NewPointFromBytes through functions of the module (interface calls resolved to every implementing method of the loaded module packages, function values referenced in reachable code treated as called); the traversal is checked to find the panic of MustNewPoint when started there. " +
			"(4) loop-progress: in every `for` loop of every module function reachable from those entry points, each cycle through the loop head writes at least one of the loop-variant variables that the loop's termination tests read (the loop condition, or for `for {}` the conditions on edges leaving the loop); range loops advance by construction. Two loops are decided through a named, separately checked argument instead: the state-machine loop of scanTags (the path on which no case of `switch state` matches is removed after checking that state is only assigned case constants or the state result of scanTagsValue, whose error is tested, and that scanTagsValue returns a state outside the case set only with a non-nil error) and `for iter.Next()` loops (point.Next is checked to set start=end and increment end before every `return true` and to return false only where start >= len(fields)).",
		NotCovered: "index-out-of-range and nil-dereference panics (run-time panics are not explicit calls), panics inside the standard library; that the written variable actually moves towards the exit condition (direction and magnitude of the step); uniqueness of tag keys beyond the presence of the duplicate check; exact byte-level grammar.",
		Assumptions: []string{
			"standard-library functions (strconv, bytes, fmt, time) do not panic on the values passed and terminate",
			"conditions inside the scanner loops are pure reads of locals and of the immutable input buffer",
		},
		Run: runC12,
	})
}

var c12Entries = []string{"ParsePoints", "ParsePointsString", "ParsePointsWithPrecision", "ParseKey", "ParseKeyBytes", "ParseKeyBytesWithTags",
	"ParseTags", "ParseTagsWithTags", "ParseName", "NewPoint", "NewPointFromBytes"}

func runC12(p *core.Prog, r *core.Report, tier string) {
	c12LineAccounting(p, r)
	c12ParseGuards(p, r)
	c12PointKey(p, r)
	c12HTTP(p, r)
	reach := c12NoPanic(p, r)
	c12LoopProgress(p, r, reach)
}

// resultVar returns the variable that receives result idx of the (single) call of class m in f.
func c12ResultVar(f *core.Func, m core.Matcher, idx int) (types.Object, *ast.CallExpr, ast.Stmt) {
	info := f.Info()
	var obj types.Object
	var callX *ast.CallExpr
	var stmt ast.Stmt
	ast.Inspect(f.Decl.Body, func(n ast.Node) bool {
		as, ok := n.(*ast.AssignStmt)
		if !ok || len(as.Rhs) != 1 || idx >= len(as.Lhs) {
			return true
		}
		c, ok := ast.Unparen(as.Rhs[0]).(*ast.CallExpr)
		if !ok || !m(info, c) {
			return true
		}
		if id, ok := as.Lhs[idx].(*ast.Ident); ok && id.Name != "_" {
			if o := info.Defs[id]; o != nil {
				obj = o
			} else {
				obj = info.Uses[id]
			}
			callX, stmt = c, as
		}
		return true
	})
	return obj, callX, stmt
}

func c12SuccessBypass(g *core.Graph, gate core.EdgePred) []*core.Node {
	reach := g.ReachFromEntry(nil, gate)
	var bad []*core.Node
	for _, x := range g.SuccessExits() {
		if reach[x] {
			bad = append(bad, x)
		}
	}
	return bad
}

func c12Lines(g *core.Graph, ns []*core.Node) string {
	var s []string
	for _, n := range ns {
		s = append(s, g.Line(n))
	}
	return strings.Join(s, ", ")
}

// ---------------------------------------------------------------- (1) line accounting

func c12LineAccounting(p *core.Prog, r *core.Report) {
	const rule = "line-accounting"
	f := r.Need(p, pkgModels9, "ParsePointsWithPrecision")
	if f == nil {
		return
	}
	cons := "models.ParsePointsWithPrecision"
	info := f.Info()
	g := f.Graph()
	parse := call("models.parsePoint")
	pt, parseCall, parseStmt := c12ResultVar(f, parse, 0)
	perr, _, _ := c12ResultVar(f, parse, 1)
	block, _, _ := c12ResultVar(f, call("models.scanLine"), 1)
	start, _, _ := c12ResultVar(f, call("models.skipWhitespace"), 0)
	if !r.Check(pt != nil && perr != nil && block != nil && start != nil && parseCall != nil, rule, cons, "anchors:absent", f.Pos(), "the parsePoint, scanLine and skipWhitespace results are bound to variables") {
		return
	}
	parseNode := g.NodeOf(parseStmt)
	// the line loop
	var loop *ast.ForStmt
	ast.Inspect(f.Decl.Body, func(n ast.Node) bool {
		if fs, ok := n.(*ast.ForStmt); ok && fs.Pos() <= parseStmt.Pos() && parseStmt.End() <= fs.End() && loop == nil {
			loop = fs
		}
		return true
	})
	if !r.Check(loop != nil && parseNode != nil, rule, cons, "line-loop:absent", f.Pos(), "parsePoint is called inside the line loop") {
		return
	}
	var lp *core.Loop9
	for _, l := range g.Loops9() {
		if l.Stmt == loop {
			lp = l
		}
	}
	if !r.Check(lp != nil, rule, cons, "line-loop:absent", f.Pos(), "loop analysed") {
		return
	}
	head := lp.Head
	// parsePoint gets block[start:]
	okArg := false
	if len(parseCall.Args) >= 1 {
		if se, ok := ast.Unparen(parseCall.Args[0]).(*ast.SliceExpr); ok && core.ObjOf(info, se.X) == block && se.High == nil && se.Low != nil && core.ObjOf(info, se.Low) == start {
			okArg = true
		}
	}
	r.Check(okArg, rule, cons, "parse-argument", g.Line(parseNode), "parsePoint receives the line without its leading whitespace: block[start:]")
	// the two sinks
	var keep, fail []*core.Node
	var failedVar, pointsVar types.Object
	for n := range lp.Nodes {
		as, ok := n.N.(*ast.AssignStmt)
		if !ok || len(as.Lhs) != 1 || len(as.Rhs) != 1 {
			continue
		}
		c, ok := ast.Unparen(as.Rhs[0]).(*ast.CallExpr)
		if !ok || !core.Builtin("append")(info, c) || len(c.Args) != 2 {
			continue
		}
		acc := core.ObjOf(info, as.Lhs[0])
		if acc == nil || core.ObjOf(info, c.Args[0]) != acc {
			continue
		}
		switch {
		case core.ObjOf(info, c.Args[1]) == pt:
			keep = append(keep, n)
			pointsVar = acc
		case core.MentionsObj(info, c.Args[1], perr):
			fail = append(fail, n)
			failedVar = acc
			r.Check(core.MentionsObj(info, c.Args[1], block), rule, cons, "failed-entry-without-line", g.Line(n), "the failure record names the rejected line (block) and the error")
		}
	}
	if !r.Check(len(keep) == 1 && len(fail) == 1, rule, cons, "sinks", f.Pos(), fmt.Sprintf("one append(points, pt) and one append(failed, …err…) in the loop (found %d and %d)", len(keep), len(fail))) {
		any := func(n *core.Node) bool {
			for _, k := range append(append([]*core.Node{}, keep...), fail...) {
				if k == n {
					return true
				}
			}
			return !lp.Nodes[n]
		}
		if g.Reach(core.After(parseNode, nil), any, nil)[head] {
			r.Bad(rule, cons, "line-neither-kept-nor-reported", g.Line(parseNode), "after parsePoint a path returns to the loop head without appending the line to points or to failed")
		}
		return
	}
	inLoop := func(n *core.Node) bool { return !lp.Nodes[n] }
	_ = inLoop
	isSink := func(n *core.Node) bool { return n == keep[0] || n == fail[0] }
	// (a) at least one sink per parsed line
	reach := g.Reach(core.After(parseNode, nil), func(n *core.Node) bool { return isSink(n) || !lp.Nodes[n] }, nil)
	r.Check(!reach[head], rule, cons, "line-neither-kept-nor-reported", g.Line(parseNode), "after parsePoint every path back to the loop head appends to points or to failed")
	// and no path leaves the loop from the parse call without a sink (return/break before accounting)
	leaves := false
	for n := range reach {
		for _, e := range n.Succ {
			if !lp.Nodes[e.To] && !isSink(e.To) {
				leaves = true
			}
		}
	}
	r.Check(!leaves, rule, cons, "loop-left-before-accounting", g.Line(parseNode), "no path leaves the loop between parsePoint and the accounting of its result")
	// (b) at most one
	r1 := g.Reach(core.After(keep[0], nil), func(n *core.Node) bool { return n == head }, nil)
	r2 := g.Reach(core.After(fail[0], nil), func(n *core.Node) bool { return n == head }, nil)
	r.Check(!r1[fail[0]] && !r2[keep[0]] && !r1[keep[0]] && !r2[fail[0]], rule, cons, "line-counted-twice", g.Line(keep[0]), "a line is appended to exactly one of points / failed per iteration")
	// (c) the right sink on the right edge
	if fe, se, ok := g.ErrEdges(parseNode); r.Check(ok, rule, cons, "err-test:absent", g.Line(parseNode), "the parsePoint error is tested") {
		rf := g.Reach([]*core.Node{fe.To}, func(n *core.Node) bool { return n == head }, nil)
		rs := g.Reach([]*core.Node{se.To}, func(n *core.Node) bool { return n == head }, nil)
		r.Check(!rf[keep[0]], rule, cons, "failed-line-kept", g.Line(keep[0]), "a line whose parse failed is not appended to points")
		r.Check(!rs[fail[0]], rule, cons, "parsed-line-reported", g.Line(fail[0]), "a line that parsed is not appended to failed")
	}
	// (d) skips: only blank / whitespace / comment
	isBlock := core.X1IsObj(info, block)
	isStart := core.X1IsObj(info, start)
	skipEmpty := core.X1LenZeroEdge(info, isBlock, true)
	skipWS := core.X1CmpEdge(isStart, core.X1IsLenOf(info, isBlock), core.X1GE)
	comment := func(e *core.Edge) bool {
		for _, ft := range core.X1EdgeFacts(e) {
			be, ok := ft.E.(*ast.BinaryExpr)
			if !ok || !ft.True || be.Op != token.EQL {
				continue
			}
			ix, ok := ast.Unparen(be.X).(*ast.IndexExpr)
			if !ok || core.ObjOf(info, ix.X) != block || core.ObjOf(info, ix.Index) != start {
				continue
			}
			if v, ok := core.Int9(info, be.Y); ok && v == '#' {
				return true
			}
		}
		return false
	}
	exempt := core.X1OrEdges(skipEmpty, skipWS, comment)
	nEx := 0
	for n := range lp.Nodes {
		for _, e := range n.Succ {
			if exempt(e) {
				nEx++
			}
		}
	}
	r.Check(nEx == 3, rule, cons, "skip-tests", f.Pos(), fmt.Sprintf("%d skip tests found (3 confirmed: empty block, only whitespace, comment)", nEx))
	var starts []*core.Node
	for _, e := range head.Succ {
		if lp.Nodes[e.To] && !exempt(e) {
			starts = append(starts, e.To)
		}
	}
	rsk := g.Reach(starts, func(n *core.Node) bool { return n == parseNode || !lp.Nodes[n] }, exempt)
	// head is in lp.Nodes; reaching it again without parse and without an exempt edge is an unlisted skip
	r.Check(!rsk[head], rule, cons, "unlisted-skip", f.Pos(), "an iteration reaches the next one without calling parsePoint only through the empty / whitespace / comment tests")
	// the comment/blank tests look at the start of the line only: block[start], start := skipWhitespace(block, 0)
	if _, swCall, _ := c12ResultVar(f, call("models.skipWhitespace"), 0); swCall != nil && len(swCall.Args) == 2 {
		z, ok := core.Int9(info, swCall.Args[1])
		r.Check(core.ObjOf(info, swCall.Args[0]) == block && ok && z == 0, rule, cons, "skipWhitespace-argument", f.Pos(), "leading whitespace is skipped from the start of the line: skipWhitespace(block, 0)")
	}
	// (e) exits
	if r.Check(failedVar != nil && pointsVar != nil, rule, cons, "accumulators:absent", f.Pos(), "accumulators resolved") {
		isFailed := core.X1IsObj(info, failedVar)
		bad := c12SuccessBypass(g, core.X1LenZeroEdge(info, isFailed, true))
		r.Check(len(bad) == 0, rule, cons, "success-with-failed-lines", f.Pos(), "nil error is returned only where len(failed) == 0 "+c12Lines(g, bad))
		succ := map[*core.Node]bool{}
		for _, x := range g.SuccessExits() {
			succ[x] = true
		}
		nFail := 0
		for _, x := range g.Exits {
			rs, ok := x.N.(*ast.ReturnStmt)
			if !ok || len(rs.Results) != 2 {
				r.Bad(rule, cons, "exit-shape", g.Line(x), "exit is not `return points, err`")
				continue
			}
			r.Check(core.ObjOf(info, rs.Results[0]) == pointsVar, rule, cons, "points-not-returned", g.Line(x), "the parsed points are returned on this exit")
			if !succ[x] {
				nFail++
				r.Check(core.MentionsObj(info, rs.Results[1], failedVar), rule, cons, "error-not-from-failed", g.Line(x), "the returned error is built from the failed-line records")
				// the failing return is reached only where len(failed) > 0
				gate := core.X1LenZeroEdge(info, isFailed, false)
				rr := g.ReachFromEntry(nil, gate)
				r.Check(!rr[x], rule, cons, "error-without-failed-lines", g.Line(x), "an error is returned only where len(failed) > 0")
			}
		}
		r.Check(nFail >= 1, rule, cons, "failing-exit:absent", f.Pos(), "the function has a failing exit")
	}
	for _, fn := range []string{"ParsePoints", "ParsePointsString"} {
		if f := r.Need(p, pkgModels9, fn); f != nil {
			core.RuleHasCall(r, f, rule, "ParsePoints*", call("models.ParsePointsWithPrecision", "models.ParsePoints"))
		}
	}
}

// ---------------------------------------------------------------- (2) parsePoint guards

func c12ParseGuards(p *core.Prog, r *core.Report) {
	const rule = "parse-guards"
	f := r.Need(p, pkgModels9, "parsePoint")
	if f == nil {
		return
	}
	cons := "models.parsePoint"
	info := f.Info()
	g := f.Graph()
	key, _, keyStmt := c12ResultVar(f, call("models.scanKey"), 1)
	fields, _, fieldsStmt := c12ResultVar(f, call("models.scanFields"), 1)
	ts, _, tsStmt := c12ResultVar(f, call("models.scanTime"), 1)
	if !r.Check(key != nil && fields != nil && ts != nil, rule, cons, "anchors:absent", f.Pos(), "scanKey, scanFields, scanTime results are bound to variables") {
		return
	}
	nSucc := len(g.SuccessExits())
	r.Check(nSucc >= 1, rule, cons, "success-exit:absent", f.Pos(), fmt.Sprintf("%d success exit(s)", nSucc))
	via := func(what string, gate core.EdgePred, detail string) {
		n := 0
		for _, nd := range g.Nodes {
			for _, e := range nd.Succ {
				if gate(e) {
					n++
				}
			}
		}
		if !r.Check(n >= 1, rule, cons, what+":absent", f.Pos(), "guard edge exists: "+detail) {
			return
		}
		bad := c12SuccessBypass(g, gate)
		r.Check(len(bad) == 0, rule, cons, what, f.Pos(), detail+" "+c12Lines(g, bad))
	}
	isKey, isFields, isTs := core.X1IsObj(info, key), core.X1IsObj(info, fields), core.X1IsObj(info, ts)
	maxC, _ := p.Pkg(pkgModels9).Types.Scope().Lookup("MaxKeyLength").(*types.Const)
	r.Check(maxC != nil, "anchor", "models.MaxKeyLength", "unresolved", "-", "MaxKeyLength resolved")
	isMax := func(e ast.Expr) bool { return maxC != nil && core.ConstOf(info, e) == maxC }
	via("empty-key", core.X1LenZeroEdge(info, isKey, false), "a point is returned only where len(key) != 0 (measurement present)")
	via("key-length", core.X1CmpEdge(core.X1IsLenOf(info, isKey), isMax, core.X1LE), "a point is returned only where len(key) <= MaxKeyLength")
	via("no-fields", core.X1LenZeroEdge(info, isFields, false), "a point is returned only where len(fields) != 0")
	// success edges of the scanners
	for _, sc := range []struct {
		name string
		stmt ast.Stmt
	}{{"scanKey", keyStmt}, {"scanFields", fieldsStmt}, {"scanTime", tsStmt}} {
		nd := g.NodeOf(sc.stmt)
		if nd == nil {
			r.Bad(rule, cons, sc.name+":absent", f.Pos(), "call node not found")
			continue
		}
		_, se, ok := g.ErrEdges(nd)
		if !r.Check(ok, rule, cons, sc.name+"-error-untested", g.Line(nd), "the error of "+sc.name+" is tested right after the call") {
			continue
		}
		bad := c12SuccessBypass(g, func(e *core.Edge) bool { return e == se })
		r.Check(len(bad) == 0, rule, cons, sc.name+"-error-ignored", g.Line(nd), "a point is returned only where "+sc.name+" succeeded "+c12Lines(g, bad))
	}
	// series key size via walkFields
	var wfStmt *ast.AssignStmt
	var lit *ast.FuncLit
	ast.Inspect(f.Decl.Body, func(n ast.Node) bool {
		as, ok := n.(*ast.AssignStmt)
		if !ok || len(as.Rhs) != 1 {
			return true
		}
		c, ok := ast.Unparen(as.Rhs[0]).(*ast.CallExpr)
		if ok && core.FName(core.Callee(info, c)) == "models.walkFields" && len(c.Args) == 2 {
			if l, isLit := ast.Unparen(c.Args[1]).(*ast.FuncLit); isLit && core.ObjOf(info, c.Args[0]) == fields {
				wfStmt, lit = as, l
			}
		}
		return true
	})
	if r.Check(wfStmt != nil, rule, cons, "walkFields:absent", f.Pos(), "walkFields(fields, func…) is called on the scanned fields") {
		nd := g.NodeOf(wfStmt)
		if _, se, ok := g.ErrEdges(nd); r.Check(ok, rule, cons, "walkFields-error-untested", g.Line(nd), "the error of walkFields is tested") {
			bad := c12SuccessBypass(g, func(e *core.Edge) bool { return e == se })
			r.Check(len(bad) == 0, rule, cons, "walkFields-error-ignored", g.Line(nd), "a point is returned only where walkFields succeeded")
		}
		// the callback
		lg := f.LitGraph(lit)
		var k types.Object
		if len(lit.Type.Params.List) > 0 && len(lit.Type.Params.List[0].Names) > 0 {
			k = info.Defs[lit.Type.Params.List[0].Names[0]]
		}
		// sz := seriesKeySize(key, k)
		var sz types.Object
		okArgs := false
		ast.Inspect(lit.Body, func(n ast.Node) bool {
			as, ok := n.(*ast.AssignStmt)
			if !ok || len(as.Lhs) != 1 || len(as.Rhs) != 1 {
				return true
			}
			c, ok := ast.Unparen(as.Rhs[0]).(*ast.CallExpr)
			if ok && core.FName(core.Callee(info, c)) == "models.seriesKeySize" && len(c.Args) == 2 {
				sz = core.ObjOf(info, as.Lhs[0])
				if id, isId := as.Lhs[0].(*ast.Ident); isId && info.Defs[id] != nil {
					sz = info.Defs[id]
				}
				okArgs = core.ObjOf(info, c.Args[0]) == key && k != nil && core.ObjOf(info, c.Args[1]) == k
			}
			return true
		})
		if r.Check(sz != nil && okArgs, rule, cons, "seriesKeySize:absent", p.Pos(lit.Pos()), "the callback computes seriesKeySize(key, k) of the scanned key and the field key it is handed") {
			isSz := core.X1IsObj(info, sz)
			within := core.X1CmpEdge(isSz, isMax, core.X1LE)
			over := core.X1CmpEdge(isSz, isMax, core.X1GT)
			// `return true` only where sz <= MaxKeyLength
			reach := lg.ReachFromEntry(nil, within)
			okTrue, nTrue := true, 0
			for _, x := range lg.Exits {
				rs, isRet := x.N.(*ast.ReturnStmt)
				if !isRet || len(rs.Results) != 1 {
					continue
				}
				if b, isC := core.ConstBool(info, rs.Results[0]); isC && b {
					nTrue++
					if reach[x] {
						okTrue = false
					}
				}
			}
			r.Check(okTrue && nTrue >= 1, rule, cons, "series-key-size", p.Pos(lit.Pos()), "the callback lets the walk continue only where seriesKeySize(key,k) <= MaxKeyLength")
			// on the over edge maxKeyErr is assigned before the callback returns
			var mk types.Object
			var overTo []*core.Node
			for _, nd := range lg.Nodes {
				for _, e := range nd.Succ {
					if over(e) {
						overTo = append(overTo, e.To)
					}
				}
			}
			ast.Inspect(lit.Body, func(n ast.Node) bool {
				as, ok := n.(*ast.AssignStmt)
				if ok && as.Tok == token.ASSIGN && len(as.Lhs) == 1 {
					if o, isV := core.ObjOf(info, as.Lhs[0]).(*types.Var); isV && core.IsErrorType(o.Type()) {
						mk = o
					}
				}
				return true
			})
			if r.Check(mk != nil && len(overTo) > 0, rule, cons, "maxKeyErr:absent", p.Pos(lit.Pos()), "the callback records an error in a captured variable when the size is exceeded") {
				rr := lg.Reach(overTo, lg.AssigningObj(mk), nil)
				esc := false
				for _, x := range lg.Exits {
					if rr[x] {
						esc = true
					}
				}
				r.Check(!esc, rule, cons, "oversize-not-recorded", p.Pos(lit.Pos()), "every path from the size-exceeded edge assigns the error before returning")
				// the recorded value is a constructed error
				okVal := false
				for _, d := range core.DefsOf(info, lit.Body, mk) {
					if c, isCall := d.Rhs.(*ast.CallExpr); isCall && core.IsErrorType(info.TypeOf(c)) {
						okVal = true
					}
				}
				r.Check(okVal, rule, cons, "oversize-error-value", p.Pos(lit.Pos()), "the recorded error is a constructed (non-nil) error")
				via("series-key-size-unchecked", core.X1NilEdge(info, core.X1IsObj(info, mk), true), "a point is returned only where the recorded max-key error is nil")
			}
		}
	}
	// time
	sct := call("models.SafeCalcTime")
	pib := call("models.parseIntBytes")
	var sctNode, pibNode *core.Node
	for _, nd := range g.Nodes {
		if as, ok := nd.N.(*ast.AssignStmt); ok && len(as.Rhs) == 1 {
			if c, ok := ast.Unparen(as.Rhs[0]).(*ast.CallExpr); ok {
				if sct(info, c) {
					sctNode = nd
				}
				if pib(info, c) {
					pibNode = nd
				}
			}
		}
	}
	if r.Check(sctNode != nil && pibNode != nil, rule, cons, "time-conversion:absent", f.Pos(), "parseIntBytes and SafeCalcTime are called on the timestamp") {
		_, s1, ok1 := g.ErrEdges(pibNode)
		_, s2, ok2 := g.ErrEdges(sctNode)
		if r.Check(ok1 && ok2, rule, cons, "time-error-untested", g.Line(sctNode), "the errors of parseIntBytes and SafeCalcTime are tested") {
			noTs := core.X1LenZeroEdge(info, isTs, true)
			bad := c12SuccessBypass(g, core.X1OrEdges(noTs, func(e *core.Edge) bool { return e == s2 }))
			r.Check(len(bad) == 0, rule, cons, "time-unchecked", g.Line(sctNode), "a point is returned only with the default time (len(ts)==0) or where SafeCalcTime succeeded")
			bad = c12SuccessBypass(g, core.X1OrEdges(noTs, func(e *core.Edge) bool { return e == s1 }))
			r.Check(len(bad) == 0, rule, cons, "timestamp-parse-unchecked", g.Line(pibNode), "a point is returned only with the default time or where parseIntBytes succeeded")
		}
		// arguments: the scanned ts and the parsed integer
		if c, ok := ast.Unparen(pibNode.N.(*ast.AssignStmt).Rhs[0]).(*ast.CallExpr); ok && len(c.Args) >= 1 {
			r.Check(core.ObjOf(info, c.Args[0]) == ts, rule, cons, "parseIntBytes-argument", g.Line(pibNode), "the scanned timestamp bytes are parsed")
		}
		// pt.time receives the SafeCalcTime result
		as := sctNode.N.(*ast.AssignStmt)
		tfield := core.LookupField(p.Pkg(pkgModels9).Types, "point", "time")
		r.Check(tfield != nil && len(as.Lhs) == 2 && core.FieldOf(info, as.Lhs[0]) == tfield, rule, cons, "time-not-stored", g.Line(sctNode), "the checked time is stored in the point")
	}
	// the returned point is the one built from the scanned parts
	okLit := false
	ast.Inspect(f.Decl.Body, func(n ast.Node) bool {
		cl, ok := n.(*ast.CompositeLit)
		if !ok {
			return true
		}
		if nt := core.NamedOf(info.TypeOf(cl)); nt == nil || nt.Obj().Name() != "point" {
			return true
		}
		fl := core.StructLitFields9(info, cl)
		if core.ObjOf(info, fl["key"]) == key && core.ObjOf(info, fl["fields"]) == fields && core.ObjOf(info, fl["ts"]) == ts {
			okLit = true
		}
		return true
	})
	r.Check(okLit, rule, cons, "point-parts", f.Pos(), "the point is built from the scanned key, fields and ts")

	// walkFields hands every field to the callback
	if wf := r.Need(p, pkgModels9, "walkFields"); wf != nil {
		wg := wf.Graph()
		fn := wf.X1Param(1)
		isFn := func(i *types.Info, c *ast.CallExpr) bool {
			return fn != nil && core.ObjOf(i, c.Fun) == types.Object(fn)
		}
		loops := wg.Loops9()
		if r.Check(len(loops) == 1, rule, "models.walkFields", "loop:absent", wf.Pos(), "one field loop") {
			l := loops[0]
			calls := wg.Select(wg.Calling(isFn))
			reach := wg.Reach(core.After(l.Head, func(e *core.Edge) bool { return l.Nodes[e.To] }), func(n *core.Node) bool {
				if !l.Nodes[n] {
					return true
				}
				for _, c := range calls {
					if c == n {
						return true
					}
				}
				return false
			}, nil)
			r.Check(len(calls) >= 1 && !reach[l.Head], rule, "models.walkFields", "field-skipped", wf.Pos(), "every iteration of the field loop calls the callback before the next one")
		}
	}
	// SafeCalcTime
	if sf := r.Need(p, pkgModels9, "SafeCalcTime"); sf != nil {
		sg := sf.Graph()
		si := sf.Info()
		bad := c12SuccessBypass(sg, core.X4CallCond(si, call("models.safeSignedMult"), true))
		// `if t, ok := safeSignedMult(..); ok` — the condition is the variable ok
		okVar, _, _ := c12ResultVar(sf, call("models.safeSignedMult"), 1)
		if okVar != nil {
			bad = c12SuccessBypass(sg, core.X1BoolEdge(core.X1IsObj(si, okVar), true))
		}
		r.Check(len(bad) == 0 && len(sg.SuccessExits()) >= 1, rule, "models.SafeCalcTime", "overflow-unchecked", sf.Pos(), "a time is returned without error only where safeSignedMult reported no overflow")
		core.RuleMustPass(r, sf, rule, "CheckTime", call("models.CheckTime"), false)
		// the error returned next to the time IS CheckTime's result
		okRet := false
		for _, x := range sg.SuccessExits() {
			if rs, ok := x.N.(*ast.ReturnStmt); ok && len(rs.Results) == 2 {
				if c, ok := ast.Unparen(rs.Results[1]).(*ast.CallExpr); ok && core.FName(core.Callee(si, c)) == "models.CheckTime" {
					okRet = true
				} else {
					okRet = false
					break
				}
			}
		}
		r.Check(okRet, rule, "models.SafeCalcTime", "CheckTime-verdict-dropped", sf.Pos(), "the error returned with the time is CheckTime's verdict")
	}
}

// ---------------------------------------------------------------- pointKey (NewPoint)

func c12PointKey(p *core.Prog, r *core.Report) {
	const rule = "parse-guards"
	f := r.Need(p, pkgModels9, "pointKey")
	if f == nil {
		return
	}
	cons := "models.pointKey"
	info := f.Info()
	g := f.Graph()
	fieldsP := f.X1Param(2)
	tP := f.X1Param(3)
	maxC, _ := p.Pkg(pkgModels9).Types.Scope().Lookup("MaxKeyLength").(*types.Const)
	isMax := func(e ast.Expr) bool { return maxC != nil && core.ConstOf(info, e) == maxC }
	bad := c12SuccessBypass(g, core.X1LenZeroEdge(info, core.X1IsObj(info, fieldsP), false))
	r.Check(len(bad) == 0, rule, cons, "no-fields", f.Pos(), "a key is returned only where len(fields) != 0")
	// CheckTime unless t.IsZero()
	ct := g.Select(g.Calling(call("models.CheckTime")))
	if r.Check(len(ct) == 1, rule, cons, "CheckTime:absent", f.Pos(), "CheckTime is called") {
		zero := core.X4CallCond(info, call("time.Time.IsZero"), true)
		isCT := func(n *core.Node) bool { return n == ct[0] }
		reach := g.ReachFromEntry(isCT, zero)
		esc := false
		for _, x := range g.SuccessExits() {
			if reach[x] {
				esc = true
			}
		}
		r.Check(!esc && tP != nil, rule, cons, "time-unchecked", g.Line(ct[0]), "a key is returned only for the zero time or after CheckTime")
		// its error is returned
		for _, u := range core.ErrorsUsed(f, call("models.CheckTime"), false) {
			r.Check(u.OK, rule, cons, "CheckTime-error-dropped", p.Pos(u.Call.Pos()), "the CheckTime error is propagated")
		}
	}
	// non-empty field names: inside the range over fields, len(name)==0 leads to a failing return
	{
		okName := false
		succ := map[*core.Node]bool{}
		for _, x := range g.SuccessExits() {
			succ[x] = true
		}
		for _, rs := range core.RangeOver(f.Decl.Body, core.X1IsObj(info, fieldsP)) {
			id, ok := rs.Key.(*ast.Ident)
			if !ok || info.Defs[id] == nil {
				continue
			}
			empty := core.X1LenZeroEdge(info, core.X1IsObj(info, info.Defs[id]), true)
			for _, nd := range g.Nodes {
				for _, e := range nd.Succ {
					if empty(e) {
						if _, isRet := e.To.N.(*ast.ReturnStmt); isRet && !succ[e.To] {
							okName = true
						}
					}
				}
			}
		}
		r.Check(okName, rule, cons, "empty-field-name", f.Pos(), "an empty field name leads directly to a failing return")
	}
	// seriesKeySize loop
	var sz types.Object
	ast.Inspect(f.Decl.Body, func(n ast.Node) bool {
		as, ok := n.(*ast.AssignStmt)
		if ok && len(as.Rhs) == 1 && len(as.Lhs) == 1 {
			if c, ok := ast.Unparen(as.Rhs[0]).(*ast.CallExpr); ok && core.FName(core.Callee(info, c)) == "models.seriesKeySize" {
				if id, isId := as.Lhs[0].(*ast.Ident); isId {
					sz = info.Defs[id]
				}
			}
		}
		return true
	})
	if r.Check(sz != nil, rule, cons, "seriesKeySize:absent", f.Pos(), "seriesKeySize is computed for the fields") {
		over := core.X1CmpEdge(core.X1IsObj(info, sz), isMax, core.X1GT)
		var to []*core.Node
		for _, nd := range g.Nodes {
			for _, e := range nd.Succ {
				if over(e) {
					to = append(to, e.To)
				}
			}
		}
		esc := false
		succ := map[*core.Node]bool{}
		for _, x := range g.SuccessExits() {
			succ[x] = true
		}
		// straight from the exceeded edge to a success exit without failing
		for _, t := range to {
			if succ[t] {
				esc = true
			}
			if _, isRet := t.N.(*ast.ReturnStmt); !isRet {
				esc = true
			}
		}
		r.Check(len(to) >= 1 && !esc, rule, cons, "series-key-size", f.Pos(), "seriesKeySize > MaxKeyLength leads directly to a failing return")
		// the loop ranges over the fields parameter
		rng := false
		for _, rs := range core.RangeOver(f.Decl.Body, core.X1IsObj(info, fieldsP)) {
			if core.MentionsObj(info, rs.Body, sz) || func() bool {
				found := false
				ast.Inspect(rs.Body, func(n ast.Node) bool {
					if id, ok := n.(*ast.Ident); ok && info.Defs[id] == sz {
						found = true
					}
					return true
				})
				return found
			}() {
				rng = true
			}
		}
		r.Check(rng, rule, cons, "series-key-size-loop", f.Pos(), "the size is checked for every field of the map")
	}
}

// ---------------------------------------------------------------- http

func c12HTTP(p *core.Prog, r *core.Report) {
	const rule = "http-parse-error"
	f := r.Need(p, "http/points", "Parser.parsePoints")
	if f == nil {
		return
	}
	g := f.Graph()
	info := f.Info()
	perr, pcall, stmt := c12ResultVar(f, call("models.ParsePointsWithPrecision"), 1)
	if !r.Check(perr != nil && pcall != nil, rule, "http/points.Parser.parsePoints", "call:absent", f.Pos(), "ParsePointsWithPrecision is called and its error bound") {
		return
	}
	nd := g.NodeOf(stmt)
	var fe *core.Edge
	// the test may be separated from the call by tracing statements: find the first `err != nil` test reachable
	for _, n := range g.Nodes {
		for _, e := range n.Succ {
			if g.FailEdge(e) && e.Cond != nil && core.MentionsObj(info, e.Cond, perr) && n.N != nil && n.N.Pos() > stmt.Pos() && fe == nil {
				fe = e
			}
		}
	}
	if !r.Check(fe != nil && nd != nil, rule, "http/points.Parser.parsePoints", "error-untested", f.Pos(), "the parse error is tested") {
		return
	}
	// from the failing edge only failing exits, and no path from the call to success bypasses the test's ok edge
	succ := map[*core.Node]bool{}
	for _, x := range g.RealSuccessExits() {
		succ[x] = true
	}
	reach := g.Reach([]*core.Node{fe.To}, nil, nil)
	esc := false
	for x := range reach {
		if succ[x] {
			esc = true
		}
	}
	r.Check(!esc, rule, "http/points.Parser.parsePoints", "partial-batch-accepted", g.Line(fe.From), "when any line is rejected the request fails (no success exit after the parse error)")
	r2 := g.Reach(core.After(nd, nil), nil, func(e *core.Edge) bool { return e == fe.Sibling() })
	esc = false
	for x := range r2 {
		if succ[x] {
			esc = true
		}
	}
	r.Check(!esc, rule, "http/points.Parser.parsePoints", "error-test-bypassed", g.Line(nd), "success is reached only through the err == nil edge")
	// the error is wrapped, not dropped
	wrapped := false
	ast.Inspect(f.Decl.Body, func(n ast.Node) bool {
		kv, ok := n.(*ast.KeyValueExpr)
		if ok {
			if id, isId := kv.Key.(*ast.Ident); isId && id.Name == "Err" && core.ObjOf(info, kv.Value) == perr && kv.Pos() > stmt.Pos() {
				wrapped = true
			}
		}
		return true
	})
	r.Check(wrapped, rule, "http/points.Parser.parsePoints", "error-dropped", f.Pos(), "the parse error (naming the rejected lines) is carried in the returned error")
	// the precision handed to the parser is the parser's
	pf := core.LookupField(f.Pkg.Types, "Parser", "Precision")
	r.Check(pf != nil && len(pcall.Args) == 3 && core.FieldOf(info, pcall.Args[2]) == pf, rule, "http/points.Parser.parsePoints", "precision", f.Pos(), "the configured precision is passed on")
}

// ---------------------------------------------------------------- (3) no explicit panic

func c12Follow(path string) bool { return strings.HasPrefix(path, core.Mod) }

func c12NoPanic(p *core.Prog, r *core.Report) *core.ReachResult9 {
	const rule = "no-panic"
	var entries []*core.Func
	for _, n := range c12Entries {
		if f := r.Need(p, pkgModels9, n); f != nil {
			entries = append(entries, f)
		}
	}
	if len(entries) == 0 {
		return nil
	}
	res := core.PanicReach9(p, entries, c12Follow)
	r.Check(len(res.Visited) >= 40, rule, "models.Parse*", "reachable<min", "-", fmt.Sprintf("%d module functions reachable from the %d entry points (at least 40 expected: scanners, walkers, escape helpers)", len(res.Visited), len(entries)))
	for _, must := range []string{"parsePoint", "scanKey", "scanFields", "scanTime", "scanNumber", "scanBoolean", "scanTags", "walkFields", "walkTags", "unescapeTag", "pointKey", "Fields.MarshalBinary", "appendField", "point.Next"} {
		f := p.Func(pkgModels9, must)
		_, ok := res.Visited[f]
		r.Check(f != nil && ok, rule, "models."+must, "not-reached", "-", "function is in the traversed call graph")
	}
	seen := map[string]bool{}
	for _, s := range res.Panics {
		k := s.In.String()
		if seen[k] {
			continue
		}
		seen[k] = true
		r.Bad(rule, k, "explicit-panic", p.Pos(s.Pos), "explicit panic reachable from a parse entry point: "+strings.Join(s.Chain, " > "))
	}
	if len(res.Panics) == 0 {
		r.Ok(rule, "models.Parse*", "-", fmt.Sprintf("no explicit panic in the %d reachable module functions", len(res.Visited)))
	}
	dyn := map[string]bool{}
	for _, d := range res.Dynamic {
		if dyn[d] {
			continue
		}
		dyn[d] = true
		r.Bad(rule, strings.SplitN(d, ":", 2)[0], "dynamic-call", "-", "call of a function value whose targets are not visible to the static call graph: "+d)
	}
	var ext []string
	for e := range res.External {
		ext = append(ext, e)
	}
	sort.Strings(ext)
	r.Note("no-panic: packages outside the module called from the reachable set (trusted): %s", strings.Join(ext, ", "))
	// positive control: the traversal must find the panic of MustNewPoint
	if mf := r.Need(p, pkgModels9, "MustNewPoint"); mf != nil {
		ctl := core.PanicReach9(p, []*core.Func{mf}, c12Follow)
		found := false
		for _, s := range ctl.Panics {
			if s.In == mf {
				found = true
			}
		}
		r.Check(found, rule, "control/models.MustNewPoint", "panic-not-found", mf.Pos(), "positive control: started at MustNewPoint the traversal reports its explicit panic")
	}
	return res
}

// ---------------------------------------------------------------- (4) loop progress

// c12ClosedState checks that the no-case-matched path of `switch state` in
// scanTags cannot be taken with a nil error: state is only assigned case
// constants or result 0 of scanTagsValue, and scanTagsValue returns a value
// outside the case set only together with a non-nil error.
func c12ClosedState(p *core.Prog, r *core.Report) bool {
	const rule = "loop-progress"
	f := r.Need(p, pkgModels9, "scanTags")
	sv := r.Need(p, pkgModels9, "scanTagsValue")
	if f == nil || sv == nil {
		return false
	}
	info := f.Info()
	var sw *ast.SwitchStmt
	ast.Inspect(f.Decl.Body, func(n ast.Node) bool {
		if x, ok := n.(*ast.SwitchStmt); ok && x.Tag != nil && sw == nil {
			sw = x
		}
		return true
	})
	if !r.Check(sw != nil, rule, "models.scanTags", "state-switch:absent", f.Pos(), "state switch found") {
		return false
	}
	state := core.ObjOf(info, sw.Tag)
	cases := map[int64]bool{}
	for _, cl := range sw.Body.List {
		for _, ce := range cl.(*ast.CaseClause).List {
			if v, ok := core.Int9(info, ce); ok {
				cases[v] = true
			}
		}
	}
	ok := state != nil && len(cases) >= 2
	fromCall := false
	for _, d := range core.DefsOf(info, f.Decl.Body, state) {
		if d.Rhs == nil {
			ok = false
			continue
		}
		if v, isC := core.Int9(info, d.Rhs); isC && d.Index == -1 {
			if !cases[v] {
				ok = false
			}
			continue
		}
		if c, isCall := d.Rhs.(*ast.CallExpr); isCall && d.Index == 0 && core.FName(core.Callee(info, c)) == "models.scanTagsValue" {
			fromCall = true
			continue
		}
		ok = false
	}
	// the error of that call is tested before the next iteration
	g := f.Graph()
	errTested := false
	for _, n := range g.Select(g.Calling(call("models.scanTagsValue"))) {
		if fe, _, found := g.ErrEdges(n); found && fe != nil {
			errTested = true
		}
	}
	// scanTagsValue: out-of-set states only with an error
	sg := sv.Graph()
	succ := map[*core.Node]bool{}
	for _, x := range sg.SuccessExits() {
		succ[x] = true
	}
	closed := true
	nret := 0
	for _, x := range sg.Exits {
		rs, isRet := x.N.(*ast.ReturnStmt)
		if !isRet || len(rs.Results) != 3 {
			closed = false
			continue
		}
		nret++
		v, isC := core.Int9(sv.Info(), rs.Results[0])
		if !isC {
			closed = false
			continue
		}
		if !cases[v] && succ[x] {
			closed = false
		}
	}
	return r.Check(ok && fromCall && errTested && closed && nret >= 2, rule, "models.scanTags", "state-not-closed", f.Pos(),
		"the state variable only takes the values the switch lists: it is assigned case constants or scanTagsValue's state, the call's error is tested before the next iteration, and scanTagsValue returns a state outside the case set only with a non-nil error — so the path on which no case matches (and nothing advances) is infeasible")
}

// c12IteratorProgress: point.Next, which drives `for iter.Next()` loops, moves
// its cursor on every call that returns true.
func c12IteratorProgress(p *core.Prog, r *core.Report) bool {
	const rule = "loop-progress"
	f := r.Need(p, pkgModels9, "point.Next")
	if f == nil {
		return false
	}
	info := f.Info()
	g := f.Graph()
	endF := core.LookupField(p.Pkg(pkgModels9).Types, "fieldIterator", "end")
	startF := core.LookupField(p.Pkg(pkgModels9).Types, "fieldIterator", "start")
	fieldsF := core.LookupField(p.Pkg(pkgModels9).Types, "point", "fields")
	if !r.Check(endF != nil && startF != nil && fieldsF != nil, "anchor", "models.fieldIterator.start/end", "unresolved", "-", "cursor fields resolved") {
		return false
	}
	inc := func(n *core.Node) bool {
		s, ok := n.N.(*ast.IncDecStmt)
		return ok && s.Tok == token.INC && core.FieldOf(info, s.X) == endF
	}
	// start = end first
	catchUp := func(n *core.Node) bool {
		as, ok := n.N.(*ast.AssignStmt)
		return ok && len(as.Lhs) == 1 && len(as.Rhs) == 1 && core.FieldOf(info, as.Lhs[0]) == startF && core.FieldOf(info, as.Rhs[0]) == endF
	}
	reachNoInc := g.ReachFromEntry(inc, nil)
	reachNoCatch := g.ReachFromEntry(catchUp, nil)
	ok := true
	nTrue, nFalse := 0, 0
	for _, x := range g.Exits {
		rs, isRet := x.N.(*ast.ReturnStmt)
		if !isRet || len(rs.Results) != 1 {
			ok = false
			continue
		}
		b, isC := core.ConstBool(info, rs.Results[0])
		if !isC {
			ok = false
			continue
		}
		if b {
			nTrue++
			if reachNoInc[x] || reachNoCatch[x] {
				ok = false
			}
		} else {
			nFalse++
			// only where start >= len(fields)
			gate := core.X1CmpEdge(core.X1IsField(info, startF), core.X1IsLenOf(info, core.X1IsField(info, fieldsF)), core.X1GE)
			if g.ReachFromEntry(nil, gate)[x] {
				ok = false
			}
		}
	}
	// the scans start at the cursor
	scans := 0
	for _, c := range core.AllCalls(info, f.Decl.Body, call("models.scanTo", "models.scanFieldValue")) {
		if len(c.Args) >= 2 && (core.MentionsField(info, c.Args[1], startF) || core.MentionsField(info, c.Args[1], endF)) && core.FieldOf(info, c.Args[0]) == fieldsF {
			scans++
		}
	}
	return r.Check(ok && nTrue >= 1 && nFalse >= 1 && scans >= 2, rule, "models.point.Next", "cursor-not-advanced", f.Pos(),
		"every `return true` of the field iterator comes after start = end and end++ (the cursor strictly advances per field), `return false` only where start >= len(fields), and the scans start at the cursor")
}

func c12LoopProgress(p *core.Prog, r *core.Report, reach *core.ReachResult9) {
	const rule = "loop-progress"
	if reach == nil {
		return
	}
	closedState := c12ClosedState(p, r)
	iterOK := c12IteratorProgress(p, r)
	nextM := call("models.FieldIterator.Next", "models.point.Next")
	var fs []*core.Func
	for f := range reach.Visited {
		fs = append(fs, f)
	}
	sort.Slice(fs, func(i, j int) bool { return fs[i].String() < fs[j].String() })
	nLoops, nFor := 0, 0
	for _, f := range fs {
		var ignore core.EdgePred
		if f.String() == "models.scanTags" && closedState {
			// exception (validated by state-not-closed above): the no-case-matched path of the state switch is infeasible
			ignore = core.SwitchNoMatchEdge9
		}
		for gi, g := range f.Graphs() {
			loops := g.Loops9With(ignore)
			for li, l := range loops {
				nFor++
				cons := f.String()
				if gi > 0 {
					cons += fmt.Sprintf("/lit%d", gi)
				}
				cons += fmt.Sprintf("/for#%d", li+1)
				pos := p.Pos(l.Stmt.Pos())
				if len(l.Vars) == 0 {
					if l.CallDriven {
						// exception: loops driven by the field iterator; its Next is checked to advance
						if c, ok := ast.Unparen(l.Stmt.Cond).(*ast.CallExpr); ok && nextM(f.Info(), c) && iterOK {
							nLoops++
							r.Ok(rule, cons, pos, "loop is driven by FieldIterator.Next, whose only implementation (point.Next) advances its cursor on every true return")
							continue
						}
						r.Bad(rule, cons, "call-driven", pos, "termination depends on a call in the loop condition, not on a variable written in the loop; cannot be decided")
					} else {
						r.Bad(rule, cons, "no-progress-variable", pos, "no loop-variant variable is read by the loop's termination tests")
					}
					continue
				}
				nLoops++
				where := ""
				if len(l.Stuck) > 0 {
					where = " — a cycle through " + g.Line(l.Stuck[0]) + " writes none of them"
				}
				r.Check(len(l.Stuck) == 0, rule, cons, "iteration-without-progress", pos,
					"every cycle through the loop head writes one of the variables its termination tests read ("+core.VarNames9(l.Vars)+")"+where)
			}
		}
	}
	r.Check(nLoops >= 26, rule, "models.Parse*", "loops<min", "-", fmt.Sprintf("%d `for` loops decided in %d reachable functions (26 confirmed)", nLoops, len(fs)))
}
