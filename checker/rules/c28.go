package rules

import (
	"fmt"
	"go/ast"
	"go/types"

	"verif/checker/core"
)

func init() {
	register(&Prop{
		ID:        "C28",
		Patterns:  []string{"."},
		Level:     "proof",
		Technique: "static analysis: exhaustive finite decision table (predicate abstraction) of the loop-free permission matcher, extracted from the AST and compared with the specification table; CFG dependence rule for the one loop",
		Explanation: "Permission.Matches/matchesV1 is loop-free and touches its two inputs only through ==, != and nil tests, so its result is a function of finitely many atomic comparisons. " +
			"The checker extracts that function from the AST (abstract interpreter over access paths; fmt.Printf is the only call allowed as a statement; anything outside the fragment makes the obligation UNDECIDED = failed) and evaluates it on every row of the decision table. " +
			"Rows are generated from an abstract input universe that realises every equality pattern among the compared terms: 2 actions, 3 resource types (the instance type and two others), and for each of OrgID/ID of granter and request: nil or one of two distinct symbols (2916 rows). " +
			"Obligation per row: code grants ⇒ the statement grants, i.e. actions equal ∧ (granter is instance-wide ∨ (types equal ∧ (granter type-wide [no OrgID, no ID] ∨ org-scoped [OrgID set, no ID, request OrgID set and equal] ∨ names the requested ID [ID set, request ID set and equal]))); no row may dereference nil. " +
			"Plus: PermissionAllowed returns true only on the branch where p.Matches(perm) held, with the set element as receiver and the request as argument, and false otherwise; PermissionSet.Allowed forwards to it with the arguments in that order.",
		NotCovered:  "nothing of the statement's grant condition is left undecided for Matches; how callers construct the request permission (which org/id they ask about) is C29's subject.",
		Assumptions: []string{"Go semantics of == on strings, pointers and IDs; the fragment interpreter in core/dtable.go", "reading of the statement: type-wide = granter OrgID and ID both nil; organization-scoped = OrgID set without ID"},
		Run:         runC28,
	})
}

func runC28(p *core.Prog, r *core.Report, tier string) {
	const rule = "grant-table"
	f := r.Need(p, "", "Permission.Matches")
	pk := p.Pkg("")
	if f == nil || pk == nil {
		return
	}
	r.Need(p, "", "Permission.matchesV1")
	consts := map[types.Object]string{}
	inst := pk.Types.Scope().Lookup("InstanceResourceType")
	if !r.Check(inst != nil, "anchor", "influxdb.InstanceResourceType", "unresolved", "-", "constant resolved") {
		return
	}
	consts[inst] = "instance"
	var doms []core.DDomain
	for _, root := range []string{"G", "R"} {
		doms = append(doms,
			core.DDomain{Path: root + ".Action", Values: []string{"read", "write"}},
			core.DDomain{Path: root + ".Resource.Type", Values: []string{"instance", "T1", "T2"}},
			core.DDomain{Path: root + ".Resource.OrgID", Values: []string{"nil", "ptr"}},
			core.DDomain{Path: "*" + root + ".Resource.OrgID", Values: []string{"o1", "o2"}},
			core.DDomain{Path: root + ".Resource.ID", Values: []string{"nil", "ptr"}},
			core.DDomain{Path: "*" + root + ".Resource.ID", Values: []string{"i1", "i2"}},
		)
	}
	spec := func(m core.DModel) bool {
		if m["G.Action"] != m["R.Action"] {
			return false
		}
		if m["G.Resource.Type"] == "instance" {
			return true
		}
		if m["G.Resource.Type"] != m["R.Resource.Type"] {
			return false
		}
		gOrg, gID := m["G.Resource.OrgID"] == "ptr", m["G.Resource.ID"] == "ptr"
		rOrg, rID := m["R.Resource.OrgID"] == "ptr", m["R.Resource.ID"] == "ptr"
		typeWide := !gOrg && !gID
		orgScoped := gOrg && !gID && rOrg && m["*G.Resource.OrgID"] == m["*R.Resource.OrgID"]
		namesID := gID && rID && m["*G.Resource.ID"] == m["*R.Resource.ID"]
		return typeWide || orgScoped || namesID
	}
	rows, granted, converse := 0, 0, 0
	undecided := ""
	var firstBad string
	bad := 0
	core.EnumModels(doms, func(m core.DModel) {
		rows++
		res, und := core.EvalOn(p, f, m, []core.DVal{core.Path("G"), core.Path("R")}, consts, []string{"fmt.Printf", "fmt.Println"})
		if und != "" {
			if undecided == "" {
				undecided = und
			}
			return
		}
		want := spec(m)
		switch {
		case res.Panicked:
			bad++
			if firstBad == "" {
				firstBad = "nil dereference on row: " + m.String()
			}
		case res.Value == "true" && !want:
			bad++
			if firstBad == "" {
				firstBad = "code grants, statement does not, on row: " + m.String()
			}
		case res.Value != "true" && res.Value != "false":
			bad++
			if firstBad == "" {
				firstBad = "non-boolean result " + res.Value
			}
		default:
			if res.Value == "true" {
				granted++
			}
			if res.Value == "false" && want {
				converse++
			}
			r.Ok(rule, "influxdb.Permission.Matches", f.Pos(), "row "+m.String()+" ⇒ "+res.Value)
		}
	})
	if undecided != "" {
		r.Bad(rule, "influxdb.Permission.Matches", "undecided", f.Pos(), "the matcher left the decidable fragment: "+undecided)
		return
	}
	if bad > 0 {
		r.Bad(rule, "influxdb.Permission.Matches", "grants-more-than-stated", f.Pos(), fmt.Sprintf("%d of %d rows violate the statement; first: %s", bad, rows, firstBad))
	}
	r.Check(rows == 2916, rule, "influxdb.Permission.Matches", "rows:count", f.Pos(), fmt.Sprintf("%d rows enumerated (2916 expected for the declared universe)", rows))
	r.Check(granted > 0 && granted < rows, rule, "influxdb.Permission.Matches", "table-trivial", f.Pos(), fmt.Sprintf("%d rows grant, %d deny (table is not constant)", granted, rows-granted))
	r.Note("C28: %d rows, %d grant; rows where the statement would grant but the code denies (allowed by 'only if'): %d", rows, granted, converse)

	// the set-level functions
	if pa := r.Need(p, "", "PermissionAllowed"); pa != nil {
		const rule2 = "allowed-only-on-match"
		g := pa.Graph()
		info := pa.Info()
		matches := call("..Permission.Matches")
		sig := pa.Obj.Type().(*types.Signature)
		reqParam, setParam := sig.Params().At(0), sig.Params().At(1)
		// loop variable ranging over the set parameter
		var elem types.Object
		ast.Inspect(pa.Decl.Body, func(n ast.Node) bool {
			if rs, ok := n.(*ast.RangeStmt); ok && core.ObjOf(info, rs.X) == setParam && rs.Value != nil {
				elem = core.ObjOf(info, rs.Value)
			}
			return true
		})
		r.Check(elem != nil, rule2, pa.String(), "loop:absent", pa.Pos(), "ranges over the permission set parameter")
		okRoles := false
		var matchEdgeTrue core.EdgePred = func(e *core.Edge) bool {
			if e.Cond == nil || !e.Branch {
				return false
			}
			c, ok := ast.Unparen(e.Cond).(*ast.CallExpr)
			return ok && matches(info, c)
		}
		for _, c := range core.AllCalls(info, pa.Decl.Body, matches) {
			if se, ok := ast.Unparen(c.Fun).(*ast.SelectorExpr); ok && len(c.Args) == 1 {
				if core.ObjOf(info, se.X) == elem && core.ObjOf(info, c.Args[0]) == reqParam {
					okRoles = true
				} else {
					r.Bad(rule2, pa.String(), "operand-roles", p.Pos(c.Pos()), "Matches must be called on the set element with the request as argument (granter.Matches(request))")
				}
			}
		}
		r.Check(okRoles, rule2, pa.String(), "match-call:absent", pa.Pos(), "element.Matches(request) is evaluated")
		reach := g.ReachFromEntry(nil, matchEdgeTrue)
		nTrue, nFalse := 0, 0
		for _, x := range g.Exits {
			rs, ok := x.N.(*ast.ReturnStmt)
			if !ok || len(rs.Results) != 1 {
				continue
			}
			switch core.ExprStr(rs.Results[0]) {
			case "true":
				nTrue++
				r.Check(!reach[x], rule2, pa.String(), "true-without-match", g.Line(x), "`return true` is reachable only through the true branch of element.Matches(request)")
			case "false":
				nFalse++
			default:
				r.Bad(rule2, pa.String(), "non-constant-return", g.Line(x), "returns something other than the literal true/false")
			}
		}
		r.Check(nTrue == 1 && nFalse >= 1, rule2, pa.String(), "returns", pa.Pos(), "one `return true`, at least one `return false`")
	}
	if al := r.Need(p, "", "PermissionSet.Allowed"); al != nil {
		info := al.Info()
		ok := false
		sig := al.Obj.Type().(*types.Signature)
		for _, c := range core.AllCalls(info, al.Decl.Body, call("..PermissionAllowed")) {
			if len(c.Args) == 2 && core.ObjOf(info, c.Args[0]) == sig.Params().At(0) && core.ObjOf(info, c.Args[1]) == sig.Recv() {
				ok = true
			}
		}
		r.Check(ok, "allowed-only-on-match", al.String(), "forwarding", al.Pos(), "Allowed(p) is PermissionAllowed(p, set) with the request first and the set second")
		core.RuleMustPass(r, al, "allowed-only-on-match", "PermissionAllowed", call("..PermissionAllowed"), false)
	}
}
