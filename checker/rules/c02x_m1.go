package rules

import (
	"fmt"
	"go/ast"
	"go/types"
	"sort"

	"verif/checker/core"
)

// Rules added by the m1 survivor triage for C02 (crash durability).

func init() {
	extend("C02", "lit-failure-propagates: the failure-propagation rule also holds inside every error-returning function literal of the analysed functions (the WAL write section, the per-segment replay, the fields-index writer, the snapshot critical section); "+
		"open-replays-wal: every successful Engine.Open passes cleanup and FileStore.Open and, unless WALEnabled is false, WAL.Open and reloadCache; reloadCache lifts the cache limit (SetMaxSize(0)) before CacheLoader.Load, and the per-segment replay reaches the entry loop unless the segment's size is zero; "+
		"wal-reader: WALSegmentReader.Next reports end-of-segment only on a clean io.EOF, a failed read/decode step is recorded in r.err before Next returns and never counts bytes as valid; "+
		"snapshot-retry: Cache.Snapshot replaces c.snapshot only when it is nil and swaps the stores only after the existing snapshot was found empty, by the size the swap itself records; "+
		"wal-delete-logged: WAL.Delete/DeleteRange succeed without writeToLog only for an empty key list; "+
		"syncdir-failure-reported: pkg/file.SyncDir tolerates a failed directory fsync only on a branch that established EINVAL; "+
		"wal-roll-syncs-pending: closeCurrentSegmentFile syncs the pending waiters and closes the writer (unless there is none) before the writer is dropped, newSegmentFile installs the new writer only after that; "+
		"wal-record-written: WALSegmentWriter.Write writes the header (type, payload length) and then the payload on every success path; "+
		"wal-remove-only-closed: WAL.ClosedSegments lists a segment only on a branch that established name != current segment path, WAL.Remove disposes only of elements of its argument; "+
		"cleanup-removes-only-tmp: Engine.cleanup removes an entry only behind strings.HasSuffix(name, tmp extension), cleanupTempTSMFiles only elements of the Glob over the temp pattern; "+
		"open-loads-every-file: FileStore.Open appends every received reader to f.files unless the result carries an error (Open then fails with it) or no reader; "+
		"failure-propagates also for errors tested by negated or compound conditions.",
		nil, m1RunC02)
}

// "function|callee" -> reason, for failures deliberately tolerated inside a literal.
var m1LitExcept = map[string]string{
	"tsdb/engine/tsm1.CacheLoader.Load|tsdb/engine/tsm1.WALSegmentReader.Read": "a corrupt entry ends the replay of that segment: the tail is truncated at the last valid byte (wal-torn-tail decides that) and loading continues",
}

// m1LitPropagate: failure propagation inside the error-returning function
// literals of every function analysed so far.
func m1LitPropagate(p *core.Prog, r *core.Report, except map[string]string, minSites int) {
	const rule = "lit-failure-propagates"
	var fns []*core.Func
	for f := range r.FuncObjs {
		if f.Decl != nil && f.Decl.Body != nil {
			fns = append(fns, f)
		}
	}
	sort.Slice(fns, func(i, j int) bool { return fns[i].String() < fns[j].String() })
	any := func(*types.Info, *ast.CallExpr) bool { return true }
	total := 0
	for _, f := range fns {
		n, sw := core.FailuresSwallowedLits(f, any)
		if n == 0 {
			continue
		}
		total += n
		seen := map[string]bool{}
		bad := false
		for _, s := range sw {
			cn := core.FName(core.Callee(f.Info(), s.Call))
			if cn == "" {
				cn = core.Trim(core.ExprStr(s.Call.Fun), 40)
			}
			if seen[cn] {
				continue
			}
			seen[cn] = true
			if why, ok := except[f.String()+"|"+cn]; ok {
				r.Ok(rule, f.String(), p.Pos(s.Call.Pos()), "failure of "+cn+" deliberately tolerated: "+why)
				continue
			}
			bad = true
			r.Bad(rule, f.String(), cn+":failure-swallowed", p.Pos(s.Call.Pos()), "inside a function literal a failure of "+cn+" can reach the exit at "+s.G.Line(s.Exit)+" on which the literal reports success")
		}
		if !bad {
			r.Ok(rule, f.String(), f.Pos(), fmt.Sprintf("%d tested/forwarded error call(s) in its error-returning literals: every failure makes the literal fail", n))
		}
	}
	r.Check(total >= minSites, rule, "literals", "count", "-", fmt.Sprintf("%d tested/forwarded error calls inside error-returning literals (>= %d confirmed by reading)", total, minSites))
	// the function's own graph: the call sites the standard post-pass leaves out
	// because the error is not tested by a plain `err != nil` right after the call
	// (`!(err != nil)`, `err != nil && …`, a test behind another condition)
	nNeg := 0
	for _, f := range fns {
		n, sw := core.FailuresSwallowedNeg(f.Graph(), any)
		nNeg += n
		seen := map[string]bool{}
		for _, s := range sw {
			cn := core.FName(core.Callee(f.Info(), s.Call))
			if cn == "" {
				cn = core.Trim(core.ExprStr(s.Call.Fun), 40)
			}
			if seen[cn] {
				continue
			}
			seen[cn] = true
			if why, ok := propagateExcept[f.String()+"|"+cn]; ok {
				r.Ok("failure-propagates", f.String(), p.Pos(s.Call.Pos()), "failure of "+cn+" deliberately tolerated: "+why)
				continue
			}
			if why, ok := except[f.String()+"|"+cn]; ok {
				r.Ok("failure-propagates", f.String(), p.Pos(s.Call.Pos()), "failure of "+cn+" deliberately tolerated: "+why)
				continue
			}
			r.Bad("failure-propagates", f.String(), cn+":failure-swallowed", p.Pos(s.Call.Pos()), "on a branch that knows the error of "+cn+" to be non-nil the exit at "+f.Graph().Line(s.Exit)+" is reachable, on which the function reports success")
		}
	}
	r.Note("failure-propagates (compound tests): %d further call sites whose error is tested by a compound or negated condition", nNeg)
}

func m1RunC02(p *core.Prog, r *core.Report, tier string) {
	m1OpenReplays(p, r)
	m1WalReader(p, r)
	m1SnapshotRetry(p, r)
	// WAL.Delete / WAL.DeleteRange: an acknowledged delete is in the log
	for _, n := range []string{"WAL.Delete", "WAL.DeleteRange"} {
		if f := r.Need(p, tsm1, n); f != nil {
			g := f.Graph()
			core.RuleMustPassN(r, f, g, "wal-delete-logged", "writeToLog(unless no keys)", g.CallingDeep(call("tsdb/engine/tsm1.WAL.writeToLog")),
				core.X1LenZeroEdge(f.Info(), core.X1IsObj(f.Info(), f.X1Param(1)), true))
		}
	}
	m1SyncDirTolerance(p, r)
	m1RollSyncsPending(p, r)
	m1WalRecordAndRemoval(p, r)
	m1CleanupOnlyTmp(p, r)
	m1OpenLoadsEveryFile(p, r)
	m1SnapshotWritten(p, r)
	m1ReplacePublishes(p, r)
	m1LitPropagate(p, r, m1LitExcept, 4) // 21 today; a lower bound only guards against vacuity
}

// m1WalRecordAndRemoval: a WAL record is header (type, length of the payload)
// then payload; only closed segments are listed for removal and only listed
// segments are removed.
func m1WalRecordAndRemoval(p *core.Prog, r *core.Report) {
	if f := r.Need(p, tsm1, "WALSegmentWriter.Write"); f != nil {
		const rule = "wal-record-written"
		info, g := f.Info(), f.Graph()
		typP, dataP := types.Object(f.X1Param(0)), types.Object(f.X1Param(1))
		wr := call("bufio.Writer.Write", "io.Writer.Write")
		// the header buffer: a local array that receives byte(entryType) and PutUint32(…, len(compressed))
		var hdr types.Object
		for _, c := range core.AllCalls(info, f.Decl.Body, call("encoding/binary.bigEndian.PutUint32", "encoding/binary.ByteOrder.PutUint32", "encoding/binary.*.PutUint32")) {
			if len(c.Args) == 2 && core.X1IsLenOf(info, core.X1IsObj(info, dataP))(m1StripConv(info, c.Args[1])) {
				hdr = core.X1RootObj(info, c.Args[0])
			}
		}
		typed := false
		ast.Inspect(f.Decl.Body, func(n ast.Node) bool {
			if as, ok := n.(*ast.AssignStmt); ok && len(as.Lhs) == 1 && len(as.Rhs) == 1 && hdr != nil && core.X1RootObj(info, as.Lhs[0]) == hdr && core.X1MentionsObj(info, as.Rhs[0], typP) {
				typed = true
			}
			return true
		})
		r.Check(hdr != nil && typed, rule, f.String(), "header-fields", f.Pos(), "the header buffer receives the entry type and the length of the payload")
		isHdr := g.X1CallingWith(wr, func(c *ast.CallExpr) bool {
			return len(c.Args) == 1 && hdr != nil && core.X1RootObj(info, core.ResolveLocal(info, f.Decl.Body, c.Args[0])) == hdr
		})
		isData := g.X1CallingWith(wr, func(c *ast.CallExpr) bool {
			return len(c.Args) == 1 && core.X1RootObj(info, core.ResolveLocal(info, f.Decl.Body, c.Args[0])) == dataP
		})
		core.RuleMustPassN(r, f, g, rule, "write(header)", isHdr, nil)
		core.RuleMustPassN(r, f, g, rule, "write(payload)", isData, nil)
		reach := g.ReachFromEntry(isHdr, nil)
		ok := true
		for _, n := range g.Select(isData) {
			if reach[n] {
				ok = false
			}
		}
		r.Check(ok, rule, f.String(), "header<payload", f.Pos(), "the payload is written only after the header")
	}
	const rule = "wal-remove-only-closed"
	if f := r.Need(p, tsm1, "WAL.ClosedSegments"); f != nil {
		info, g := f.Info(), f.Graph()
		// the current segment's path: a local assigned from currentSegmentWriter.path()
		var cur types.Object
		ast.Inspect(f.Decl.Body, func(n ast.Node) bool {
			if as, ok := n.(*ast.AssignStmt); ok && len(as.Lhs) == 1 && len(as.Rhs) == 1 {
				if core.AsCall(info, as.Rhs[0], call("tsdb/engine/tsm1.WALSegmentWriter.path")) != nil {
					cur = core.ObjOf(info, as.Lhs[0])
				}
			}
			return true
		})
		// the returned list
		var list types.Object
		for _, x := range g.Exits {
			if rs, ok := x.N.(*ast.ReturnStmt); ok && len(rs.Results) == 2 && g.X1IsSuccessExit(x) {
				if o := core.ObjOf(info, rs.Results[0]); o != nil {
					list = o
				}
			}
		}
		if r.Check(cur != nil && list != nil, rule, f.String(), "current/list:absent", f.Pos(), "the current segment's path and the returned list are locals") {
			isCur := core.X1IsObj(info, cur)
			isCurExpr := func(e ast.Expr) bool {
				return isCur(e) || core.AsCall(info, e, call("tsdb/engine/tsm1.WALSegmentWriter.path")) != nil
			}
			any := func(ast.Expr) bool { return true }
			other := core.X1FactEdge(core.X1CmpFact(any, isCurExpr, core.X1NE))
			un := g.ReachFromEntry(nil, other)
			n, ok := 0, true
			for _, nd := range g.Select(g.X1StoresToObj(list)) {
				as, isAs := nd.N.(*ast.AssignStmt)
				if !isAs || len(as.Rhs) != 1 {
					continue
				}
				if c, isCall := ast.Unparen(as.Rhs[0]).(*ast.CallExpr); isCall && core.Builtin("append")(info, c) {
					n++
					if un[nd] {
						ok = false
					}
				}
			}
			r.Check(n >= 1 && ok, rule, f.String(), "current-segment-excluded", f.Pos(), "a segment enters the closed list only on a branch that established name != path of the current segment writer (the snapshot commit removes what is listed)")
			// … and that path is known: the list is built only after the current writer's
			// path was taken, unless there is no current writer
			wF := core.LookupField(f.Pkg.Types, "WAL", "currentSegmentWriter")
			took := func(nd *core.Node) bool {
				as, isAs := nd.N.(*ast.AssignStmt)
				return isAs && len(as.Lhs) == 1 && len(as.Rhs) == 1 && core.ObjOf(info, as.Lhs[0]) == cur && core.AsCall(info, as.Rhs[0], call("tsdb/engine/tsm1.WALSegmentWriter.path")) != nil
			}
			isW := func(e ast.Expr) bool {
				return wF != nil && core.FieldOf(info, core.ResolveLocal(info, f.Decl.Body, e)) == wF
			}
			blind := g.ReachFromEntry(took, core.X1NilEdge(info, isW, true))
			okCur := true
			for _, nd := range g.Select(g.X1StoresToObj(list)) {
				if as, isAs := nd.N.(*ast.AssignStmt); isAs && len(as.Rhs) == 1 {
					if c, isCall := ast.Unparen(as.Rhs[0]).(*ast.CallExpr); isCall && core.Builtin("append")(info, c) && blind[nd] {
						okCur = false
					}
				}
			}
			r.Check(okCur, rule, f.String(), "current-path-taken", f.Pos(), "the closed list is built only after currentSegmentWriter.path() was recorded, or on a branch that established that there is no current writer")
		}
	}
	if f := r.Need(p, tsm1, "WAL.Open"); f != nil {
		info, g := f.Info(), f.Graph()
		isSize := func(e ast.Expr) bool {
			c, ok := ast.Unparen(core.ResolveLocal(info, f.Decl.Body, e)).(*ast.CallExpr)
			return ok && call("*.Size")(info, c)
		}
		zero := core.X1IsIntConst(info, 0)
		empty := core.X1FactEdge(core.X1AnyFact(core.X1CmpFact(isSize, zero, core.X1EQ), core.X1CmpFact(isSize, zero, core.X1LE)))
		un := g.ReachFromEntry(nil, empty)
		ok := true
		for _, n := range g.Select(g.Calling(call("os.Remove", "os.RemoveAll", "tsdb/engine/tsm1.FileDisposer.Dispose"))) {
			if un[n] {
				ok = false
			}
		}
		r.Check(ok, rule, f.String(), "open-removes-only-empty-segment", f.Pos(), "WAL.Open removes a segment file only on a branch that established Size() == 0")
	}
	if f := r.Need(p, tsm1, "WAL.Remove"); f != nil {
		info := f.Info()
		filesP := types.Object(f.X1Param(0))
		del := call("tsdb/engine/tsm1.FileDisposer.Dispose", "os.Remove", "os.RemoveAll")
		n, ok := 0, true
		for _, c := range core.AllCalls(info, f.Decl.Body, del) {
			n++
			good := false
			for _, rs := range core.RangeOver(f.Decl.Body, core.X1IsObj(info, filesP)) {
				if rs.Value != nil && len(c.Args) == 1 && core.ObjOf(info, c.Args[0]) == core.ObjOf(info, rs.Value) && rs.Pos() <= c.Pos() && c.End() <= rs.End() {
					good = true
				}
			}
			if !good {
				ok = false
			}
		}
		r.Check(n >= 1 && ok, rule, f.String(), "removes-only-listed", f.Pos(), "every file disposed of is an element of the list passed in")
	}
}

// m1StripConv removes type conversions around e (uint32(len(x)) -> len(x)).
func m1StripConv(info *types.Info, e ast.Expr) ast.Expr {
	for {
		c, ok := ast.Unparen(e).(*ast.CallExpr)
		if !ok || len(c.Args) != 1 {
			return ast.Unparen(e)
		}
		if tv, ok := info.Types[c.Fun]; !ok || !tv.IsType() {
			return ast.Unparen(e)
		}
		e = c.Args[0]
	}
}

// m1CleanupOnlyTmp: the start-up cleanup removes nothing but temporary files.
func m1CleanupOnlyTmp(p *core.Prog, r *core.Report) {
	const rule = "cleanup-removes-only-tmp"
	rm := call("os.Remove", "os.RemoveAll")
	mentionsTmpConst := func(info *types.Info, root ast.Node, e ast.Expr) bool {
		hit := false
		var scan func(x ast.Expr, depth int)
		scan = func(x ast.Expr, depth int) {
			ast.Inspect(x, func(y ast.Node) bool {
				id, ok := y.(*ast.Ident)
				if !ok {
					return true
				}
				switch o := info.Uses[id].(type) {
				case *types.Const:
					if o.Name() == "TmpTSMFileExtension" || o.Name() == "CompactionTempExtension" {
						hit = true
					}
				case *types.Var:
					if depth < 3 && !o.IsField() {
						if d, ok := core.SingleDef(info, root, o); ok && d.Rhs != nil {
							scan(d.Rhs, depth+1)
						}
					}
				}
				return true
			})
		}
		scan(e, 0)
		return hit
	}
	if f := r.Need(p, tsm1, "Engine.cleanup"); f != nil {
		info, g := f.Info(), f.Graph()
		tmpName := core.X1FactEdge(func(ft core.X1Fact) bool {
			c, ok := core.ResolveLocal(info, f.Decl.Body, ft.E).(*ast.CallExpr)
			return ok && ft.True && call("strings.HasSuffix")(info, c) && len(c.Args) == 2 && mentionsTmpConst(info, f.Decl.Body, c.Args[1])
		})
		un := g.ReachFromEntry(nil, tmpName)
		rms := g.Select(g.Calling(rm))
		ok := len(rms) >= 1
		for _, n := range rms {
			if un[n] {
				ok = false
			}
		}
		r.Check(ok, rule, f.String(), "remove-only-tmp-suffix", f.Pos(), "a directory entry is removed only on a branch that established strings.HasSuffix(name, \".\"+TmpTSMFileExtension)")
		// (nothing to clean when the shard directory does not exist yet)
		noDir := core.X1FactEdge(func(ft core.X1Fact) bool {
			c, ok := ft.E.(*ast.CallExpr)
			return ok && ft.True && call("os.IsNotExist")(info, c)
		})
		core.RuleMustPassN(r, f, g, rule, "Engine.cleanupTempTSMFiles(unless no directory)", g.CallingDeep(call("tsdb/engine/tsm1.Engine.cleanupTempTSMFiles")), noDir)
	}
	if f := r.Need(p, tsm1, "Engine.cleanupTempTSMFiles"); f != nil {
		info := f.Info()
		n, ok := 0, true
		for _, c := range core.AllCalls(info, f.Decl.Body, rm) {
			n++
			good := false
			for _, rs := range core.RangeOver(f.Decl.Body, func(e ast.Expr) bool {
				cs, from := core.X1OnlyFromCall(info, f.Decl.Body, core.ObjOf(info, e), call("path/filepath.Glob"), 0)
				if !from || len(cs) != 1 || len(cs[0].Args) != 1 {
					return false
				}
				return mentionsTmpConst(info, f.Decl.Body, cs[0].Args[0])
			}) {
				if rs.Value != nil && len(c.Args) == 1 && core.ObjOf(info, c.Args[0]) == core.ObjOf(info, rs.Value) && rs.Pos() <= c.Pos() && c.End() <= rs.End() {
					good = true
				}
			}
			if !good {
				ok = false
			}
		}
		r.Check(n >= 1 && ok, rule, f.String(), "remove-only-globbed-tmp", f.Pos(), "every file removed is an element of filepath.Glob(\"*.\"+CompactionTempExtension)")
	}
}

// m1OpenLoadsEveryFile: FileStore.Open loads every *.tsm file or fails.
func m1OpenLoadsEveryFile(p *core.Prog, r *core.Report) {
	const rule = "open-loads-every-file"
	f := r.Need(p, tsm1, "FileStore.Open")
	if f == nil {
		return
	}
	info, g := f.Info(), f.Graph()
	filesF := core.LookupField(f.Pkg.Types, "FileStore", "files")
	// the result received from the reader goroutines
	var recv []*core.Node
	var res types.Object
	for _, n := range g.Nodes {
		as, ok := n.N.(*ast.AssignStmt)
		if !ok || len(as.Lhs) != 1 || len(as.Rhs) != 1 {
			continue
		}
		if u, ok := ast.Unparen(as.Rhs[0]).(*ast.UnaryExpr); ok && u.Op.String() == "<-" {
			recv = append(recv, n)
			res = core.ObjOf(info, as.Lhs[0])
		}
	}
	adds := g.Select(func(n *core.Node) bool {
		as, ok := n.N.(*ast.AssignStmt)
		if !ok || len(as.Lhs) != 1 || len(as.Rhs) != 1 || core.FieldOf(info, as.Lhs[0]) != filesF {
			return false
		}
		c, ok := ast.Unparen(as.Rhs[0]).(*ast.CallExpr)
		return ok && core.Builtin("append")(info, c) && res != nil && core.X1MentionsObj(info, c, res)
	})
	if !r.Check(len(recv) == 1 && res != nil && len(adds) >= 1, rule, f.String(), "collect:absent", f.Pos(), "one receive of a reader result, appended to f.files") {
		return
	}
	// a result is left out of f.files only when it carries an error (Open then
	// fails) or no reader
	fieldOfRes := func(wantErr bool) func(ast.Expr) bool {
		return func(e ast.Expr) bool {
			root, path, ok := core.X1FieldPath(info, e)
			if !ok || root != res || len(path) != 1 {
				return false
			}
			return core.IsErrorType(path[0].Type()) == wantErr
		}
	}
	failed := core.X1NilEdge(info, fieldOfRes(true), false)
	noReader := core.X1NilEdge(info, fieldOfRes(false), true)
	isAdd := func(n *core.Node) bool {
		for _, a := range adds {
			if a == n {
				return true
			}
		}
		return false
	}
	dropped := g.Reach(core.X1Succs(recv[0]), isAdd, core.X1OrEdges(failed, noReader))
	bad := dropped[recv[0]]
	for _, x := range core.X1ExitsIn(dropped) {
		if g.X1IsSuccessExit(x) {
			bad = true
		}
	}
	r.Check(!bad, rule, f.String(), "every-result-kept-or-fatal", g.Line(recv[0]), "after a reader result is received, the next result or a non-failing return is reached only through the append to f.files, or on a branch that established res.err != nil / res.r == nil")
	// on the branch that knows res.err != nil, Open fails with it
	ft := m1EdgeTargets(g, failed)
	bad = len(ft) == 0
	for _, t := range ft {
		for _, x := range core.X1ExitsIn(g.Reach([]*core.Node{t}, nil, nil)) {
			rs, ok := x.N.(*ast.ReturnStmt)
			if !ok || len(rs.Results) != 1 || core.IsNilIdent(info, rs.Results[0]) {
				bad = true
			}
		}
		if g.Reach([]*core.Node{t}, nil, nil)[recv[0]] {
			bad = true
		}
	}
	r.Check(!bad, rule, f.String(), "reader-error-fatal", g.Line(recv[0]), "a reader that failed to load its file makes Open return a non-nil error (the shard does not come up silently without a file)")
	// the files opened are those matching *.tsm in the directory
	okGlob := false
	for _, rs := range core.RangeOver(f.Decl.Body, func(e ast.Expr) bool {
		_, from := core.X1OnlyFromCall(info, f.Decl.Body, core.ObjOf(info, e), call("path/filepath.Glob"), 0)
		return from
	}) {
		if len(core.AllCalls(info, rs.Body, call("tsdb/engine/tsm1.NewTSMReader"))) > 0 {
			okGlob = true
		}
	}
	r.Check(okGlob, rule, f.String(), "reader-per-globbed-file", f.Pos(), "a TSMReader is created inside the loop over filepath.Glob(dir/*.tsm)")
	// Open succeeds without looking at the directory only when no directory is configured
	dirF := core.LookupField(f.Pkg.Types, "FileStore", "dir")
	noDir := core.X1FactEdge(core.X1AnyFact(core.X1CmpFact(core.X1IsField(info, dirF), func(e ast.Expr) bool {
		tv, ok := info.Types[e]
		return ok && tv.Value != nil && tv.Value.ExactString() == `""`
	}, core.X1EQ), core.X1LenZeroFact(info, core.X1IsField(info, dirF), true)))
	core.RuleMustPassN(r, f, g, rule, "filepath.Glob(unless f.dir is empty)", g.CallingDirect(call("path/filepath.Glob")), noDir)
	// the reader goroutine: a failed NewTSMReader never yields an error-free result,
	// and a file is renamed away (".bad") only after its reader failed
	for _, lg := range f.Graphs() {
		mk := lg.Select(lg.CallingDirect(call("tsdb/engine/tsm1.NewTSMReader")))
		if lg == g || len(mk) == 0 {
			continue
		}
		ev, _ := core.ObjOf(info, m1LastLhs(mk[0].N)).(*types.Var)
		if !r.Check(ev != nil && core.IsErrorType(ev.Type()), rule, f.String(), "reader-error:absent", lg.Line(mk[0]), "the error of NewTSMReader is kept in a variable") {
			continue
		}
		after := lg.Reach(m1EdgeTargets(lg, core.X1NilEdge(info, core.X1IsObj(info, ev), false)), nil, nil)
		okSend, nSend := true, 0
		for n := range after {
			s, isSend := n.N.(*ast.SendStmt)
			if !isSend {
				continue
			}
			nSend++
			hasErr := false
			ast.Inspect(s.Value, func(y ast.Node) bool {
				if kv, isKV := y.(*ast.KeyValueExpr); isKV {
					if t := info.TypeOf(kv.Value); t != nil && core.IsErrorType(t) && !core.IsNilIdent(info, kv.Value) {
						hasErr = true
					}
				}
				return true
			})
			if !hasErr {
				okSend = false
			}
		}
		r.Check(okSend && nSend >= 1, rule, f.String(), "failed-reader-reported", lg.Line(mk[0]), "every result sent on the branch that knows NewTSMReader failed carries a non-nil error (the file is not silently skipped)")
		okOnly := lg.ReachFromEntry(nil, core.X1NilEdge(info, core.X1IsObj(info, ev), false))
		okRen := true
		for _, n := range lg.Select(lg.CallingDirect(call("os.Rename", "os.Remove", "os.RemoveAll", "pkg/file.RenameFile"))) {
			if okOnly[n] {
				okRen = false
			}
		}
		r.Check(okRen, rule, f.String(), "file-moved-away-only-if-unreadable", lg.Line(mk[0]), "a TSM file is renamed/removed by Open only on the branch that knows its reader failed")
	}
}

// m1RollSyncsPending: writers queued in l.syncWaiters are acknowledged by the next
// WAL.sync, which fsyncs whatever l.currentSegmentWriter is at that moment. Before
// the current writer is replaced (segment roll) or dropped, the pending waiters
// must therefore be synced against the writer that holds their bytes, and that
// writer must be closed (its buffer flushed).
func m1RollSyncsPending(p *core.Prog, r *core.Report) {
	const rule = "wal-roll-syncs-pending"
	wF := core.LookupField(p.Pkg(tsm1).Types, "WAL", "currentSegmentWriter")
	if !r.Check(wF != nil, "anchor", "tsm1.WAL.currentSegmentWriter", "unresolved", "-", "field resolved") {
		return
	}
	syncC, closeC := call("tsdb/engine/tsm1.WAL.sync"), call("tsdb/engine/tsm1.WALSegmentWriter.close")
	if f := r.Need(p, tsm1, "WAL.closeCurrentSegmentFile"); f != nil {
		info, g := f.Info(), f.Graph()
		none := core.X1NilEdge(info, core.X1IsField(info, wF), true)
		core.RuleMustPassN(r, f, g, rule, "WAL.sync(unless no writer)", g.Calling(syncC), none)
		core.RuleMustPassN(r, f, g, rule, "WALSegmentWriter.close(unless no writer)", g.Calling(closeC), none)
		core.RuleOrder(r, f, rule, []string{"WAL.sync", "WALSegmentWriter.close"}, []core.Matcher{syncC, closeC})
		// the writer is forgotten only after it was closed
		reach := g.ReachFromEntry(g.Calling(closeC), nil)
		ok := true
		for _, n := range g.Select(g.Assigning(wF)) {
			if reach[n] {
				ok = false
			}
		}
		r.Check(ok, rule, f.String(), "close<writer-dropped", f.Pos(), "l.currentSegmentWriter is overwritten only after the old writer was closed")
	}
	if f := r.Need(p, tsm1, "WAL.newSegmentFile"); f != nil {
		g := f.Graph()
		closed := g.CallingDeep(call("tsdb/engine/tsm1.WAL.closeCurrentSegmentFile"))
		reach := g.ReachFromEntry(closed, nil)
		st := g.Select(g.Assigning(wF))
		ok := len(st) >= 1 && len(g.Select(closed)) >= 1
		for _, n := range st {
			if reach[n] {
				ok = false
			}
		}
		r.Check(ok, rule, f.String(), "closeCurrentSegmentFile<new-writer", f.Pos(), "the new segment writer is installed only after the current one was synced and closed")
	}
}

// m1SyncDirTolerance: the one directory-fsync failure that SyncDir may swallow is
// EINVAL (file systems without directory fsync). From the Sync call no success
// exit is reachable except through a branch that established err == nil or
// <PathError>.Err == syscall.EINVAL.
func m1SyncDirTolerance(p *core.Prog, r *core.Report) {
	const rule = "syncdir-failure-reported"
	f := r.Need(p, filePk, "SyncDir")
	if f == nil {
		return
	}
	info, g := f.Info(), f.Graph()
	syncs := g.Select(g.Calling(call("os.File.Sync")))
	if !r.Check(len(syncs) >= 1, rule, f.String(), "Sync:absent", f.Pos(), "the directory is fsynced") {
		return
	}
	isEINVAL := func(e ast.Expr) bool {
		var o types.Object
		switch x := ast.Unparen(e).(type) {
		case *ast.SelectorExpr:
			o = info.Uses[x.Sel]
		case *ast.Ident:
			o = info.Uses[x]
		}
		return o != nil && o.Pkg() != nil && (o.Pkg().Path() == "syscall" || o.Pkg().Path() == "golang.org/x/sys/unix") && o.Name() == "EINVAL"
	}
	any := func(ast.Expr) bool { return true }
	einval := core.X1FactEdge(core.X1AnyFact(core.X1CmpFact(any, isEINVAL, core.X1EQ), func(ft core.X1Fact) bool {
		c, ok := ft.E.(*ast.CallExpr)
		return ok && ft.True && call("errors.Is")(info, c) && len(c.Args) == 2 && isEINVAL(ast.Unparen(c.Args[1]))
	}))
	ok := true
	for _, n := range syncs {
		v := core.ObjOf(info, m1LastLhs(n.N))
		if v == nil {
			// `return dir.Sync()` / `if err := …` handled by failure-propagates
			continue
		}
		fine := core.X1OrEdges(einval, core.X1NilEdge(info, core.X1IsObj(info, v), true))
		for _, x := range core.X1ExitsIn(g.Reach(core.X1Succs(n), nil, fine)) {
			if g.X1IsSuccessExit(x) {
				ok = false
			}
		}
	}
	r.Check(ok, rule, f.String(), "only-EINVAL-tolerated", g.Line(syncs[0]), "after dir.Sync() a non-failing return is reachable only through a branch that established err == nil or Err == syscall.EINVAL")
}

// ---------------------------------------------------------------- open-replays-wal

func m1OpenReplays(p *core.Prog, r *core.Report) {
	const rule = "open-replays-wal"
	if f := r.Need(p, tsm1, "Engine.Open"); f != nil {
		info := f.Info()
		// same-package helpers spliced in, so that `e.openWAL()` wrapping the WALEnabled test is seen through
		g := f.Inline(call("tsdb/engine/tsm1.Engine.cleanup", "tsdb/engine/tsm1.FileStore.Open", "tsdb/engine/tsm1.WAL.Open", "tsdb/engine/tsm1.Engine.reloadCache")).G
		if g == nil {
			g = f.Graph()
		}
		walOff := core.X1BoolEdge(core.X1IsField(info, core.LookupField(f.Pkg.Types, "Engine", "WALEnabled")), false)
		core.RuleMustPassN(r, f, g, rule, "Engine.cleanup", g.CallingDeep(call("tsdb/engine/tsm1.Engine.cleanup")), nil)
		core.RuleMustPassN(r, f, g, rule, "FileStore.Open", g.CallingDeep(call("tsdb/engine/tsm1.FileStore.Open")), nil)
		core.RuleMustPassN(r, f, g, rule, "WAL.Open(unless !WALEnabled)", g.CallingDeep(call("tsdb/engine/tsm1.WAL.Open")), walOff)
		core.RuleMustPassN(r, f, g, rule, "Engine.reloadCache(unless !WALEnabled)", g.CallingDeep(call("tsdb/engine/tsm1.Engine.reloadCache")), walOff)
	}
	if f := r.Need(p, tsm1, "Engine.reloadCache"); f != nil {
		info, g := f.Info(), f.Graph()
		// the cache limit is lifted before the replay: a WAL that holds more than
		// cache-max-memory-size (a snapshot was in flight at the crash) must still load
		unl := g.X1CallingWith(call("tsdb/engine/tsm1.Cache.SetMaxSize"), func(c *ast.CallExpr) bool {
			return len(c.Args) == 1 && core.X1IsConstInt(info, core.ResolveLocal(info, f.Decl.Body, c.Args[0]), 0)
		})
		loads := g.Select(g.CallingDeep(call("tsdb/engine/tsm1.CacheLoader.Load")))
		ok := len(loads) >= 1 && len(g.Select(unl)) >= 1
		reach := g.ReachFromEntry(unl, nil)
		for _, n := range loads {
			if reach[n] {
				ok = false
			}
		}
		r.Check(ok, rule, f.String(), "SetMaxSize(0)<CacheLoader.Load", f.Pos(), "the replay runs with the cache size limit lifted (Cache.SetMaxSize(0) on every path to CacheLoader.Load)")
		// the loader is given the segment files found in the WAL directory
		seg := call("tsdb/engine/tsm1.segmentFileNames")
		okSrc := false
		for _, c := range core.AllCalls(info, f.Decl.Body, call("tsdb/engine/tsm1.NewCacheLoader")) {
			if len(c.Args) == 1 {
				if o := core.ObjOf(info, c.Args[0]); o != nil && assignedOnlyFrom(f, o, seg) {
					okSrc = true
				} else if core.AsCall(info, c.Args[0], seg) != nil {
					okSrc = true
				}
			}
		}
		r.Check(okSrc, rule, f.String(), "loader-gets-segment-files", f.Pos(), "the cache loader is built from segmentFileNames(WAL path)")
	}
	if f := r.Need(p, tsm1, "CacheLoader.Load"); f != nil {
		info := f.Info()
		next := call("tsdb/engine/tsm1.WALSegmentReader.Next")
		found := false
		openC := call("os.OpenFile", "os.Open")
		for _, g := range f.Graphs() {
			if len(g.Select(g.CallingDirect(next))) == 0 || len(g.Exits) == 0 {
				continue
			}
			found = true
			opens := g.Select(g.CallingDirect(openC))
			if !r.Check(len(opens) >= 1, rule, f.String(), "segment-open:absent", f.Pos(), "the graph that drives the entry loop opens the segment file") {
				continue
			}
			// nothing to replay: the branch on which a Size() is known to be zero
			isSize := func(e ast.Expr) bool {
				e = core.ResolveLocal(info, f.Decl.Body, e)
				c, ok := ast.Unparen(e).(*ast.CallExpr)
				return ok && call("*.Size")(info, c)
			}
			empty := core.X1FactEdge(core.X1AnyFact(core.X1CmpFact(isSize, core.X1IsIntConst(info, 0), core.X1EQ), core.X1CmpFact(isSize, core.X1IsIntConst(info, 0), core.X1LE)))
			// from a successfully opened segment no success exit and no next segment is
			// reached without driving the entry loop, unless the segment is empty
			skipped := g.Reach(core.X1SuccsOf(opens), g.CallingDirect(next), empty)
			bad := ""
			for _, x := range core.X1ExitsIn(skipped) {
				if g.X1IsSuccessExit(x) {
					bad = g.Line(x)
				}
			}
			for _, o := range opens {
				if skipped[o] {
					bad = g.Line(o)
				}
			}
			r.Check(bad == "", rule, f.String(), "segment-replayed-unless-empty", g.Line(opens[0]), "after a segment file was opened, success / the next segment is reached only through the WALSegmentReader.Next loop, or on a branch that established Size() == 0 "+bad)
			// each segment is read from its own file: the reader is (re)bound to the file opened in this iteration
			bind := core.AnyOf(g.CallingDirect(call("tsdb/engine/tsm1.NewWALSegmentReader")), g.CallingDirect(call("tsdb/engine/tsm1.WALSegmentReader.Reset")))
			reach := g.Reach(core.X1SuccsOf(opens), bind, nil)
			okBind := len(g.Select(bind)) >= 1
			for _, n := range g.Select(g.CallingDirect(next)) {
				if reach[n] {
					okBind = false
				}
			}
			r.Check(okBind, rule, f.String(), "reader-bound-to-segment", f.Pos(), "the entry loop is reached only after the reader was created on / reset to the segment file of this iteration")
		}
		r.Check(found, rule, f.String(), "replay-loop:absent", f.Pos(), "a graph of Load drives WALSegmentReader.Next")
		// every file of the loader is visited
		files := core.LookupField(f.Pkg.Types, "CacheLoader", "files")
		rs := core.RangeOver(f.Decl.Body, core.X1IsField(info, files))
		okAll := len(rs) == 1
		for _, s := range rs {
			if len(core.AllCalls(info, s.Body, next)) == 0 {
				okAll = false
			}
			// no early break out of the file loop in the loop's own statements
			for _, st := range s.Body.List {
				if b, isB := st.(*ast.BranchStmt); isB {
					_ = b
					okAll = false
				}
			}
		}
		r.Check(okAll, rule, f.String(), "all-segments", f.Pos(), "the replay ranges over all of cl.files")
	}
}

// ---------------------------------------------------------------- wal-reader

func m1WalReader(p *core.Prog, r *core.Report) {
	const rule = "wal-reader"
	f := r.Need(p, tsm1, "WALSegmentReader.Next")
	if f == nil {
		return
	}
	info := f.Info()
	in := f.Inline(call("io.ReadFull", "github.com/golang/snappy.*", "tsdb/engine/tsm1.WALEntry.UnmarshalBinary"))
	g := in.G
	if g == nil {
		g = f.Graph()
	}
	isErr := func(e ast.Expr) bool { t := info.TypeOf(e); return t != nil && core.IsErrorType(t) }
	isEOF := func(e ast.Expr) bool {
		var o types.Object
		switch x := ast.Unparen(e).(type) {
		case *ast.SelectorExpr:
			o = info.Uses[x.Sel]
		case *ast.Ident:
			o = info.Uses[x]
		}
		return o != nil && o.Pkg() != nil && o.Pkg().Path() == "io" && o.Name() == "EOF"
	}
	eof := core.X1FactEdge(core.X1AnyFact(core.X1CmpFact(isErr, isEOF, core.X1EQ), func(ft core.X1Fact) bool {
		c, ok := ft.E.(*ast.CallExpr)
		return ok && ft.True && call("errors.Is")(info, c) && len(c.Args) == 2 && isEOF(ast.Unparen(c.Args[1]))
	}))
	ends, more := g.ConstBoolExits(0, false), g.ConstBoolExits(0, true)
	if r.Check(len(ends) >= 1 && len(more) >= 1, rule, f.String(), "exits:absent", f.Pos(), "Next has `return false` (segment exhausted) and `return true` (entry or error pending) exits") {
		reach := g.ReachFromEntry(nil, eof)
		bad := ""
		for _, x := range ends {
			if reach[x] {
				bad = g.Line(x)
			}
		}
		r.Check(bad == "", rule, f.String(), "end-only-on-EOF", f.Pos(), "end-of-segment is reported only on a branch that established err == io.EOF: any other read outcome is either an entry or an error that Read hands to the loader for truncation "+bad)
	}
	// a failed step is recorded and never counted
	errF := core.LookupField(f.Pkg.Types, "WALSegmentReader", "err")
	nF := core.LookupField(f.Pkg.Types, "WALSegmentReader", "n")
	if !r.Check(errF != nil && nF != nil, "anchor", "tsm1.WALSegmentReader.err/n", "unresolved", f.Pos(), "fields resolved") {
		return
	}
	sites, okAll := 0, true
	for _, n := range g.Nodes {
		if n.N == nil {
			continue
		}
		if _, isAs := n.N.(*ast.AssignStmt); !isAs {
			continue
		}
		hasErrCall := false
		for _, c := range core.CallsIn(info, n.N, func(*types.Info, *ast.CallExpr) bool { return true }, core.WalkOpts{}) {
			if sig, ok := info.TypeOf(c.Fun).(*types.Signature); ok && sig.Results().Len() > 0 && core.IsErrorType(sig.Results().At(sig.Results().Len()-1).Type()) {
				hasErrCall = true
			}
		}
		if !hasErrCall {
			continue
		}
		lhs := m1LastLhs(n.N)
		if lhs == nil {
			continue // stored straight into a field: decided by n-advance-guard
		}
		v, _ := core.ObjOf(info, lhs).(*types.Var)
		if v == nil || v.IsField() || !core.IsErrorType(v.Type()) {
			continue // stored straight into a field: decided by n-advance-guard
		}
		// the branches on which this step's error is known non-nil, before v is assigned again
		live := g.Reach(core.X1Succs(n), g.AssigningObj(v), nil)
		var fails []*core.Node
		isFail := core.X1NilEdge(info, core.X1IsObj(info, v), false)
		for m := range live {
			for _, e := range m.Succ {
				if isFail(e) {
					fails = append(fails, e.To)
				}
			}
		}
		for _, e := range n.Succ {
			if isFail(e) {
				fails = append(fails, e.To)
			}
		}
		sites++
		if len(fails) == 0 {
			okAll = false
			r.Bad(rule, f.String(), "step-error-untested", g.Line(n), "the error of this read/decode step is never tested against nil")
			continue
		}
		// (the io.EOF branch of the header read is the one failure that is not an error)
		rec := func(m *core.Node) bool {
			if !g.Assigning(errF)(m) {
				return false
			}
			as, isAs := m.N.(*ast.AssignStmt)
			if !isAs || len(as.Rhs) != 1 {
				return false
			}
			// (in a spliced helper the stored value is the helper's parameter: follow it to the argument)
			rhs := as.Rhs[0]
			if core.X1MentionsObj(info, rhs, v) {
				return true
			}
			if pv, isVar := core.ObjOf(info, rhs).(*types.Var); isVar {
				for _, s := range in.Sites {
					var sig *types.Signature
					if s.Helper != nil {
						sig, _ = s.Helper.Obj.Type().(*types.Signature)
					} else if s.Lit != nil {
						sig, _ = info.TypeOf(s.Lit).(*types.Signature)
					}
					if sig == nil || sig.Variadic() || sig.Params().Len() != len(s.Call.Args) {
						continue
					}
					for k := 0; k < sig.Params().Len(); k++ {
						if sig.Params().At(k) == pv && core.X1MentionsObj(info, s.Call.Args[k], v) {
							return true
						}
					}
				}
			}
			return false
		}
		if len(core.X1ExitsIn(g.Reach(fails, rec, eof))) > 0 {
			okAll = false
			r.Bad(rule, f.String(), "failure-not-recorded", g.Line(n), "after this step failed Next can return without storing the error in r.err: Read then hands out a stale entry and the torn tail is not truncated")
		}
		after := g.Reach(fails, nil, eof)
		for _, m := range g.Select(g.Assigning(nF)) {
			if after[m] {
				okAll = false
				r.Bad(rule, f.String(), "failed-step-counted-valid", g.Line(n), "after this step failed the valid-byte counter can still be advanced")
			}
		}
	}
	if r.Check(sites >= 4, rule, f.String(), "steps:count", f.Pos(), fmt.Sprintf("%d read/decode steps with a tested error (header, body, snappy length, snappy decode confirmed by reading)", sites)) && okAll {
		r.Ok(rule, f.String(), f.Pos(), "every failed read/decode step is recorded in r.err and leaves the valid-byte counter alone")
	}
	// Read hands out the pending error before the entry
	if rd := r.Need(p, tsm1, "WALSegmentReader.Read"); rd != nil {
		rg := rd.Graph()
		pend := core.X1NilEdge(rd.Info(), core.X1IsField(rd.Info(), errF), false)
		bad := false
		for _, x := range core.X1ExitsIn(rg.Reach(m1EdgeTargets(rg, pend), nil, nil)) {
			if rg.X1IsSuccessExit(x) {
				bad = true
			}
		}
		r.Check(len(m1EdgeTargets(rg, pend)) >= 1 && !bad, rule, rd.String(), "pending-error-returned", rd.Pos(), "when r.err is set Read fails (the loader truncates), it never returns the entry")
	}
	if ct := r.Need(p, tsm1, "WALSegmentReader.Count"); ct != nil {
		r.Check(core.X1MentionsField(ct.Info(), ct.Decl.Body, nF), rule, ct.String(), "returns-n", ct.Pos(), "Count reports the valid-byte counter")
	}
}

func m1LastLhs(n ast.Node) ast.Expr {
	as, ok := n.(*ast.AssignStmt)
	if !ok {
		return nil
	}
	for i := len(as.Lhs) - 1; i >= 0; i-- {
		if id, ok := as.Lhs[i].(*ast.Ident); ok && id.Name != "_" {
			return id
		}
	}
	return nil
}

func m1EdgeTargets(g *core.Graph, p core.EdgePred) []*core.Node {
	var out []*core.Node
	for _, n := range g.Nodes {
		for _, e := range n.Succ {
			if p(e) {
				out = append(out, e.To)
			}
		}
	}
	return out
}

// ---------------------------------------------------------------- snapshot-retry

func m1SnapshotRetry(p *core.Prog, r *core.Report) {
	const rule = "snapshot-retry"
	f := r.Need(p, tsm1, "Cache.Snapshot")
	if f == nil {
		return
	}
	info, g := f.Info(), f.Graph()
	snapF := core.LookupField(f.Pkg.Types, "Cache", "snapshot")
	storeF := core.LookupField(f.Pkg.Types, "Cache", "store")
	sizeF := core.LookupField(f.Pkg.Types, "Cache", "size")
	if !r.Check(snapF != nil && storeF != nil && sizeF != nil, "anchor", "tsm1.Cache.snapshot/store/size", "unresolved", f.Pos(), "fields resolved") {
		return
	}
	// (a) the snapshot cache (which after a failed attempt still holds the data
	// whose WAL segments are about to be removed) is only ever created, never replaced
	isSnap := func(e ast.Expr) bool {
		_, path, ok := core.X1FieldPath(info, e)
		return ok && len(path) == 1 && path[0] == snapF
	}
	whole := func(n *core.Node) bool { // c.snapshot = …  (not c.snapshot.store = …)
		as, ok := n.N.(*ast.AssignStmt)
		if !ok {
			return false
		}
		for _, l := range as.Lhs {
			if isSnap(ast.Unparen(l)) {
				return true
			}
		}
		return false
	}
	notNil := g.ReachFromEntry(nil, core.X1NilEdge(info, isSnap, true))
	ok := true
	for _, n := range g.Select(whole) {
		if notNil[n] {
			ok = false
		}
	}
	r.Check(ok, rule, f.String(), "snapshot-replaced-only-if-nil", f.Pos(), "c.snapshot is assigned only on a branch that established c.snapshot == nil (a retained snapshot of a failed attempt is never dropped)")
	// (a') one snapshot at a time: a second Snapshot while the first is being written
	// would pair the first snapshot's data with WAL segments closed later
	if busyF := core.LookupField(f.Pkg.Types, "Cache", "snapshotting"); r.Check(busyF != nil, "anchor", "tsm1.Cache.snapshotting", "unresolved", f.Pos(), "field resolved") {
		free := core.X1BoolEdge(core.X1IsField(info, busyF), false)
		bad := ""
		for _, x := range core.X1ExitsIn(g.ReachFromEntry(nil, free)) {
			if g.X1IsSuccessExit(x) {
				bad = g.Line(x)
			}
		}
		r.Check(bad == "", rule, f.String(), "refused-while-snapshotting", f.Pos(), "a snapshot is handed out only on a branch that established c.snapshotting == false "+bad)
		mark := func(n *core.Node) bool {
			as, ok := n.N.(*ast.AssignStmt)
			return ok && len(as.Lhs) == 1 && len(as.Rhs) == 1 && core.FieldOf(info, as.Lhs[0]) == busyF && core.X1IsConstBool(info, as.Rhs[0], true)
		}
		core.RuleMustPassN(r, f, g, rule, "c.snapshotting = true", mark, nil)
	}
	// (b) the store swap happens only after the existing snapshot was found empty
	swap := func(n *core.Node) bool {
		as, ok := n.N.(*ast.AssignStmt)
		if !ok {
			return false
		}
		for _, l := range as.Lhs {
			if _, path, ok := core.X1FieldPath(info, ast.Unparen(l)); ok && len(path) == 2 && path[0] == snapF && path[1] == storeF {
				return true
			}
		}
		return false
	}
	isSnapSize := func(e ast.Expr) bool {
		c, isCall := ast.Unparen(core.ResolveLocal(info, f.Decl.Body, e)).(*ast.CallExpr)
		return isCall && call("tsdb/engine/tsm1.Cache.Size", "tsdb/engine/tsm1.Cache.Count")(info, c) && isSnap(ast.Unparen(core.Recv(c)))
	}
	zero := core.X1IsIntConst(info, 0)
	empty := core.X1FactEdge(core.X1AnyFact(core.X1CmpFact(isSnapSize, zero, core.X1EQ), core.X1CmpFact(isSnapSize, zero, core.X1LE)))
	sw := g.Select(swap)
	if r.Check(len(sw) >= 1, rule, f.String(), "store-swap:absent", f.Pos(), "the snapshot takes over the live store") {
		unchecked := g.ReachFromEntry(nil, empty)
		bad := false
		for _, n := range sw {
			if unchecked[n] {
				bad = true
			}
		}
		r.Check(!bad, rule, f.String(), "swap-only-if-snapshot-empty", g.Line(sw[0]), "the stores are swapped only on a branch that established c.snapshot.Size() == 0 (the data of a failed attempt is not swapped back into the live store and reset)")
		// (c) that test can see a retained snapshot: the swap path records the snapshot's size
		rec := func(n *core.Node) bool {
			hit := false
			core.Walk(n.N, core.WalkOpts{}, func(y ast.Node) bool {
				switch x := y.(type) {
				case *ast.CallExpr:
					if call("sync/atomic.StoreUint64", "sync/atomic.AddUint64")(info, x) && len(x.Args) == 2 {
						if _, path, ok := core.X1FieldPath(info, core.StripAddrDeref(x.Args[0])); ok && len(path) == 2 && path[0] == snapF && path[1] == sizeF {
							hit = true
						}
					}
				case *ast.AssignStmt:
					for _, l := range x.Lhs {
						if _, path, ok := core.X1FieldPath(info, ast.Unparen(l)); ok && len(path) == 2 && path[0] == snapF && path[1] == sizeF {
							hit = true
						}
					}
				}
				return true
			})
			return hit
		}
		okRec := true
		for _, n := range sw {
			if len(core.X1ExitsIn(g.Reach(core.X1Succs(n), func(m *core.Node) bool { return m.N != nil && rec(m) }, nil))) > 0 {
				okRec = false
			}
		}
		r.Check(okRec, rule, f.String(), "swap-records-snapshot-size", g.Line(sw[0]), "after the swap every return passes a store of c.snapshot.size (the emptiness test of the next attempt reads it)")
	}
	// ClearSnapshot: the snapshot's data is dropped exactly when the caller reports success
	if cs := r.Need(p, tsm1, "Cache.ClearSnapshot"); cs != nil {
		ci, cg := cs.Info(), cs.Graph()
		succP := types.Object(cs.X1Param(0))
		isSucc := func(e ast.Expr) bool {
			return succP != nil && core.ObjOf(ci, core.ResolveLocal(ci, cs.Decl.Body, e)) == succP
		}
		onSuccess := core.X1BoolEdge(isSucc, true)
		onFailure := core.X1BoolEdge(isSucc, false)
		isSnapC := func(e ast.Expr) bool {
			_, path, ok := core.X1FieldPath(ci, e)
			return ok && len(path) == 1 && path[0] == snapF
		}
		drops := core.AnyOf(cg.Calling(call("tsdb/engine/tsm1.storer.reset")), func(n *core.Node) bool {
			as, ok := n.N.(*ast.AssignStmt)
			if !ok {
				return false
			}
			for _, l := range as.Lhs {
				if isSnapC(ast.Unparen(l)) {
					return true
				}
			}
			return false
		})
		un := cg.ReachFromEntry(nil, onSuccess)
		okD := len(cg.Select(drops)) >= 1
		for _, n := range cg.Select(drops) {
			if un[n] {
				okD = false
			}
		}
		r.Check(okD, rule, cs.String(), "snapshot-dropped-only-on-success", cs.Pos(), "the snapshot store is reset / c.snapshot replaced only on a branch that established success == true (after a failed write the data stays for the retry)")
		core.RuleMustPassN(r, cs, cg, rule, "snapshot dropped(unless !success)", drops, onFailure)
		busyF := core.LookupField(cs.Pkg.Types, "Cache", "snapshotting")
		core.RuleMustPassN(r, cs, cg, rule, "c.snapshotting = false", func(n *core.Node) bool {
			as, ok := n.N.(*ast.AssignStmt)
			return ok && len(as.Lhs) == 1 && len(as.Rhs) == 1 && busyF != nil && core.FieldOf(ci, as.Lhs[0]) == busyF && core.X1IsConstBool(ci, as.Rhs[0], false)
		}, nil)
	}
	// Cache.Size of the snapshot reads the size field recorded above
	if sz := r.Need(p, tsm1, "Cache.Size"); sz != nil {
		r.Check(core.X1MentionsField(sz.Info(), sz.Decl.Body, sizeF), rule, sz.String(), "reads-size", sz.Pos(), "Cache.Size reads c.size")
	}
}

// m1SnapshotWritten: a snapshot taken by doWriteSnapshot is either written and
// committed or found empty; it is never released (ClearSnapshot) unwritten.
func m1SnapshotWritten(p *core.Prog, r *core.Report) {
	const rule = "snapshot-written-unless-empty"
	f := r.Need(p, tsm1, "Engine.doWriteSnapshot")
	if f == nil {
		return
	}
	info, g := f.Info(), f.Graph()
	commit := g.CallingDirect(call("tsdb/engine/tsm1.Engine.writeSnapshotAndCommit"))
	clear := g.CallingDirect(call("tsdb/engine/tsm1.Cache.ClearSnapshot"))
	isSize := func(e ast.Expr) bool {
		c, ok := ast.Unparen(core.ResolveLocal(info, f.Decl.Body, e)).(*ast.CallExpr)
		return ok && call("tsdb/engine/tsm1.Cache.Size", "tsdb/engine/tsm1.Cache.Count")(info, c)
	}
	zero := core.X1IsIntConst(info, 0)
	empty := core.X1FactEdge(core.X1AnyFact(core.X1CmpFact(isSize, zero, core.X1EQ), core.X1CmpFact(isSize, zero, core.X1LE)))
	core.RuleMustPassN(r, f, g, rule, "writeSnapshotAndCommit(unless the snapshot is empty)", commit, empty)
	un := g.ReachFromEntry(nil, empty)
	ok := true
	for _, n := range g.Select(clear) {
		if un[n] {
			ok = false
		}
	}
	r.Check(ok, rule, f.String(), "released-unwritten-only-if-empty", f.Pos(), "doWriteSnapshot itself calls Cache.ClearSnapshot only on a branch that established snapshot.Size() == 0")
}

// m1ReplacePublishes: FileStore.replace opens every new file under its final name
// and publishes every file that was not listed for removal.
func m1ReplacePublishes(p *core.Prog, r *core.Report) {
	f := r.Need(p, tsm1, "FileStore.replace")
	if f == nil {
		return
	}
	info, g := f.Info(), f.Graph()
	// (1) a file whose name has the temporary suffix is renamed before it is opened
	// (a reader on the *.tmp name would be published, and the file removed by the
	// start-up cleanup after the WAL segments it replaces are gone)
	{
		const rule = "tmp-renamed-before-open"
		isTmp := core.X1FactEdge(func(ft core.X1Fact) bool {
			c, ok := core.ResolveLocal(info, f.Decl.Body, ft.E).(*ast.CallExpr) // (also through `isTmp := strings.HasSuffix(…)`)
			if !ok || !ft.True || !call("strings.HasSuffix")(info, c) || len(c.Args) != 2 {
				return false
			}
			hit := false
			var scan func(x ast.Expr, depth int)
			scan = func(x ast.Expr, depth int) {
				ast.Inspect(x, func(y ast.Node) bool {
					id, isID := y.(*ast.Ident)
					if !isID {
						return true
					}
					switch o := info.Uses[id].(type) {
					case *types.Const:
						if o.Name() == "TmpTSMFileExtension" {
							hit = true
						}
					case *types.Var:
						if depth < 3 && !o.IsField() {
							if d, ok := core.SingleDef(info, f.Decl.Body, o); ok && d.Rhs != nil {
								scan(d.Rhs, depth+1)
							}
						}
					}
					return true
				})
			}
			scan(c.Args[1], 0)
			return hit
		})
		starts := m1EdgeTargets(g, isTmp)
		opens := g.Select(g.Calling(call("os.Open", "os.OpenFile", "tsdb/engine/tsm1.NewTSMReader")))
		unrenamed := g.Reach(starts, g.Calling(call("os.Rename", "pkg/file.RenameFile")), nil)
		ok := len(starts) >= 1 && len(opens) >= 1
		for _, n := range opens {
			if unrenamed[n] {
				ok = false
			}
		}
		r.Check(ok, rule, f.String(), "rename<open", f.Pos(), "from the branch that found the temporary suffix on a new file's name, the file is opened only after os.Rename")
	}
	// (2) the published set: a file is left out only when its path matched an element of oldFiles
	{
		const rule = "replace-keeps-unlisted-files"
		filesF := core.LookupField(f.Pkg.Types, "FileStore", "files")
		oldP := types.Object(f.X1Param(0))
		// the slice stored into f.files
		var active types.Object
		for _, n := range g.Select(g.Assigning(filesF)) {
			if as, ok := n.N.(*ast.AssignStmt); ok && len(as.Lhs) == 1 && len(as.Rhs) == 1 && core.FieldOf(info, as.Lhs[0]) == filesF {
				if o := core.ObjOf(info, as.Rhs[0]); o != nil {
					active = o
				}
			}
		}
		if !r.Check(active != nil, rule, f.String(), "published-set:absent", f.Pos(), "f.files is assigned from a local slice") {
			return
		}
		var adds []*core.Node
		for _, n := range g.Select(g.X1StoresToObj(active)) {
			if as, ok := n.N.(*ast.AssignStmt); ok && len(as.Rhs) == 1 {
				if c, isCall := ast.Unparen(as.Rhs[0]).(*ast.CallExpr); isCall && core.Builtin("append")(info, c) {
					adds = append(adds, n)
				}
			}
		}
		// the loop over the candidate files that contains the append
		var loop *ast.RangeStmt
		ast.Inspect(f.Decl.Body, func(n ast.Node) bool {
			if rs, ok := n.(*ast.RangeStmt); ok && len(adds) > 0 && rs.Pos() <= adds[0].N.Pos() && adds[0].N.End() <= rs.End() {
				if loop == nil || rs.Pos() < loop.Pos() {
					loop = rs
				}
			}
			return true
		})
		if !r.Check(len(adds) >= 1 && loop != nil, rule, f.String(), "keep-append:absent", f.Pos(), "kept files are appended to the published slice inside the loop over the candidates") {
			return
		}
		head, body, _ := g.LoopNodes(loop)
		matched := core.X1FactEdge(func(ft core.X1Fact) bool {
			x, y, rel, ok := core.X1CmpAtom(ft.E)
			if !ok || !((rel == core.X1EQ && ft.True) || (rel == core.X1NE && !ft.True)) {
				return false
			}
			fromOld := func(e ast.Expr) bool {
				o := core.ObjOf(info, e)
				if o == nil {
					return false
				}
				for _, rs := range core.RangeOver(f.Decl.Body, core.X1IsObj(info, oldP)) {
					if rs.Value != nil && core.ObjOf(info, rs.Value) == o {
						return true
					}
				}
				return false
			}
			return fromOld(x) || fromOld(y)
		})
		isAdd := func(n *core.Node) bool {
			for _, a := range adds {
				if a == n {
					return true
				}
			}
			return false
		}
		if r.Check(head != nil && body != nil, rule, f.String(), "loop:absent", f.Pos(), "candidate loop located in the graph") {
			// from the start of an iteration the next iteration (or a success exit) is
			// reached only through the append, or through a branch that matched the
			// file's path against an element of oldFiles
			// (a keep-flag: a bool of the loop body that starts true and is cleared only
			// behind the match; the branch that knows it cleared stands for the match)
			var flag types.Object
			flagOK := true
			ast.Inspect(loop.Body, func(n ast.Node) bool {
				as, ok := n.(*ast.AssignStmt)
				if !ok || len(as.Lhs) != 1 || len(as.Rhs) != 1 || !core.X1IsConstBool(info, as.Rhs[0], false) {
					return true
				}
				if o := core.ObjOf(info, as.Lhs[0]); o != nil && o.Pos() > loop.Body.Pos() && o.Pos() < loop.Body.End() {
					flag = o
				}
				return true
			})
			stopE := matched
			if flag != nil {
				unmatched := g.Reach([]*core.Node{body}, nil, matched)
				for _, a := range core.X1AssignmentsTo(info, loop.Body, flag) {
					switch {
					case a.Rhs != nil && core.X1IsConstBool(info, a.Rhs, true):
					case a.Rhs != nil && core.X1IsConstBool(info, a.Rhs, false):
						if nd := g.NodeOf(a.Stmt); nd == nil || unmatched[nd] {
							flagOK = false
						}
					default:
						flagOK = false
					}
				}
				if flagOK {
					stopE = core.X1OrEdges(matched, core.X1BoolEdge(core.X1IsObj(info, flag), false))
				}
			}
			lost := g.Reach([]*core.Node{body}, isAdd, stopE)
			bad := lost[head]
			for _, x := range core.X1ExitsIn(lost) {
				if g.X1IsSuccessExit(x) {
					bad = true
				}
			}
			r.Check(!bad, rule, f.String(), "unlisted-file-kept", g.Line(adds[0]), "a candidate file is left out of the published set only on a branch that found its path equal to an element of oldFiles")
		}
	}
}
