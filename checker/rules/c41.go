package rules

import (
	"fmt"
	"go/ast"
	"go/constant"
	"go/token"
	"go/types"
	"sort"
	"strconv"
	"strings"

	"verif/checker/core"
)

// C41 — Flux window-aggregate tables (storage/flux), registered check.
//
// Purely structural: go/types, per-function CFGs, edge facts, resolved callees
// and fields, and finite decision tables (core/dtable.go) for the two loop-free
// predicates isSelector / isAggregateCount. No function body is evaluated on
// inputs. (The scenario interpreter of rules/c41_discover.go is a debugging aid
// that no registered property calls.)

func init() {
	register(&Prop{
		ID:        "C41",
		Patterns:  []string{"./storage/flux"},
		Level:     "other",
		Technique: "static analysis: decision table of the table dispatch by reachability under valuations, CFG edge facts (guards on effects, clip shapes, loop exits), role flow of builders into result positions and column indices, type-level tables, dtable for two pure predicates, sibling uniformity of the generated tables",
		Explanation: "Narrow structural necessary conditions of the window-aggregate tables, decided on storage/flux (reader.go, table.gen.go, table.go, window.go) without evaluating any code: " +
			"(1) table-dispatch — the type switch of (*windowAggregateIterator).handleRead has exactly one arm per cursor interface (Integer, Float, Unsigned, String, Boolean), no arm constructs a table of another value type, tables are built only behind cur != nil; for each of the 16 valuations of (selector, ForceAggregate, CreateEmpty, TimeColumn != \"\") reachability under the valuation reaches exactly one constructor per arm: <T>WindowTable when !selector or ForceAggregate, <T>EmptyWindowSelectorTable when a plain selector has CreateEmpty and no time column, <T>WindowSelectorTable otherwise (a selector with a time column never reports empty windows: aggregateWindow drops them); each constructor receives the arm's own cursor, spec.Bounds, interval.NewWindow(Window.Every, Window.Period, Window.Offset), spec.TimeColumn, and for <T>WindowTable spec.CreateEmpty and isAggregate = !selector under every valuation. " +
			"(2) window-of-timestamp — in every <T>WindowTable.createNextBufferTimes the window of a cursor timestamp is GetLatestBounds(timestamp of t.arr.Timestamps); PrevBounds is applied only on an edge that established t.isAggregate (an aggregate is stamped with the stop of its window, a selector's timestamp lies inside its window — the convention isInWindow uses), and on the isAggregate path getWindowBoundsFor is not reached without it. " +
			"(3) table-end — in every <T>EmptyWindowSelectorTable.advance a `return false` is reachable only through an edge that established windowBounds.Start() >= rangeStop, or that nothing has been produced yet (a boolean field that is only ever set to true and that advance sets on every continuing path) together with arr.Len() == 0; the cursor running dry alone does not end a createEmpty table. Conversely `return true` is reachable only through an edge that established arr.Len() != 0 or windowBounds.Start() < rangeStop. enumeration-exits — the window-enumeration loops (createEmpty branch of createNextBufferTimes, startStopTimes) are left only on an edge establishing start >= end of range (or, for the selector table, that a builder holds MaxPointsPerBlock rows), bounds are appended only behind start < end, and the all-windows loop of <T>WindowTable runs only under createEmpty. row-accounting — every iteration of a bound-appending loop appends exactly one cell to each returned time builder; <T>WindowTable.advance / createNextBufferTimes / <T>WindowSelectorTable.advance report 'no more' only behind nextBuffer() == false, 'no window left', or an empty cursor array. " +
			"(4) clip — <T>WindowTable.getWindowBoundsFor returns max(window start, bounds.Start) and min(window stop, bounds.Stop) (conditional-store, branch-return, min/max builtin or a one-level helper of those shapes); every value appended to the builders that become the start/stop results of createNextBufferTimes is the matching result of getWindowBoundsFor; every value appended to the start/stop builders of <T>WindowSelectorTable.startTimes/stopTimes and <T>EmptyWindowSelectorTable.startTimes/stopTimes/startStopTimes is the window edge or the range bound under the comparison that makes it the max (start) / min (stop), with no advance of windowBounds between the comparison and the append; rangeStart/rangeStop/windowBounds of the empty-window table are initialised from bounds.Start/Stop/GetLatestBounds(bounds.Start). " +
			"(5) empty-window-fill — every <T>WindowCountArrayCursor of storage/reads returns *cursors.IntegerArray (count-is-integer), only newIntegerWindowTable has a fill parameter, handleRead defines the fill value only on the edge isAggregateCount(Aggregates[0]) and as a pointer to the constant 0, isAggregateCount is true exactly for \"count\" (decision table), integerWindowTable.mergeValues dereferences fillValue only behind fillValue != nil, every mergeValues offers AppendNull. value-guard — appendValues calls exactly one of appendValue / appendNull per interval, appendValue only on the ok edge of nextAt and with nextAt's value; nextAt reports ok only behind nextBuffer() and isInWindow(stop, arr.Timestamps[idxInArr]), returns arr.Values[idxInArr] of the same index and advances idxInArr exactly there; isInWindow is true only for start < ts <= stop (aggregate) / start <= ts < stop (selector) of GetLatestBounds(stop-1); in the empty-window selector loops the point's value is appended only behind windowBounds.Start() <= ts < windowBounds.Stop() (null on the other edge, exactly one cell per window), the tested timestamp is arr.Timestamps[idx] unless the array is empty, idx advances exactly on the in-window path, windowBounds = NextBounds(windowBounds) is the only store to it and every iteration passes it, the next cursor array is fetched only at idx == arr.Len() with idx reset to 0. " +
			"(6) column-layout — determineTableColsForWindowAggregate / determineTableColsForSeries label the constant column indices startColIdx, stopColIdx, timeColIdx, valueColIdx (valueColIdxWithoutTime without time column) with _start, _stop, _time, _value under the matching hasTimeCol valuation and give the value column the cursor's column type. column-roles — under each valuation of timeColumn (\"\", _start, _stop) every advance stores the arrays by role under those same indices (start/stop arrays of the clip rule, the cursor's timestamps, the merged values), with the query bounds (GetBounds start/stop into startColIdx/stopColIdx) exactly when there is a time column. key-roles — groupKeyForWindow uses its start parameter only under Label == _start and stop only under _stop; windowTableSplitter.Do keys row i with Times(_start).Value(i), Times(_stop).Value(i). selector-table — isSelector is true exactly for first, last, min, max (decision table). " +
			"(7) sibling-uniformity (additional only) — the per-type instantiations of table.gen.go are token-identical to their Float sibling up to the value-type tokens, with two named exceptions for the Integer fill value; a rewrite of a single instantiation is reported by this rule even when it preserves behaviour (the file is generated from one template).",
		NotCovered: "NOT decided: the values (equality of each row's value with the aggregate of the raw rows — the aggregate cursors are C20's subject); the window arithmetic of flux/interval (GetLatestBounds/NextBounds/PrevBounds are trusted by name); the count of rows per window and that windows are enumerated without gaps (only per-iteration accounting, guards, clips, loop exits and role flows are decided, not a row count); calendar/month windows; cancellation; reference counting and memory accounting; tag columns. The time-column variants startTimes/stopTimes of <T>EmptyWindowSelectorTable are unreachable from handleRead today; they are checked like their siblings but nothing is claimed about their use. Of splitWindows only the key roles are decided, not the slicing of the row buffers. The scenario interpreter core.N2Exec / rules.DiscoverC41 (rules/c41_discover.go) is a discovery aid behind a debug entry point and NOT part of this check.",
		Assumptions: []string{
			"a rule passing means the mechanism is in place on every CFG path, not that computed bounds or values are correct",
			"flux/interval.Window.GetLatestBounds(t) is the window containing t, PrevBounds/NextBounds its neighbours; storage/reads stamps count/sum/mean with the window stop and selectors with the point's time (C20)",
		},
		Run: runC41,
	})
}

type c41Ctx struct {
	p     *core.Prog
	r     *core.Report
	pkT   *types.Package
	roles map[string]map[int]string // function -> result index -> role of the returned array (start/stop/time)
}

func (c *c41Ctx) field(typ, name string) *types.Var {
	v := core.LookupField(c.pkT, typ, name)
	c.r.Check(v != nil, "anchor", c41Pk+"."+typ+"."+name, "unresolved", "-", "field resolved")
	return v
}

func (c *c41Ctx) extField(pkg, typ, name string) *types.Var {
	pk := c.p.Pkg(pkg)
	var v *types.Var
	if pk != nil && pk.Types != nil {
		v = core.LookupField(pk.Types, typ, name)
	}
	c.r.Check(v != nil, "anchor", core.Short(pkg)+"."+typ+"."+name, "unresolved", "-", "field resolved")
	return v
}

func runC41(p *core.Prog, r *core.Report, tier string) {
	pk := p.Pkg(c41Pk)
	if !r.Check(pk != nil && pk.Types != nil, "anchor", c41Pk, "unresolved", "-", "package loaded") {
		return
	}
	c := &c41Ctx{p: p, r: r, pkT: pk.Types}
	c41CountIsInteger(p, r)
	c.dispatch()
	c.fill()
	c.predicates()
	c.windowOfTimestamp()
	c.tableEnd()
	c.clip()
	c.valueGuard()
	c.accounting()
	c.layout()
	c.siblings()
}

// resolve strips conversions and follows single-definition locals.
func c41Resolve(info *types.Info, body ast.Node, e ast.Expr) ast.Expr {
	for i := 0; i < 4; i++ {
		n := core.StripConv(info, core.ResolveLocal(info, body, core.StripConv(info, e)))
		if n == e {
			return n
		}
		e = n
	}
	return e
}

// isFieldOf recognises (through temporaries and conversions) `<root>.<field>`.
func c41IsField(info *types.Info, body ast.Node, fld *types.Var) func(ast.Expr) bool {
	return func(e ast.Expr) bool {
		return fld != nil && core.FieldOf(info, c41Resolve(info, body, e)) == fld
	}
}

// c41MethodOn recognises a call of the method named fname (glob) whose receiver satisfies isRecv.
func c41MethodOn(info *types.Info, body ast.Node, fname string, isRecv func(ast.Expr) bool) func(ast.Expr) bool {
	m := call(fname)
	return func(e ast.Expr) bool {
		cl, ok := c41Resolve(info, body, e).(*ast.CallExpr)
		if !ok || !m(info, cl) {
			return false
		}
		rc := core.Recv(cl)
		return rc != nil && (isRecv == nil || isRecv(rc))
	}
}

// ---------------------------------------------------------------- (1) table-dispatch

var c41TableKinds = []string{"WindowTable", "WindowSelectorTable", "EmptyWindowSelectorTable"}

func c41ExpectedKind(sel, fa, ce, ht bool) string {
	switch {
	case !sel || fa:
		return "WindowTable"
	case ce && !ht:
		return "EmptyWindowSelectorTable"
	}
	return "WindowSelectorTable"
}

func (c *c41Ctx) dispatch() {
	const rule = "table-dispatch"
	p, r := c.p, c.r
	f := r.Need(p, c41Pk, "windowAggregateIterator.handleRead")
	if f == nil {
		return
	}
	info, g, body := f.Info(), f.Graph(), f.Decl.Body
	createEmptyF := c.extField("query", "ReadWindowAggregateSpec", "CreateEmpty")
	forceF := c.extField("query", "ReadWindowAggregateSpec", "ForceAggregate")
	timeColF := c.extField("query", "ReadWindowAggregateSpec", "TimeColumn")
	aggsF := c.extField("query", "ReadWindowAggregateSpec", "Aggregates")
	boundsF := c.extField("query", "ReadFilterSpec", "Bounds")
	everyF := c.extField("github.com/influxdata/flux/execute", "Window", "Every")
	periodF := c.extField("github.com/influxdata/flux/execute", "Window", "Period")
	offsetF := c.extField("github.com/influxdata/flux/execute", "Window", "Offset")
	if createEmptyF == nil || forceF == nil || timeColF == nil || aggsF == nil || boundsF == nil || everyF == nil || periodF == nil || offsetF == nil {
		return
	}
	var sw *core.TypeSwitch10
	for _, s := range core.TypeSwitches10(info, body) {
		if len(s.Arms) >= 3 {
			sw = s
		}
	}
	if !r.Check(sw != nil, rule, f.String(), "type-switch:absent", f.Pos(), "handleRead dispatches on the dynamic type of the cursor") {
		return
	}
	var arms []string
	for _, a := range sw.Arms {
		for _, t := range a.Types {
			arms = append(arms, core.NamedName10(t))
		}
	}
	r.Check(sameSet10(arms, c20AllTypes) && len(arms) == 5, rule, f.String(), "arms", f.Pos(), fmt.Sprintf("one arm per cursor interface (5); found %v", arms))

	isSel := call(c41Pk + ".isSelector")
	// leaf evaluator of the dispatch conditions under a valuation
	mkLeaf := func(sel, fa, ce, ht bool) core.Leaf10 {
		var leaf func(e ast.Expr) (bool, bool)
		leaf = func(e ast.Expr) (bool, bool) {
			e = core.StripConv(info, e)
			if id, ok := e.(*ast.Ident); ok {
				if o, isVar := core.ObjOf(info, id).(*types.Var); isVar && !o.IsField() {
					if d, ok := core.SingleDef(info, body, o); ok && d.Rhs != nil && d.Index == -1 && d.Range == nil {
						return core.EvalCond(d.Rhs, leaf)
					}
				}
				return false, false
			}
			switch fv := core.FieldOf(info, e); {
			case fv == nil:
			case fv == forceF:
				return fa, true
			case fv == createEmptyF:
				return ce, true
			}
			if cl, ok := e.(*ast.CallExpr); ok && isSel(info, cl) {
				return sel, true
			}
			if x, eval, ok := core.LenCmp(info, e); ok && core.FieldOf(info, x) == aggsF {
				return eval(1), true // the spec names one aggregate
			}
			if be, ok := e.(*ast.BinaryExpr); ok && (be.Op == token.EQL || be.Op == token.NEQ) {
				x, y := ast.Unparen(be.X), ast.Unparen(be.Y)
				if cv := core.ConstVal(info, x); cv != nil {
					x, y = y, x
				}
				if cv := core.ConstVal(info, y); cv != nil && cv.Kind() == constant.String && constant.StringVal(cv) == "" &&
					core.FieldOf(info, c41Resolve(info, body, x)) == timeColF {
					return ht == (be.Op == token.NEQ), true
				}
			}
			return false, false
		}
		return leaf
	}
	ctor := call(c41Pk + ".new*Table")
	nCalls := 0
	for _, a := range sw.Arms {
		if len(a.Types) != 1 || a.Types[0] == nil {
			r.Bad(rule, f.String(), "arm:untyped", p.Pos(a.Clause.Pos()), "an arm must name exactly one cursor interface")
			continue
		}
		T := strings.TrimSuffix(strings.TrimPrefix(core.NamedName10(a.Types[0]), "cursors."), "ArrayCursor")
		what := "arm:" + T
		// static facts about every constructor call of the arm
		bad := ""
		seenKinds := map[string]bool{}
		for _, cl := range core.AllCalls(info, a.Clause, ctor) {
			nCalls++
			name := core.Callee(info, cl).Name()
			kind := ""
			for _, k := range c41TableKinds {
				if name == "new"+T+k {
					kind = k
				}
			}
			if kind == "" {
				bad = fmt.Sprintf("%s builds %s, not a window table of its own value type", what, name)
				continue
			}
			seenKinds[kind] = true
			cf := p.FuncOf(core.Callee(info, cl))
			if cf == nil {
				bad = "constructor " + name + " has no body"
				continue
			}
			sig := cf.Obj.Type().(*types.Signature)
			if sig.Params().Len() != len(cl.Args) {
				bad = name + ": argument count"
				continue
			}
			tableTyp := strings.ToLower(T) + kind
			for i := 0; i < sig.Params().Len(); i++ {
				pv := sig.Params().At(i)
				arg := cl.Args[i]
				switch tn := core.NamedName10(pv.Type()); {
				case tn == "cursors."+T+"ArrayCursor":
					if core.ObjOf(info, arg) != a.Bound || a.Bound == nil {
						bad = name + " is not given the arm's own cursor"
					}
				case tn == "execute.Bounds":
					if core.FieldOf(info, c41Resolve(info, body, arg)) != boundsF {
						bad = name + " is not given spec.Bounds"
					}
				case tn == "interval.Window":
					o := core.ObjOf(info, arg)
					okW := false
					if d, ok := core.SingleDef(info, body, o); ok && d.Index == 0 {
						if wc, ok := ast.Unparen(d.Rhs).(*ast.CallExpr); ok && call("*flux/interval.NewWindow")(info, wc) && len(wc.Args) == 3 {
							okW = core.FieldOf(info, c41Resolve(info, body, wc.Args[0])) == everyF &&
								core.FieldOf(info, c41Resolve(info, body, wc.Args[1])) == periodF &&
								core.FieldOf(info, c41Resolve(info, body, wc.Args[2])) == offsetF
						}
					}
					if !okW {
						bad = name + " is not given interval.NewWindow(Window.Every, Window.Period, Window.Offset)"
					}
				default:
					// parameters stored into a named field of the table
					switch c.ctorField(cf, tableTyp, i) {
					case "createEmpty":
						if core.FieldOf(info, c41Resolve(info, body, arg)) != createEmptyF {
							bad = name + ": createEmpty is not spec.CreateEmpty"
						}
					case "timeColumn":
						if core.FieldOf(info, c41Resolve(info, body, arg)) != timeColF {
							bad = name + ": timeColumn is not spec.TimeColumn"
						}
					case "isAggregate":
						for v := 0; v < 16; v++ {
							sel, fa, ce, ht := v&1 != 0, v&2 != 0, v&4 != 0, v&8 != 0
							val, known := core.EvalCond(arg, core.LeafEval(mkLeaf(sel, fa, ce, ht)))
							if !known || val != !sel {
								bad = name + ": isAggregate is not !selector"
							}
						}
					}
				}
			}
		}
		for _, k := range c41TableKinds {
			if !seenKinds[k] && bad == "" {
				bad = what + " never builds a " + T + k
			}
		}
		// decision table
		for v := 0; v < 16 && bad == ""; v++ {
			sel, fa, ce, ht := v&1 != 0, v&2 != 0, v&4 != 0, v&8 != 0
			reach := g.ReachUnder10([]*core.Node{g.Entry}, nil, mkLeaf(sel, fa, ce, ht))
			got := map[string]bool{}
			for _, n := range g.Nodes {
				if n.N == nil || !reach[n] || !core.InRegion(n, a.Clause) {
					continue
				}
				for _, cl := range core.CallsIn(info, n.N, ctor, core.WalkOpts{}) {
					got[strings.TrimPrefix(core.Callee(info, cl).Name(), "new"+T)] = true
				}
			}
			var ks []string
			for k := range got {
				ks = append(ks, k)
			}
			sort.Strings(ks)
			want := c41ExpectedKind(sel, fa, ce, ht)
			if len(ks) != 1 || ks[0] != want {
				bad = fmt.Sprintf("selector=%v forceAggregate=%v createEmpty=%v timeColumn!=\"\"=%v reaches %v, expected %s", sel, fa, ce, ht, ks, want)
			}
		}
		r.Check(bad == "", rule, f.String(), what, p.Pos(a.Clause.Pos()),
			"builds only tables of its own value type with (own cursor, spec.Bounds, NewWindow(Every,Period,Offset), spec.CreateEmpty, spec.TimeColumn, !selector) and selects the table kind by (selector, ForceAggregate, CreateEmpty, time column) as tabulated "+bad)
	}
	r.Check(nCalls >= 15, rule, f.String(), "constructor-calls:fewer-than-confirmed", f.Pos(), fmt.Sprintf("%d table constructor calls examined (15 confirmed by reading)", nCalls))
	if sw.Default != nil {
		quiet := len(core.AllCalls(info, sw.Default, ctor)) > 0
		r.Check(!quiet, rule, f.String(), "default-arm", p.Pos(sw.Default.Pos()), "an unknown cursor type does not build some other table")
	}
}

// ctorField names the table field that parameter i of constructor cf is stored
// into by a keyed composite-literal element (`field: param`), "" if none.
func (c *c41Ctx) ctorField(cf *core.Func, tableTyp string, i int) string {
	info := cf.Info()
	pv := cf.Param(i)
	if pv == nil {
		return ""
	}
	out := ""
	ast.Inspect(cf.Decl.Body, func(n ast.Node) bool {
		kv, ok := n.(*ast.KeyValueExpr)
		if !ok {
			return true
		}
		if id, ok := kv.Key.(*ast.Ident); ok && core.ObjOf(info, kv.Value) == types.Object(pv) {
			if fv, ok := info.Uses[id].(*types.Var); ok && fv.IsField() {
				out = fv.Name()
			}
		}
		return true
	})
	return out
}

// ---------------------------------------------------------------- (5) empty-window fill

func (c *c41Ctx) fill() {
	const rule = "empty-window-fill"
	p, r := c.p, c.r
	// (a) only the Integer window table has a fill parameter
	isFillParam := func(t types.Type) bool {
		pt, ok := t.Underlying().(*types.Pointer)
		if !ok {
			return false
		}
		b, ok := pt.Elem().Underlying().(*types.Basic)
		return ok && b.Kind() == types.Int64
	}
	fillIdx := -1
	nCtors := 0
	for _, T := range c41Types {
		for _, k := range c41TableKinds {
			cf := r.Need(p, c41Pk, "new"+T+k)
			if cf == nil {
				continue
			}
			nCtors++
			sig := cf.Obj.Type().(*types.Signature)
			has := -1
			for i := 0; i < sig.Params().Len(); i++ {
				if isFillParam(sig.Params().At(i).Type()) {
					has = i
				}
			}
			want := T == "Integer" && k == "WindowTable"
			if want {
				fillIdx = has
			}
			r.Check((has >= 0) == want, rule, cf.String(), "fill-parameter", cf.Pos(), "only the Integer window table (the arm every count reaches) takes a fill value")
		}
	}
	r.Check(nCtors == 15, rule, c41Pk, "constructors:fewer-than-confirmed", "-", fmt.Sprintf("%d table constructors examined (15 confirmed by reading)", nCtors))
	// (b) handleRead: fill value defined only for count, as a pointer to 0
	f := r.Need(p, c41Pk, "windowAggregateIterator.handleRead")
	aggsF := c.extField("query", "ReadWindowAggregateSpec", "Aggregates")
	if f != nil && fillIdx >= 0 && aggsF != nil {
		info, g, body := f.Info(), f.Graph(), f.Decl.Body
		calls := core.AllCalls(info, body, call(c41Pk+".newIntegerWindowTable"))
		r.Check(len(calls) >= 1, rule, f.String(), "newIntegerWindowTable:absent", f.Pos(), "the Integer arm builds the Integer window table")
		isCount := call(c41Pk + ".isAggregateCount")
		countOfFirst := func(cl *ast.CallExpr) bool {
			if len(cl.Args) != 1 {
				return false
			}
			ix, ok := c41Resolve(info, body, cl.Args[0]).(*ast.IndexExpr)
			if !ok || core.FieldOf(info, ix.X) != aggsF {
				return false
			}
			v, isC := core.ConstInt(info, ix.Index)
			return isC && v == 0
		}
		gate := core.AtomEdge(func(x ast.Expr, val bool) bool {
			cl, ok := ast.Unparen(x).(*ast.CallExpr)
			return ok && val && isCount(info, cl) && countOfFirst(cl)
		})
		ungated := g.ReachFromEntry(nil, gate)
		for _, cl := range calls {
			if fillIdx >= len(cl.Args) {
				continue
			}
			o := core.ObjOf(info, cl.Args[fillIdx])
			if !r.Check(o != nil, rule, f.String(), "fill-argument:not-a-variable", p.Pos(cl.Pos()), "the fill value is a local variable") {
				continue
			}
			defs := core.DefsOf(info, body, o)
			n := 0
			for _, d := range defs {
				if d.Rhs == nil || core.IsNilIdent(info, d.Rhs) {
					continue
				}
				n++
				nd := g.NodeOf(d.Stmt)
				r.Check(nd != nil && !ungated[nd], rule, f.String(), "fill-only-for-count", p.Pos(d.Stmt.Pos()), "the fill value is set only on the edge isAggregateCount(spec.Aggregates[0])")
				r.Check(c41PointerToZero(info, body, d.Rhs), rule, f.String(), "fill-is-zero", p.Pos(d.Stmt.Pos()), "the fill value is a pointer to the constant 0 ("+core.Trim(core.ExprStr(d.Rhs), 60)+")")
			}
			r.Check(n == 1, rule, f.String(), "fill-definitions", p.Pos(cl.Pos()), fmt.Sprintf("%d non-nil definition of the fill value (1 confirmed by reading)", n))
		}
	}
	// (c) mergeValues: fill behind fillValue != nil, AppendNull offered by all
	fillF := c.field("integerWindowTable", "fillValue")
	for _, T := range c41Types {
		mf := r.Need(p, c41Pk, strings.ToLower(T)+"WindowTable.mergeValues")
		if mf == nil {
			continue
		}
		info := mf.Info()
		hasNull := false
		ast.Inspect(mf.Decl.Body, func(n ast.Node) bool {
			if se, ok := n.(*ast.SelectorExpr); ok {
				if sel := info.Selections[se]; sel != nil && sel.Kind() == types.MethodVal && sel.Obj().Name() == "AppendNull" {
					hasNull = true
				}
			}
			return true
		})
		r.Check(hasNull, rule, mf.String(), "AppendNull:absent", mf.Pos(), "a window without value can be filled with null")
		hasAV := len(core.AllCalls(info, mf.Decl.Body, call(c41Pk+"."+strings.ToLower(T)+"WindowTable.appendValues"))) == 1
		r.Check(hasAV, rule, mf.String(), "appendValues:absent", mf.Pos(), "values are merged by appendValues")
		if T != "Integer" || fillF == nil {
			continue
		}
		// every dereference of the fill value is guarded by != nil, in its own graph or where its closure is created
		nDeref := 0
		outer := mf.Graph()
		lits := map[*ast.BlockStmt]*ast.FuncLit{}
		ast.Inspect(mf.Decl.Body, func(n ast.Node) bool {
			if fl, ok := n.(*ast.FuncLit); ok {
				lits[fl.Body] = fl
			}
			return true
		})
		for _, g := range mf.Graphs() {
			isFill := func(e ast.Expr) bool {
				e = core.StripConv(info, e)
				if core.FieldOf(info, e) == fillF {
					return true
				}
				return core.FieldOf(info, c41Resolve(info, mf.Decl.Body, e)) == fillF
			}
			nonNil := g.NilEdge(isFill, false)
			unguarded := g.ReachFromEntry(nil, nonNil)
			for _, nd := range g.Nodes {
				if nd.N == nil {
					continue
				}
				core.Walk(nd.N, core.WalkOpts{}, func(x ast.Node) bool {
					st, ok := x.(*ast.StarExpr)
					if !ok || !isFill(st.X) {
						return true
					}
					nDeref++
					ok2 := !unguarded[nd]
					if lit := lits[g.Body]; !ok2 && g != outer && lit != nil {
						// the closure is only created behind the test
						if ln := outer.NodeOf(lit); ln != nil {
							ok2 = !outer.ReachFromEntry(nil, outer.NilEdge(isFill, false))[ln]
						}
					}
					r.Check(ok2, rule, mf.String(), "fill-deref-guarded", mf.Prog.Pos(st.Pos()), "the fill value is used only behind fillValue != nil (null otherwise)")
					return true
				})
			}
		}
		r.Check(nDeref >= 1, rule, mf.String(), "fill-deref:absent", mf.Pos(), "integer windows without value receive *fillValue when it is set")
	}
}

// c41PointerToZero: `func(v T) *T { return &v }(0)` or `&x` with x defined once as the constant 0.
func c41PointerToZero(info *types.Info, body ast.Node, e ast.Expr) bool {
	e = ast.Unparen(e)
	isZero := func(x ast.Expr) bool {
		v, ok := core.ConstInt(info, core.StripConv(info, x))
		return ok && v == 0
	}
	switch x := e.(type) {
	case *ast.CallExpr:
		lit, ok := ast.Unparen(x.Fun).(*ast.FuncLit)
		if !ok || len(x.Args) != 1 || !isZero(x.Args[0]) || lit.Type.Params.NumFields() != 1 || len(lit.Body.List) != 1 {
			return false
		}
		rs, ok := lit.Body.List[0].(*ast.ReturnStmt)
		if !ok || len(rs.Results) != 1 {
			return false
		}
		u, ok := ast.Unparen(rs.Results[0]).(*ast.UnaryExpr)
		if !ok || u.Op != token.AND || len(lit.Type.Params.List[0].Names) != 1 {
			return false
		}
		return core.ObjOf(info, u.X) == info.Defs[lit.Type.Params.List[0].Names[0]]
	case *ast.UnaryExpr:
		if x.Op != token.AND {
			return false
		}
		o := core.ObjOf(info, x.X)
		d, ok := core.SingleDef(info, body, o)
		return ok && d.Rhs != nil && d.Index == -1 && isZero(d.Rhs)
	}
	return false
}

// ---------------------------------------------------------------- predicates (decision tables)

func (c *c41Ctx) predicates() {
	p, r := c.p, c.r
	for _, row := range []struct {
		rule, fn string
		want     func(kind string) bool
		desc     string
	}{
		{"selector-table", "isSelector", c41IsSelector, "selectors are exactly first, last, min, max"},
		{"empty-window-fill", "isAggregateCount", func(k string) bool { return k == "count" }, "only count is filled with 0"},
	} {
		f := r.Need(p, c41Pk, row.fn)
		if f == nil {
			continue
		}
		for _, k := range c41Kinds {
			arg := core.Sym("const:" + strconv.Quote(k))
			res, und := core.EvalOn(p, f, core.DModel{}, []core.DVal{arg}, nil, nil)
			want := strconv.FormatBool(row.want(k))
			r.Check(und == "" && !res.Panicked && res.Value == want, row.rule, f.String(), "kind="+k, f.Pos(),
				fmt.Sprintf("%s(%q) = %s (%s) %s", row.fn, k, want, row.desc, und))
		}
	}
}

// c41CountIsInteger: every window count cursor yields *cursors.IntegerArray.
func c41CountIsInteger(p *core.Prog, r *core.Report) {
	const rule = "count-is-integer"
	pk := p.Pkg(readsPk10)
	want := p.NamedType("tsdb/cursors", "IntegerArray")
	if !r.Check(pk != nil && want != nil, "anchor", readsPk10, "unresolved", "-", "storage/reads loaded") {
		return
	}
	n := 0
	for _, t := range c41Types {
		name := strings.ToLower(t) + "WindowCountArrayCursor"
		obj := pk.Types.Scope().Lookup(name)
		if !r.Check(obj != nil, "anchor", readsPk10+"."+name, "unresolved", "-", "count cursor type resolved") {
			continue
		}
		m, _, _ := types.LookupFieldOrMethod(types.NewPointer(obj.Type()), true, pk.Types, "Next")
		fn, _ := m.(*types.Func)
		ok := false
		if fn != nil {
			if sig := fn.Type().(*types.Signature); sig.Results().Len() == 1 {
				ok = types.Identical(sig.Results().At(0).Type(), types.NewPointer(want))
			}
		}
		if ok {
			n++
		}
		r.Check(ok, rule, readsPk10+"."+name, "Next-result-type", "-", "Next returns *cursors.IntegerArray: a count reaches the Integer arm of handleRead, the only one that passes the fill value 0")
	}
	r.Check(n == 5, rule, readsPk10, "cursors:fewer-than-confirmed", "-", fmt.Sprintf("%d count cursors examined (5 confirmed by reading)", n))
}
