package rules

import (
	"fmt"
	"go/ast"
	"go/types"
	"sort"

	"verif/checker/core"
)

// C17 extension (rw12): positional use of a key slice only in sorted state.
//
// Engine.deleteSeriesRange receives the matching series in series-id (creation)
// order and sorts the slice IN PLACE ("lower layers require them to be"). Every
// later step reads the slice by position and relies on the order: the first /
// last element as key bounds (TSM file overlap test, TSMFile.Seek start of the
// tombstone walk and of the index-reconciliation walk), the merge walks
// `seriesKeys[j]` against the sorted TSM index, and bytesutil.SearchBytes (binary
// search). A positional read or a binary search that can be reached while the
// slice is not yet established sorted yields an arbitrary element: series that
// sort below the "minimum" are never tombstoned and are then dropped from the
// index although their data is still there. The same holds for the two other
// key slices the function searches (deleteKeys, cacheKeys).
//
// Established sorted means: on every path from the function entry the node is
// reached only through bytesutil.Sort(v) on that very variable or the edge on
// which bytesutil.IsSorted(v) is true, or v is defined once from a source that
// returns sorted keys (Cache.Keys, which is checked to return ring.keys(true),
// which is checked to sort when its flag is true). A use inside a function
// literal is located at the node that creates the literal (the callee cannot run
// it earlier).

func init() {
	extend("C17",
		"(8) sorted-before-use in tsm1.Engine.deleteSeriesRange: every positional read v[i] of, and every bytesutil.SearchBytes over, the key slices seriesKeys (parameter, arrives in series-id order), deleteKeys and cacheKeys — also inside the FileStore.Apply / Cache.ApplyEntryFn callbacks and when the element is first copied to a local such as minKey/maxKey — is reachable only after that slice was established sorted (bytesutil.Sort(v) in place, the IsSorted(v)==true edge, or a single definition from Cache.Keys → keys(true) → Sort), and the slice variable is not re-assigned afterwards.",
		nil, runC17x12)
}

func runC17x12(p *core.Prog, r *core.Report, tier string) {
	const rule = "sorted-before-use"
	f := r.Need(p, tsm1, "Engine.deleteSeriesRange")
	if f == nil {
		return
	}
	info := f.Info()
	g := f.Graph()
	name := f.String()
	sortM := call("pkg/bytesutil.Sort")
	isSortedM := call("pkg/bytesutil.IsSorted")
	searchM := call("pkg/bytesutil.SearchBytes")

	isKeySlice := func(t types.Type) bool {
		s, ok := t.Underlying().(*types.Slice)
		if !ok {
			return false
		}
		e, ok := s.Elem().Underlying().(*types.Slice)
		if !ok {
			return false
		}
		b, ok := e.Elem().Underlying().(*types.Basic)
		return ok && b.Kind() == types.Byte
	}

	// ---- the slices whose order matters
	var vars []types.Object
	seen := map[types.Object]bool{}
	add := func(o types.Object) {
		if o != nil && !seen[o] {
			seen[o] = true
			vars = append(vars, o)
		}
	}
	var param types.Object
	if sig, ok := f.Obj.Type().(*types.Signature); ok {
		for i := 0; i < sig.Params().Len(); i++ {
			if isKeySlice(sig.Params().At(i).Type()) && param == nil {
				param = sig.Params().At(i)
			}
		}
	}
	if !r.Check(param != nil, rule, name, "keys-parameter:absent", f.Pos(), "the batch of series keys is a [][]byte parameter") {
		return
	}
	add(param)
	for _, c := range core.AllCalls(info, f.Decl.Body, searchM) {
		if len(c.Args) == 2 {
			o := core.ObjOf(info, c.Args[0])
			if o == nil {
				r.Bad(rule, name, "search-operand", p.Pos(c.Pos()), "bytesutil.SearchBytes over something that is not a plain variable: its order cannot be established")
				continue
			}
			add(o)
		}
	}
	r.Check(len(vars) >= 3, rule, name, "ordered-slices:count", f.Pos(), fmt.Sprintf("%d key slices are read by position / binary-searched (3 confirmed by reading: seriesKeys, deleteKeys, cacheKeys)", len(vars)))

	sortedSources := c17xSortedSources(p, r, rule)

	for _, v := range vars {
		v := v
		onV := func(c *ast.CallExpr) bool { return len(c.Args) >= 1 && core.ObjOf(info, c.Args[0]) == v }
		gate := g.X1CallingWith(sortM, onV)
		gateEdge := core.EdgeEstablishing(core.CallFact(info, isSortedM, true, onV))

		// sorted by construction?
		bySource := ""
		if v != param {
			ds := core.DefsOf(info, f.Decl.Body, v)
			if len(ds) == 1 && ds[0].Rhs != nil && ds[0].Index == -1 {
				if c, ok := ast.Unparen(ds[0].Rhs).(*ast.CallExpr); ok {
					if fn := core.Callee(info, c); fn != nil {
						if why, ok := sortedSources[core.FName(fn)]; ok {
							bySource = why
						}
					}
				}
			}
		}

		// ---- order-dependent uses
		type use struct {
			n    ast.Node
			what string
		}
		var uses []use
		ast.Inspect(f.Decl.Body, func(x ast.Node) bool {
			switch e := x.(type) {
			case *ast.IndexExpr:
				if core.ObjOf(info, e.X) == v {
					uses = append(uses, use{e, "positional read " + core.ExprStr(e)})
				}
			case *ast.CallExpr:
				if searchM(info, e) && onV(e) {
					uses = append(uses, use{e, "binary search over " + v.Name()})
				}
			}
			return true
		})
		if !r.Check(len(uses) >= 1, rule, name, v.Name()+":uses:absent", f.Pos(), fmt.Sprintf("%d positional reads / binary searches of %s", len(uses), v.Name())) {
			continue
		}
		if bySource != "" {
			r.Ok(rule, name+":"+v.Name(), f.Pos(), v.Name()+" is defined once from a sorted source: "+bySource)
			continue
		}
		gates := g.Select(gate)
		unsorted := g.ReachFromEntry(gate, gateEdge)
		var bad []string
		detail := ""
		for _, u := range uses {
			home := g.HomeNode12(u.n)
			if home == nil || unsorted[home] {
				bad = append(bad, p.Pos(u.n.Pos()))
				if detail == "" {
					detail = u.what
				}
			}
		}
		sort.Strings(bad)
		if len(bad) == 0 {
			r.Ok(rule, name+":"+v.Name(), f.Pos(), fmt.Sprintf("all %d positional reads / binary searches of %s are reachable only after bytesutil.Sort(%s) or the IsSorted(%s) edge (%d sort call(s))", len(uses), v.Name(), v.Name(), v.Name(), len(gates)))
		} else {
			r.Bad(rule, name, v.Name()+":positional-use-before-sort", bad[0], fmt.Sprintf("%s (and %d more) can be reached while %s has not been established sorted: the slice arrives in series-id order, so the element read is not the key bound / search position it is used as — series sorting below it keep their points in the TSM files and are then dropped from the index", detail, len(bad)-1, v.Name()))
		}

		// ---- the variable is not re-assigned once it is sorted
		if len(gates) > 0 {
			after := g.Reach(core.X1SuccsOf(gates), nil, nil)
			re := ""
			ast.Inspect(f.Decl.Body, func(x ast.Node) bool {
				as, ok := x.(*ast.AssignStmt)
				if !ok {
					return true
				}
				for _, l := range as.Lhs {
					if core.ObjOf(info, l) == v && info.Defs[identOf12(l)] == nil {
						if home := g.HomeNode12(as); home != nil && after[home] {
							re = p.Pos(as.Pos())
						}
					}
				}
				return true
			})
			r.Check(re == "", rule, name, v.Name()+":reassigned-after-sort", firstNonEmpty12(re, f.Pos()), v.Name()+" is not assigned a new value after it was sorted")
		}
	}
}

func identOf12(e ast.Expr) *ast.Ident {
	id, _ := ast.Unparen(e).(*ast.Ident)
	return id
}

// c17xSortedSources: functions whose result is sorted, each verified structurally.
func c17xSortedSources(p *core.Prog, r *core.Report, rule string) map[string]string {
	out := map[string]string{}
	keysM := call(tsm1+".storer.keys", tsm1+".ring.keys")
	// ring.keys(sorted): a return is reached with sorted==true only through bytesutil.Sort(<returned slice>)
	okRing := false
	if f := r.Need(p, tsm1, "ring.keys"); f != nil {
		info := f.Info()
		g := f.Graph()
		flag := f.Param(0)
		var ret types.Object
		nret := 0
		for _, x := range g.Exits {
			if rs, ok := x.N.(*ast.ReturnStmt); ok && len(rs.Results) == 1 {
				nret++
				if o := core.ObjOf(info, rs.Results[0]); o != nil && (ret == nil || ret == o) {
					ret = o
				} else {
					ret = nil
					break
				}
			}
		}
		if flag != nil && ret != nil && nret >= 1 {
			gate := g.X1CallingWith(call("pkg/bytesutil.Sort"), func(c *ast.CallExpr) bool { return len(c.Args) == 1 && core.ObjOf(info, c.Args[0]) == ret })
			reach := g.ReachFromEntry(gate, core.EdgeEstablishing(core.BoolVarFact(info, flag, false)))
			okRing = true
			for _, x := range g.Exits {
				if reach[x] && x.Kind != core.KPanic {
					okRing = false
				}
			}
			// and nothing is appended after the sort
			for _, n := range g.Select(gate) {
				for m := range g.Reach(core.After(n, nil), nil, nil) {
					if g.AssigningObj(ret)(m) {
						okRing = false
					}
				}
			}
		}
		r.Check(okRing, rule, f.String(), "sorts-when-asked", f.Pos(), "ring.keys(sorted=true) returns its slice only after bytesutil.Sort on it")
	}
	if f := r.Need(p, tsm1, "Cache.Keys"); f != nil {
		info := f.Info()
		ok := okRing
		n := 0
		for _, x := range f.Graph().Exits {
			rs, isRet := x.N.(*ast.ReturnStmt)
			if !isRet || len(rs.Results) != 1 {
				ok = false
				continue
			}
			n++
			c, isCall := ast.Unparen(rs.Results[0]).(*ast.CallExpr)
			if !isCall || !keysM(info, c) || len(c.Args) != 1 || !core.IsConstBool8(info, c.Args[0], true) {
				ok = false
			}
		}
		if r.Check(ok && n >= 1, rule, f.String(), "returns-sorted-keys", f.Pos(), "Cache.Keys returns store.keys(true)") {
			out[tsm1+".Cache.Keys"] = "Cache.Keys → keys(true) → bytesutil.Sort"
		}
	}
	return out
}
