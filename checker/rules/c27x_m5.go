package rules

import (
	"fmt"
	"go/ast"
	"go/constant"
	"go/token"
	"go/types"

	"verif/checker/core"
)

// C27 extension (m5): rules added after triaging the survivors of the generic
// fault enumeration.
//
//	idle-only-on-error        SendWrite tells the run loop to go idle (shouldRetry=false) only on the
//	                          failure branch of an error test (no data / scanner failure): going idle on a
//	                          success branch leaves queued batches unposted until the next enqueue
//	status-dispatch-reached   writer.Write returns the PostWrite error only after the status dispatch
//	                          (400 drop, 429 Retry-After) or on the "no usable response" branch
//	response-forwarded        PostWrite hands back the response whenever there is one, and the transport
//	                          error when there is none (a nil,nil answer would be taken for acceptance)
//	kick-after-append         a successful EnqueueData wakes the sender
func init() {
	extend("C27", "idle-only-on-error: every `return …, false` of SendWrite (the run loop then waits for the next enqueue) is reachable only through the non-nil branch of an error test; "+
		"status-dispatch-reached: every return of writer.Write that yields the PostWrite error is reachable only through the `no usable response` branch of normalizeResponse or through the comparisons of StatusCode with 400 and (unless it was 400) with 429; "+
		"response-forwarded: in PostWrite, after the request was executed, a return on the `response == nil` branch yields the error of the execution, every other return yields the response itself; "+
		"kick-after-append: every success exit of EnqueueData passes a send on the replication queue's receive channel; "+
		"retry-honoured (replicationQueue.run): the send step leaves with a delay other than the one SendWrite returned (parks the sender) only on the branch where shouldRetry is false, and after every send step the retry timer is Reset with the delay that step returned before the loop waits again; "+
		"purge-gated: Queue.PurgeOlderThan is reachable only where `maxAge != 0` was established and its cut-off is computed from maxAge; "+
		"request-executed: PostWrite returns before executing the request only on the failure branch of an error test; encoding-declared: the request is executed without ContentEncoding only where `len(data) == 0` was established; "+
		"nil-guarded-config: a pointer field of the replication config that PostWrite compares with nil is dereferenced only where non-nil was established.",
		nil, func(p *core.Prog, r *core.Report, tier string) { m5C27(p, r) })
}

func m5C27(p *core.Prog, r *core.Report) {
	httpPk := p.Pkg("net/http")
	if httpPk == nil {
		return
	}
	statusF := core.LookupField(httpPk.Types, "Response", "StatusCode")
	hc := func(name string) constant.Value {
		if c, _ := httpPk.Types.Scope().Lookup(name).(*types.Const); c != nil {
			return c.Val()
		}
		return nil
	}
	badReq, tooMany := hc("StatusBadRequest"), hc("StatusTooManyRequests")
	if statusF == nil || badReq == nil || tooMany == nil {
		return // reported by the base rules
	}

	// ---- idle-only-on-error
	if f := r.Need(p, replIntPkg, "replicationQueue.SendWrite"); f != nil {
		const rule = "idle-only-on-error"
		g, info := f.Graph(), f.Info()
		// an error is known non-nil: `err != nil`, errors.Is(err, X), err == <sentinel variable>
		fail := core.OrEdge(g.ErrNonNilEdge(), core.AtomEdge(func(c ast.Expr, val bool) bool {
			if !val {
				return false
			}
			switch x := ast.Unparen(c).(type) {
			case *ast.CallExpr:
				return call("errors.Is", "errors.As")(info, x) && len(x.Args) == 2 && core.IsErrorType(info.TypeOf(x.Args[0]))
			case *ast.BinaryExpr:
				if x.Op != token.EQL {
					return false
				}
				for _, pair := range [][2]ast.Expr{{x.X, x.Y}, {x.Y, x.X}} {
					if pv := core.PkgVar(info, ast.Unparen(pair[1])); pv != nil && core.IsErrorType(info.TypeOf(pair[0])) && core.IsErrorType(pv.Type()) {
						return true
					}
				}
			}
			return false
		}))
		n := 0
		for _, x := range g.Exits {
			rs, ok := x.N.(*ast.ReturnStmt)
			if !ok || len(rs.Results) != 2 {
				if x.Kind != core.KPanic {
					r.Bad(rule, f.String(), "return-form", g.Line(x), "return without explicit (wait, shouldRetry) operands cannot be classified")
				}
				continue
			}
			v, isConst := core.ConstBool(info, rs.Results[1])
			if !isConst {
				r.Bad(rule, f.String(), "return-form", g.Line(x), "shouldRetry is not a constant")
				continue
			}
			if v {
				continue
			}
			n++
			r.Check(g.OnlyVia(x, fail), rule, f.String(), "idle-on-success-branch", g.Line(x),
				"shouldRetry=false is returned only on the failure branch of an error test (scanner cannot be created / no more data / advance failed); on a success branch it would park the sender with batches still queued")
		}
		r.Check(n >= 3, rule, f.String(), "idle-returns:count", f.Pos(), fmt.Sprintf("%d `return …, false` sites (>= 3 confirmed by reading)", n))
	}

	// ---- retry-honoured / purge-gated (replicationQueue.run)
	if f := r.Need(p, replIntPkg, "replicationQueue.run"); f != nil {
		const rule = "retry-honoured"
		info := f.Info()
		sendWrite := call("replications/internal.replicationQueue.SendWrite")
		reset := call("time.Timer.Reset")
		// (i) the function (literal) that calls SendWrite parks the sender only when shouldRetry is false
		nSend := 0
		for _, g := range f.Graphs() {
			for _, sn := range g.Select(g.Calling(sendWrite)) {
				as, ok := sn.N.(*ast.AssignStmt)
				if !ok || len(as.Lhs) != 2 || len(as.Rhs) != 1 {
					r.Bad(rule, f.String(), "SendWrite-results", g.Line(sn), "both results of SendWrite (delay, shouldRetry) are bound to variables")
					continue
				}
				nSend++
				wait, retry := core.ObjOf(info, as.Lhs[0]), core.ObjOf(info, as.Lhs[1])
				if !r.Check(wait != nil && retry != nil, rule, f.String(), "SendWrite-results", g.Line(sn), "both results of SendWrite (delay, shouldRetry) are bound to variables") {
					continue
				}
				noRetry := core.AtomEdge(func(c ast.Expr, val bool) bool { return !val && core.ObjOf(info, c) == retry })
				after := g.Reach(core.After(sn, nil), g.Calling(sendWrite), nil)
				for _, x := range g.Exits {
					if !after[x] || x.Kind == core.KPanic {
						continue
					}
					rs, isRet := x.N.(*ast.ReturnStmt)
					if isRet && len(rs.Results) == 1 && core.ObjOf(info, core.ResolveLocal(info, g.Body, rs.Results[0])) == wait {
						continue // hands the delay computed by the writer to the retry timer
					}
					// any other way of leaving (a constant "never" delay, a bare return) parks the sender
					blocked := !g.Reach(core.After(sn, nil), g.Calling(sendWrite), noRetry)[x]
					r.Check(blocked, rule, f.String(), "parked-although-retry", g.Line(x),
						"after SendWrite the sender is parked (a delay other than the one SendWrite returned) only on the branch where shouldRetry is false; otherwise a batch the remote refused is not posted again until the next enqueue")
				}
			}
		}
		r.Check(nSend >= 1, rule, f.String(), "SendWrite:absent", f.Pos(), "the run loop calls SendWrite")
		// (ii) in the loop: the delay obtained from the send step re-arms the retry timer before the next wait
		g := f.Graph()
		sendStep := core.ThroughLocalLits(f.Decl.Body, sendWrite)
		comm := map[ast.Node]bool{}
		ast.Inspect(f.Decl.Body, func(x ast.Node) bool {
			if _, isLit := x.(*ast.FuncLit); isLit {
				return false
			}
			if cc, ok := x.(*ast.CommClause); ok && cc.Comm != nil {
				comm[cc.Comm] = true
			}
			return true
		})
		isWait := func(n *core.Node) bool { return n.N != nil && comm[n.N] }
		nStep := 0
		for _, sn := range g.Select(g.Calling(sendStep)) {
			as, ok := sn.N.(*ast.AssignStmt)
			if !ok || len(as.Lhs) != 1 {
				r.Bad(rule, f.String(), "delay-dropped", g.Line(sn), "the delay returned by the send step is bound to a variable")
				continue
			}
			nStep++
			d := core.ObjOf(info, as.Lhs[0])
			arm := g.Calling(func(info *types.Info, c *ast.CallExpr) bool {
				if !reset(info, c) || len(c.Args) != 1 || d == nil {
					return false
				}
				if core.ObjOf(info, c.Args[0]) == d {
					return true
				}
				// through one temporary: x := retryTime; retry.Reset(x)
				if o, ok := core.ObjOf(info, c.Args[0]).(*types.Var); ok && !o.IsField() {
					if df, ok := core.SingleDef(info, f.Decl.Body, o); ok && df.Rhs != nil && df.Index == -1 {
						return core.ObjOf(info, df.Rhs) == d
					}
				}
				return false
			})
			bad := ""
			for x := range g.Reach(core.After(sn, nil), arm, nil) {
				if isWait(x) || (len(x.Succ) == 0 && x.Kind != core.KPanic) {
					bad = g.Line(x)
				}
			}
			r.Check(bad == "", rule, f.String(), "retry-timer-not-armed", g.Line(sn),
				"after a send step the retry timer is Reset with the delay that step returned before the loop waits again (otherwise a refused batch is never retried, or retried with the wrong delay)"+m5At(bad))
		}
		r.Check(nStep >= 2, rule, f.String(), "send-steps:count", f.Pos(), fmt.Sprintf("%d send steps in the run loop (on enqueue, on retry: >= 2)", nStep))
		// (iii) max-age purge only when a max age is configured
		maxAgeF := core.LookupField(f.Pkg.Types, "replicationQueue", "maxAge")
		purge := g.Select(g.Calling(call("pkg/durablequeue.Queue.PurgeOlderThan")))
		if r.Check(maxAgeF != nil && len(purge) >= 1, "purge-gated", f.String(), "purge:absent", f.Pos(), "the run loop purges by max age") {
			configured := core.AtomEdge(func(c ast.Expr, val bool) bool {
				return core.NonZeroFact(info, func(e ast.Expr) bool { return core.FieldOf(info, ast.Unparen(e)) == maxAgeF }, true, true)(c, val)
			})
			for _, pn := range purge {
				r.Check(g.OnlyVia(pn, configured), "purge-gated", f.String(), "purge-without-max-age", g.Line(pn),
					"queued batches are purged by age only where `maxAge != 0` was established (max age 0 means keep until accepted)")
				for _, c := range core.CallsIn(info, pn.N, call("pkg/durablequeue.Queue.PurgeOlderThan"), core.WalkOpts{}) {
					r.Check(len(c.Args) == 1 && core.MentionsField(info, core.ResolveLocal(info, f.Decl.Body, c.Args[0]), maxAgeF), "purge-gated", f.String(), "purge-cutoff", p.Pos(c.Pos()),
						"the purge cut-off is computed from the configured max age")
				}
			}
		}
	}

	// ---- kick-after-append
	if f := r.Need(p, replIntPkg, "durableQueueManager.EnqueueData"); f != nil {
		const rule = "kick-after-append"
		g, info := f.Graph(), f.Info()
		recvF := core.LookupField(f.Pkg.Types, "replicationQueue", "receive")
		if r.Check(recvF != nil, "anchor", replIntPkg+".replicationQueue.receive", "unresolved", "-", "field resolved") {
			kick := func(n *core.Node) bool {
				s, ok := n.N.(*ast.SendStmt)
				return ok && core.FieldOf(info, core.ResolveLocal(info, f.Decl.Body, s.Chan)) == recvF
			}
			ok := len(g.Select(kick)) >= 1
			if ok {
				reach := g.ReachFromEntry(kick, nil)
				for _, x := range g.SuccessExits() {
					if reach[x] {
						ok = false
					}
				}
			}
			r.Check(ok, rule, f.String(), "success-without-kick", f.Pos(), "every success exit offered a token to the replication queue's receive channel (otherwise the appended batch is not posted until something else wakes the sender)")
		}
	}

	// res.StatusCode, also through a single-definition temporary (code := res.StatusCode)
	isStatusIn := func(info *types.Info, root ast.Node) func(ast.Expr) bool {
		return func(e ast.Expr) bool {
			return core.FieldOf(info, ast.Unparen(e)) == statusF || core.FieldOf(info, core.ResolveLocal(info, root, e)) == statusF
		}
	}
	// cmpEdge: the edge leaves a comparison of StatusCode with val (either outcome).
	cmpEdge := func(info *types.Info, root ast.Node, val constant.Value) core.EdgePred {
		isVal := func(e ast.Expr) bool {
			v := core.ConstVal(info, e)
			return v != nil && constant.Compare(v, token.EQL, val)
		}
		is := isStatusIn(info, root)
		return func(e *core.Edge) bool {
			if e.Cond == nil {
				return false
			}
			if e.Tag != nil {
				return is(e.Tag) && isVal(e.Cond)
			}
			found := false
			ast.Inspect(e.Cond, func(n ast.Node) bool {
				if be, ok := n.(*ast.BinaryExpr); ok && (be.Op == token.EQL || be.Op == token.NEQ) {
					if (is(be.X) && isVal(be.Y)) || (is(be.Y) && isVal(be.X)) {
						found = true
					}
				}
				return !found
			})
			return found
		}
	}

	// ---- status-dispatch-reached
	if f := r.Need(p, replRWPkg, "writer.Write"); f != nil {
		const rule = "status-dispatch-reached"
		g, info := f.Graph(), f.Info()
		post := call("replications/remotewrite.PostWrite")
		normalize := call("replications/remotewrite.normalizeResponse")
		var pwErr, okVar types.Object
		for _, pn := range g.Select(g.Calling(post)) {
			if as, ok := pn.N.(*ast.AssignStmt); ok && len(as.Lhs) == 2 && len(as.Rhs) == 1 {
				pwErr = core.ObjOf(info, as.Lhs[1])
			}
		}
		for _, nn := range g.Select(g.Calling(normalize)) {
			if as, ok := nn.N.(*ast.AssignStmt); ok && len(as.Lhs) == 3 && len(as.Rhs) == 1 {
				if o := core.ObjOf(info, as.Lhs[2]); o != nil && core.AssignedFrom(info, f.Decl.Body, o, normalize, 2).OnlyFrom() {
					okVar = o
				}
			}
		}
		if r.Check(pwErr != nil && okVar != nil, rule, f.String(), "anchors:absent", f.Pos(), "the PostWrite error variable and normalizeResponse's usable-response flag found") {
			notOK := core.AtomEdge(func(c ast.Expr, val bool) bool { return !val && core.ObjOf(info, c) == okVar })
			c400, c429 := cmpEdge(info, f.Decl.Body, badReq), cmpEdge(info, f.Decl.Body, tooMany)
			is400 := g.EqConstEdge(isStatusIn(info, f.Decl.Body), badReq)
			n := 0
			for _, x := range g.Exits {
				rs, ok := x.N.(*ast.ReturnStmt)
				if !ok || len(rs.Results) != 2 || core.ObjOf(info, ast.Unparen(rs.Results[1])) != pwErr {
					continue
				}
				n++
				via400 := g.OnlyVia(x, core.OrEdge(notOK, c400))
				via429 := g.OnlyVia(x, core.OrEdge(notOK, c429, is400))
				r.Check(via400 && via429, rule, f.String(), "error-returned-before-dispatch", g.Line(x),
					"the remote's error is handed back for a retry only after StatusCode was compared with 400 (drop non-retryable data) and 429 (Retry-After), or when there is no usable response; skipping the dispatch retries a 400 for ever and ignores Retry-After")
			}
			r.Check(n >= 2, rule, f.String(), "error-returns:count", f.Pos(), fmt.Sprintf("%d returns of the PostWrite error (bail-out, retry: >= 2)", n))
		}
	}

	// ---- response-forwarded
	if f := r.Need(p, replRWPkg, "PostWrite"); f != nil {
		const rule = "response-forwarded"
		g, info := f.Graph(), f.Info()
		// the node executing the request: a call returning (*http.Response, error) assigned to two variables
		var exec *core.Node
		var resV, errV types.Object
		for _, n := range g.Nodes {
			as, ok := n.N.(*ast.AssignStmt)
			if !ok || len(as.Lhs) != 2 || len(as.Rhs) != 1 {
				continue
			}
			c, ok := ast.Unparen(as.Rhs[0]).(*ast.CallExpr)
			if !ok {
				continue
			}
			a, b := core.ObjOf(info, as.Lhs[0]), core.ObjOf(info, as.Lhs[1])
			if a == nil || b == nil || !rw3IsNamed(a.Type(), "net/http", "Response") || !core.IsErrorType(b.Type()) {
				continue
			}
			_ = c
			exec, resV, errV = n, a, b
		}
		if r.Check(exec != nil, rule, f.String(), "execute:absent", f.Pos(), "the call yielding (*http.Response, error) found") {
			noResp := g.NilEdge(core.IsObj(info, resV), true)
			after := g.Reach(core.After(exec, nil), nil, nil)
			n := 0
			for _, x := range g.Exits {
				rs, ok := x.N.(*ast.ReturnStmt)
				if !after[x] || !ok || len(rs.Results) != 2 {
					continue
				}
				n++
				if g.OnlyVia(x, noResp) {
					r.Check(core.ObjOf(info, ast.Unparen(rs.Results[1])) == errV, rule, f.String(), "no-response-without-error", g.Line(x),
						"without a response PostWrite returns the transport error (timeout, refused connection): a nil error here is taken by writer.Write for an accepted batch")
					continue
				}
				r.Check(core.ObjOf(info, ast.Unparen(rs.Results[0])) == resV, rule, f.String(), "response-dropped", g.Line(x),
					"when the remote answered, the response itself is returned so that writer.Write can dispatch on the status code (400 drop, 429 Retry-After)")
			}
			r.Check(n >= 2 && len(g.Edges(noResp)) >= 1, rule, f.String(), "returns:count", f.Pos(), fmt.Sprintf("%d returns after the request was executed, `response == nil` test present", n))

			// request-executed: PostWrite returns without executing the request only on a failure branch
			isExec := func(n *core.Node) bool { return n == exec }
			x := core.ExitReached5(g.ReachFromEntry(isExec, g.ErrNonNilEdge()))
			r.Check(x == nil, "request-executed", f.String(), "returns-before-request", f.Pos(),
				"PostWrite returns without having executed the HTTP request only on the failure branch of an error test (otherwise no batch is ever posted)"+m5AtNode(g, x))

			// encoding-declared: a non-empty body is sent with its Content-Encoding declared
			data := f.Param(2)
			enc := g.Calling(call("*.ApiPostWriteRequest.ContentEncoding"))
			if r.Check(data != nil && len(g.Select(enc)) >= 1, "encoding-declared", f.String(), "ContentEncoding:absent", f.Pos(), "the request declares its content encoding") {
				emptyBody := g.EmptyEdge(core.IsObj(info, data))
				reach := g.ReachFromEntry(enc, emptyBody)
				r.Check(!reach[exec], "encoding-declared", f.String(), "body-without-encoding", g.Line(exec),
					"the request is executed without a Content-Encoding only where `len(data) == 0` was established: the queued batches are gzip-compressed, an undeclared encoding makes the remote reject (400: dropped when DropNonRetryableData is set) every batch")
			}
		}

		// nil-guarded-config: an optional (pointer) field of the replication config that the
		// function compares with nil is dereferenced only where non-nil was established
		conf := f.Param(1)
		if conf != nil {
			nGuard := 0
			type use struct {
				n   *core.Node
				ref ast.Expr
			}
			var tested []ast.Expr
			seenPath := map[string]bool{}
			for _, e := range g.Edges(func(e *core.Edge) bool { return e.Cond != nil && e.Tag == nil }) {
				ast.Inspect(e.Cond, func(n ast.Node) bool {
					if be, ok := n.(*ast.BinaryExpr); ok {
						if x, _, ok := core.NilTest(info, be); ok {
							if root, path, ok := core.X1FieldPath(info, x); ok && root == types.Object(conf) && len(path) >= 1 && !seenPath[core.X1PathString(path)] {
								seenPath[core.X1PathString(path)] = true
								tested = append(tested, x)
							}
						}
					}
					return true
				})
			}
			for _, nd := range g.Nodes {
				if nd.N == nil {
					continue
				}
				var uses []use
				core.Walk(nd.N, core.WalkOpts{}, func(y ast.Node) bool {
					var recv ast.Expr
					switch z := y.(type) {
					case *ast.CallExpr: // method with value receiver called through the pointer
						if se, ok := ast.Unparen(z.Fun).(*ast.SelectorExpr); ok {
							if sel := info.Selections[se]; sel != nil && sel.Kind() == types.MethodVal {
								if _, isPtr := info.TypeOf(se.X).Underlying().(*types.Pointer); isPtr {
									if sig, ok := sel.Obj().Type().(*types.Signature); ok && sig.Recv() != nil {
										if _, recvPtr := sig.Recv().Type().(*types.Pointer); !recvPtr {
											recv = se.X
										}
									}
								}
							}
						}
					case *ast.StarExpr:
						recv = z.X
					}
					if recv != nil {
						for _, t := range tested {
							if core.X1SamePath(info, t)(ast.Unparen(recv)) {
								uses = append(uses, use{nd, t})
							}
						}
					}
					return true
				})
				for _, u := range uses {
					nGuard++
					nonNil := g.NilEdge(core.X1SamePath(info, u.ref), false)
					r.Check(g.OnlyVia(u.n, nonNil), "nil-guarded-config", f.String(), "deref-unguarded:"+core.ExprStr(u.ref), g.Line(u.n),
						"the optional config field "+core.ExprStr(u.ref)+" is dereferenced only where it was found non-nil (a nil dereference here kills the replication's sender goroutine with the batch still queued)")
				}
			}
			r.Check(nGuard >= 1, "nil-guarded-config", f.String(), "guarded-derefs:count", f.Pos(), fmt.Sprintf("%d dereferences of nil-tested config fields examined (RemoteBucketID, RemoteOrgID)", nGuard))
		}
	}
}
