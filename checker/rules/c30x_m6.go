package rules

import (
	"fmt"
	"go/ast"
	"go/types"
	"sort"

	"verif/checker/core"
)

// Strengthening of C30 (m6), driven by the survivors of the fault enumeration.
//
// (failure-propagates-x) the failure-propagates walk made path-sensitive in the
// error variable and extended to transaction closures: shared by C30/C43/C44,
// see propagateXPass below.
//
// (cascade-tolerance) the delete cascades (buckets and tasks of an organisation,
// memberships of an organisation / bucket) tolerate exactly one classified
// error (already gone). Per cascade step, with the step's error given the three
// abstract values nil / classified / other: an unclassified failure ends in a
// failing exit before the next item or step is started (otherwise the
// organisation is removed while a bucket it owns stays behind), and a
// successful step starts the next item or step (an exit there leaves the
// remaining items — memberships of a deleted organisation — in the store).
//
// (cascade-completes) once the organisation record is deleted, no exit of
// DeleteOrganization is reachable before removeResourceRelations except through
// the failure branch of a cascade step (exception: the documented
// ErrTaskServiceNil configuration error).
//
// (lookup-resolves) every name lookup agrees with the record it indexes:
// Get*ByName fetches the record with the id decoded from the index value when
// the index Get succeeded, and fails (without fetching anything) when it did
// not; the by-id getters decode the stored value when the Get succeeded and fail
// otherwise.

func init() {
	extend("C30", "(cascade-tolerance) every step of the delete cascades (DeleteOrganization: buckets, tasks; removeResourceRelations: memberships) is evaluated with its error nil / classified / other: an unclassified failure always ends in a failing exit before the next item, a successful step always continues with the next item; (cascade-completes) after the organisation record is deleted no exit precedes removeResourceRelations except through a failed step; (lookup-resolves) GetBucketByName/GetOrgByName/GetUserByName fetch the record by the id decoded from the index value exactly when the index Get succeeded, GetBucket/GetOrg/GetUser decode the stored value exactly when the Get succeeded; (unique-verdict) in the uniqueness checks a Get that FOUND an entry always ends in a failure that does not depend on the (nil) error variable (a wrapper like ErrInternalServiceError(err) yields nil for nil), and an unclassified Get error fails the check; (failure-propagates-x) failure propagation decided path-sensitively in the error variable (negated and compound error tests) and inside transaction closures.",
		nil, func(p *core.Prog, r *core.Report, tier string) {
			if p.Pkg(tenantPkg) == nil {
				return
			}
			c30xCascade(p, r)
			c30xLookups(p, r)
			c30xUnique(p, r)
			propagateXPass(p, r)
		})
}

// ---------------------------------------------------------------- shared: failure-propagates-x

// propagateXPass applies core.FailuresSwallowedX to every function analysed so
// far: to the function's own graph (reporting only what the base pass
// failure-propagates does not already report) and to the graphs of its function
// literals. The named exceptions of the base pass apply.
func propagateXPass(p *core.Prog, r *core.Report) {
	const rule = "failure-propagates-x"
	var fns []*core.Func
	for f := range r.FuncObjs {
		if f.Decl != nil && f.Decl.Body != nil {
			fns = append(fns, f)
		}
	}
	sort.Slice(fns, func(i, j int) bool { return fns[i].String() < fns[j].String() })
	any := func(*types.Info, *ast.CallExpr) bool { return true }
	sites := 0
	for _, f := range fns {
		info := f.Info()
		name := func(c *ast.CallExpr) string {
			cn := core.FName(core.Callee(info, c))
			if cn == "" {
				cn = core.Trim(core.ExprStr(c.Fun), 40)
			}
			return cn
		}
		base := map[string]bool{}
		_, bsw := core.FailuresSwallowed(f, any)
		for _, s := range bsw {
			// what the base pass itself reports; a pair it excepts is decided here
			// again, under "an error no test classifies": a tolerance that is a
			// classification (`err == ErrNotFound`) does not swallow such an error
			if _, excepted := propagateExcept[f.String()+"|"+name(s.Call)]; !excepted {
				base[name(s.Call)] = true
			}
		}
		for gi, g := range f.Graphs() {
			n, sw := core.FailuresSwallowedX(g, any)
			sites += n
			seen := map[string]bool{}
			for _, s := range sw {
				cn := name(s.Call)
				if seen[cn] {
					continue
				}
				seen[cn] = true
				if gi == 0 && base[cn] {
					continue // reported (or excepted) by failure-propagates
				}
				if why, ok := propagateXExcept[f.String()+"|"+cn]; ok {
					r.Ok(rule, f.String(), p.Pos(s.Call.Pos()), "failure of "+cn+" deliberately tolerated: "+why)
					continue
				}
				where := "the function"
				what := cn + ":failure-swallowed"
				if gi > 0 {
					where = "the closure"
					what = cn + ":failure-swallowed-in-closure"
				}
				r.Bad(rule, f.String(), what, p.Pos(s.Call.Pos()), "a failure of "+cn+" (an error no test classifies) can reach the exit at "+g.Line(s.Exit)+" on which "+where+" reports success")
			}
		}
	}
	r.Note("failure-propagates-x: %d functions, %d error-returning calls walked (own graph and closures)", len(fns), sites)
}

// "function|callee" → reason, for tolerances only the path-sensitive walk or the
// closure walk sees (each read in the source).
var propagateXExcept = map[string]string{
	"dbrp.Service.Create|dbrp.Service.FindByID": "probe for a stored mapping with the requested ID: FindByID reports every miss as an error, and a miss is the normal case of a create (rule create-id-fresh decides the hit)",
	"dbrp.Service.Delete|dbrp.Service.FindByID":                   "documented: deleting a mapping that does not exist is not an error; FindByID reports every miss as an error",
	"dbrp.Service.FindMany|..BucketService.FindBuckets":           "virtual mappings are best-effort: when the buckets cannot be listed the stored mappings found so far are returned",
	"authorization.Store.GetAuthorizationByToken|kv.Bucket.Get": "an index error other than not-found is not tested on its own: it leaves the id key empty, which ID.Decode rejects with EInvalid, and the probe loop over hash variants takes its verdict from `found`; whatever is loaded still has to pass validateToken (C44 rule extract)",
	"tenant.UserSvc.ComparePassword|tenant.IsPasswordStrong": "the strength verdict only matters for a password that matched (it then forces a change); otherwise the comparison's own verdict is returned (C44 rule password decides that)",
}

// rowLeafM6 evaluates the conditions of f that talk about the error variable v
// under the abstract value row, through predicate helpers of the module and
// single-definition boolean temporaries.
func rowLeafM6(p *core.Prog, f *core.Func, v types.Object, row core.ErrRow) core.LeafEval {
	return core.LeafThroughTemps(f.Info(), f.Decl.Body, core.ErrRowLeafP(p, f.Info(), v, row))
}

// ---------------------------------------------------------------- (cascade-tolerance) / (cascade-completes)

// cascadeStep checks one step of a delete cascade: the call node step, its
// error variable given the values nil and other.
func c30xCascadeStep(p *core.Prog, r *core.Report, f *core.Func, g *core.Graph, step *core.Node, name string) {
	const rule = "cascade-tolerance"
	info := f.Info()
	v := g.ErrVarOf(step)
	if !r.Check(v != nil, rule, f.String(), name+":error-not-kept", g.Line(step), "the error of "+name+" is kept in a variable") {
		return
	}
	var head *core.Node
	if loop := g.EnclosingRange(step); loop != nil {
		head = g.RangeHead(loop)
	}
	// the next item or step: the loop head, the step itself, any node that
	// produces a new error value
	anyCall := func(*types.Info, *ast.CallExpr) bool { return true }
	next := func(n *core.Node) bool {
		if n == head || n == step {
			return true
		}
		// a new step: an error variable assigned from a call that is not handed v
		// (copies `e2 := err` and wrappers `err = fmt.Errorf("…%w", err)` are not)
		if n.N == nil || g.ErrVarOf(n) == nil {
			return false
		}
		cs := core.CallsIn(info, n.N, anyCall, core.WalkOpts{})
		for _, cl := range cs {
			if core.Mentions(info, cl, v) {
				return false
			}
		}
		return len(cs) > 0
	}
	// other: only failing exits
	reach := g.ReachUnder(core.After(step, nil), next, rowLeafM6(p, f, v, core.ErrIsOther))
	okOther := true
	for _, n := range sortedNodes(reach) {
		switch {
		case next(n):
			okOther = false
			r.Bad(rule, f.String(), name+":failure-tolerated", g.Line(step), "a failure of "+name+" that is not the tolerated \"already gone\" error lets the cascade continue at "+g.Line(n)+": the owner is removed although this item could not be")
		case core.IsExit(n) && !g.ExitFailsGiven(n, v):
			okOther = false
			r.Bad(rule, f.String(), name+":failure-reported-as-success", g.Line(n), "a failure of "+name+" that is not the tolerated \"already gone\" error reaches an exit that reports success")
		}
		if !okOther {
			break
		}
	}
	if okOther {
		r.Ok(rule, f.String(), g.Line(step), "an unclassified failure of "+name+" always ends in a failing exit")
	}
	// nil: the next item or step is started, no exit in between
	reach = g.ReachUnder(core.After(step, nil), next, rowLeafM6(p, f, v, core.ErrIsNil))
	okNil, cont := true, false
	for _, n := range sortedNodes(reach) {
		if next(n) {
			cont = true
		}
		if core.IsExit(n) && !next(n) {
			okNil = false
			r.Bad(rule, f.String(), name+":success-ends-cascade", g.Line(n), "after a successful "+name+" the function can exit at "+g.Line(n)+" instead of continuing with the next item: the remaining items stay in the store")
			break
		}
	}
	if okNil {
		r.Check(cont, rule, f.String(), name+":no-continuation", g.Line(step), "a successful "+name+" continues with the next item or step")
	}
	// classified ("already gone"): the cascade continues or fails, it never
	// reports success early
	reach = g.ReachUnder(core.After(step, nil), next, rowLeafM6(p, f, v, core.ErrIsSentinel))
	okCls := true
	for _, n := range sortedNodes(reach) {
		if core.IsExit(n) && !next(n) && !g.ExitFailsGiven(n, v) {
			okCls = false
			r.Bad(rule, f.String(), name+":tolerated-error-ends-cascade", g.Line(n), "when "+name+" finds its item already gone the function can report success at "+g.Line(n)+" without handling the remaining items")
			break
		}
	}
	if okCls {
		r.Ok(rule, f.String(), g.Line(step), "an item that is already gone does not end the cascade with success")
	}
}

func c30xCascade(p *core.Prog, r *core.Report) {
	type stepT struct {
		fn   string
		m    core.Matcher
		name string
	}
	for _, s := range []stepT{
		{"OrgSvc.DeleteOrganization", call("*.BucketService.DeleteBucket"), "DeleteBucket"},
		{"OrgSvc.DeleteOrganization", call("*.TaskService.DeleteTask"), "DeleteTask"},
		{"OrgSvc.removeResourceRelations", call("*.UserResourceMappingService.DeleteUserResourceMapping"), "DeleteUserResourceMapping"},
		{"BucketSvc.removeResourceRelations", call("*.UserResourceMappingService.DeleteUserResourceMapping"), "DeleteUserResourceMapping"},
	} {
		f := r.Need(p, tenantPkg, s.fn)
		if f == nil {
			continue
		}
		g := f.Graph()
		steps := g.Select(g.Calling(s.m))
		if !r.Check(len(steps) >= 1, "cascade-tolerance", f.String(), s.name+":absent", f.Pos(), "the cascade step "+s.name+" is present") {
			continue
		}
		for _, st := range steps {
			c30xCascadeStep(p, r, f, g, st, s.name)
		}
	}
	// (cascade-completes)
	const rule = "cascade-completes"
	f := r.Need(p, tenantPkg, "OrgSvc.DeleteOrganization")
	if f == nil {
		return
	}
	g, info := f.Graph(), f.Info()
	isDelOrg := func(n *core.Node) bool {
		if n.N == nil {
			return false
		}
		for _, cl := range core.CallsIn(info, n.N, call("tenant.Store.Update"), core.WalkOpts{}) {
			for _, a := range cl.Args {
				if fl, ok := ast.Unparen(a).(*ast.FuncLit); ok && len(core.AllCalls(info, fl.Body, call("tenant.Store.DeleteOrg"))) > 0 {
					return true
				}
			}
		}
		return false
	}
	rrr := g.Calling(call("tenant.OrgSvc.removeResourceRelations"))
	dels := g.Select(isDelOrg)
	if !r.Check(len(dels) == 1 && len(g.Select(rrr)) >= 1, rule, f.String(), "shape", f.Pos(), "one record delete (Store.Update(DeleteOrg)) and the membership removal are present") {
		return
	}
	del := dels[0]
	v := g.ErrVarOf(del)
	if !r.Check(v != nil, rule, f.String(), "record-delete-error-not-kept", g.Line(del), "the error of the record delete is kept") {
		return
	}
	rowNil := rowLeafM6(p, f, v, core.ErrIsNil)
	// exception: a Service without TaskService is a configuration error that
	// is reported (ErrTaskServiceNil); the rule assumes the service is wired
	wired := func(e ast.Expr) (bool, bool) {
		if x, nonNilOnTrue, ok := core.NilTest(info, e); ok {
			if fv := core.FieldOf(info, x); fv != nil && fv.Name() == "TaskService" {
				return nonNilOnTrue, true
			}
		}
		return false, false
	}
	stop := func(n *core.Node) bool { return rrr(n) }
	reach := g.ReachAfterSuccess(del, stop, v, rowNil, wired)
	ok := true
	for _, n := range sortedNodes(reach) {
		if core.IsExit(n) && !stop(n) {
			ok = false
			r.Bad(rule, f.String(), "exit-before-memberships", g.Line(n), "after the organisation record was deleted the function can exit at "+g.Line(n)+" without a failed step and without removeResourceRelations: the memberships of the deleted organisation stay in the store")
			break
		}
	}
	if ok {
		r.Ok(rule, f.String(), g.Line(del), "after the record delete every exit that is not the failure of a step passes removeResourceRelations")
	}
}

func sortedNodes(m map[*core.Node]bool) []*core.Node {
	var out []*core.Node
	for n := range m {
		out = append(out, n)
	}
	sort.Slice(out, func(i, j int) bool { return out[i].ID < out[j].ID })
	return out
}

// ---------------------------------------------------------------- (lookup-resolves)

// c30xLookup: in f, the Get on kv bucket `bucket` resolves through sink: with
// the Get's error nil every path reaches a sink call (or fails in another
// step), with the error non-nil no sink call and no success exit is reachable.
// sinkOK validates a sink call given the variable holding the Get's value.
func c30xLookup(p *core.Prog, r *core.Report, f *core.Func, bucket string, sink core.Matcher, sinkName string, sinkOK func(g *core.Graph, cl *ast.CallExpr, val types.Object) bool) {
	const rule = "lookup-resolves"
	g, info := f.Graph(), f.Info()
	var get *kvOp
	n := 0
	for _, op := range kvOpsOf(f) {
		if op.op == "Get" && op.bucket != nil && op.bucket.Name() == bucket && op.g == g {
			get = op
			n++
		}
	}
	if !r.Check(n == 1, rule, f.String(), "get:"+bucket, f.Pos(), fmt.Sprintf("one Get on %s in the function body (found %d)", bucket, n)) {
		return
	}
	v := g.ErrVarOf(get.node)
	var val types.Object
	if as, ok := get.node.N.(*ast.AssignStmt); ok && len(as.Lhs) == 2 {
		val = core.ObjOf(info, as.Lhs[0])
	}
	if !r.Check(v != nil && val != nil, rule, f.String(), "get-results-not-kept", g.Line(get.node), "value and error of the Get are kept") {
		return
	}
	isSink := func(nd *core.Node) bool {
		if nd.N == nil {
			return false
		}
		for _, cl := range core.CallsIn(info, nd.N, sink, core.WalkOpts{}) {
			if sinkOK(g, cl, val) {
				return true
			}
		}
		return false
	}
	if !r.Check(len(g.Select(isSink)) >= 1, rule, f.String(), sinkName+":absent", f.Pos(), "the looked-up value is resolved through "+sinkName) {
		return
	}
	reassigned := func(nd *core.Node) bool { return nd != get.node && g.AssigningObj(v)(nd) }
	// found
	reach := g.ReachAfterSuccess(get.node, isSink, v, rowLeafM6(p, f, v, core.ErrIsNil), nil)
	ok, hit := true, false
	for _, nd := range sortedNodes(reach) {
		if isSink(nd) {
			hit = true
			continue
		}
		if core.IsExit(nd) {
			ok = false
			r.Bad(rule, f.String(), "found-not-resolved", g.Line(nd), "although the Get on "+bucket+" succeeded the function can exit at "+g.Line(nd)+" without "+sinkName+" (and without a failed step): an existing entry is not resolved to its record")
			break
		}
	}
	if ok {
		r.Check(hit, rule, f.String(), "found-never-resolved", g.Line(get.node), "a successful Get on "+bucket+" reaches "+sinkName)
	}
	// not found / failed
	for _, row := range []core.ErrRow{core.ErrIsSentinel, core.ErrIsOther} {
		reach := g.ReachUnder(core.After(get.node, nil), reassigned, rowLeafM6(p, f, v, row))
		ok := true
		for _, nd := range sortedNodes(reach) {
			if isSink(nd) {
				ok = false
				r.Bad(rule, f.String(), "resolved-without-entry:"+row.String(), g.Line(nd), "with a failed Get on "+bucket+" ("+row.String()+" error) "+sinkName+" is still reached: the value resolved is not an entry of the store")
				break
			}
			if core.IsExit(nd) && !g.ExitFailsGiven(nd, v) {
				ok = false
				r.Bad(rule, f.String(), "missing-entry-accepted:"+row.String(), g.Line(nd), "with a failed Get on "+bucket+" ("+row.String()+" error) the exit at "+g.Line(nd)+" reports success")
				break
			}
		}
		if ok {
			r.Ok(rule, f.String(), g.Line(get.node), "a failed Get on "+bucket+" ("+row.String()+" error) always fails the lookup")
		}
	}
}

// (unique-verdict) the uniqueness checks, with the error of their Get given the
// values nil / other: when the Get succeeded (the name, id or mapping EXISTS)
// every exit reports a failure that does not depend on the error variable — a
// wrapper such as ErrInternalServiceError(err) returns nil for a nil error and
// would let the duplicate through — and an unclassified Get error fails the
// check.
func c30xUnique(p *core.Prog, r *core.Report) {
	const rule = "unique-verdict"
	for _, t := range []struct{ fn, bucket string }{
		{"Store.uniqueBucketName", "bucketIndex"},
		{"Store.uniqueOrgName", "organizationIndex"},
		{"Store.uniqueUserName", "userIndex"},
		{"Store.uniqueUserID", "userBucket"},
		{"Store.uniqueUserResourceMapping", "urmBucket"},
	} {
		f := r.Need(p, tenantPkg, t.fn)
		if f == nil {
			continue
		}
		g := f.Graph()
		var get *kvOp
		n := 0
		for _, op := range kvOpsOf(f) {
			if op.op == "Get" && op.bucket != nil && op.bucket.Name() == t.bucket && op.g == g {
				get = op
				n++
			}
		}
		if !r.Check(n == 1, rule, f.String(), "get:"+t.bucket, f.Pos(), fmt.Sprintf("one Get on %s in the function body (found %d)", t.bucket, n)) {
			continue
		}
		v := g.ErrVarOf(get.node)
		if !r.Check(v != nil, rule, f.String(), "get-error-not-kept", g.Line(get.node), "the error of the Get is kept") {
			continue
		}
		reassigned := func(nd *core.Node) bool { return nd != get.node && g.AssigningObj(v)(nd) }
		ok := true
		for _, nd := range sortedNodes(g.ReachUnder(core.After(get.node, nil), reassigned, rowLeafM6(p, f, v, core.ErrIsNil))) {
			if reassigned(nd) || (core.IsExit(nd) && !g.ExitFailsStrict(nd)) {
				ok = false
				r.Bad(rule, f.String(), "existing-entry-accepted", g.Line(nd), "although the Get on "+t.bucket+" found an entry the check can end at "+g.Line(nd)+" without a failure that is independent of the (nil) error variable: the duplicate is let through")
				break
			}
		}
		if ok {
			r.Ok(rule, f.String(), g.Line(get.node), "an existing entry in "+t.bucket+" always fails the check")
		}
		ok = true
		for _, nd := range sortedNodes(g.ReachUnder(core.After(get.node, nil), reassigned, rowLeafM6(p, f, v, core.ErrIsOther))) {
			if core.IsExit(nd) && !g.ExitFailsGiven(nd, v) {
				ok = false
				r.Bad(rule, f.String(), "lookup-failure-accepted", g.Line(nd), "a failed Get on "+t.bucket+" (not a not-found) lets the check succeed at "+g.Line(nd))
				break
			}
		}
		if ok {
			r.Ok(rule, f.String(), g.Line(get.node), "an unclassified Get error on "+t.bucket+" fails the check")
		}
	}
}

func c30xLookups(p *core.Prog, r *core.Report) {
	// by name: index value --ID.Decode--> id --getter--> record
	for _, t := range []struct{ fn, idx, getter string }{
		{"Store.GetBucketByName", "bucketIndex", "tenant.Store.GetBucket"},
		{"Store.GetOrgByName", "organizationIndex", "tenant.Store.GetOrg"},
		{"Store.GetUserByName", "userIndex", "tenant.Store.GetUser"},
	} {
		f := r.Need(p, tenantPkg, t.fn)
		if f == nil {
			continue
		}
		info := f.Info()
		c30xLookup(p, r, f, t.idx, call(t.getter), t.getter, func(g *core.Graph, cl *ast.CallExpr, val types.Object) bool {
			if len(cl.Args) < 1 {
				return false
			}
			id := core.ObjOf(info, cl.Args[len(cl.Args)-1])
			if id == nil {
				return false
			}
			// id was filled by id.Decode(<index value>)
			for _, dc := range core.AllCalls(info, f.Decl.Body, call("kit/platform.ID.Decode")) {
				recv, _ := core.RecvCall(info, dc)
				if core.ObjOf(info, core.StripAddrDeref(recv)) == id && len(dc.Args) == 1 && core.ObjOf(info, dc.Args[0]) == val {
					return true
				}
			}
			return false
		})
	}
	// by id: stored value --unmarshal--> record
	for _, t := range []struct{ fn, bucket, dec string }{
		{"Store.GetBucket", "bucketBucket", "tenant.unmarshalBucket"},
		{"Store.GetOrg", "organizationBucket", "tenant.unmarshalOrg"},
		{"Store.GetUser", "userBucket", "tenant.unmarshalUser"},
	} {
		f := r.Need(p, tenantPkg, t.fn)
		if f == nil {
			continue
		}
		info := f.Info()
		c30xLookup(p, r, f, t.bucket, call(t.dec), t.dec, func(g *core.Graph, cl *ast.CallExpr, val types.Object) bool {
			return len(cl.Args) == 1 && core.ObjOf(info, cl.Args[0]) == val
		})
	}
}
