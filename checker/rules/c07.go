package rules

import (
	"fmt"
	"go/ast"
	"go/constant"
	"go/token"
	"go/types"
	"sort"
	"strings"

	"verif/checker/core"
)

const (
	c07s8bRepo = "pkg/encoding/simple8b"
	c07s8bJw   = "github.com/jwilder/encoding/simple8b"
)

func init() {
	register(&Prop{
		ID:       "C07",
		Patterns: []string{"./tsdb/engine/tsm1", "./pkg/encoding/simple8b"},
		Level:    "other",
		Explanation: "Tag/selector table agreement between the encoders and the decoders of the TSM value codecs, all constants derived from the code by constant evaluation: " +
			"(1) codec-tags: per codec family (timestamp, integer, float, boolean, string) the set of format tags that the scalar and batch encoders shift into the high bits of the first encoded byte is collected from the stores to b[0] / WriteByte / []byte{…} headers; every decoder of the family that reads b[0]>>shift must accept each of them — for switch dispatch the case constants of a switch whose default arm rejects, for the batch decoders' function tables the table entry selected by the (clamped, masked) tag, evaluated for all 16 tag values, must be a function with a success exit; encoder and decoder shift amounts and the low-nibble mask agree; families whose decoders ignore the tag (float, boolean, string) must emit one single tag from all encoders and every such decoder must skip exactly the one header byte; no function of the package outside the family tables writes or dispatches on such a header. " +
			"(2) block-types: the constants passed as block type to packBlock (stored at b[0]) are all accepted by BlockType and DecodeBlock, each has a scalar Decode*Block and an array Decode*ArrayBlock guarded by that constant, the DecodeBlock arm of a constant calls the decoder guarded by the same constant, the value-codec family used by the block encoders of a constant equals the family used by its block decoders (always together with the timestamp codec), every value kind (FloatValue … / tsdb.FloatArray …, recognised by type) is written and read under one single block-type constant and the scalar and array kind of one Go value type share it, and every other switch or keyed table over block types covers all of them. " +
			"(3) simple8b (in-repo copy used by the batch codecs and the jwilder module used by the scalar codecs): the selector table has one entry per value of the 4-bit selector; every packN/unpackN referenced from it is verified term by term to place value j at bit j*bits under mask 2^bits-1 for j<n with the selector constant in the top bits, so pack and unpack of one entry are inverse; the canPack chains of Encode/EncodeAll and the numBits table of the in-repo EncodeAll select exactly the entries of the selector table with the same (n,bits), selector index, pack function and consumed count; the run-of-ones cases use selector values whose table entries have bits=0 and the same count; inputs that fit no entry end in an error return; MaxValue equals 2^maxbits-1; both copies have identical tables.",
		NotCovered: "bit-exact round trip of the float (Gorilla), RLE, delta/zig-zag and varint arithmetic, extremes (NaN payloads, MinInt64), block sizes; that the case body / table function of a tag implements the format the encoder of that tag wrote; the snappy and bitstream libraries.",
		Assumptions: []string{
			"a tag constant is visible as a constant expression `c << s` at the store into the header byte",
			"the tables in rules/c07.go list the encoder and decoder functions of each family; a function outside the tables that writes or dispatches on a header is reported",
		},
		Run: runC07,
	})
}

// ---------------------------------------------------------------- families

type c07Family struct {
	name     string
	encoders []string   // functions writing the header byte
	decoders [][]string // decoder units: functions (or "T.*" = all methods of T) that together decode one input
	minEmit  int        // header stores confirmed by reading
}

var c07Families = []c07Family{
	{"timestamp",
		[]string{"encoder.encodePacked", "encoder.encodeRaw", "encoder.encodeRLE", "TimeArrayEncodeAll"},
		[][]string{{"TimeDecoder.*"}, {"CountTimestamps"}, {"TimeArrayDecodeAll"}}, 6},
	{"integer",
		[]string{"IntegerEncoder.encodeRLE", "IntegerEncoder.encodePacked", "IntegerEncoder.encodeUncompressed", "IntegerArrayEncodeAll"},
		[][]string{{"IntegerDecoder.*"}, {"IntegerArrayDecodeAll"}, {"UnsignedArrayDecodeAll"}}, 6},
	{"float",
		[]string{"NewFloatEncoder", "FloatEncoder.Reset", "FloatArrayEncodeAll"},
		[][]string{{"FloatDecoder.*"}, {"FloatArrayDecodeAll"}}, 3},
	{"boolean",
		[]string{"BooleanEncoder.Bytes", "BooleanArrayEncodeAll"},
		[][]string{{"BooleanDecoder.*"}, {"BooleanArrayDecodeAll"}}, 2},
	{"string",
		[]string{"StringEncoder.Bytes", "StringArrayEncodeAll"},
		[][]string{{"StringDecoder.*"}, {"StringArrayDecodeAll"}}, 3},
}

// callee name prefix -> family, used to tell which value codec a block
// encoder/decoder drives (names resolved through go/types, never text).
var c07CodecCallee = []struct{ prefix, family, side string }{
	{"tsdb/engine/tsm1.TimeEncoder.", "timestamp", "enc"},
	{"tsdb/engine/tsm1.encoder.", "timestamp", "enc"},
	{"tsdb/engine/tsm1.TimeArrayEncodeAll", "timestamp", "enc"},
	{"tsdb/engine/tsm1.IntegerEncoder.", "integer", "enc"},
	{"tsdb/engine/tsm1.IntegerArrayEncodeAll", "integer", "enc"},
	{"tsdb/engine/tsm1.UnsignedArrayEncodeAll", "integer", "enc"},
	{"tsdb/engine/tsm1.FloatEncoder.", "float", "enc"},
	{"tsdb/engine/tsm1.FloatArrayEncodeAll", "float", "enc"},
	{"tsdb/engine/tsm1.BooleanEncoder.", "boolean", "enc"},
	{"tsdb/engine/tsm1.BooleanArrayEncodeAll", "boolean", "enc"},
	{"tsdb/engine/tsm1.StringEncoder.", "string", "enc"},
	{"tsdb/engine/tsm1.StringArrayEncodeAll", "string", "enc"},
	{"tsdb/engine/tsm1.TimeDecoder.", "timestamp", "dec"},
	{"tsdb/engine/tsm1.TimeArrayDecodeAll", "timestamp", "dec"},
	{"tsdb/engine/tsm1.CountTimestamps", "timestamp", "dec"},
	{"tsdb/engine/tsm1.IntegerDecoder.", "integer", "dec"},
	{"tsdb/engine/tsm1.IntegerArrayDecodeAll", "integer", "dec"},
	{"tsdb/engine/tsm1.UnsignedArrayDecodeAll", "integer", "dec"},
	{"tsdb/engine/tsm1.FloatDecoder.", "float", "dec"},
	{"tsdb/engine/tsm1.FloatArrayDecodeAll", "float", "dec"},
	{"tsdb/engine/tsm1.BooleanDecoder.", "boolean", "dec"},
	{"tsdb/engine/tsm1.BooleanArrayDecodeAll", "boolean", "dec"},
	{"tsdb/engine/tsm1.StringDecoder.", "string", "dec"},
	{"tsdb/engine/tsm1.StringArrayDecodeAll", "string", "dec"},
}

func runC07(p *core.Prog, r *core.Report, tier string) {
	c07CodecTags(p, r)
	c07BlockTypes(p, r)
	tabRepo := c07Simple8b(p, r, c07s8bRepo, true)
	tabJw := c07Simple8b(p, r, c07s8bJw, false)
	// the scalar codecs pack with the jwilder module, the batch codecs with the
	// in-repo copy: each must read what the other wrote
	if tabRepo != nil && tabJw != nil {
		same := len(tabRepo) == len(tabJw)
		diff := ""
		for i := 0; same && i < len(tabRepo); i++ {
			if tabRepo[i].n != tabJw[i].n || tabRepo[i].bits != tabJw[i].bits {
				same = false
				diff = fmt.Sprintf("selector %d: in-repo (%d,%d) vs jwilder (%d,%d)", i, tabRepo[i].n, tabRepo[i].bits, tabJw[i].n, tabJw[i].bits)
			}
		}
		r.Check(same, "simple8b-table", "selector", "in-repo!=jwilder", "-", "the in-repo simple8b (batch codecs) and github.com/jwilder/encoding/simple8b (scalar codecs) have identical selector tables "+diff)
	}
}

// ---------------------------------------------------------------- (1) codec tags

type c07Emit struct {
	tag, shift int64
	pos        token.Pos
}

// c07ConstShift decodes a constant expression of the form `c << s`.
func c07ConstShift(info *types.Info, e ast.Expr) (tag, shift int64, isConst, isShift bool) {
	v, ok := core.Eval9(info, e, nil)
	if !ok || v.Kind() != constant.Int {
		return 0, 0, false, false
	}
	val, _ := constant.Int64Val(v)
	be, ok := ast.Unparen(e).(*ast.BinaryExpr)
	if !ok || be.Op != token.SHL {
		return val, 0, true, false
	}
	s, ok := core.Int9(info, be.Y)
	if !ok || s <= 0 || s >= 8 {
		return val, 0, true, false
	}
	return val >> uint(s), s, true, true
}

func c07IsIndex0(info *types.Info, e ast.Expr) (*ast.IndexExpr, bool) {
	ix, ok := ast.Unparen(e).(*ast.IndexExpr)
	if !ok || !core.IsByteSeq9(info.TypeOf(ix.X)) {
		return nil, false
	}
	if i, ok := core.Int9(info, ix.Index); !ok || i != 0 {
		return nil, false
	}
	return ix, true
}

// c07Emissions finds the header-byte stores of f: `x[0] = c<<s`,
// `buf.WriteByte(c<<s)`, `[]byte{c<<s, …}`. odd lists header stores whose value
// is constant but not of that form, or (strict) not constant at all.
func c07Emissions(f *core.Func, strict bool) (emits []c07Emit, odd []string) {
	info := f.Info()
	ast.Inspect(f.Decl.Body, func(n ast.Node) bool {
		switch x := n.(type) {
		case *ast.AssignStmt:
			if x.Tok != token.ASSIGN || len(x.Lhs) != len(x.Rhs) {
				return true
			}
			for i, l := range x.Lhs {
				if _, ok := c07IsIndex0(info, l); !ok {
					continue
				}
				tag, s, isConst, isShift := c07ConstShift(info, x.Rhs[i])
				switch {
				case isShift:
					emits = append(emits, c07Emit{tag, s, x.Pos()})
				case isConst:
					odd = append(odd, "constant header byte not of the form tag<<shift at "+f.Prog.Pos(x.Pos()))
				case strict:
					odd = append(odd, "non-constant header byte at "+f.Prog.Pos(x.Pos()))
				}
			}
		case *ast.CallExpr:
			if core.FName(core.Callee(info, x)) == "bytes.Buffer.WriteByte" && len(x.Args) == 1 {
				if tag, s, _, isShift := c07ConstShift(info, x.Args[0]); isShift {
					emits = append(emits, c07Emit{tag, s, x.Pos()})
				}
			}
		case *ast.CompositeLit:
			if t := info.TypeOf(x); t != nil && core.IsByteSeq9(t) && len(x.Elts) > 0 {
				if _, isKV := x.Elts[0].(*ast.KeyValueExpr); !isKV {
					if tag, s, _, isShift := c07ConstShift(info, x.Elts[0]); isShift {
						emits = append(emits, c07Emit{tag, s, x.Pos()})
					}
				}
			}
		}
		return true
	})
	return
}

// c07TagRead is an expression `x[0] >> s` and the variable/field it is stored in.
type c07TagRead struct {
	shift int64
	expr  *ast.BinaryExpr
	store types.Object // local variable or struct field; nil if used in place
	def   ast.Stmt     // the storing statement
}

func c07IsTagRead(info *types.Info, e ast.Expr) (int64, *ast.BinaryExpr, bool) {
	be, ok := ast.Unparen(e).(*ast.BinaryExpr)
	if !ok || be.Op != token.SHR {
		return 0, nil, false
	}
	if _, ok := c07IsIndex0(info, be.X); !ok {
		return 0, nil, false
	}
	s, ok := core.Int9(info, be.Y)
	if !ok {
		return 0, nil, false
	}
	return s, be, true
}

func c07TagReads(f *core.Func) (reads []c07TagRead) {
	info := f.Info()
	ast.Inspect(f.Decl.Body, func(n ast.Node) bool {
		switch x := n.(type) {
		case *ast.AssignStmt:
			if len(x.Lhs) != len(x.Rhs) {
				return true
			}
			for i, rh := range x.Rhs {
				s, be, ok := c07IsTagRead(info, rh)
				if !ok {
					continue
				}
				var obj types.Object
				switch l := ast.Unparen(x.Lhs[i]).(type) {
				case *ast.Ident:
					if obj = info.Defs[l]; obj == nil {
						obj = info.Uses[l]
					}
				case *ast.SelectorExpr:
					if fv := core.FieldOf(info, l); fv != nil {
						obj = fv
					}
				}
				reads = append(reads, c07TagRead{s, be, obj, x})
			}
		case *ast.SwitchStmt:
			if x.Tag != nil {
				if s, be, ok := c07IsTagRead(info, x.Tag); ok {
					reads = append(reads, c07TagRead{s, be, nil, x})
				}
			}
		}
		return true
	})
	return
}

// c07RejectArm: the statements only construct/assign an error or return trivial values.
func c07RejectArm(info *types.Info, body []ast.Stmt) bool {
	trivial := func(e ast.Expr) bool {
		e = ast.Unparen(e)
		if tv, ok := info.Types[e]; ok && (tv.Value != nil || tv.IsNil()) {
			return true
		}
		switch x := e.(type) {
		case *ast.CallExpr:
			return core.IsErrorType(info.TypeOf(x))
		case *ast.CompositeLit:
			return len(x.Elts) == 0
		}
		return false
	}
	for _, s := range body {
		switch x := s.(type) {
		case *ast.AssignStmt:
			for _, rh := range x.Rhs {
				c, ok := ast.Unparen(rh).(*ast.CallExpr)
				if !ok || !core.IsErrorType(info.TypeOf(c)) {
					return false
				}
			}
		case *ast.ReturnStmt:
			for _, res := range x.Results {
				if !trivial(res) {
					return false
				}
			}
		default:
			return false
		}
	}
	return true
}

func c07ObjOfExpr(info *types.Info, e ast.Expr) types.Object {
	switch x := ast.Unparen(e).(type) {
	case *ast.Ident:
		return info.Uses[x]
	case *ast.SelectorExpr:
		if fv := core.FieldOf(info, x); fv != nil {
			return fv
		}
	}
	return nil
}

func c07Mentions(info *types.Info, e ast.Node, objs map[types.Object]bool) types.Object {
	var hit types.Object
	ast.Inspect(e, func(n ast.Node) bool {
		if hit != nil {
			return false
		}
		if ex, ok := n.(ast.Expr); ok {
			if o := c07ObjOfExpr(info, ex); o != nil && objs[o] {
				hit = o
				return false
			}
		}
		return true
	})
	return hit
}

func c07SetStr(m map[int64]bool) string {
	var ks []int64
	for k := range m {
		ks = append(ks, k)
	}
	sort.Slice(ks, func(i, j int) bool { return ks[i] < ks[j] })
	var s []string
	for _, k := range ks {
		s = append(s, fmt.Sprint(k))
	}
	return "{" + strings.Join(s, ",") + "}"
}

// c07UnitFuncs expands a decoder unit ("T.*" = every method of T).
func c07UnitFuncs(p *core.Prog, r *core.Report, unit []string) []*core.Func {
	var out []*core.Func
	for _, n := range unit {
		if strings.HasSuffix(n, ".*") {
			pre := strings.TrimSuffix(n, "*")
			cnt := 0
			for _, f := range p.Funcs(tsm1) {
				if strings.HasPrefix(f.Name, pre) {
					out = append(out, f)
					r.Saw(f)
					cnt++
				}
			}
			r.Check(cnt > 0, "anchor", "tsm1."+n, "unresolved", "-", "decoder type has methods")
			continue
		}
		if f := r.Need(p, tsm1, n); f != nil {
			out = append(out, f)
		}
	}
	return out
}

// c07Accept computes the set of tags a decoder unit accepts. blind=true when no
// function of the unit reads the tag at all.
func c07Accept(p *core.Prog, r *core.Report, rule, cons string, fs []*core.Func, nTags int64) (accept map[int64]bool, shift int64, blind bool, ok bool) {
	stores := map[types.Object]bool{}
	shift = -1
	var inPlace []c07TagRead
	nReads := 0
	for _, f := range fs {
		for _, rd := range c07TagReads(f) {
			nReads++
			if shift >= 0 && rd.shift != shift {
				r.Bad(rule, cons, "tag-shift-differs", p.Pos(rd.expr.Pos()), fmt.Sprintf("tag read with shift %d, elsewhere %d", rd.shift, shift))
				return nil, 0, false, false
			}
			shift = rd.shift
			if rd.store != nil {
				stores[rd.store] = true
			} else {
				inPlace = append(inPlace, rd)
			}
		}
	}
	if nReads == 0 {
		return nil, 0, true, true
	}
	if nTags <= 0 {
		nTags = int64(1) << uint(8-shift)
	}
	ndisp := 0
	restrict := func(set map[int64]bool) {
		ndisp++
		if accept == nil {
			accept = set
			return
		}
		for k := range accept {
			if !set[k] {
				delete(accept, k)
			}
		}
	}
	for _, f := range fs {
		info := f.Info()
		var bad string
		ast.Inspect(f.Decl.Body, func(n ast.Node) bool {
			switch x := n.(type) {
			case *ast.SwitchStmt:
				if x.Tag == nil {
					return true
				}
				isTag := false
				if o := c07ObjOfExpr(info, x.Tag); o != nil && stores[o] {
					isTag = true
				}
				for _, ip := range inPlace {
					if ip.def == ast.Stmt(x) {
						isTag = true
					}
				}
				if !isTag {
					return true
				}
				set := map[int64]bool{}
				rejecting := true
				for _, cl := range x.Body.List {
					cc := cl.(*ast.CaseClause)
					if cc.List == nil {
						if !c07RejectArm(info, cc.Body) {
							rejecting = false
						}
						continue
					}
					for _, ce := range cc.List {
						v, vok := core.Int9(info, ce)
						if !vok {
							bad = "non-constant case in tag switch at " + p.Pos(ce.Pos())
							return false
						}
						set[v] = true
					}
				}
				if rejecting {
					restrict(set)
					r.Ok(rule, cons+"/"+f.Name+":switch", p.Pos(x.Pos()), "dispatch switch accepts "+c07SetStr(set))
				}
			case *ast.CallExpr:
				ix, isIx := ast.Unparen(x.Fun).(*ast.IndexExpr)
				if !isIx {
					return true
				}
				tv := core.PkgVar(info, ix.X)
				if tv == nil {
					return true
				}
				tagObj := c07Mentions(info, ix.Index, stores)
				if tagObj == nil {
					return true
				}
				set, why := c07TableAccept(p, f, x, ix, tv, tagObj, nTags)
				if why != "" {
					bad = why
					return false
				}
				restrict(set)
				r.Ok(rule, cons+"/"+f.Name+":table", p.Pos(x.Pos()), "function-table dispatch accepts "+c07SetStr(set))
			}
			return true
		})
		if bad != "" {
			r.Bad(rule, cons, "dispatch-undecided", f.Pos(), bad)
			return nil, shift, false, false
		}
	}
	if ndisp == 0 {
		r.Bad(rule, cons, "tag-read-without-dispatch", fs[0].Pos(), "the unit reads the header tag but no rejecting switch or function-table dispatch on it was recognised")
		return nil, shift, false, false
	}
	return accept, shift, false, true
}

// c07TableAccept evaluates `table[f(tag)](…)` for every tag value: the tag is
// followed from its definition through clamps (`if tag > c { tag = k }`) to the
// call, the index is folded, and the selected table entry must be a function
// that can succeed.
func c07TableAccept(p *core.Prog, f *core.Func, call *ast.CallExpr, ix *ast.IndexExpr, table *types.Var, tagObj types.Object, nTags int64) (map[int64]bool, string) {
	info := f.Info()
	init := p.VarInit9(table)
	elems, ok := core.LitElems9(info, init)
	if !ok || len(elems) == 0 {
		return nil, "dispatch table " + table.Name() + " is not a composite literal"
	}
	var fns []*core.Func
	for _, el := range elems {
		fo := core.FuncRef9(info, el)
		fn := p.FuncOf(fo)
		if fn == nil {
			return nil, "dispatch table " + table.Name() + " has an entry that is not a declared function"
		}
		fns = append(fns, fn)
	}
	g := f.Graph()
	// definition of the tag variable
	var def *core.Node
	for _, rd := range c07TagReads(f) {
		if rd.store == tagObj {
			def = g.NodeOf(rd.def)
		}
	}
	if def == nil {
		return nil, "definition of the tag variable not in " + f.Name
	}
	sinkNode := g.NodeOf(call)
	if sinkNode == nil {
		return nil, "dispatch call not in the graph of " + f.Name
	}
	set := map[int64]bool{}
	for t := int64(0); t < nTags; t++ {
		sinks, exits, fok, why := g.FlowVar9(core.After(def, nil), tagObj, constant.MakeInt64(t), func(n *core.Node) bool { return n == sinkNode })
		if !fok {
			return nil, why
		}
		if len(exits) > 0 || len(sinks) == 0 {
			continue // some path leaves without dispatching: not accepted
		}
		acc := true
		for _, s := range sinks {
			iv, iok := core.Eval9(info, ix.Index, core.Env9{tagObj: s.Val})
			if !iok {
				return nil, "cannot fold the table index " + core.ExprStr(ix.Index)
			}
			i, _ := constant.Int64Val(iv)
			if i < 0 || int(i) >= len(fns) {
				return nil, fmt.Sprintf("tag %d indexes %s[%d] out of range (len %d)", t, table.Name(), i, len(fns))
			}
			if len(fns[i].Graph().SuccessExits()) == 0 {
				acc = false
			}
		}
		if acc {
			set[t] = true
		}
	}
	return set, ""
}

// c07SkipsHeader: the function slices a []byte parameter as x[1:].
func c07SkipsHeader(f *core.Func) bool {
	info := f.Info()
	params := map[types.Object]bool{}
	if sig, ok := f.Obj.Type().(*types.Signature); ok {
		for i := 0; i < sig.Params().Len(); i++ {
			if core.IsByteSeq9(sig.Params().At(i).Type()) {
				params[sig.Params().At(i)] = true
			}
		}
	}
	found := false
	ast.Inspect(f.Decl.Body, func(n ast.Node) bool {
		se, ok := n.(*ast.SliceExpr)
		if !ok || se.High != nil || se.Low == nil {
			return true
		}
		if o := core.ObjOf(info, se.X); o == nil || !params[o] {
			return true
		}
		if lo, ok := core.Int9(info, se.Low); ok && lo == 1 {
			found = true
		}
		return true
	})
	return found
}

func c07CodecTags(p *core.Prog, r *core.Report) {
	const rule = "codec-tags"
	classified := map[string]bool{}
	for _, fam := range c07Families {
		emitted := map[int64]bool{}
		shifts := map[int64]bool{}
		n := 0
		for _, en := range fam.encoders {
			classified[en] = true
			f := r.Need(p, tsm1, en)
			if f == nil {
				continue
			}
			em, odd := c07Emissions(f, true)
			for _, o := range odd {
				r.Bad(rule, fam.name+"/"+en, "odd-header-store", f.Pos(), o)
			}
			r.Check(len(em) > 0, rule, fam.name+"/"+en, "header-store:absent", f.Pos(), "encoder stores a constant format tag into the header byte")
			for _, e := range em {
				emitted[e.tag] = true
				shifts[e.shift] = true
				n++
			}
		}
		r.Check(n >= fam.minEmit, rule, fam.name, "header-stores<min", "-", fmt.Sprintf("%d header stores found, %d confirmed by reading", n, fam.minEmit))
		r.Check(len(shifts) == 1, rule, fam.name, "encoder-shifts-differ", "-", fmt.Sprintf("all encoders shift the tag by the same amount (%d distinct)", len(shifts)))
		var encShift int64 = -1
		for s := range shifts {
			encShift = s
		}
		nBlind, nDisp := 0, 0
		for _, unit := range fam.decoders {
			uname := strings.Join(unit, "+")
			fs := c07UnitFuncs(p, r, unit)
			for _, f := range fs {
				classified[f.Name] = true
			}
			if len(fs) == 0 {
				continue
			}
			cons := fam.name + "/" + uname
			accept, shift, blind, ok := c07Accept(p, r, rule, cons, fs, 0)
			if !ok {
				continue
			}
			if blind {
				nBlind++
				// the decoder cannot tell formats apart: it must at least skip the header byte
				skip := false
				for _, f := range fs {
					if c07SkipsHeader(f) {
						skip = true
					}
				}
				r.Check(skip, rule, cons, "header-not-skipped", fs[0].Pos(), "decoder that ignores the format tag slices the input at [1:] (one header byte, as written by the encoders)")
				continue
			}
			nDisp++
			r.Check(shift == encShift, rule, cons, "shift-mismatch", fs[0].Pos(), fmt.Sprintf("decoder reads the tag with >>%d, encoders write it with <<%d", shift, encShift))
			var ets []int64
			for t := range emitted {
				ets = append(ets, t)
			}
			sort.Slice(ets, func(i, j int) bool { return ets[i] < ets[j] })
			for _, t := range ets {
				r.Check(accept[t], rule, cons, fmt.Sprintf("tag-%d-not-accepted", t), fs[0].Pos(),
					fmt.Sprintf("tag %d written by an encoder of the family is accepted (accept set %s)", t, c07SetStr(accept)))
			}
			// low-nibble mask used next to the tag
			for _, f := range fs {
				info := f.Info()
				ast.Inspect(f.Decl.Body, func(n ast.Node) bool {
					be, ok := n.(*ast.BinaryExpr)
					if !ok || be.Op != token.AND {
						return true
					}
					if _, ok := c07IsIndex0(info, be.X); !ok {
						return true
					}
					if m, ok := core.Int9(info, be.Y); ok {
						r.Check(m == (int64(1)<<uint(shift))-1, rule, cons+"/"+f.Name, "low-mask-mismatch", p.Pos(be.Pos()),
							fmt.Sprintf("low bits of the header byte are read with mask %#x = 2^%d-1", m, shift))
					}
					return true
				})
			}
		}
		if nBlind > 0 {
			r.Check(len(emitted) == 1, rule, fam.name, "several-tags-but-blind-decoder", "-",
				fmt.Sprintf("%d decoder(s) of the family ignore the tag, so all encoders must write one and the same format tag; written: %s", nBlind, c07SetStr(emitted)))
		}
		r.Check(nBlind+nDisp == len(fam.decoders), rule, fam.name, "decoder-undecided", "-", fmt.Sprintf("%d of %d decoder units decided", nBlind+nDisp, len(fam.decoders)))
	}
	// helper functions of the decoders (decode* methods, table entries) are part of their units
	// sweep: nobody else writes or dispatches on a codec header
	for _, f := range p.Funcs(tsm1) {
		if classified[f.Name] || f.Decl.Body == nil {
			continue
		}
		em, _ := c07Emissions(f, false)
		if len(em) > 0 {
			r.Bad(rule, "tsm1."+f.Name, "unclassified-header-writer", f.Pos(), "function writes a constant tag<<shift header byte but is in no codec family table")
		}
		for _, rd := range c07TagReads(f) {
			_ = rd
			r.Bad(rule, "tsm1."+f.Name, "unclassified-header-reader", f.Pos(), "function stores or switches on x[0]>>shift but is in no codec family table")
			break
		}
	}
}

// ---------------------------------------------------------------- (2) block types

func c07CalleeFams(info *types.Info, body ast.Node, side string) map[string]bool {
	out := map[string]bool{}
	for _, c := range core.AllCalls(info, body, func(*types.Info, *ast.CallExpr) bool { return true }) {
		n := core.FName(core.Callee(info, c))
		if n == "" {
			continue
		}
		for _, e := range c07CodecCallee {
			if e.side != side {
				continue
			}
			if n == e.prefix || (strings.HasSuffix(e.prefix, ".") && strings.HasPrefix(n, e.prefix)) {
				out[e.family] = true
			}
		}
	}
	return out
}

func c07FamStr(m map[string]bool) string {
	var s []string
	for k := range m {
		s = append(s, k)
	}
	sort.Strings(s)
	return strings.Join(s, "+")
}

// c07Kinds returns the value kinds a block encoder/decoder handles: the named
// types implementing tsm1.Value (FloatValue …) that occur in its parameter
// types or as type-assertion targets, and the array structs of another package
// (tsdb.FloatArray …) it takes by pointer.
var c07KindElem = map[string]string{} // value kind -> Go type of one value (float64 …)

func c07Kinds(p *core.Prog, f *core.Func) map[string]bool {
	out := map[string]bool{}
	elemOf := func(nt *types.Named) string {
		st, _ := nt.Underlying().(*types.Struct)
		if st == nil {
			return ""
		}
		for i := 0; i < st.NumFields(); i++ {
			switch st.Field(i).Name() {
			case "value":
				return st.Field(i).Type().String()
			case "Values":
				if sl, ok := st.Field(i).Type().Underlying().(*types.Slice); ok {
					return sl.Elem().String()
				}
			}
		}
		return ""
	}
	pk := p.Pkg(tsm1)
	var valueIface *types.Interface
	if tn, ok := pk.Types.Scope().Lookup("Value").(*types.TypeName); ok {
		valueIface, _ = tn.Type().Underlying().(*types.Interface)
	}
	add := func(t types.Type, fromParam bool) {
		ptr := false
		for i := 0; i < 3; i++ {
			switch u := t.(type) {
			case *types.Pointer:
				t, ptr = u.Elem(), true
				continue
			case *types.Slice:
				t = u.Elem()
				continue
			}
			break
		}
		t = types.Unalias(t)
		nt, ok := t.(*types.Named)
		if !ok || nt.Obj().Pkg() == nil {
			return
		}
		if _, isStruct := nt.Underlying().(*types.Struct); !isStruct {
			return
		}
		if nt.Obj().Pkg() == pk.Types {
			if valueIface != nil && types.Implements(nt, valueIface) && nt.Obj().Name() != "EmptyValue" {
				out[nt.Obj().Name()] = true
				c07KindElem[nt.Obj().Name()] = elemOf(nt)
			}
			return
		}
		if fromParam && ptr && strings.HasPrefix(nt.Obj().Pkg().Path(), core.Mod) {
			out[nt.Obj().Name()] = true
			c07KindElem[nt.Obj().Name()] = elemOf(nt)
		}
	}
	if sig, ok := f.Obj.Type().(*types.Signature); ok {
		for i := 0; i < sig.Params().Len(); i++ {
			add(sig.Params().At(i).Type(), true)
		}
		if sig.Recv() != nil {
			add(sig.Recv().Type(), false)
		}
	}
	ast.Inspect(f.Decl.Body, func(n ast.Node) bool {
		if ta, ok := n.(*ast.TypeAssertExpr); ok && ta.Type != nil {
			if t := f.Info().TypeOf(ta.Type); t != nil {
				add(t, false)
			}
		}
		return true
	})
	return out
}

func c07BlockTypes(p *core.Prog, r *core.Report) {
	const rule = "block-types"
	pack := r.Need(p, tsm1, "packBlock")
	if pack == nil {
		return
	}
	// packBlock stores its type parameter at index 0
	{
		typ := pack.X1Param(1)
		stored := false
		ast.Inspect(pack.Decl.Body, func(n ast.Node) bool {
			as, ok := n.(*ast.AssignStmt)
			if !ok || as.Tok != token.ASSIGN || len(as.Lhs) != len(as.Rhs) {
				return true
			}
			for i, l := range as.Lhs {
				if _, ok := c07IsIndex0(pack.Info(), l); ok && core.ObjOf(pack.Info(), as.Rhs[i]) == types.Object(typ) && typ != nil {
					stored = true
				}
			}
			return true
		})
		r.Check(stored, rule, "tsm1.packBlock", "type-not-at-byte-0", pack.Pos(), "packBlock stores its block-type parameter in byte 0 of the block")
	}
	// emitted set
	emitted := map[int64]*types.Const{} // value -> constant
	encFam := map[int64]string{}
	nPack := 0
	kindConst := map[string]map[int64]bool{} // value kind -> block-type constants used with it
	kindEnc, kindDec := map[string]int{}, map[string]int{}
	isPack := call("tsdb/engine/tsm1.packBlock")
	for _, f := range p.Funcs(tsm1) {
		if f.Decl.Body == nil || f == pack {
			continue
		}
		calls := core.AllCalls(f.Info(), f.Decl.Body, isPack)
		if len(calls) == 0 {
			continue
		}
		r.Saw(f)
		for _, c := range calls {
			nPack++
			if len(c.Args) < 2 {
				continue
			}
			v, ok := core.Int9(f.Info(), c.Args[1])
			co := core.ConstOf(f.Info(), c.Args[1])
			if !r.Check(ok && co != nil, rule, "tsm1."+f.Name, "block-type-not-a-named-constant", p.Pos(c.Pos()), "packBlock is called with a named block-type constant") {
				continue
			}
			if prev := emitted[v]; prev != nil && prev != co {
				r.Bad(rule, "tsm1."+f.Name, "two-constants-one-value", p.Pos(c.Pos()), fmt.Sprintf("%s and %s have the same value %d", prev.Name(), co.Name(), v))
			}
			emitted[v] = co
			fams := c07CalleeFams(f.Info(), f.Decl.Body, "enc")
			hasTime := fams["timestamp"]
			delete(fams, "timestamp")
			if !r.Check(hasTime && len(fams) == 1, rule, "tsm1."+f.Name, "encoder-codec-set", f.Pos(),
				"block encoder drives the timestamp encoder and exactly one value encoder family (found: time="+fmt.Sprint(hasTime)+" value="+c07FamStr(fams)+")") {
				continue
			}
			kinds := c07Kinds(p, f)
			if r.Check(len(kinds) == 1, rule, "tsm1."+f.Name, "encoder-value-kind", f.Pos(), "block encoder handles exactly one value kind ("+c07FamStr(kinds)+")") {
				k := c07FamStr(kinds)
				if kindConst[k] == nil {
					kindConst[k] = map[int64]bool{}
				}
				kindConst[k][v] = true
				kindEnc[k]++
			}
			fam := c07FamStr(fams)
			if prev, ok := encFam[v]; ok && prev != fam {
				r.Bad(rule, "tsm1."+f.Name, "encoder-family-differs", f.Pos(), fmt.Sprintf("block type %s is written with value codec %s here and %s elsewhere", co.Name(), fam, prev))
				continue
			}
			encFam[v] = fam
		}
	}
	r.Check(nPack >= 15, rule, "tsm1.packBlock", "calls<min", pack.Pos(), fmt.Sprintf("%d packBlock call sites (15 confirmed by reading)", nPack))
	r.Check(len(emitted) >= 5, rule, "tsm1.packBlock", "types<min", pack.Pos(), fmt.Sprintf("%d distinct block types written (5 confirmed)", len(emitted)))
	constObjs := map[*types.Const]bool{}
	for _, c := range emitted {
		constObjs[c] = true
	}
	name := func(v int64) string { return emitted[v].Name() }
	var vals []int64
	for v := range emitted {
		vals = append(vals, v)
	}
	sort.Slice(vals, func(i, j int) bool { return vals[i] < vals[j] })

	// guard functions: `x[0] != C` → failing return
	type guardFn struct {
		f     *core.Func
		val   int64
		array bool
	}
	var guards []guardFn
	guardOf := map[*core.Func]int64{}
	for _, f := range p.Funcs(tsm1) {
		if f.Decl.Body == nil {
			continue
		}
		info := f.Info()
		g := f.Graph()
		if g == nil {
			continue
		}
		for _, st := range f.Decl.Body.List {
			is, ok := st.(*ast.IfStmt)
			if !ok {
				continue
			}
			be, ok := ast.Unparen(is.Cond).(*ast.BinaryExpr)
			if !ok || be.Op != token.NEQ {
				continue
			}
			x, c := be.X, be.Y
			if core.ConstOf(info, c) == nil {
				x, c = c, x
			}
			co := core.ConstOf(info, c)
			if co == nil || !constObjs[co] {
				continue
			}
			// x is param[0] or a local whose single definition is param[0]
			x = core.ResolveLocal(info, f.Decl.Body, x)
			if _, ok := c07IsIndex0(info, x); !ok {
				continue
			}
			// the guarded branch fails
			fails := len(is.Body.List) > 0
			if fails {
				rs, isRet := is.Body.List[len(is.Body.List)-1].(*ast.ReturnStmt)
				if !isRet {
					fails = false
				} else if nd := g.NodeOf(rs); nd != nil {
					for _, s := range g.SuccessExits() {
						if s == nd {
							fails = false
						}
					}
				}
			}
			if !fails {
				continue
			}
			v, _ := core.Int9(info, c)
			arr := false
			if sig, ok := f.Obj.Type().(*types.Signature); ok {
				for i := 0; i < sig.Params().Len(); i++ {
					if pt, ok := sig.Params().At(i).Type().(*types.Pointer); ok {
						// *tsdb.FloatArray (struct of parallel slices) vs *[]FloatValue
						if _, isStruct := pt.Elem().Underlying().(*types.Struct); isStruct {
							arr = true
						}
					}
				}
			}
			guards = append(guards, guardFn{f, v, arr})
			guardOf[f] = v
			r.Saw(f)
			break
		}
	}
	r.Check(len(guards) >= 10, rule, "tsm1.Decode*Block", "guards<min", "-", fmt.Sprintf("%d block decoders guarded by a block-type constant (10 confirmed)", len(guards)))
	for _, v := range vals {
		nS, nA := 0, 0
		for _, gd := range guards {
			if gd.val != v {
				continue
			}
			if gd.array {
				nA++
			} else {
				nS++
			}
			kinds := c07Kinds(p, gd.f)
			if r.Check(len(kinds) == 1, rule, "tsm1."+gd.f.Name, "decoder-value-kind", gd.f.Pos(), "block decoder produces exactly one value kind ("+c07FamStr(kinds)+")") {
				k := c07FamStr(kinds)
				if kindConst[k] == nil {
					kindConst[k] = map[int64]bool{}
				}
				kindConst[k][v] = true
				kindDec[k]++
			}
			fams := c07CalleeFams(gd.f.Info(), gd.f.Decl.Body, "dec")
			hasTime := fams["timestamp"]
			delete(fams, "timestamp")
			fam := c07FamStr(fams)
			r.Check(hasTime && len(fams) == 1 && fam == encFam[v], rule, "tsm1."+gd.f.Name, "codec-family-mismatch", gd.f.Pos(),
				fmt.Sprintf("decoder of block type %s drives the timestamp decoder and value codec %q; the encoders of that type use %q", name(v), fam, encFam[v]))
		}
		r.Check(nS >= 1, rule, "block-type/"+name(v), "no-scalar-decoder", "-", "a Decode*Block function is guarded by this type")
		r.Check(nA >= 1, rule, "block-type/"+name(v), "no-array-decoder", "-", "a Decode*ArrayBlock function is guarded by this type")
	}

	// a value kind is written and read under one and the same block type
	{
		var ks []string
		for k := range kindConst {
			ks = append(ks, k)
		}
		sort.Strings(ks)
		for _, k := range ks {
			r.Check(len(kindConst[k]) == 1, rule, "value-kind/"+k, "several-block-types", "-",
				fmt.Sprintf("every block encoder and decoder of %s uses the same block-type constant (values %s)", k, c07SetStr(kindConst[k])))
			r.Check(kindEnc[k] >= 1 && kindDec[k] >= 1, rule, "value-kind/"+k, "encoder-or-decoder-missing", "-",
				fmt.Sprintf("%s has %d block encoder(s) and %d block decoder(s)", k, kindEnc[k], kindDec[k]))
		}
		// the scalar kind and the array kind of one Go value type share the block type
		byElem := map[string]map[int64]bool{}
		for _, k := range ks {
			el := c07KindElem[k]
			if !r.Check(el != "", rule, "value-kind/"+k, "element-type-unknown", "-", "element type of the value kind resolved ("+el+")") {
				continue
			}
			if byElem[el] == nil {
				byElem[el] = map[int64]bool{}
			}
			for v := range kindConst[k] {
				byElem[el][v] = true
			}
		}
		var els []string
		for el := range byElem {
			els = append(els, el)
		}
		sort.Strings(els)
		for _, el := range els {
			r.Check(len(byElem[el]) == 1, rule, "value-type/"+el, "several-block-types", "-",
				fmt.Sprintf("scalar and array blocks of %s values carry the same block type (values %s)", el, c07SetStr(byElem[el])))
		}
		r.Check(len(els) >= 5, rule, "value-type", "types<min", "-", fmt.Sprintf("%d value types (5 confirmed)", len(els)))
		r.Check(len(ks) >= 10, rule, "value-kind", "kinds<min", "-", fmt.Sprintf("%d value kinds (5 *Value + 5 *Array confirmed)", len(ks)))
	}

	// BlockType and DecodeBlock accept every written type
	swCases := func(f *core.Func, sw *ast.SwitchStmt) (set map[int64]*ast.CaseClause, rejecting bool) {
		set = map[int64]*ast.CaseClause{}
		rejecting = true
		for _, cl := range sw.Body.List {
			cc := cl.(*ast.CaseClause)
			if cc.List == nil {
				rejecting = c07RejectArm(f.Info(), cc.Body)
				continue
			}
			for _, ce := range cc.List {
				if v, ok := core.Int9(f.Info(), ce); ok {
					set[v] = cc
				}
			}
		}
		return
	}
	blockSwitches := func(f *core.Func) []*ast.SwitchStmt {
		var out []*ast.SwitchStmt
		ast.Inspect(f.Decl.Body, func(n ast.Node) bool {
			sw, ok := n.(*ast.SwitchStmt)
			if !ok || sw.Tag == nil {
				return true
			}
			cnt := map[*types.Const]bool{}
			for _, cl := range sw.Body.List {
				for _, ce := range cl.(*ast.CaseClause).List {
					if co := core.ConstOf(f.Info(), ce); co != nil && constObjs[co] {
						cnt[co] = true
					}
				}
			}
			if len(cnt) >= 2 {
				out = append(out, sw)
			}
			return true
		})
		return out
	}
	if f := r.Need(p, tsm1, "BlockType"); f != nil {
		sws := blockSwitches(f)
		if r.Check(len(sws) == 1, rule, "tsm1.BlockType", "switch:absent", f.Pos(), "BlockType switches on the block-type byte") {
			tag := core.ResolveLocal(f.Info(), f.Decl.Body, sws[0].Tag)
			_, is0 := c07IsIndex0(f.Info(), tag)
			r.Check(is0, rule, "tsm1.BlockType", "tag-not-byte-0", p.Pos(sws[0].Pos()), "the switch tag is byte 0 of the block (where packBlock stores the type)")
			set, rej := swCases(f, sws[0])
			r.Check(rej, rule, "tsm1.BlockType", "default-accepts", p.Pos(sws[0].Pos()), "unknown block types are rejected")
			for _, v := range vals {
				r.Check(set[v] != nil, rule, "tsm1.BlockType", name(v)+"-not-accepted", p.Pos(sws[0].Pos()), "block type written by an encoder is accepted")
			}
		}
	}
	if f := r.Need(p, tsm1, "DecodeBlock"); f != nil {
		sws := blockSwitches(f)
		if r.Check(len(sws) == 1, rule, "tsm1.DecodeBlock", "switch:absent", f.Pos(), "DecodeBlock switches on the block type") {
			set, _ := swCases(f, sws[0])
			for _, v := range vals {
				cc := set[v]
				if !r.Check(cc != nil, rule, "tsm1.DecodeBlock", name(v)+"-not-accepted", p.Pos(sws[0].Pos()), "block type written by an encoder has a decoding arm") {
					continue
				}
				okArm := false
				got := ""
				for _, c := range core.AllCalls(f.Info(), cc, func(*types.Info, *ast.CallExpr) bool { return true }) {
					if cf := p.FuncOf(core.Callee(f.Info(), c)); cf != nil {
						if gv, isG := guardOf[cf]; isG {
							got = cf.Name
							okArm = gv == v
						}
					}
				}
				r.Check(okArm, rule, "tsm1.DecodeBlock", name(v)+"-arm-decoder", p.Pos(cc.Pos()), "the arm calls the block decoder guarded by the same constant (calls "+got+")")
			}
		}
	}
	// every other switch / keyed table over block types is complete
	nOther := 0
	for _, f := range p.Funcs(tsm1) {
		if f.Decl.Body == nil || f.Name == "BlockType" || f.Name == "DecodeBlock" {
			continue
		}
		for _, sw := range blockSwitches(f) {
			nOther++
			set, _ := swCases(f, sw)
			for _, v := range vals {
				r.Check(set[v] != nil, "block-type-switch", "tsm1."+f.Name, name(v)+"-missing", p.Pos(sw.Pos()), "switch over block types covers every type an encoder writes")
			}
		}
	}
	r.Check(nOther >= 2, "block-type-switch", "tsm1", "switches<min", "-", fmt.Sprintf("%d further block-type switches (2 confirmed: tsmBatchKeyIterator.merge, Engine field type)", nOther))
	if pk := p.Pkg(tsm1); pk != nil {
		for _, file := range pk.Syntax {
			for _, d := range file.Decls {
				gd, ok := d.(*ast.GenDecl)
				if !ok || gd.Tok != token.VAR {
					continue
				}
				for _, sp := range gd.Specs {
					vs := sp.(*ast.ValueSpec)
					for i, val := range vs.Values {
						lit, ok := ast.Unparen(val).(*ast.CompositeLit)
						if !ok {
							continue
						}
						keys := map[*types.Const]bool{}
						for _, el := range lit.Elts {
							if kv, ok := el.(*ast.KeyValueExpr); ok {
								if co := core.ConstOf(pk.TypesInfo, kv.Key); co != nil && constObjs[co] {
									keys[co] = true
								}
							}
						}
						if len(keys) < 2 {
							continue
						}
						for _, v := range vals {
							r.Check(keys[emitted[v]], "block-type-switch", "tsm1."+vs.Names[i].Name, name(v)+"-missing", p.Pos(lit.Pos()), "table keyed by block type has an entry for every type an encoder writes")
						}
					}
				}
			}
		}
	}
}

// ---------------------------------------------------------------- (3) simple8b

type c07s8bEntry struct {
	n, bits      int64
	unpack, pack *types.Func
}

// c07s8bOrTerms flattens a | b | c.
func c07s8bOrTerms(e ast.Expr) []ast.Expr {
	e = ast.Unparen(e)
	if be, ok := e.(*ast.BinaryExpr); ok && be.Op == token.OR {
		return append(c07s8bOrTerms(be.X), c07s8bOrTerms(be.Y)...)
	}
	return []ast.Expr{e}
}

// c07s8bCheckPack verifies packN: selector constant k<<shift | src[j]<<(j*bits), j<n.
func c07s8bCheckPack(f *core.Func, k, n, bits, shift int64) string {
	info := f.Info()
	src := f.X1Param(0)
	var ret *ast.ReturnStmt
	for _, st := range f.Decl.Body.List {
		switch x := st.(type) {
		case *ast.ReturnStmt:
			ret = x
		case *ast.AssignStmt:
			// `_ = src[k]` bounds-check hint
			if len(x.Lhs) == 1 {
				if id, ok := x.Lhs[0].(*ast.Ident); ok && id.Name == "_" {
					continue
				}
			}
			return "unexpected statement"
		default:
			return "unexpected statement"
		}
	}
	if ret == nil || len(ret.Results) != 1 {
		return "no single return expression"
	}
	seen := map[int64]bool{}
	nConst := 0
	for _, t := range c07s8bOrTerms(ret.Results[0]) {
		if v, ok := core.Uint9(info, t); ok {
			nConst++
			if v != uint64(k)<<uint(shift) {
				return fmt.Sprintf("selector constant %#x, want %d<<%d", v, k, shift)
			}
			continue
		}
		sh := int64(0)
		x := t
		if be, ok := t.(*ast.BinaryExpr); ok && be.Op == token.SHL {
			s, ok := core.Int9(info, be.Y)
			if !ok {
				return "non-constant shift"
			}
			sh, x = s, ast.Unparen(be.X)
		}
		ix, ok := x.(*ast.IndexExpr)
		if !ok || core.ObjOf(info, ix.X) != types.Object(src) || src == nil {
			return "term is not src[j]<<s: " + core.ExprStr(t)
		}
		j, ok := core.Int9(info, ix.Index)
		if !ok {
			return "non-constant index"
		}
		if seen[j] {
			return fmt.Sprintf("src[%d] packed twice", j)
		}
		seen[j] = true
		if sh != j*bits {
			return fmt.Sprintf("src[%d] shifted by %d, want %d", j, sh, j*bits)
		}
	}
	if nConst != 1 {
		return fmt.Sprintf("%d selector constants", nConst)
	}
	for j := int64(0); j < n; j++ {
		if !seen[j] {
			return fmt.Sprintf("src[%d] not packed", j)
		}
	}
	if int64(len(seen)) != n {
		return fmt.Sprintf("%d values packed, want %d", len(seen), n)
	}
	return ""
}

// c07s8bCheckUnpack verifies unpackN: dst[j] = (v >> j*bits) & (2^bits-1), j<n; for
// bits==0: dst[i] = 1 for the first n elements.
func c07s8bCheckUnpack(f *core.Func, n, bits int64) string {
	info := f.Info()
	v, dst := f.X1Param(0), f.X1Param(1)
	if v == nil || dst == nil {
		return "unexpected signature"
	}
	if bits == 0 {
		if len(f.Decl.Body.List) != 1 {
			return "unexpected body"
		}
		rs, ok := f.Decl.Body.List[0].(*ast.RangeStmt)
		if !ok || rs.Value != nil || rs.Key == nil {
			return "not a range over dst"
		}
		cnt := int64(-1)
		switch x := ast.Unparen(rs.X).(type) {
		case *ast.Ident:
			if info.Uses[x] == types.Object(dst) {
				if pt, ok := dst.Type().(*types.Pointer); ok {
					if at, ok := pt.Elem().Underlying().(*types.Array); ok {
						cnt = at.Len()
					}
				}
			}
		case *ast.SliceExpr:
			if core.ObjOf(info, x.X) == types.Object(dst) && x.Low == nil && x.High != nil {
				if h, ok := core.Int9(info, x.High); ok {
					cnt = h
				}
			}
		}
		if cnt < n { // filling more than n is harmless: the decoders consume n
			return fmt.Sprintf("fills %d elements, want at least %d", cnt, n)
		}
		if len(rs.Body.List) != 1 {
			return "unexpected loop body"
		}
		as, ok := rs.Body.List[0].(*ast.AssignStmt)
		if !ok || len(as.Lhs) != 1 || len(as.Rhs) != 1 {
			return "unexpected loop body"
		}
		ix, ok := as.Lhs[0].(*ast.IndexExpr)
		if !ok || core.ObjOf(info, ix.X) != types.Object(dst) || core.ObjOf(info, ix.Index) != info.Defs[rs.Key.(*ast.Ident)] {
			return "loop does not store dst[i]"
		}
		if one, ok := core.Int9(info, as.Rhs[0]); !ok || one != 1 {
			return "run value is not 1"
		}
		return ""
	}
	mask := (uint64(1) << uint(bits)) - 1
	seen := map[int64]bool{}
	for _, st := range f.Decl.Body.List {
		as, ok := st.(*ast.AssignStmt)
		if !ok || as.Tok != token.ASSIGN || len(as.Lhs) != 1 || len(as.Rhs) != 1 {
			return "unexpected statement"
		}
		ix, ok := as.Lhs[0].(*ast.IndexExpr)
		if !ok || core.ObjOf(info, ix.X) != types.Object(dst) {
			return "store is not dst[j]"
		}
		j, ok := core.Int9(info, ix.Index)
		if !ok {
			return "non-constant index"
		}
		if seen[j] {
			return fmt.Sprintf("dst[%d] stored twice", j)
		}
		seen[j] = true
		and, ok := ast.Unparen(as.Rhs[0]).(*ast.BinaryExpr)
		if !ok || and.Op != token.AND {
			return "value is not (v>>s)&mask"
		}
		m, ok := core.Uint9(info, and.Y)
		if !ok || m != mask {
			return fmt.Sprintf("dst[%d] mask %#x, want %#x", j, m, mask)
		}
		sh := int64(0)
		x := ast.Unparen(and.X)
		if be, ok := x.(*ast.BinaryExpr); ok && be.Op == token.SHR {
			s, ok := core.Int9(info, be.Y)
			if !ok {
				return "non-constant shift"
			}
			sh, x = s, ast.Unparen(be.X)
		}
		if core.ObjOf(info, x) != types.Object(v) {
			return "value is not taken from v"
		}
		if sh != j*bits {
			return fmt.Sprintf("dst[%d] taken from bit %d, want %d", j, sh, j*bits)
		}
	}
	for j := int64(0); j < n; j++ {
		if !seen[j] {
			return fmt.Sprintf("dst[%d] not stored", j)
		}
	}
	if int64(len(seen)) != n {
		return fmt.Sprintf("%d values stored, want %d", len(seen), n)
	}
	return ""
}

// c07s8bChainArm is one `if canPack(src, n, bits) { … }` arm.
type c07s8bChainArm struct {
	n, bits int64
	body    *ast.BlockStmt
	pos     token.Pos
}

// c07s8bChain collects the canPack arms of a function, in order, and the final else.
func c07s8bChain(f *core.Func, canPack *types.Func) (arms []c07s8bChainArm, last *ast.BlockStmt) {
	info := f.Info()
	ast.Inspect(f.Decl.Body, func(n ast.Node) bool {
		is, ok := n.(*ast.IfStmt)
		if !ok {
			return true
		}
		c, ok := ast.Unparen(is.Cond).(*ast.CallExpr)
		if !ok || core.Callee(info, c) != canPack || len(c.Args) != 3 {
			return true
		}
		nn, ok1 := core.Int9(info, c.Args[1])
		bb, ok2 := core.Int9(info, c.Args[2])
		if ok1 && ok2 {
			arms = append(arms, c07s8bChainArm{nn, bb, is.Body, is.Pos()})
		}
		if eb, ok := is.Else.(*ast.BlockStmt); ok {
			last = eb
		}
		return true
	})
	return
}

// c07s8bCheckArm verifies one arm against the selector table: it produces the
// packed word of entry k (a constant k<<shift for bits==0, else pack_k of
// exactly n values) and consumes n values.
func c07s8bCheckArm(f *core.Func, arm c07s8bChainArm, tab []c07s8bEntry, shift int64) string {
	info := f.Info()
	k := -1
	for i, e := range tab {
		if e.n == arm.n && e.bits == arm.bits {
			k = i
		}
	}
	if k < 0 {
		return fmt.Sprintf("canPack(%d,%d) matches no selector entry", arm.n, arm.bits)
	}
	// the produced word and the consumed count
	var word ast.Expr
	var count ast.Expr
	for _, st := range arm.body.List {
		switch x := st.(type) {
		case *ast.ReturnStmt:
			if len(x.Results) >= 2 {
				word, count = x.Results[0], x.Results[1]
			}
		case *ast.AssignStmt:
			if len(x.Lhs) != 1 || len(x.Rhs) != 1 {
				continue
			}
			if x.Tok == token.ADD_ASSIGN {
				count = x.Rhs[0]
			} else if x.Tok == token.ASSIGN {
				if _, isIx := x.Lhs[0].(*ast.IndexExpr); isIx {
					word = x.Rhs[0]
				}
			}
		}
	}
	if word == nil || count == nil {
		return "arm shape not recognised (no packed word / consumed count)"
	}
	if c, ok := core.Int9(info, count); !ok || c != arm.n {
		return fmt.Sprintf("consumes %s values, canPack tested %d", core.ExprStr(count), arm.n)
	}
	if v, ok := core.Uint9(info, word); ok {
		if arm.bits != 0 {
			return "constant word for a selector that carries bits"
		}
		if v != uint64(k)<<uint(shift) {
			return fmt.Sprintf("constant word %#x, want selector %d<<%d", v, k, shift)
		}
		return ""
	}
	c, ok := ast.Unparen(word).(*ast.CallExpr)
	if !ok || core.Callee(info, c) == nil {
		return "packed word is neither a constant nor a pack call"
	}
	if core.Callee(info, c) != tab[k].pack {
		return fmt.Sprintf("calls %s, selector %d packs with %s", core.Callee(info, c).Name(), k, tab[k].pack.Name())
	}
	if len(c.Args) != 1 {
		return "pack call arity"
	}
	se, ok := ast.Unparen(c.Args[0]).(*ast.SliceExpr)
	if !ok || se.High == nil {
		return "pack argument is not a slice of n values"
	}
	width := int64(-1)
	if se.Low == nil {
		if h, ok := core.Int9(info, se.High); ok {
			width = h
		}
	} else if be, ok := ast.Unparen(se.High).(*ast.BinaryExpr); ok && be.Op == token.ADD && core.SameExpr(info, be.X, se.Low) {
		if h, ok := core.Int9(info, be.Y); ok {
			width = h
		}
	}
	if width != arm.n {
		return fmt.Sprintf("passes %d values to %s, want %d", width, tab[k].pack.Name(), arm.n)
	}
	return ""
}

func c07Simple8b(p *core.Prog, r *core.Report, pkg string, inRepo bool) []c07s8bEntry {
	const rule = "simple8b-table"
	label := "simple8b"
	if !inRepo {
		label = "jwilder/simple8b"
	}
	pk := p.Pkg(pkg)
	if !r.Check(pk != nil, "anchor", label, "package-not-loaded", "-", "package "+pkg+" loaded with syntax") {
		return nil
	}
	info := pk.TypesInfo
	selVar, selInit := core.PkgVarInit9(pk, "selector")
	if !r.Check(selVar != nil && selInit != nil, "anchor", label+".selector", "unresolved", "-", "selector table resolved") {
		return nil
	}
	elems, ok := core.LitElems9(info, selInit)
	if !r.Check(ok && len(elems) > 0, rule, label+".selector", "not-a-literal", p.Pos(selInit.Pos()), "selector is a composite literal") {
		return nil
	}
	var tab []c07s8bEntry
	for i, el := range elems {
		fl := core.StructLitFields9(info, el)
		n, ok1 := core.Int9(info, fl["n"])
		b, ok2 := core.Int9(info, fl["bit"])
		un, pa := core.FuncRef9(info, fl["unpack"]), core.FuncRef9(info, fl["pack"])
		if !r.Check(fl != nil && ok1 && ok2 && un != nil && pa != nil, rule, fmt.Sprintf("%s.selector[%d]", label, i), "entry-not-constant", p.Pos(selInit.Pos()), "entry is {n, bit, unpack, pack} with constant n, bit") {
			return nil
		}
		tab = append(tab, c07s8bEntry{n, b, un, pa})
	}
	// the shift that extracts the selector in the decoders: every index into
	// `selector` is a variable defined as x >> shift
	shifts := map[int64]bool{}
	nIdx := 0
	for _, f := range p.Funcs(pkg) {
		if f.Decl.Body == nil {
			continue
		}
		ast.Inspect(f.Decl.Body, func(n ast.Node) bool {
			ix, ok := n.(*ast.IndexExpr)
			if !ok || core.PkgVar(f.Info(), ix.X) != selVar {
				return true
			}
			nIdx++
			def := ast.Unparen(core.ResolveLocal(f.Info(), f.Decl.Body, ix.Index))
			// (word >> shift) & mask with mask = len(selector)-1 is the same index
			if and, isAnd := def.(*ast.BinaryExpr); isAnd && and.Op == token.AND {
				if m, mok := core.Int9(f.Info(), and.Y); mok && m == int64(len(tab))-1 {
					def = ast.Unparen(and.X)
				}
			}
			be, ok := def.(*ast.BinaryExpr)
			if !ok || be.Op != token.SHR {
				r.Bad(rule, label+"."+f.Name, "selector-index-not-a-shift", p.Pos(ix.Pos()), "index into the selector table is not defined as word >> shift: "+core.ExprStr(def))
				return true
			}
			if s, ok := core.Int9(f.Info(), be.Y); ok {
				shifts[s] = true
			}
			return true
		})
	}
	r.Check(nIdx >= 8, rule, label+".selector", "uses<min", "-", fmt.Sprintf("%d decoder uses of the selector table", nIdx))
	if !r.Check(len(shifts) == 1, rule, label+".selector", "decoder-shifts-differ", "-", fmt.Sprintf("all decoders extract the selector with the same shift (%d distinct)", len(shifts))) {
		return tab
	}
	var shift int64
	for s := range shifts {
		shift = s
	}
	r.Check(int64(len(tab)) == int64(1)<<uint(64-shift), rule, label+".selector", "index-set", p.Pos(selInit.Pos()),
		fmt.Sprintf("the table has %d entries = 2^(64-%d): every selector a decoder can extract has an entry", len(tab), shift))
	// (n,bits) sanity: n*bits fits below the selector, entries distinct
	maxBits := int64(0)
	pairs := map[[2]int64]bool{}
	for i, e := range tab {
		r.Check(e.n*e.bits <= shift && e.n > 0, rule, fmt.Sprintf("%s.selector[%d]", label, i), "does-not-fit", p.Pos(selInit.Pos()), fmt.Sprintf("%d values of %d bits fit in the %d payload bits", e.n, e.bits, shift))
		r.Check(!pairs[[2]int64{e.n, e.bits}], rule, fmt.Sprintf("%s.selector[%d]", label, i), "duplicate-entry", p.Pos(selInit.Pos()), "(n,bits) is unique")
		pairs[[2]int64{e.n, e.bits}] = true
		if e.bits > maxBits {
			maxBits = e.bits
		}
	}
	// pack/unpack of each entry are inverse, term by term
	packUsed := false // is the .pack column read anywhere?
	for _, f := range p.Funcs(pkg) {
		if f.Decl.Body == nil {
			continue
		}
		ast.Inspect(f.Decl.Body, func(n ast.Node) bool {
			if se, ok := n.(*ast.SelectorExpr); ok {
				if fv := core.FieldOf(f.Info(), se); fv != nil && fv.Name() == "pack" && fv.Pkg() == pk.Types {
					packUsed = true
				}
			}
			return true
		})
	}
	for i, e := range tab {
		cons := fmt.Sprintf("%s.selector[%d]", label, i)
		uf := p.FuncOf(e.unpack)
		pf := p.FuncOf(e.pack)
		if !r.Check(uf != nil && pf != nil, "anchor", cons, "pack/unpack-unresolved", "-", "pack and unpack functions have bodies") {
			continue
		}
		r.Saw(uf)
		r.Saw(pf)
		why := c07s8bCheckUnpack(uf, e.n, e.bits)
		r.Check(why == "", rule, cons, "unpack", uf.Pos(), fmt.Sprintf("%s stores value j<%d from bits [j*%d,(j+1)*%d) of the word %s", uf.Name, e.n, e.bits, e.bits, why))
		if e.bits == 0 && !packUsed {
			continue // run-of-ones selectors are written as constants by the encoders; their pack entry is never called
		}
		why = c07s8bCheckPack(pf, int64(i), e.n, e.bits, shift)
		r.Check(why == "", rule, cons, "pack", pf.Pos(), fmt.Sprintf("%s places value j<%d at bit j*%d and selector %d in the top bits %s", pf.Name, e.n, e.bits, i, why))
	}
	// MaxValue
	if c, ok := pk.Types.Scope().Lookup("MaxValue").(*types.Const); r.Check(ok, "anchor", label+".MaxValue", "unresolved", "-", "MaxValue resolved") {
		v, _ := constant.Uint64Val(c.Val())
		r.Check(v == (uint64(1)<<uint(maxBits))-1, rule, label+".MaxValue", "value", "-", fmt.Sprintf("MaxValue = 2^%d-1, the largest value the widest selector entry holds", maxBits))
	}
	// encoder chains
	canPack, _ := pk.Types.Scope().Lookup("canPack").(*types.Func)
	r.Check(canPack != nil, "anchor", label+".canPack", "unresolved", "-", "canPack resolved")
	chainFuncs := []string{"Encode"}
	if !inRepo {
		chainFuncs = append(chainFuncs, "EncodeAll")
	}
	for _, fn := range chainFuncs {
		f := r.Need(p, pkg, fn)
		if f == nil || canPack == nil {
			continue
		}
		arms, last := c07s8bChain(f, canPack)
		cons := label + "." + fn
		covered := map[int]bool{}
		for _, a := range arms {
			why := c07s8bCheckArm(f, a, tab, shift)
			r.Check(why == "", rule, cons, fmt.Sprintf("arm(%d,%d)", a.n, a.bits), p.Pos(a.pos), fmt.Sprintf("the canPack(%d,%d) arm writes the word of the selector entry with the same (n,bits) and consumes n values %s", a.n, a.bits, why))
			for i, e := range tab {
				if e.n == a.n && e.bits == a.bits {
					covered[i] = true
				}
			}
		}
		r.Check(len(covered) == len(tab) && len(arms) == len(tab), rule, cons, "index-set", f.Pos(), fmt.Sprintf("the encoder chain has one arm per selector entry (%d arms, %d entries covered of %d)", len(arms), len(covered), len(tab)))
		// order: more values per word first (greedy), so that decoding consumes what encoding produced
		sortedArms := true
		for i := 1; i < len(arms); i++ {
			if arms[i].n >= arms[i-1].n {
				sortedArms = false
			}
		}
		r.Check(sortedArms, rule, cons, "arm-order", f.Pos(), "arms are tried in decreasing n")
		// rejects what it cannot pack
		if r.Check(last != nil, rule, cons, "no-else", f.Pos(), "the chain ends in an else arm") {
			g := f.Graph()
			fails := false
			ast.Inspect(last, func(n ast.Node) bool {
				rs, ok := n.(*ast.ReturnStmt)
				if !ok {
					return true
				}
				nd := g.NodeOf(rs)
				isSucc := false
				for _, s := range g.SuccessExits() {
					if s == nd {
						isSucc = true
					}
				}
				if !isSucc {
					fails = true
				}
				return true
			})
			r.Check(fails, rule, cons, "out-of-range-not-rejected", p.Pos(last.Pos()), "values that fit no selector entry end in an error return")
		}
	}
	if inRepo {
		c07S8bEncodeAll(p, r, pk.TypesInfo, pkg, label, tab, shift)
	}
	return tab
}

// c07S8bEncodeAll checks the in-repo EncodeAll: the numBits table and the
// run-of-ones special cases against the selector table.
func c07S8bEncodeAll(p *core.Prog, r *core.Report, info *types.Info, pkg, label string, tab []c07s8bEntry, shift int64) {
	const rule = "simple8b-table"
	f := r.Need(p, pkg, "EncodeAll")
	if f == nil {
		return
	}
	cons := label + ".EncodeAll"
	nbVar, nbInit := core.PkgVarInit9(p.Pkg(pkg), "numBits")
	if !r.Check(nbVar != nil && nbInit != nil, "anchor", label+".numBits", "unresolved", "-", "numBits table resolved") {
		return
	}
	rows, ok := core.LitElems9(info, nbInit)
	if !r.Check(ok, rule, label+".numBits", "not-a-literal", p.Pos(nbInit.Pos()), "numBits is a composite literal") {
		return
	}
	// the loop `for code := range numBits`
	var loop *ast.RangeStmt
	ast.Inspect(f.Decl.Body, func(n ast.Node) bool {
		if rs, ok := n.(*ast.RangeStmt); ok && core.PkgVar(info, rs.X) == nbVar && rs.Key != nil {
			loop = rs
		}
		return true
	})
	if !r.Check(loop != nil, rule, cons, "numBits-loop:absent", f.Pos(), "EncodeAll ranges over numBits") {
		return
	}
	code := info.Defs[loop.Key.(*ast.Ident)]
	// selector word: uint64(code+off) << S
	var off, sh int64 = -1, -1
	var nCol, bCol int64 = -1, -1
	var intN, bitN types.Object
	ast.Inspect(loop.Body, func(n ast.Node) bool {
		switch x := n.(type) {
		case *ast.BinaryExpr:
			if x.Op != token.SHL {
				return true
			}
			s, ok := core.Int9(info, x.Y)
			if !ok {
				return true
			}
			in := ast.Unparen(x.X)
			if c, ok := in.(*ast.CallExpr); ok && len(c.Args) == 1 {
				in = ast.Unparen(c.Args[0])
			}
			if be, ok := in.(*ast.BinaryExpr); ok && be.Op == token.ADD && core.ObjOf(info, be.X) == code {
				if o, ok := core.Int9(info, be.Y); ok {
					off, sh = o, s
				}
			}
		case *ast.AssignStmt:
			// intN := int(numBits[code][0]); bitN := numBits[code][1]
			if x.Tok != token.DEFINE || len(x.Lhs) != 1 || len(x.Rhs) != 1 {
				return true
			}
			in := ast.Unparen(x.Rhs[0])
			if c, ok := in.(*ast.CallExpr); ok && len(c.Args) == 1 {
				if tv, has := info.Types[c.Fun]; has && tv.IsType() {
					in = ast.Unparen(c.Args[0])
				}
			}
			outer, ok := in.(*ast.IndexExpr)
			if !ok {
				return true
			}
			inner, ok := ast.Unparen(outer.X).(*ast.IndexExpr)
			if !ok || core.PkgVar(info, inner.X) != nbVar || core.ObjOf(info, inner.Index) != code {
				return true
			}
			col, ok := core.Int9(info, outer.Index)
			if !ok {
				return true
			}
			lhs := info.Defs[x.Lhs[0].(*ast.Ident)]
			// which one is consumed (i += v) and which one bounds the values (1 << v)?
			usedAsCount, usedAsBits := false, false
			ast.Inspect(loop.Body, func(m ast.Node) bool {
				switch y := m.(type) {
				case *ast.AssignStmt:
					if y.Tok == token.ADD_ASSIGN && len(y.Rhs) == 1 && core.ObjOf(info, y.Rhs[0]) == lhs {
						usedAsCount = true
					}
				case *ast.BinaryExpr:
					if y.Op == token.SHL {
						if one, ok := core.Int9(info, y.X); ok && one == 1 && core.MentionsObj(info, y.Y, lhs) {
							usedAsBits = true
						}
					}
				}
				return true
			})
			if usedAsCount {
				nCol, intN = col, lhs
			}
			if usedAsBits {
				bCol, bitN = col, lhs
			}
		}
		return true
	})
	_, _ = intN, bitN
	if !r.Check(off >= 0 && sh >= 0, rule, cons, "selector-word:absent", p.Pos(loop.Pos()), "the packed word starts as uint64(code+offset) << shift") {
		return
	}
	r.Check(sh == shift, rule, cons, "selector-shift", p.Pos(loop.Pos()), fmt.Sprintf("EncodeAll writes the selector at bit %d, the decoders read it at bit %d", sh, shift))
	if !r.Check(nCol >= 0 && bCol >= 0 && nCol != bCol, rule, cons, "numBits-columns", p.Pos(loop.Pos()), "the consumed count and the value width are read from two different columns of numBits") {
		return
	}
	r.Check(int64(len(rows))+off == int64(len(tab)), rule, cons, "index-set", p.Pos(nbInit.Pos()), fmt.Sprintf("numBits rows (%d) + offset (%d) = selector entries (%d)", len(rows), off, len(tab)))
	for c, row := range rows {
		cols, ok := core.LitElems9(info, row)
		if !ok || int64(len(cols)) <= nCol || int64(len(cols)) <= bCol {
			r.Bad(rule, fmt.Sprintf("%s.numBits[%d]", label, c), "row-not-constant", p.Pos(nbInit.Pos()), "row is a literal pair")
			continue
		}
		n, ok1 := core.Int9(info, cols[nCol])
		b, ok2 := core.Int9(info, cols[bCol])
		k := int64(c) + off
		good := ok1 && ok2 && k < int64(len(tab)) && tab[k].n == n && tab[k].bits == b
		want := ""
		if k < int64(len(tab)) {
			want = fmt.Sprintf("selector[%d] = (%d,%d)", k, tab[k].n, tab[k].bits)
		}
		r.Check(good, rule, fmt.Sprintf("%s.numBits[%d]", label, c), "row-vs-selector", p.Pos(row.Pos()), fmt.Sprintf("row (%d,%d) written with selector %d equals %s", n, b, k, want))
	}
	// values that fit no row are rejected: the statement after the loop fails
	g := f.Graph()
	_, _, done := g.LoopNodes(loop)
	if r.Check(done != nil, rule, cons, "loop-exit:absent", p.Pos(loop.Pos()), "exit of the numBits loop found") {
		okFail := true
		succ := map[*core.Node]bool{}
		for _, s := range g.SuccessExits() {
			succ[s] = true
		}
		// only the exits reachable without starting another iteration of the outer loop
		reach := g.Reach([]*core.Node{done}, core.IsForLoopHead9, nil)
		n := 0
		for x := range reach {
			if len(x.Succ) == 0 {
				n++
				if succ[x] {
					okFail = false
				}
			}
		}
		r.Check(okFail && n > 0, rule, cons, "out-of-range-not-rejected", p.Pos(loop.Pos()), "when no numBits row fits the next values the function returns an error")
	}
	// run-of-ones cases: tagless switch arms with `i += N`
	nRun := 0
	ast.Inspect(f.Decl.Body, func(nn ast.Node) bool {
		sw, ok := nn.(*ast.SwitchStmt)
		if !ok || sw.Tag != nil {
			return true
		}
		// the word variable: assigned to dst[j] after the switch; find `v := uint64(0)` style single definition
		for _, cl := range sw.Body.List {
			cc := cl.(*ast.CaseClause)
			var cnt int64 = -1
			var word ast.Expr
			var wordVar types.Object
			for _, st := range cc.Body {
				as, ok := st.(*ast.AssignStmt)
				if !ok || len(as.Lhs) != 1 || len(as.Rhs) != 1 {
					continue
				}
				if as.Tok == token.ADD_ASSIGN {
					if c, ok := core.Int9(info, as.Rhs[0]); ok {
						cnt = c
					}
				} else if as.Tok == token.ASSIGN {
					if _, ok := core.Uint9(info, as.Rhs[0]); ok {
						word = as.Rhs[0]
						wordVar = core.ObjOf(info, as.Lhs[0])
					}
				}
			}
			if cnt < 0 {
				continue
			}
			nRun++
			val := uint64(0)
			if word != nil {
				val, _ = core.Uint9(info, word)
			} else {
				// the initial value of the word variable assigned elsewhere in the switch
				for _, cl2 := range sw.Body.List {
					for _, st := range cl2.(*ast.CaseClause).Body {
						if as, ok := st.(*ast.AssignStmt); ok && as.Tok == token.ASSIGN && len(as.Lhs) == 1 {
							if _, isC := core.Uint9(info, as.Rhs[0]); isC {
								wordVar = core.ObjOf(info, as.Lhs[0])
							}
						}
					}
				}
				found := false
				if wordVar != nil {
					if d, ok := core.SingleDef(info, f.Decl.Body, wordVar); ok && d.Rhs != nil {
						if v, ok := core.Uint9(info, d.Rhs); ok {
							val, found = v, true
						}
					} else {
						// several definitions: take the := one
						for _, d := range core.DefsOf(info, f.Decl.Body, wordVar) {
							if as, isAs := d.Stmt.(*ast.AssignStmt); d.Rhs != nil && isAs && as.Tok == token.DEFINE {
								if v, ok := core.Uint9(info, d.Rhs); ok {
									val, found = v, true
								}
							}
						}
					}
				}
				if !found {
					r.Bad(rule, cons, fmt.Sprintf("run-%d-word-undecided", cnt), p.Pos(cc.Pos()), "cannot determine the word written for this run length")
					continue
				}
			}
			k := val >> uint(shift)
			good := int(k) < len(tab) && tab[k].n == cnt && tab[k].bits == 0 && val == k<<uint(shift)
			r.Check(good, rule, cons, fmt.Sprintf("run-%d", cnt), p.Pos(cc.Pos()), fmt.Sprintf("a run of %d ones is written as selector %d whose entry holds %d values of 0 bits", cnt, k, cnt))
		}
		return true
	})
	r.Check(nRun >= 2, rule, cons, "run-cases<min", f.Pos(), fmt.Sprintf("%d run-of-ones cases (2 confirmed: 240, 120)", nRun))
}
