package rules

import (
	"fmt"
	"go/ast"
	"go/constant"
	"go/token"
	"go/types"
	"sort"
	"strings"

	"verif/checker/core"
)

const tomlPk8 = "toml"

func init() {
	register(&Prop{
		ID:       "C34",
		Patterns: []string{"./toml"},
		Level:    "other",
		Explanation: "Necessary-condition rules for exact size/duration configuration values in package toml, decided on types, constants and CFG paths: " +
			"(1) checked-mul: every non-constant integer multiplication in the package (today one, in unmarshalSizeV1) is followed, on every path to a success exit or to the store through the destination pointer, by the branch `product/operand == other operand` (the division round-trip overflow test); " +
			"(2) checked-conversion: every integer conversion in the package that narrows or changes signedness of a non-constant operand is reachable only through branches that bound the operand inside the target range (compared with constants), or takes its operand from strconv.ParseInt/ParseUint with a constant bitSize that fits the target; negAsUint64 (negation) is reachable only where its argument is negative; the generic helpers marshalSizeV1/unmarshalSizeV1 are only instantiated with a size type and a base type of the same underlying integer type; " +
			"(3) suffix-table: the suffix→multiplier tables of marshalSizeV1 (switch cases: divisor in the guard, divisor of the quotient, suffix rune), unmarshalSizeV1 (tag switch on the suffix byte) and rewriteBareIECSuffix (letter→\"kib\"/\"mib\"/\"gib\") agree with each other and with k=2^10, m=2^20, g=2^30, both letter cases map to the same multiplier, and the three tables cover the same letters; " +
			"(4) parse-errors: errors of the strconv/humanize/time parsers and of rewriteBareIECSuffix are propagated, and the destination is never stored on a path leaving a parser through its failure branch; " +
			"(5) wire-format: the active Size/SSize alias either has no MarshalText (integer encoding, exact) or its MarshalText delegates to marshalSizeV1; Duration marshals through time.Duration.String and parses through time.ParseDuration.",
		NotCovered:  "the value semantics of github.com/dustin/go-humanize (decimal/IEC suffix meaning, float precision on the humanize path), the regular expressions that route inputs, and the round trip as a value-level equality.",
		Assumptions: []string{"strconv.ParseInt/ParseUint with bitSize n return values that fit n bits", "time.Duration.String and time.ParseDuration are inverse"},
		Run:         runC34,
	})
}

func runC34(p *core.Prog, r *core.Report, tier string) {
	if p.Pkg(tomlPk8) == nil {
		r.Bad("anchor", tomlPk8, "unresolved", "-", "package not loaded")
		return
	}
	c34Mul(p, r)
	c34Conv(p, r)
	c34Suffix(p, r)
	c34Errors(p, r)
	c34Wire(p, r)
}

func isIntType8(t types.Type) bool {
	if t == nil {
		return false
	}
	if tp, ok := t.(*types.TypeParam); ok {
		// type parameter constrained to integer types
		iface, _ := tp.Constraint().Underlying().(*types.Interface)
		if iface == nil {
			return false
		}
		all := iface.NumEmbeddeds() > 0
		for i := 0; i < iface.NumEmbeddeds(); i++ {
			if !unionAllInt8(iface.EmbeddedType(i)) {
				all = false
			}
		}
		return all
	}
	b, ok := t.Underlying().(*types.Basic)
	return ok && b.Info()&types.IsInteger != 0
}

func unionAllInt8(t types.Type) bool {
	if u, ok := t.(*types.Union); ok {
		for i := 0; i < u.Len(); i++ {
			if !isIntType8(u.Term(i).Type()) {
				return false
			}
		}
		return u.Len() > 0
	}
	return isIntType8(t)
}

// ---------------------------------------------------------------- (1) multiplication

func c34Mul(p *core.Prog, r *core.Report) {
	const rule = "checked-mul"
	found := 0
	for _, f := range p.Funcs(tomlPk8) {
		if f.Decl.Body == nil {
			continue
		}
		info := f.Info()
		var muls []*ast.BinaryExpr
		ast.Inspect(f.Decl.Body, func(n ast.Node) bool {
			switch x := n.(type) {
			case *ast.BinaryExpr:
				if (x.Op == token.MUL || x.Op == token.SHL) && isIntType8(info.TypeOf(x)) {
					if tv := info.Types[x]; tv.Value == nil {
						muls = append(muls, x)
					}
				}
			case *ast.AssignStmt:
				if x.Tok == token.MUL_ASSIGN || x.Tok == token.SHL_ASSIGN {
					if isIntType8(info.TypeOf(x.Lhs[0])) {
						r.Saw(f)
						found++
						r.Bad(rule, f.String(), "compound-mul", p.Pos(x.Pos()), "integer `*=`/`<<=` on a non-constant: the overflow test needs the operands, use a checked product")
					}
				}
			}
			return true
		})
		for _, m := range muls {
			found++
			r.Saw(f)
			checkMul8(p, r, f, m)
		}
	}
	r.Check(found >= 1, rule, tomlPk8, "sites:count", "-", fmt.Sprintf("%d non-constant integer multiplication(s)/shift(s) in package toml (>= 1 confirmed by reading: unmarshalSizeV1)", found))
}

func checkMul8(p *core.Prog, r *core.Report, f *core.Func, m *ast.BinaryExpr) {
	const rule = "checked-mul"
	info := f.Info()
	g := f.GraphOf8(m.Pos())
	pos := p.Pos(m.Pos())
	if m.Op == token.SHL {
		r.Bad(rule, f.String(), "shift", pos, "non-constant integer shift feeding a value: no overflow test form is recognised for shifts")
		return
	}
	n := g.NodeOf(m)
	as, _ := n.N.(*ast.AssignStmt)
	var prod types.Object
	if as != nil && len(as.Lhs) == 1 && len(as.Rhs) == 1 && ast.Unparen(as.Rhs[0]) == ast.Expr(m) {
		prod = core.ObjOf(info, as.Lhs[0])
	}
	a, b := core.ObjOf(info, m.X), core.ObjOf(info, m.Y)
	if prod == nil || a == nil || b == nil {
		r.Bad(rule, f.String(), "product-form", pos, "the product is not `p := x * y` over plain variables; the overflow test cannot be matched to it")
		return
	}
	// p, x, y must not be reassigned between the product and the test: require single assignment of p
	if len(core.AssignsTo8(info, g.Body, prod)) != 1 {
		r.Bad(rule, f.String(), "product-reassigned", pos, "the product variable is assigned more than once")
		return
	}
	// the no-overflow edge: p / x == y  (or p / y == x)
	noOverflow := core.CmpFactEdge8(func(c core.Cmp8) bool {
		if c.Op != token.EQL {
			return false
		}
		d, ok := c.L.(*ast.BinaryExpr)
		if !ok || d.Op != token.QUO || core.ObjOf(info, d.X) != prod {
			return false
		}
		dv, other := core.ObjOf(info, d.Y), core.ObjOf(info, c.R)
		return (dv == a && other == b) || (dv == b && other == a)
	})
	if !g.HasEdge8(noOverflow) {
		r.Bad(rule, f.String(), "overflow-test:absent", pos, "no branch `product/operand == other operand` follows the multiplication")
		return
	}
	reach := g.Reach(core.After(n, nil), nil, noOverflow)
	bad := ""
	for _, x := range g.SuccessExits() {
		if reach[x] {
			bad = "success exit at " + g.Line(x)
		}
	}
	for x := range reach {
		if x.N == nil {
			continue
		}
		if as, ok := x.N.(*ast.AssignStmt); ok {
			for _, l := range as.Lhs {
				if _, isStar := ast.Unparen(l).(*ast.StarExpr); isStar {
					bad = "store through pointer at " + g.Line(x)
				}
			}
		}
	}
	r.Check(bad == "", rule, f.String(), "unchecked-product", pos, "every path from the multiplication to a success exit or a store through the destination passes the division round-trip overflow test"+ifs8(bad != "", " — bypassed: "+bad))
}

func ifs8(c bool, s string) string {
	if c {
		return s
	}
	return ""
}

// ---------------------------------------------------------------- (2) conversions

type intRange8 struct {
	min, max constant.Value
	signed   bool
	bits     int64
}

func rangeOf8(sizes types.Sizes, t types.Type) (intRange8, bool) {
	b, ok := t.Underlying().(*types.Basic)
	if !ok || b.Info()&types.IsInteger == 0 {
		return intRange8{}, false
	}
	bits := sizes.Sizeof(b) * 8
	one := constant.MakeInt64(1)
	if b.Info()&types.IsUnsigned != 0 {
		max := constant.BinaryOp(constant.Shift(one, token.SHL, uint(bits)), token.SUB, one)
		return intRange8{constant.MakeInt64(0), max, false, bits}, true
	}
	hi := constant.Shift(one, token.SHL, uint(bits-1))
	return intRange8{constant.UnaryOp(token.SUB, hi, 0), constant.BinaryOp(hi, token.SUB, one), true, bits}, true
}

func c34Conv(p *core.Prog, r *core.Report) {
	const rule = "checked-conversion"
	pk := p.Pkg(tomlPk8)
	sizes := pk.TypesSizes
	lossy, guarded := 0, 0
	for _, f := range p.Funcs(tomlPk8) {
		if f.Decl.Body == nil {
			continue
		}
		info := f.Info()
		ast.Inspect(f.Decl.Body, func(n ast.Node) bool {
			c, ok := n.(*ast.CallExpr)
			if !ok || len(c.Args) != 1 {
				return true
			}
			tv, ok := info.Types[c.Fun]
			if !ok || !tv.IsType() {
				return true
			}
			dst, src := tv.Type, info.TypeOf(c.Args[0])
			if av := info.Types[c.Args[0]]; av.Value != nil {
				return true // constant operand: the compiler rejects out-of-range constants
			}
			dr, ok1 := rangeOf8(sizes, dst)
			sr, ok2 := rangeOf8(sizes, src)
			if !ok1 || !ok2 {
				return true // type parameters are handled through the instantiation rule
			}
			needUpper := constant.Compare(sr.max, token.GTR, dr.max)
			needLower := constant.Compare(sr.min, token.LSS, dr.min)
			if !needUpper && !needLower {
				return true
			}
			lossy++
			r.Saw(f)
			what := types.TypeString(src, types.RelativeTo(pk.Types)) + "->" + types.TypeString(dst, types.RelativeTo(pk.Types))
			if ok, why := convGuarded8(p, f, c, dr, needUpper, needLower); ok {
				guarded++
				r.Ok(rule, f.String(), p.Pos(c.Pos()), what+": "+why)
			} else {
				r.Bad(rule, f.String(), what, p.Pos(c.Pos()), "conversion "+what+" can wrap: "+why)
			}
			return true
		})
	}
	r.Check(lossy >= 8, rule, tomlPk8, "sites:count", "-", fmt.Sprintf("%d narrowing/sign-changing integer conversions found, %d guarded (>= 8 confirmed by reading)", lossy, guarded))

	// negAsUint64 negates its argument: every call site is reachable only where the argument is negative
	if nf := r.Need(p, tomlPk8, "negAsUint64"); nf != nil {
		sites := 0
		for _, f := range p.Funcs(tomlPk8) {
			if f.Decl.Body == nil {
				continue
			}
			info := f.Info()
			for _, c := range core.AllCalls(info, f.Decl.Body, call("toml.negAsUint64")) {
				sites++
				g := f.GraphOf8(c.Pos())
				arg := ast.Unparen(c.Args[0])
				if cv, ok := arg.(*ast.CallExpr); ok && len(cv.Args) == 1 {
					if tv := info.Types[cv.Fun]; tv.IsType() {
						arg = ast.Unparen(cv.Args[0]) // same-width signed conversion of the named type
					}
				}
				v := core.ObjOf(info, arg)
				neg := core.CmpFactEdge8(func(cm core.Cmp8) bool {
					if core.ObjOf(info, cm.L) != v || v == nil {
						return false
					}
					k, ok := core.IntConst8(info, cm.R)
					if !ok {
						return false
					}
					switch cm.Op {
					case token.LSS:
						return constant.Sign(k) <= 0
					case token.LEQ:
						return constant.Sign(k) < 0
					}
					return false
				})
				n := g.NodeOf(c)
				okSite := n != nil && v != nil && len(g.Bypassing8([]*core.Node{n}, neg)) == 0
				r.Check(okSite, rule, f.String(), "negAsUint64-arg", p.Pos(c.Pos()), "negAsUint64 is called only where its argument is known negative")
			}
		}
		r.Check(sites >= 1, rule, nf.String(), "callers:absent", nf.Pos(), fmt.Sprintf("%d call site(s) of negAsUint64", sites))
	}

	// generic instantiations keep signedness/width
	for _, gen := range []string{"marshalSizeV1", "unmarshalSizeV1"} {
		gf := r.Need(p, tomlPk8, gen)
		if gf == nil {
			continue
		}
		n := 0
		for id, inst := range pk.TypesInfo.Instances {
			if pk.TypesInfo.Uses[id] != gf.Obj || inst.TypeArgs.Len() != 2 {
				continue
			}
			n++
			a, b := inst.TypeArgs.At(0), inst.TypeArgs.At(1)
			r.Check(types.Identical(a.Underlying(), b.Underlying()), rule, gf.String(), "instantiation:"+types.TypeString(a, types.RelativeTo(pk.Types)), p.Pos(id.Pos()),
				fmt.Sprintf("instantiated with %s / %s: same underlying integer type (the T↔base conversions inside cannot change sign or width)", a, b))
		}
		r.Check(n >= 2, rule, gf.String(), "instantiations:count", gf.Pos(), fmt.Sprintf("%d instantiation(s) (>= 2 confirmed by reading)", n))
	}
}

// convGuarded8 decides whether conversion c (target range dr) is protected.
func convGuarded8(p *core.Prog, f *core.Func, c *ast.CallExpr, dr intRange8, needUpper, needLower bool) (bool, string) {
	info := f.Info()
	g := f.GraphOf8(c.Pos())
	n := g.NodeOf(c)
	if n == nil {
		return false, "conversion not found in the CFG"
	}
	opnd := ast.Unparen(c.Args[0])
	negated := false
	if u, ok := opnd.(*ast.UnaryExpr); ok && u.Op == token.SUB {
		opnd, negated = ast.Unparen(u.X), true
	}
	v := core.ObjOf(info, opnd)
	if v == nil {
		return false, "operand is not a plain variable"
	}
	// idiom: operand assigned once from strconv.ParseInt/ParseUint with a constant bitSize that fits
	if !negated {
		as := core.AssignsTo8(info, g.Body, v)
		if len(as) == 1 && as[0].Index == 0 {
			if pc, ok := as[0].Rhs.(*ast.CallExpr); ok && len(pc.Args) == 3 {
				name := core.FName(core.Callee(info, pc))
				if bs, isC := core.IntConst8(info, pc.Args[2]); isC {
					bits, _ := constant.Int64Val(bs)
					if name == "strconv.ParseUint" && !dr.signed && bits > 0 && bits <= dr.bits {
						return true, fmt.Sprintf("operand comes from strconv.ParseUint(…, %d) which fits the %d-bit target", bits, dr.bits)
					}
					if name == "strconv.ParseInt" && dr.signed && bits > 0 && bits <= dr.bits {
						return true, fmt.Sprintf("operand comes from strconv.ParseInt(…, %d) which fits the %d-bit target", bits, dr.bits)
					}
				}
			}
		}
	}
	// the operand must not be reassigned between guard and conversion: parameters/locals with
	// at most one assignment are accepted
	if len(core.AssignsTo8(info, g.Body, v)) > 1 {
		return false, "operand variable is assigned more than once"
	}
	cmpWith := func(cm core.Cmp8) (constant.Value, bool) {
		if core.ObjOf(info, cm.L) != v {
			return nil, false
		}
		return core.IntConst8(info, cm.R)
	}
	upper := core.CmpFactEdge8(func(cm core.Cmp8) bool {
		k, ok := cmpWith(cm)
		if !ok {
			return false
		}
		switch cm.Op {
		case token.LEQ, token.EQL:
			return constant.Compare(k, token.LEQ, dr.max)
		case token.LSS:
			return constant.Compare(constant.BinaryOp(k, token.SUB, constant.MakeInt64(1)), token.LEQ, dr.max)
		}
		return false
	})
	lower8 := core.CmpFactEdge8(func(cm core.Cmp8) bool {
		k, ok := cmpWith(cm)
		if !ok {
			return false
		}
		switch cm.Op {
		case token.GEQ, token.EQL:
			return constant.Compare(k, token.GEQ, dr.min)
		case token.GTR:
			return constant.Compare(constant.BinaryOp(k, token.ADD, constant.MakeInt64(1)), token.GEQ, dr.min)
		}
		return false
	})
	if negated {
		// uint64(-v) / -int64(v) style: handled only for the two forms in the package
		//   T(-v) with v signed: needs v != MinInt (negation overflow) — magnitude contract checked at call sites
		vr, ok := rangeOf8(p.Pkg(tomlPk8).TypesSizes, v.Type())
		if !ok || !vr.signed {
			return false, "negated operand of unsigned type"
		}
		notMin := core.CmpFactEdge8(func(cm core.Cmp8) bool {
			k, ok := cmpWith(cm)
			if !ok {
				return false
			}
			switch cm.Op {
			case token.NEQ:
				return constant.Compare(k, token.EQL, vr.min)
			case token.GTR:
				return constant.Compare(k, token.GEQ, vr.min)
			}
			return false
		})
		if len(g.Bypassing8([]*core.Node{n}, notMin)) > 0 {
			return false, "negation of a signed operand is reachable without excluding the minimum value"
		}
		return true, "negated operand excludes the minimum value (callers pass negative values only, see negAsUint64-arg)"
	}
	if needUpper && len(g.Bypassing8([]*core.Node{n}, upper)) > 0 {
		return false, "reachable without a branch bounding the operand by the target maximum"
	}
	if needLower && len(g.Bypassing8([]*core.Node{n}, lower8)) > 0 {
		return false, "reachable without a branch bounding the operand by the target minimum"
	}
	return true, "operand bounded by constant comparison(s) on every path"
}

// ---------------------------------------------------------------- (3) suffix tables

var wantMult8 = map[rune]int64{'k': 1 << 10, 'm': 1 << 20, 'g': 1 << 30}

func runeConst8(info *types.Info, e ast.Expr) (rune, bool) {
	v, ok := core.IntConst8(info, e)
	if !ok {
		return 0, false
	}
	i, exact := constant.Int64Val(v)
	return rune(i), exact
}

func lower8(rn rune) rune {
	if rn >= 'A' && rn <= 'Z' {
		return rn + ('a' - 'A')
	}
	return rn
}

func c34Suffix(p *core.Prog, r *core.Report) {
	const rule = "suffix-table"
	// ---- marshalSizeV1: tagless switch, each case: guard constants, quotient divisor, suffix rune
	marshal := map[rune]int64{}
	if f := r.Need(p, tomlPk8, "marshalSizeV1"); f != nil {
		info := f.Info()
		var sizeParam types.Object
		if ps := f.Decl.Type.Params; ps != nil && len(ps.List) >= 1 && len(ps.List[0].Names) == 1 {
			sizeParam = info.Defs[ps.List[0].Names[0]]
		}
		cases := 0
		ast.Inspect(f.Decl.Body, func(n ast.Node) bool {
			sw, ok := n.(*ast.SwitchStmt)
			if !ok || sw.Tag != nil {
				return true
			}
			for _, cl := range sw.Body.List {
				cc := cl.(*ast.CaseClause)
				if cc.List == nil {
					continue
				}
				cases++
				// constants used as divisor/modulus of the size parameter in the guard
				guard := map[string]bool{}
				okGuard := true
				for _, e := range cc.List {
					ast.Inspect(e, func(m ast.Node) bool {
						if be, ok := m.(*ast.BinaryExpr); ok && (be.Op == token.QUO || be.Op == token.REM) {
							if core.ObjOf(info, be.X) != sizeParam {
								okGuard = false
							}
							if v, ok := core.IntConst8(info, be.Y); ok {
								guard[v.ExactString()] = true
							} else {
								okGuard = false
							}
						}
						return true
					})
				}
				// body: quotient = size / D ; suffix = 'x'
				var div constant.Value
				var suf rune
				for _, st := range cc.Body {
					as, ok := st.(*ast.AssignStmt)
					if !ok || len(as.Lhs) != 1 || len(as.Rhs) != 1 {
						continue
					}
					if be, ok := ast.Unparen(as.Rhs[0]).(*ast.BinaryExpr); ok && be.Op == token.QUO && core.ObjOf(info, be.X) == sizeParam {
						div, _ = core.IntConst8(info, be.Y)
					} else if rn, ok := runeConst8(info, as.Rhs[0]); ok {
						suf = rn
					}
				}
				pos := p.Pos(cc.Pos())
				if !r.Check(div != nil && suf != 0, rule, f.String(), "case-form", pos, "case assigns quotient = size / <const> and a suffix rune") {
					continue
				}
				d, _ := constant.Int64Val(div)
				r.Check(okGuard && len(guard) == 1 && guard[div.ExactString()], rule, f.String(), "guard-divisor:"+string(suf), pos,
					fmt.Sprintf("suffix %q: the guard tests divisibility by the same constant (%d) the quotient is divided by", suf, d))
				if _, dup := marshal[suf]; dup {
					r.Bad(rule, f.String(), "duplicate-suffix:"+string(suf), pos, "suffix emitted by two cases")
				}
				marshal[suf] = d
			}
			return true
		})
		r.Check(cases >= 3, rule, f.String(), "cases:count", f.Pos(), fmt.Sprintf("%d suffix cases (>= 3 confirmed by reading)", cases))
		// the value that is formatted is the quotient, the suffix appended is the chosen one
		r.Check(core.HasCall(f, call("unicode/utf8.AppendRune")), rule, f.String(), "AppendRune:absent", f.Pos(), "the chosen suffix is appended")
	}
	// ---- unmarshalSizeV1: tag switch on suffix byte -> mult constant
	unmarshal := map[rune]int64{}
	if f := r.Need(p, tomlPk8, "unmarshalSizeV1"); f != nil {
		info := f.Info()
		n := 0
		ast.Inspect(f.Decl.Body, func(x ast.Node) bool {
			sw, ok := x.(*ast.SwitchStmt)
			if !ok || sw.Tag == nil {
				return true
			}
			for _, cl := range sw.Body.List {
				cc := cl.(*ast.CaseClause)
				var mult constant.Value
				for _, st := range cc.Body {
					if as, ok := st.(*ast.AssignStmt); ok && len(as.Lhs) == 1 && len(as.Rhs) == 1 {
						if v, ok := core.IntConst8(info, as.Rhs[0]); ok {
							mult = v
						}
					}
				}
				for _, e := range cc.List {
					rn, ok := runeConst8(info, e)
					if !ok {
						continue
					}
					n++
					if !r.Check(mult != nil, rule, f.String(), "case-form:"+string(rn), p.Pos(cc.Pos()), "case assigns a constant multiplier") {
						continue
					}
					m, _ := constant.Int64Val(mult)
					unmarshal[rn] = m
				}
			}
			return true
		})
		r.Check(n >= 6, rule, f.String(), "cases:count", f.Pos(), fmt.Sprintf("%d suffix letters decoded (>= 6 confirmed by reading)", n))
	}
	// ---- rewriteBareIECSuffix: letter -> canonical string
	rewrite := map[rune]string{}
	if f := r.Need(p, tomlPk8, "rewriteBareIECSuffix"); f != nil {
		info := f.Info()
		ast.Inspect(f.Decl.Body, func(x ast.Node) bool {
			sw, ok := x.(*ast.SwitchStmt)
			if !ok || sw.Tag == nil {
				return true
			}
			for _, cl := range sw.Body.List {
				cc := cl.(*ast.CaseClause)
				canon := ""
				for _, st := range cc.Body {
					if as, ok := st.(*ast.AssignStmt); ok && len(as.Rhs) == 1 {
						if tv := info.Types[as.Rhs[0]]; tv.Value != nil && tv.Value.Kind() == constant.String {
							canon = constant.StringVal(tv.Value)
						}
					}
				}
				for _, e := range cc.List {
					if rn, ok := runeConst8(info, e); ok {
						rewrite[rn] = canon
					}
				}
			}
			return true
		})
		r.Check(len(rewrite) >= 6, rule, f.String(), "cases:count", f.Pos(), fmt.Sprintf("%d suffix letters rewritten (>= 6 confirmed by reading)", len(rewrite)))
	}
	// ---- agreement
	var letters []string
	for rn := range unmarshal {
		letters = append(letters, string(rn))
	}
	sort.Strings(letters)
	for _, l := range letters {
		rn := rune(l[0])
		want, known := wantMult8[lower8(rn)]
		r.Check(known && unmarshal[rn] == want, rule, tomlPk8+".unmarshalSizeV1", "multiplier:"+l, "-", fmt.Sprintf("suffix %q multiplies by %d (binary meaning of the 1.x bare suffix: %d)", rn, unmarshal[rn], want))
		canon, has := rewrite[rn]
		r.Check(has && canon == string(lower8(rn))+"ib", rule, tomlPk8+".rewriteBareIECSuffix", "canonical:"+l, "-", fmt.Sprintf("suffix %q is rewritten to %q (explicit IEC unit of the same letter)", rn, canon))
	}
	for rn := range rewrite {
		if _, ok := unmarshal[rn]; !ok {
			r.Bad(rule, tomlPk8+".rewriteBareIECSuffix", "extra-letter:"+string(rn), "-", "letter rewritten as a bare IEC suffix but not decoded by unmarshalSizeV1")
		}
	}
	var ms []string
	for rn := range marshal {
		ms = append(ms, string(rn))
	}
	sort.Strings(ms)
	for _, l := range ms {
		rn := rune(l[0])
		back, ok := unmarshal[rn]
		r.Check(ok && back == marshal[rn], rule, tomlPk8+".marshalSizeV1", "round-trip:"+l, "-", fmt.Sprintf("suffix %q written for multiples of %d is read back as ×%d", rn, marshal[rn], back))
	}
	r.Check(len(marshal) >= 3 && len(unmarshal) >= 6, rule, tomlPk8, "tables:count", "-", fmt.Sprintf("marshal table %d entries, unmarshal table %d entries", len(marshal), len(unmarshal)))
}

// ---------------------------------------------------------------- (4) parse errors

func c34Errors(p *core.Prog, r *core.Report) {
	const rule = "parse-errors"
	parsers := core.Or(call(append([]string{"strconv.ParseUint", "strconv.ParseInt", "time.ParseDuration", "github.com/dustin/go-humanize.ParseBytes",
		"toml.parseBytesUnsigned", "toml.parseBytesSigned", "toml.rewriteBareIECSuffix", "toml.unmarshalSizeV1"}, tomlParserWrappers(p, nil)...)...), funcValueErrCall8)
	for _, t := range []struct {
		fn  string
		min int
	}{
		{"Duration.UnmarshalText", 1}, {"unmarshalSizeV1", 3}, {"SizeV2.UnmarshalText", 1}, {"SSizeV2.UnmarshalText", 1},
		{"SizeV1.UnmarshalText", 1}, {"SSizeV1.UnmarshalText", 1}, {"parseBytesUnsigned", 1}, {"parseBytesSigned", 1}, {"FileMode.UnmarshalText", 1},
	} {
		f := r.Need(p, tomlPk8, t.fn)
		if f == nil {
			continue
		}
		core.RuleErrorsUsed(r, f, rule, "parser", parsers, false, t.min)
		// no store through a pointer on a failure branch of a parser
		g := f.Graph()
		info := f.Info()
		bad := ""
		for _, n := range g.Select(g.Calling(parsers)) {
			fail, _, has := g.ErrEdges(n)
			if !has {
				if _, isRet := n.N.(*ast.ReturnStmt); !isRet {
					r.Bad(rule, f.String(), "parser-untested", g.Line(n), "the parser's error is neither returned directly nor tested by the following `!= nil` branch")
				}
				continue
			}
			for x := range g.Reach([]*core.Node{fail.To}, nil, nil) {
				if as, ok := x.N.(*ast.AssignStmt); ok {
					for _, l := range as.Lhs {
						if st, isStar := ast.Unparen(l).(*ast.StarExpr); isStar {
							if _, isPtr := info.TypeOf(st.X).Underlying().(*types.Pointer); isPtr {
								bad = g.Line(x)
							}
						}
					}
				}
			}
		}
		r.Check(bad == "", rule, f.String(), "store-after-failure", f.Pos(), "the destination is not stored on a path that left a parser through its error branch"+ifs8(bad != "", " ("+bad+")"))
	}
}

// funcValueErrCall8 matches calls through a func-typed parameter/variable whose
// last result is an error (parse / humanizeParse in unmarshalSizeV1).
func funcValueErrCall8(info *types.Info, c *ast.CallExpr) bool {
	if core.Callee(info, c) != nil {
		return false
	}
	id, ok := ast.Unparen(c.Fun).(*ast.Ident)
	if !ok {
		return false
	}
	if _, isVar := info.Uses[id].(*types.Var); !isVar {
		return false
	}
	sig, ok := info.TypeOf(c.Fun).Underlying().(*types.Signature)
	if !ok || sig.Results().Len() == 0 {
		return false
	}
	return core.IsErrorType(sig.Results().At(sig.Results().Len() - 1).Type())
}

// ---------------------------------------------------------------- (5) wire format

func c34Wire(p *core.Prog, r *core.Report) {
	const rule = "wire-format"
	pk := p.Pkg(tomlPk8)
	for _, alias := range []string{"Size", "SSize"} {
		o := pk.Types.Scope().Lookup(alias)
		tn, ok := o.(*types.TypeName)
		if !r.Check(ok, "anchor", tomlPk8+"."+alias, "unresolved", "-", "type alias resolved") {
			continue
		}
		target := types.Unalias(tn.Type())
		nt, _ := target.(*types.Named)
		if !r.Check(nt != nil, rule, tomlPk8+"."+alias, "target", "-", "alias names a defined type") {
			continue
		}
		name := nt.Obj().Name()
		ms := types.NewMethodSet(nt)
		mt := ms.Lookup(pk.Types, "MarshalText")
		if mt == nil {
			// integer wire encoding: the underlying type must be a 64-bit integer and UnmarshalText must exist on the pointer
			b, _ := nt.Underlying().(*types.Basic)
			r.Check(b != nil && (b.Kind() == types.Uint64 || b.Kind() == types.Int64), rule, tomlPk8+"."+alias, "underlying", "-",
				alias+" = "+name+" has no MarshalText: encoded as its exact "+nt.Underlying().String()+" value")
			continue
		}
		f := r.Need(p, tomlPk8, name+".MarshalText")
		if f != nil {
			core.RuleMustPass(r, f, rule, "marshalSizeV1", call("toml.marshalSizeV1"), false)
		}
		if s := r.Need(p, tomlPk8, name+".String"); s != nil {
			core.RuleMustPass(r, s, rule, "marshalSizeV1", call("toml.marshalSizeV1"), false)
		}
	}
	// V2 types must stay without MarshalText (the humanized form is lossy), V1 types marshal through marshalSizeV1
	for _, name := range []string{"SizeV2", "SSizeV2"} {
		if tn, ok := pk.Types.Scope().Lookup(name).(*types.TypeName); r.Check(ok, "anchor", tomlPk8+"."+name, "unresolved", "-", "type resolved") {
			has := false
			for _, t := range []types.Type{tn.Type(), types.NewPointer(tn.Type())} {
				if types.NewMethodSet(t).Lookup(pk.Types, "MarshalText") != nil {
					has = true
				}
			}
			// a text form is acceptable only if it is exact: it must not be produced by humanize
			lossy := false
			if has {
				if mf := p.Func(tomlPk8, name+".MarshalText"); mf != nil && mf.Decl.Body != nil {
					lossy = len(core.AllCalls(mf.Info(), mf.Decl.Body, call("github.com/dustin/go-humanize.*"))) > 0
				}
			}
			r.Check(!lossy, rule, tomlPk8+"."+name, "MarshalText-humanized", "-", name+" has no humanized text form (a humanized value would not parse back to the same value); no TextMarshaler at all, or an exact one, is fine")
		}
	}
	for _, name := range []string{"SizeV1", "SSizeV1"} {
		if f := r.Need(p, tomlPk8, name+".MarshalText"); f != nil {
			core.RuleMustPass(r, f, rule, "marshalSizeV1", call("toml.marshalSizeV1"), false)
		}
		if f := r.Need(p, tomlPk8, name+".UnmarshalText"); f != nil {
			core.RuleMustPass(r, f, rule, "unmarshalSizeV1", call("toml.unmarshalSizeV1"), false)
		}
	}
	// V1 strconv pairing: unsigned type formats with AppendUint and parses with ParseUint, signed with AppendInt/ParseInt
	for _, t := range []struct{ typ, fn, want string }{
		{"SizeV1", "MarshalText", "strconv.AppendUint"}, {"SizeV1", "String", "strconv.AppendUint"}, {"SizeV1", "UnmarshalText", "strconv.ParseUint"},
		{"SSizeV1", "MarshalText", "strconv.AppendInt"}, {"SSizeV1", "String", "strconv.AppendInt"}, {"SSizeV1", "UnmarshalText", "strconv.ParseInt"},
	} {
		f := r.Need(p, tomlPk8, t.typ+"."+t.fn)
		if f == nil {
			continue
		}
		info := f.Info()
		found := ""
		ast.Inspect(f.Decl.Body, func(n ast.Node) bool {
			c, ok := n.(*ast.CallExpr)
			if !ok {
				return true
			}
			for _, a := range c.Args {
				if se, ok := ast.Unparen(a).(*ast.SelectorExpr); ok {
					if fn, ok := info.Uses[se.Sel].(*types.Func); ok && fn.Pkg() != nil && fn.Pkg().Path() == "strconv" {
						found = core.FName(fn)
					}
				}
			}
			return true
		})
		r.Check(found == t.want, rule, f.String(), "strconv-func", f.Pos(), fmt.Sprintf("uses %s (found %q)", t.want, found))
	}
	// Duration
	if f := r.Need(p, tomlPk8, "Duration.String"); f != nil {
		core.RuleMustPass(r, f, rule, "time.Duration.String", call("time.Duration.String"), false)
	}
	if f := r.Need(p, tomlPk8, "Duration.MarshalText"); f != nil {
		core.RuleMustPass(r, f, rule, "Duration.String", call("toml.Duration.String"), false)
	}
	if f := r.Need(p, tomlPk8, "Duration.UnmarshalText"); f != nil {
		g := f.Graph()
		stores := func(n *core.Node) bool {
			as, ok := n.N.(*ast.AssignStmt)
			if !ok {
				return false
			}
			for _, l := range as.Lhs {
				if _, isStar := ast.Unparen(l).(*ast.StarExpr); isStar {
					return true
				}
			}
			return false
		}
		st := g.Select(stores)
		if r.Check(len(st) == 1, rule, f.String(), "store:absent", f.Pos(), "the parsed duration is stored into the receiver") {
			reach := g.ReachFromEntry(g.Calling(call("time.ParseDuration")), nil)
			r.Check(!reach[st[0]], rule, f.String(), "store-without-parse", g.Line(st[0]), "the receiver is stored only after time.ParseDuration")
			// stored value is the conversion of the parse result
			as := st[0].N.(*ast.AssignStmt)
			okV := false
			if cv, ok := ast.Unparen(as.Rhs[0]).(*ast.CallExpr); ok && len(cv.Args) == 1 {
				if v := core.ObjOf(f.Info(), cv.Args[0]); v != nil {
					for _, a := range core.AssignsTo8(f.Info(), f.Decl.Body, v) {
						if pc, ok := a.Rhs.(*ast.CallExpr); ok && call("time.ParseDuration")(f.Info(), pc) && a.Index == 0 {
							okV = true
						}
					}
				}
			}
			r.Check(okV, rule, f.String(), "stored-value", g.Line(st[0]), "the stored value is the ParseDuration result")
		}
	}
	_ = strings.TrimSpace
}

// tomlParserWrappers: functions of package toml with an error result that call a
// byte-size / integer parser (humanize.ParseBytes, strconv.Parse*, or another
// wrapper): a parser extracted into or wrapped by a helper stays in the parser
// class. want, when non-nil, restricts the first result type.
func tomlParserWrappers(p *core.Prog, want func(*types.Signature) bool) []string {
	base := []string{"github.com/dustin/go-humanize.ParseBytes", "strconv.ParseUint", "strconv.ParseInt"}
	in := map[string]bool{}
	for changed := true; changed; {
		changed = false
		names := append([]string{}, base...)
		for n := range in {
			names = append(names, n)
		}
		m := call(names...)
		for _, f := range p.Funcs(tomlPk8) {
			if f.Decl == nil || f.Decl.Body == nil || f.Obj == nil || in[f.String()] {
				continue
			}
			sig := f.Obj.Type().(*types.Signature)
			if sig.Recv() != nil || sig.Results().Len() < 2 || !core.IsErrorType(sig.Results().At(sig.Results().Len()-1).Type()) {
				continue
			}
			if want != nil && !want(sig) {
				continue
			}
			if len(core.AllCalls(f.Info(), f.Decl.Body, m)) > 0 {
				in[f.String()] = true
				changed = true
			}
		}
	}
	var out []string
	for n := range in {
		out = append(out, n)
	}
	sort.Strings(out)
	return out
}
