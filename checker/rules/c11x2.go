package rules

import (
	"go/ast"
	"go/token"

	"verif/checker/core"
)

// The text form of a point leaves the timestamp column out exactly when the point
// has no timestamp (time.Time.IsZero). The parser fills a missing column with the
// default time, so a serialiser that decides the column's presence on anything else
// (the scaled value being 0, a precision, a field) changes the timestamp of some
// point on the round trip — seed C11b: `if ts == 0` dropped the column for a point
// at exactly the Unix epoch. Rule: in the five serialisers, every branch condition
// that can be reached before `!IsZero()` has been established is itself an IsZero
// test; all other conditions (digit counting, sign) live inside the has-timestamp
// branch.
func init() {
	extend("C11", "timestamp-column-iff-timestamp: in (*point).String, AppendString, StringSize, PrecisionString and RoundedString every branch condition reachable before `!Time().IsZero()` is established is itself a time.Time.IsZero test — the presence of the timestamp column depends on nothing but the point having a timestamp (the parser substitutes the default time for a missing column).",
		nil, func(p *core.Prog, r *core.Report, tier string) {
			const rule = "timestamp-column-iff-timestamp"
			isZero := call("time.Time.IsZero")
			n := 0
			for _, name := range []string{"point.String", "point.AppendString", "point.StringSize", "point.PrecisionString", "point.RoundedString"} {
				f := r.Need(p, "models", name)
				if f == nil {
					continue
				}
				info, g := f.Info(), f.Graph()
				isTest := func(e ast.Expr) bool {
					for {
						e = ast.Unparen(e)
						if u, ok := e.(*ast.UnaryExpr); ok && u.Op == token.NOT {
							e = u.X
							continue
						}
						break
					}
					// a single-definition temporary holding the test is seen through
					if c, ok := core.ResolveLocal(info, f.Decl.Body, e).(*ast.CallExpr); ok {
						return isZero(info, c)
					}
					return false
				}
				// atoms arrive with negations folded into the truth value
				hasTS := core.X4EdgeImplies(func(a ast.Expr, v bool) bool { return isTest(a) && !v })
				before := g.ReachFromEntry(nil, hasTS)
				tests, ok := 0, true
				for _, nd := range g.Nodes {
					for _, e := range nd.Succ {
						if e.Cond == nil || !e.Branch {
							continue
						}
						if isTest(e.Cond) {
							tests++
							continue
						}
						if before[nd] {
							ok = false
							r.Bad(rule, f.String(), "other-condition:"+core.ExprStr(e.Cond), p.Pos(e.Cond.Pos()),
								"the serialiser branches on `"+core.ExprStr(e.Cond)+"` before the point is known to have a timestamp: the timestamp column may be dropped for a point that has one")
						}
					}
				}
				if tests > 0 {
					n++
				}
				r.Check(ok && tests > 0, rule, f.String(), "presence-test", f.Pos(), "timestamp column decided by IsZero only")
			}
			r.Check(n >= 5, rule, "models/points.go", "functions:count", "-", "point serialisers examined")
		})
}
