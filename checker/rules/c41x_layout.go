package rules

import (
	"fmt"
	"go/ast"
	"go/constant"
	"go/types"
	"strconv"
	"strings"

	"verif/checker/core"
)

// ---------------------------------------------------------------- (6) column layout and column roles

func (c *c41Ctx) noteRole(f *core.Func, k int, role string) {
	if c.roles == nil {
		c.roles = map[string]map[int]string{}
	}
	if c.roles[f.String()] == nil {
		c.roles[f.String()] = map[int]string{}
	}
	c.roles[f.String()][k] = role
}

func (c *c41Ctx) layout() {
	const rule = "column-layout"
	p, r := c.p, c.r
	idx := map[string]int64{}
	for _, n := range []string{"startColIdx", "stopColIdx", "timeColIdx", "valueColIdx", "valueColIdxWithoutTime"} {
		v, ok := c41ConstInt(p, n)
		if !r.Check(ok, "anchor", c41Pk+"."+n, "unresolved", "-", "column index constant resolved") {
			return
		}
		idx[n] = v
	}
	labelF := c.extField("github.com/influxdata/flux", "ColMeta", "Label")
	typeF := c.extField("github.com/influxdata/flux", "ColMeta", "Type")
	if labelF == nil || typeF == nil {
		return
	}
	// ---- labels written by the layout functions
	for _, row := range []struct {
		fn      string
		timeArg int // index of the hasTimeCol parameter, -1: always with time
	}{{"determineTableColsForWindowAggregate", 2}, {"determineTableColsForSeries", -1}} {
		f := r.Need(p, c41Pk, row.fn)
		if f == nil {
			continue
		}
		info, g, body := f.Info(), f.Graph(), f.Decl.Body
		// the slice returned as result 0
		var colsV types.Object
		for _, rs := range core.ReturnsOf10(body) {
			if len(rs.Results) == 2 {
				colsV = core.ObjOf(info, rs.Results[0])
			}
		}
		typP := f.Param(1)
		type store struct {
			n     *core.Node
			k     int64
			label string
			typOK bool
		}
		var stores []store
		for _, nd := range g.Nodes {
			as, ok := nd.N.(*ast.AssignStmt)
			if !ok || len(as.Lhs) != 1 || len(as.Rhs) != 1 {
				continue
			}
			ix, ok := ast.Unparen(as.Lhs[0]).(*ast.IndexExpr)
			if !ok || colsV == nil || core.ObjOf(info, ix.X) != colsV {
				continue
			}
			k, isC := core.ConstInt(info, ix.Index)
			if !isC {
				continue // tag columns: computed index
			}
			lit, ok := c41Resolve(info, body, as.Rhs[0]).(*ast.CompositeLit)
			if !ok {
				r.Bad(rule, f.String(), "column-meta-not-literal", g.Line(nd), "a fixed column is described by a literal")
				continue
			}
			st := store{n: nd, k: k, label: "?"}
			for _, el := range lit.Elts {
				kv, ok := el.(*ast.KeyValueExpr)
				if !ok {
					continue
				}
				id, _ := kv.Key.(*ast.Ident)
				if id == nil {
					continue
				}
				switch info.Uses[id] {
				case types.Object(labelF):
					if cv := core.ConstVal(info, kv.Value); cv != nil && cv.Kind() == constant.String {
						st.label = constant.StringVal(cv)
					}
				case types.Object(typeF):
					st.typOK = typP != nil && core.ObjOf(info, kv.Value) == types.Object(typP)
				}
			}
			stores = append(stores, st)
		}
		for _, withTime := range []bool{true, false} {
			if row.timeArg < 0 && !withTime {
				continue
			}
			var leaf core.Leaf10 = func(ast.Expr) (bool, bool) { return false, false }
			if row.timeArg >= 0 {
				leaf = core.ObjLeaf10(info, f.Param(row.timeArg), withTime)
			}
			reach := g.ReachUnder10([]*core.Node{g.Entry}, nil, leaf)
			got := map[int64]map[string]bool{}
			valTyp := true
			for _, st := range stores {
				if !reach[st.n] {
					continue
				}
				if got[st.k] == nil {
					got[st.k] = map[string]bool{}
				}
				got[st.k][st.label] = true
				if st.label == "_value" && !st.typOK {
					valTyp = false
				}
			}
			want := map[int64]string{idx["startColIdx"]: "_start", idx["stopColIdx"]: "_stop"}
			if withTime {
				want[idx["timeColIdx"]] = "_time"
				want[idx["valueColIdx"]] = "_value"
			} else {
				want[idx["valueColIdxWithoutTime"]] = "_value"
			}
			good := len(got) == len(want) && valTyp
			for k, l := range want {
				good = good && len(got[k]) == 1 && got[k][l]
			}
			variant := map[bool]string{true: "withTime", false: "withoutTime"}[withTime]
			// every path of the valuation writes them: the returns are not reachable around a store
			for _, st := range stores {
				if reach[st.n] {
					around := g.ReachUnder10([]*core.Node{g.Entry}, func(m *core.Node) bool { return m == st.n }, leaf)
					for _, x := range g.Exits {
						if around[x] && x != st.n {
							// another store of the same index may stand in (if/else)
							alt := false
							for _, o := range stores {
								if o.n != st.n && o.k == st.k && o.label == st.label && reach[o.n] {
									alt = true
								}
							}
							if !alt {
								good = false
							}
						}
					}
				}
			}
			r.Check(good, rule, f.String(), variant, f.Pos(), fmt.Sprintf("labels by constant column index %v = startColIdx:_start, stopColIdx:_stop%s; the value column has the cursor's column type", got,
				map[bool]string{true: ", timeColIdx:_time, valueColIdx:_value", false: ", valueColIdxWithoutTime:_value"}[withTime]))
		}
	}
	// ---- which array each table stores under which index
	colsF := core.LookupField(c.pkT, "colReader", "cols")
	if !r.Check(colsF != nil, "anchor", c41Pk+".colReader.cols", "unresolved", "-", "field resolved") {
		return
	}
	nAdv := 0
	for _, T := range c41Types {
		lt := strings.ToLower(T)
		for _, k := range c41TableKinds {
			typ := lt + k
			f := r.Need(p, c41Pk, typ+".advance")
			tcF := c.field(typ, "timeColumn")
			if f == nil || tcF == nil {
				continue
			}
			nAdv++
			for _, tc := range []string{"", "_start", "_stop"} {
				got, bounds := c.storesUnder(f, typ, colsF, tcF, tc)
				want := map[int64]string{}
				switch {
				case tc == "" && k == "WindowTable":
					want[idx["startColIdx"]], want[idx["stopColIdx"]], want[idx["valueColIdxWithoutTime"]] = "start", "stop", "value"
				case tc == "":
					want[idx["startColIdx"]], want[idx["stopColIdx"]], want[idx["timeColIdx"]], want[idx["valueColIdx"]] = "start", "stop", "time", "value"
				case tc == "_start":
					want[idx["timeColIdx"]], want[idx["valueColIdx"]] = "start", "value"
				default:
					want[idx["timeColIdx"]], want[idx["valueColIdx"]] = "stop", "value"
				}
				good := len(got) == len(want) && bounds == (tc != "")
				for kk, role := range want {
					good = good && got[kk] == role
				}
				r.Check(good, "column-roles", f.String(), "timeColumn="+strconv.Quote(tc), f.Pos(),
					fmt.Sprintf("with timeColumn %q the buffer gets %v by column index (want %v), query bounds appended: %v", tc, got, want, bounds))
			}
		}
	}
	r.Check(nAdv == 15, "column-roles", c41Pk, "instances:fewer-than-confirmed", "-", fmt.Sprintf("%d advance functions examined (15 confirmed by reading)", nAdv))
	// appendBounds
	if f := r.Need(p, c41Pk, "table.appendBounds"); f != nil {
		info, body := f.Info(), f.Decl.Body
		got := map[int64]int{}
		ast.Inspect(body, func(n ast.Node) bool {
			as, ok := n.(*ast.AssignStmt)
			if !ok || len(as.Lhs) != len(as.Rhs) {
				return true
			}
			for i, l := range as.Lhs {
				ix, ok := ast.Unparen(l).(*ast.IndexExpr)
				if !ok || core.FieldOf(info, ix.X) != colsF {
					continue
				}
				k, isC := core.ConstInt(info, ix.Index)
				if !isC {
					continue
				}
				got[k] = -1
				if o := core.ObjOf(info, as.Rhs[i]); o != nil {
					for _, d := range core.DefsOf(info, body, o) {
						if cl, ok := d.Rhs.(*ast.CallExpr); ok && call(c41Pk+".tagsCache.GetBounds")(info, cl) {
							got[k] = d.Index
						}
					}
				}
			}
			return true
		})
		r.Check(len(got) == 2 && got[idx["startColIdx"]] == 0 && got[idx["stopColIdx"]] == 1, "column-roles", f.String(), "bounds-columns", f.Pos(),
			"the start array of GetBounds goes to startColIdx, the stop array to stopColIdx")
	}
}

// storesUnder lists, for the valuation timeColumn == tc, the role of the array
// stored under each constant column index of the buffer, and whether appendBounds is reached.
func (c *c41Ctx) storesUnder(f *core.Func, typ string, colsF, tcF *types.Var, tc string) (map[int64]string, bool) {
	info, g, body := f.Info(), f.Graph(), f.Decl.Body
	recv := f.X1Recv()
	isTC := func(e ast.Expr) bool { return fieldOfRoot(info, recv, tcF)(c41Resolve(info, body, e)) }
	reach := g.ReachUnder10([]*core.Node{g.Entry}, nil, core.ConstEqLeaf10(info, isTC, constant.MakeString(tc)))
	tsNames := map[string]bool{"Timestamps": true}
	roleOfCall := func(cl *ast.CallExpr, index int) string {
		fn := core.Callee(info, cl)
		if fn == nil {
			return ""
		}
		name := core.FName(fn)
		if rm := c.roles[name]; rm != nil {
			if index < 0 {
				index = 0
			}
			return rm[index]
		}
		mentions := func(field string) bool {
			found := false
			for _, a := range cl.Args {
				ast.Inspect(a, func(n ast.Node) bool {
					if se, ok := n.(*ast.SelectorExpr); ok && se.Sel.Name == field {
						if fv := core.FieldOf(info, se); fv != nil && fv.Pkg() != nil && strings.HasSuffix(fv.Pkg().Path(), "tsdb/cursors") {
							found = true
						}
					}
					return true
				})
			}
			return found
		}
		switch {
		case strings.HasSuffix(name, ".mergeValues"):
			return "value"
		case strings.HasSuffix(name, ".toArrowBuffer") && mentions("Values"):
			return "value"
		case strings.HasSuffix(name, "flux/arrow.NewInt") && mentions("Timestamps") && tsNames["Timestamps"]:
			return "time"
		case strings.Contains(name, "Builder.New") && strings.HasSuffix(name, "Array") && !strings.Contains(name, "IntBuilder"):
			return "value"
		case strings.Contains(name, "Builder.New") && strings.HasSuffix(name, "Array") && typ == "integerEmptyWindowSelectorTable":
			// the Integer value builder is an IntBuilder too: it is the one handed to the time functions
			if o := core.ObjOf(info, core.Recv(cl)); o != nil {
				for _, d := range core.DefsOf(info, body, o) {
					if dc, ok := d.Rhs.(*ast.CallExpr); ok && strings.HasSuffix(core.FName(core.Callee(info, dc)), ".arrowBuilder") {
						return "value"
					}
				}
			}
		}
		return ""
	}
	roleOf := func(e ast.Expr) string {
		e = ast.Unparen(e)
		if cl, ok := e.(*ast.CallExpr); ok {
			return roleOfCall(cl, -1)
		}
		o := core.ObjOf(info, e)
		if o == nil {
			return ""
		}
		role := ""
		for _, d := range core.DefsOf(info, body, o) {
			cl, ok := d.Rhs.(*ast.CallExpr)
			if !ok {
				return ""
			}
			ro := roleOfCall(cl, d.Index)
			if role != "" && ro != role {
				return ""
			}
			role = ro
		}
		return role
	}
	got := map[int64]string{}
	bounds := false
	for _, nd := range g.Nodes {
		if nd.N == nil || !reach[nd] {
			continue
		}
		if g.Calling(call(c41Pk + ".table.appendBounds"))(nd) {
			bounds = true
		}
		as, ok := nd.N.(*ast.AssignStmt)
		if !ok || len(as.Lhs) != len(as.Rhs) {
			continue
		}
		for i, l := range as.Lhs {
			ix, ok := ast.Unparen(l).(*ast.IndexExpr)
			if !ok || core.FieldOf(info, ix.X) != colsF {
				continue
			}
			k, isC := core.ConstInt(info, ix.Index)
			if !isC {
				continue
			}
			ro := roleOf(as.Rhs[i])
			if ro == "" {
				ro = "?(" + core.Trim(core.ExprStr(as.Rhs[i]), 30) + ")"
			}
			if prev, dup := got[k]; dup && prev != ro {
				ro = prev + "|" + ro
			}
			got[k] = ro
		}
	}
	return got, bounds
}

// ---------------------------------------------------------------- (7) sibling uniformity (additional)

func (c *c41Ctx) siblings() {
	keep := func(k string) bool {
		return strings.Contains(k, "WindowTable") || strings.Contains(k, "WindowSelectorTable")
	}
	subs := []*core.SibSubst10{
		{Member: "newIntegerWindowTable", Got: "fillValue * int64 , key", Want: "key",
			Reason: "the Integer window table (the arm every count reaches) takes the fill value for empty windows"},
		{Member: "newIntegerWindowTable", Got: "fillValue : fillValue , }", Want: "}",
			Reason: "… and stores it"},
	}
	core.RuleSiblings10(c.r, c.p, c41Pk, "table.gen.go", "sibling-uniformity", keep, subs, 20, 100)
}
