package rules

import (
	"fmt"
	"go/ast"
	"go/constant"
	"go/token"
	"go/types"
	"sort"
	"strings"

	"verif/checker/core"
)

// C22 — InfluxQL SELECT results match the language semantics.
//
// Equality of the returned rows with a reference evaluator is value-level and
// is NOT decided. What is decided are the finite tables and path conditions the
// planner and the iterators rely on to implement the clauses of the statement:
// which names / types / fill modes are handled, how the statement's clauses are
// copied into the iterator options, that descending order reverses every order
// comparison, that LIMIT/OFFSET/SLIMIT/SOFFSET wrappers are in place and count
// once per row, that a filled window is stamped with the window, that the WHERE
// condition gates every returned point, and that shard selection clips the time
// range in the right direction.
const (
	c22Coord = "v1/coordinator"
)

func init() {
	register(&Prop{
		ID:       "C22",
		Patterns: []string{"./influxql/query", "./tsdb/engine/tsm1", "./v1/coordinator"},
		Level:    "other",
		Explanation: "Narrow structural necessary conditions of the InfluxQL SELECT pipeline (influxql/query planner and iterators, tsdb/engine/tsm1 iterators, v1/coordinator shard mapper), decided on resolved fields, callees, constants and CFG paths — NOT the returned rows: " +
			"(1) name-table: every function name accepted by the compiler's switches on Call.Name has a case in buildCallIterator, and every name that buildCallIterator routes to the storage call iterator has a case in NewCallIterator; " +
			"(2) result-type-table: for every supported function the point type produced by its iterator builder (per input type) equals the type the type mappers (CallTypeMapper/FunctionTypeMapper.CallType) declare for that name: Float, Integer, or the type of the argument; " +
			"(3) wrapper-exhaustive: each generic iterator wrapper (merge, sorted merge, parallel, limit, filter, tag subset, dedupe, fill, interval, interrupt, scanner; tsm1 limit) has a type-switch arm for each of the five typed iterator interfaces and every arm constructs the same kind of wrapper; " +
			"(4) option-mapping: newIteratorOptionsStmt copies Limit, Offset, SLimit, SOffset, Fill, FillValue, Dedupe, StripName and Location from the statement field of the same name, Ascending from TimeAscending(), StartTime/EndTime from the Min/Max of the time range (under !IsZero, else MinTime/MaxTime) and overrides Fill only with NoFill under a target; SeekTime/StopTime return StartTime/EndTime for ascending and EndTime/StartTime for descending options; " +
			"(5) direction: in the ten merge-heap Less methods and the tsm1 iterators every order comparison between the two sides is '<' only on a path that established Ascending == true and '>' only on a path that established Ascending == false (ORDER BY time DESC reverses every comparison); tsm1 Next stops on Time > EndTime only under Ascending and on Time < StartTime only under descending; Engine.CreateIterator runs first()/last() with Ascending = (name == \"first\"); tag sets are reversed only under Ascending == false; " +
			"(6) limit: buildAuxIterator, buildFieldIterator and Engine.createVarRefIterator return/append an iterator that went through a limit iterator on every path that established Limit > 0 || Offset > 0 (after deduplication) and construct a limit iterator only on such a path; the five query limit iterators count every point exactly once, reset the counter only when the series changed, return a point only on a path that established n > Offset and !(Limit > 0 && n − Offset > Limit), skip a counted point only on a path that established n <= Offset or n − Offset > Limit, and count without a reset only on a path that established the same name and tags; the five tsm1 limit iterators count every returned point and stop under n − Offset > Limit; SLIMIT/SOFFSET: both engine iterator builders pass the tag sets through LimitTagSets(tagSets, SLimit, SOffset) before any series iterator is created; " +
			"(7) fill: NewFillIterator is constructed only under Fill != NoFill and a non-zero interval; each of the five fill iterators handles every other fill mode in its switch, stamps a synthesised point with the window's name, tags and time, sets Nil for null fill, takes the fill value for number fill and the previous value only under prev.Nil == false, and advances the expected time by one interval for every returned point — forward only under Ascending == true, backward only under false; the constructor turns null fill into number fill 0 exactly for count(); " +
			"(8) interval-time: each interval iterator rewrites the time of every returned point to the start of its window (Window(p.Time)), and buildCallIterator returns an aggregate unwrapped only on a path that established selector == true and a zero interval; " +
			"(9) where-filter: each of the five tsm1 field iterators returns a point only on a path that established Condition == nil or EvalBool(Condition) == true, reads every auxiliary and condition cursor at the timestamp of the main cursor, and returns no point at EOF; " +
			"(10) shard-clip: LocalShardMapping.CreateIterator raises StartTime only under StartTime < MinTime and lowers EndTime only under EndTime > MaxTime (to that same bound); mapShards asks for the shard groups of [tmin, tmax] in that order, appends every shard of every group, and all five Source keys are built from the measurement's Database and RetentionPolicy.",
		NotCovered:  "The equality of the returned rows with an independent reference evaluator is NOT decided: window arithmetic (IteratorOptions.Window, time zones, offsets), the values computed by aggregates and selectors, linear-fill interpolation, the merge iterators' window logic, the emitter/cursor row assembly, tag-set computation and series filtering in the index, cache/TSM cursor merging, subqueries, math functions, the hll functions and the technical-analysis functions. The sibling instantiations of the generated iterator files are assumed to be regenerated from their template (each instantiation is checked separately here).",
		Assumptions: []string{"a rule passing means the mechanism is in place on every CFG path, not that the computed rows are correct", "container/heap and sort implement their contracts"},
		Run:         runC22,
	})
}

type c22 struct {
	*c23       // query package context (recognisers, resolver)
	tsm   *c23 // same helpers over tsdb/engine/tsm1
	co    *c23 // … and v1/coordinator
	kinds []string
}

func runC22(p *core.Prog, r *core.Report, tier string) {
	mk := func(path string) *c23 {
		pkg := p.Pkg(path)
		if !r.Check(pkg != nil, "anchor", path, "unresolved", "", "package loaded") {
			return nil
		}
		return &c23{p: p, r: r, pk: pkg.Types, info: pkg.TypesInfo, res: core.NewN1Resolver(pkg.TypesInfo, pkg.Syntax)}
	}
	c := &c22{c23: mk(qP), tsm: mk(tsm1), co: mk(c22Coord), kinds: c23All}
	if c.c23 == nil || c.tsm == nil || c.co == nil {
		return
	}
	c.nameTable()
	c.resultTypes()
	c.wrappers()
	c.optionMapping()
	c.direction()
	c.limit()
	c.fill()
	c.intervalTime()
	c.whereFilter()
	c.shardClip()
}

// ---------------------------------------------------------------- (1) name table

// nameTables extracts the four name tables (shared with C23's dispatch rule).
func (c *c23) nameTables() (accepted, handled, stor map[string]bool, build, newCall *core.Func, tag func(ast.Node) func(ast.Expr) bool, ok bool) {
	info := c.info
	nameF := c.callNameField()
	if !c.r.Check(nameF != nil, "anchor", "influxql.Call.Name", "unresolved", "", "field resolved") {
		return
	}
	tag = func(body ast.Node) func(ast.Expr) bool {
		return func(e ast.Expr) bool { return core.FieldOf(info, core.ResolveLocal(info, body, e)) == nameF }
	}
	compileExpr := c.r.Need(c.p, qP, "compiledField.compileExpr")
	compileFn := c.r.Need(c.p, qP, "compiledField.compileFunction")
	build = c.r.Need(c.p, qP, "exprIteratorBuilder.buildCallIterator")
	newCall = c.r.Need(c.p, qP, "NewCallIterator")
	if compileExpr == nil || compileFn == nil || build == nil || newCall == nil {
		return
	}
	acc1, n1 := core.N1StringCases(info, compileExpr.Decl.Body, tag(compileExpr.Decl.Body))
	acc2, n2 := core.N1StringCases(info, compileFn.Decl.Body, tag(compileFn.Decl.Body))
	handled, n3 := core.N1StringCases(info, build.Decl.Body, tag(build.Decl.Body))
	stor, n4 := core.N1StringCases(info, newCall.Decl.Body, tag(newCall.Decl.Body))
	c.r.Check(n1 >= 1 && n2 >= 1 && n3 >= 3 && n4 >= 1, "name-table", qP, "name-switches:absent", "", fmt.Sprintf("switches on Call.Name: compileExpr %d, compileFunction %d, buildCallIterator %d, NewCallIterator %d", n1, n2, n3, n4))
	accepted = map[string]bool{}
	for k := range acc1 {
		accepted[k] = true
	}
	for k := range acc2 {
		accepted[k] = true
	}
	ok = true
	return
}

func (c *c22) nameTable() {
	const rule = "name-table"
	info := c.info
	accepted, handled, stor, build, newCall, tagIn, ok := c.nameTables()
	if !ok {
		return
	}
	c.r.Check(len(accepted) >= 30 && len(handled) >= 30, rule, qP, "name-tables:too-small", "", fmt.Sprintf("%d accepted names, %d handled names", len(accepted), len(handled)))
	var missing []string
	for k := range accepted {
		if !handled[k] {
			missing = append(missing, k)
		}
	}
	sort.Strings(missing)
	c.r.Check(len(missing) == 0, rule, build.String(), "accepted-but-not-built:"+strings.Join(missing, ","), build.Pos(), "every function name the compiler accepts has a case in buildCallIterator")
	routed := c.routedNames(build, handled, tagIn(build.Decl.Body))
	var unknown []string
	for k := range routed {
		if !stor[k] {
			unknown = append(unknown, k)
		}
	}
	sort.Strings(unknown)
	c.r.Check(len(routed) >= 8, rule, build.String(), "routed-names:absent", build.Pos(), fmt.Sprintf("%d names are routed to the storage call iterator", len(routed)))
	c.r.Check(len(unknown) == 0, rule, newCall.String(), "routed-but-unknown:"+strings.Join(unknown, ","), newCall.Pos(), "every name routed to callIterator has a case in NewCallIterator")
	_ = info
}

// routedNames: the names whose case in buildCallIterator reaches b.callIterator
// before another test of the name (top/bottom call it with a synthetic max/min).
func (c *c23) routedNames(build *core.Func, handled map[string]bool, isTag func(ast.Expr) bool) map[string]bool {
	routed := map[string]bool{}
	for _, g := range build.Graphs() {
		toCall := g.Calling(call(qP + ".exprIteratorBuilder.callIterator"))
		for name := range handled {
			e := core.N1TagEdge(c.info, isTag, name)
			for _, nd := range g.Nodes {
				for _, ed := range nd.Succ {
					if !e(ed) {
						continue
					}
					reach := g.Reach([]*core.Node{ed.To}, nil, func(x *core.Edge) bool { return x.Tag != nil && x.Branch && isTag(ast.Unparen(x.Tag)) })
					for x := range reach {
						if toCall(x) {
							routed[name] = true
						}
					}
				}
			}
		}
	}
	delete(routed, "top")
	delete(routed, "bottom")
	return routed
}

// ---------------------------------------------------------------- (2) result types

// pointKindOf: "Float" for a type with a method Next() (*FloatPoint, error).
func (c *c23) pointKindOf(t types.Type) string {
	ms := types.NewMethodSet(t)
	if _, isPtr := t.Underlying().(*types.Pointer); !isPtr {
		if _, isIface := t.Underlying().(*types.Interface); !isIface {
			ms = types.NewMethodSet(types.NewPointer(t))
		}
	}
	for i := 0; i < ms.Len(); i++ {
		fn, ok := ms.At(i).Obj().(*types.Func)
		if !ok || fn.Name() != "Next" {
			continue
		}
		sig := fn.Type().(*types.Signature)
		if sig.Results().Len() != 2 {
			return ""
		}
		pt, ok := sig.Results().At(0).Type().(*types.Pointer)
		if !ok {
			return ""
		}
		if nt, ok := pt.Elem().(*types.Named); ok && strings.HasSuffix(nt.Obj().Name(), "Point") && c23IsPt(nt) {
			return strings.TrimSuffix(nt.Obj().Name(), "Point")
		}
	}
	return ""
}

func (c *c22) resultTypes() {
	const rule = "result-type-table"
	info := c.info
	// ---- declared types
	decl := map[string]string{}
	dflt := ""
	nSw := 0
	for _, fn := range []string{"CallTypeMapper.CallType", "FunctionTypeMapper.CallType"} {
		f := c.r.Need(c.p, qP, fn)
		if f == nil {
			return
		}
		nameP, argsP := f.X1Param(0), f.X1Param(1)
		ast.Inspect(f.Decl.Body, func(x ast.Node) bool {
			sw, ok := x.(*ast.SwitchStmt)
			if !ok || sw.Tag == nil || core.ObjOf(info, ast.Unparen(sw.Tag)) != types.Object(nameP) {
				return true
			}
			nSw++
			for _, cl := range sw.Body.List {
				cc := cl.(*ast.CaseClause)
				what := ""
				for _, st := range cc.Body {
					rs, ok := st.(*ast.ReturnStmt)
					if !ok || len(rs.Results) < 1 {
						continue
					}
					if k := core.ConstOf(info, rs.Results[0]); k != nil {
						what = k.Name()
					} else if ix, ok := ast.Unparen(rs.Results[0]).(*ast.IndexExpr); ok && core.ObjOf(info, ast.Unparen(ix.X)) == types.Object(argsP) && core.X1IsConstInt(info, ix.Index, 0) {
						what = "same"
					}
				}
				if cc.List == nil {
					if fn == "FunctionTypeMapper.CallType" {
						dflt = what
					}
					continue
				}
				for _, e := range cc.List {
					if v := core.ConstVal(info, e); v != nil && v.Kind() == constant.String {
						if _, dup := decl[constant.StringVal(v)]; !dup {
							decl[constant.StringVal(v)] = what
						}
					}
				}
			}
			return true
		})
	}
	c.r.Check(nSw >= 2 && len(decl) >= 20 && dflt != "", rule, qP, "type-mappers:shape-unrecognised", "", fmt.Sprintf("%d switches on the function name, %d names with a declared type, default %q", nSw, len(decl), dflt))
	declared := func(name string) string {
		if d, ok := decl[name]; ok {
			return d
		}
		return dflt
	}
	// ---- builders: storage names from NewCallIterator, planner names from the C23 table
	builders := map[string]string{}
	if f := c.r.Need(c.p, qP, "NewCallIterator"); f != nil {
		ast.Inspect(f.Decl.Body, func(x ast.Node) bool {
			cc, ok := x.(*ast.CaseClause)
			if !ok {
				return true
			}
			for _, st := range cc.Body {
				if rs, ok := st.(*ast.ReturnStmt); ok && len(rs.Results) == 1 {
					if cl, ok := ast.Unparen(rs.Results[0]).(*ast.CallExpr); ok {
						if fn := core.Callee(info, cl); fn != nil && fn.Pkg() == c.pk {
							for _, e := range cc.List {
								if v := core.ConstVal(info, e); v != nil && v.Kind() == constant.String {
									builders[constant.StringVal(v)] = fn.Name()
								}
							}
						}
					}
				}
			}
			return true
		})
	}
	for _, b := range c23Builders {
		for _, n := range b.names {
			builders[n] = b.builder
		}
	}
	supported := []string{"count", "sum", "mean", "min", "max", "first", "last", "median", "mode", "stddev", "spread", "percentile", "distinct", "top", "bottom",
		"derivative", "non_negative_derivative", "difference", "non_negative_difference", "moving_average", "cumulative_sum", "elapsed", "integral"}
	nArms := 0
	for _, name := range supported {
		bn, ok := builders[name]
		if !c.r.Check(ok, rule, qP, name+":no-builder", "", "builder of "+name+" resolved") {
			continue
		}
		bf := c.r.Need(c.p, qP, bn)
		if bf == nil {
			continue
		}
		want := declared(name)
		ast.Inspect(bf.Decl.Body, func(x ast.Node) bool {
			cc, ok := x.(*ast.CaseClause)
			if !ok || len(cc.List) != 1 {
				return true
			}
			tv, ok := info.Types[cc.List[0]]
			if !ok || !tv.IsType() {
				return true
			}
			in := c.pointKindOf(tv.Type)
			if in == "" {
				return true
			}
			// iterators returned by this arm
			for _, st := range cc.Body {
				rs, ok := st.(*ast.ReturnStmt)
				if !ok || len(rs.Results) < 1 {
					continue
				}
				e := core.ResolveLocal(info, bf.Decl.Body, rs.Results[0])
				out := c.pointKindOf(info.TypeOf(e))
				if out == "" {
					continue
				}
				nArms++
				exp := want
				if want == "same" {
					exp = in
				}
				c.r.Check(out == exp, rule, bf.String(), name+":"+in+"-input-yields-"+out, c.p.Pos(rs.Pos()),
					fmt.Sprintf("%s(%s) is declared %s by the type mapper and the builder yields %s points", name, in, exp, out))
			}
			return true
		})
	}
	c.r.Check(nArms >= 70, rule, qP, "arms:fewer-than-confirmed", "", fmt.Sprintf("%d (function, input type) arms compared with the type mapper", nArms))
}

// ---------------------------------------------------------------- (3) wrappers

func (c *c22) wrappers() {
	const rule = "wrapper-exhaustive"
	type site struct {
		cc  *c23
		pkg string
		fn  string
	}
	var sites []site
	for _, fn := range []string{"NewMergeIterator", "NewSortedMergeIterator", "newParallelIterator", "NewLimitIterator", "NewFilterIterator", "NewTagSubsetIterator",
		"NewDedupeIterator", "NewFillIterator", "NewIntervalIterator", "NewInterruptIterator", "NewIteratorScanner", "Iterators.dataType"} {
		sites = append(sites, site{c.c23, qP, fn})
	}
	sites = append(sites, site{c.tsm, tsm1, "newLimitIterator"})
	n := 0
	for _, s := range sites {
		f := c.r.Need(c.p, s.pkg, s.fn)
		if f == nil {
			continue
		}
		info := s.cc.info
		ast.Inspect(f.Decl.Body, func(x ast.Node) bool {
			ts, ok := x.(*ast.TypeSwitchStmt)
			if !ok {
				return true
			}
			n++
			seen := map[string]bool{}
			fam := map[string]bool{}
			for _, cl := range ts.Body.List {
				cc := cl.(*ast.CaseClause)
				for _, e := range cc.List {
					tv, ok := info.Types[e]
					if !ok || !tv.IsType() {
						continue
					}
					at := tv.Type
					if sl, ok := at.Underlying().(*types.Slice); ok {
						at = sl.Elem()
					}
					k := c.pointKindOf(at)
					if k == "" {
						continue
					}
					seen[k] = true
					// the wrapper constructed by the arm
					for _, st := range cc.Body {
						rs, ok := st.(*ast.ReturnStmt)
						if !ok || len(rs.Results) != 1 {
							continue
						}
						t := info.TypeOf(rs.Results[0])
						if pt, ok := t.(*types.Pointer); ok {
							t = pt.Elem()
						}
						if nt, ok := t.(*types.Named); ok {
							nm := nt.Obj().Name()
							if strings.HasPrefix(strings.ToLower(nm), strings.ToLower(k)) {
								fam[nm[len(k):]] = true
							} else {
								fam[nm] = true
							}
						}
					}
				}
			}
			var miss []string
			for _, k := range c.kinds {
				if !seen[k] {
					miss = append(miss, k)
				}
			}
			c.r.Check(len(miss) == 0, rule, f.String(), "no-arm-for:"+strings.Join(miss, ","), c.p.Pos(ts.Pos()), "an arm for each of the five typed iterators")
			var fams []string
			for k := range fam {
				fams = append(fams, k)
			}
			sort.Strings(fams)
			c.r.Check(len(fam) <= 1, rule, f.String(), "mixed-wrappers:"+strings.Join(fams, ","), c.p.Pos(ts.Pos()), "every arm constructs the same kind of wrapper")
			return true
		})
	}
	c.r.Check(n >= 13, rule, qP, "type-switches:fewer-than-confirmed", "", fmt.Sprintf("%d wrapper type switches examined", n))
}

var _ = token.ADD
