package rules

import (
	"go/ast"
	"regexp/syntax"

	"verif/checker/core"
)

// A 1.x size with a bare k/m/g suffix is binary whatever its number looks like.
// rewriteBareIECSuffix recognises such inputs with a constant regular expression
// whose first capture is the number that is handed on to the general parser; every
// input the pattern does NOT match keeps humanize's decimal meaning of k/m/g. The
// number capture therefore has to admit every character a number of the general
// parser can consist of — digits, the decimal point and the thousands separator —
// or "1.5g" silently becomes 1 500 000 000 (seed C34b dropped '.' from the class).
// The pattern is a compile-time constant; it is parsed with regexp/syntax and the
// leaves of capture 1 are inspected, nothing is matched or executed.
func init() {
	extend("C34", "bare-suffix-number-class: the constant pattern behind the FindSubmatch of toml.rewriteBareIECSuffix is parsed (regexp/syntax) and the leaves of its first capture — the number handed to the general size parser — admit every digit, the decimal point and the thousands separator; an input the pattern does not match keeps the decimal meaning of k/m/g.",
		nil, func(p *core.Prog, r *core.Report, tier string) {
			const rule = "bare-suffix-number-class"
			f := r.Need(p, tomlPk8, "rewriteBareIECSuffix")
			if f == nil {
				return
			}
			info := f.Info()
			find := call("regexp.Regexp.FindSubmatch", "regexp.Regexp.FindStringSubmatch")
			calls := core.AllCalls(info, f.Decl.Body, find)
			if len(calls) != 1 {
				r.Bad(rule, f.String(), "find-call", f.Pos(), "expected exactly one FindSubmatch in rewriteBareIECSuffix")
				return
			}
			sel, ok := ast.Unparen(calls[0].Fun).(*ast.SelectorExpr)
			if !ok {
				r.Bad(rule, f.String(), "find-call", f.Pos(), "FindSubmatch receiver not resolvable")
				return
			}
			pats, ok := rePatternsM8(p, f, sel.X)
			if !ok || len(pats) == 0 {
				r.Bad(rule, f.String(), "pattern", f.Pos(), "the regular expression is not a constant pattern")
				return
			}
			for _, pat := range pats {
				re, err := syntax.Parse(pat, syntax.Perl)
				if err != nil {
					r.Bad(rule, f.String(), "pattern", f.Pos(), "pattern does not parse: "+err.Error())
					continue
				}
				num := x34Capture(re, 1)
				if num == nil {
					r.Bad(rule, f.String(), "capture-1", f.Pos(), "pattern has no first capture")
					continue
				}
				missing := ""
				for _, c := range "0123456789.," {
					if !x34Admits(num, c) {
						missing += string(c)
					}
				}
				r.Check(missing == "", rule, f.String(), "number-class", f.Pos(),
					"number capture of `"+pat+"` admits digits, '.' and ',' (missing: "+missing+")")
			}
		})
}

func x34Capture(re *syntax.Regexp, n int) *syntax.Regexp {
	if re.Op == syntax.OpCapture && re.Cap == n {
		return re
	}
	for _, s := range re.Sub {
		if c := x34Capture(s, n); c != nil {
			return c
		}
	}
	return nil
}

// x34Admits: some leaf of re can consume rune c.
func x34Admits(re *syntax.Regexp, c rune) bool {
	switch re.Op {
	case syntax.OpAnyChar, syntax.OpAnyCharNotNL:
		return true
	case syntax.OpLiteral:
		for _, x := range re.Rune {
			if x == c {
				return true
			}
		}
	case syntax.OpCharClass:
		for i := 0; i+1 < len(re.Rune); i += 2 {
			if re.Rune[i] <= c && c <= re.Rune[i+1] {
				return true
			}
		}
	}
	for _, s := range re.Sub {
		if x34Admits(s, c) {
			return true
		}
	}
	return false
}
