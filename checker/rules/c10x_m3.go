package rules

import (
	"fmt"
	"go/ast"
	"go/constant"
	"go/token"
	"go/types"
	"strings"

	"golang.org/x/tools/go/cfg"

	"verif/checker/core"
)

// C10 extension (m3), written from the survivors of the generic fault enumeration.
//
//	(10) rejected-point-not-kept   a point for which the field validator reported Dropped > 0
//	     (type conflict) never reaches the statement that keeps it in the batch.
//	(11) every-element-visited     the loops that carry the schema (fields of a point, entries
//	     of the change log on both the write and the replay side, created fields to save,
//	     dropped measurements) are left only through exhaustion or a return.
//	(12) deleted-iff-no-error      Engine.cleanupMeasurement reports deleted == true exactly
//	     when DeleteWithLock returned nil (decision table over nil / abort sentinel / other).
//	(13) data-scan-predicate       both scans of cleanupMeasurement abort on every key that has
//	     the measurement's prefix followed by ',' or the field separator.
//	(14) size-prefix               every record of fields.idxl gets the length prefix that
//	     readSizePlusBuffer decodes (same byte order).
//	(15) replay-exit-table         loadAllFieldChanges: after the decode loop EOF and torn tail
//	     return the accumulator with nil error, any other error fails, and no success exit
//	     hands back anything but the accumulator.
func init() {
	extend("C10", "(10) rejected-point-not-kept: in Shard.validateSeriesAndFields the statement that keeps a point in the batch is reachable after ValidateAndCreateFields only through an edge that establishes `no PartialWriteError` or `Dropped == 0`; "+
		"(11) every-element-visited: the field loop of ValidateAndCreateFields, the loops over FieldChanges in marshalFieldChanges / loadFieldChangeSet / ApplyChanges, the decode loop of loadAllFieldChanges and the loops of saveFieldsAndMeasurements and MeasurementsToFieldChangeDeletions have no early exit (break / goto) - they end by exhaustion or by a return; "+
		"(12) deleted-iff-no-error: evaluated on the three abstract results of DeleteWithLock (nil, the abort sentinel, any other error) Engine.cleanupMeasurement returns (true, nil) exactly for nil; "+
		"(13) data-scan-predicate: evaluated on the rows prefix x {',', field separator, other byte} each scan callback of cleanupMeasurement returns the abort sentinel whenever the key has the measurement prefix followed by ',' or the first byte of keyFieldSeparator; "+
		"(14) size-prefix: marshalFieldChanges passes binary.<order>.PutUint64 over the returned buffer on every success path, <order> being the one readSizePlusBuffer decodes with, and loadFieldChangeSet reads through readSizePlusBuffer; "+
		"(16) engine-conflict-polarity: in the field loop of tsm1.Engine.WritePoints ErrFieldTypeConflict is assigned only behind an edge establishing `known type != iter.Type()` (or a failed insert into the series type map), and the store into the map given to Cache.WriteMulti is not reachable in the same iteration from an edge that established such a difference; "+
		"(17) no-append-after-failure: in appendToChangesFile the error of OpenFile, Stat, Truncate and marshalFieldChanges is tested, and from the edge on which it is not nil neither File.Write nor the store of the last good size is reachable (a record is never appended behind a partial record that could not be truncated away); "+
		"(18) partial-write-still-saves: in Shard.WritePoints every exit after validateSeriesAndFields that does not pass saveFieldsAndMeasurements lies behind the failed type assertion of the validator's error to PartialWriteError (a hard error, for which the validator returns no created fields): a partial write never returns before the fields it created in memory were logged; "+
		"(19) known-type-compared: in the field loop of tsm1.Engine.WritePoints, after each lookup that yields the known type of the series field (series type map Get / Insert, Engine.Type) the store is reachable in the iteration only through the edge on which the lookup found nothing or through an edge establishing `that type == iter.Type()`; "+
		"(20) snapshot-load-fails: in MeasurementFieldSet.load a failure of loadParseFieldIndexPB ends the enclosing closure with a non-nil error and a failure of that closure ends load with a non-nil error before ApplyChanges (an unreadable fields.idx is never replaced by the change log alone); "+
		"(21) replay-read-fails: in readSizePlusBuffer and loadFieldChangeSet the error of every read / decode call (Read, io.ReadAtLeast, readSizePlusBuffer, proto.Unmarshal) is tested, the edge on which it is non-nil reaches only exits with a non-nil error, and the edge on which it is nil does not leave the function before the remaining steps (a short or failed read never yields an empty change set with a nil error); "+
		"(15) replay-exit-table: after the decode loop of loadAllFieldChanges the rows errors.Is(err, io.EOF) and errors.Is(err, io.ErrUnexpectedEOF) end in `return accumulator, nil`, the row `other error` ends in a failing return, and every success exit behind a successful open returns the accumulator.",
		nil, func(p *core.Prog, r *core.Report, tier string) {
			m3RejectedNotKept(p, r, false)
			m3C10Loops(p, r)
			m3CleanupTable(p, r)
			m3ScanPredicate(p, r)
			m3SizePrefix(p, r)
			m3ReplayExits(p, r)
			m3EngineConflictPolarity(p, r)
			m3NoAppendAfterFailure(p, r)
			m3PartialStillSaves(p, r)
			m3KnownTypeCompared(p, r)
			m3SnapshotLoadFails(p, r)
			m3ReplayReadFails(p, r)
		})
}

// ---------------------------------------------------------------------------
// shared helpers
// ---------------------------------------------------------------------------

// m3InnermostLoop returns the innermost top-level loop of f that contains node n.
func m3InnermostLoop(f *core.Func, g *core.Graph, n *core.Node) *rw3Loop {
	var loop *rw3Loop
	for _, s := range rw3TopLoops(f.Decl.Body) {
		if l := rw3FindLoop(g, s); l != nil && l.In(n) {
			if loop == nil || (l.Body.Pos() >= loop.Body.Pos() && l.Body.End() <= loop.Body.End()) {
				loop = l
			}
		}
	}
	return loop
}

// m3NoEarlyExit checks rule (11) for the loops of fn selected by sel.
func m3NoEarlyExit(p *core.Prog, r *core.Report, rule, pkg, fn string, min int, sel func(info *types.Info, s ast.Stmt) (label string, exempt core.EdgePred, ok bool)) {
	f := r.Need(p, pkg, fn)
	if f == nil {
		return
	}
	info, g, name := f.Info(), f.Graph(), f.String()
	n := 0
	for _, s := range rw3TopLoops(f.Decl.Body) {
		label, exempt, ok := sel(info, s)
		if !ok {
			continue
		}
		outs, found := g.LoopEarlyExitsM3(s, exempt)
		if !found {
			continue
		}
		n++
		if len(outs) == 0 {
			r.Ok(rule, name+":"+label, p.Pos(s.Pos()), "the loop is left only by exhaustion or by a return")
		} else {
			r.Bad(rule, name, label+":early-exit", g.Line(outs[0]), "the loop over "+label+" can be left before every element was processed (break / jump out of the loop): the remaining elements are silently skipped")
		}
	}
	r.Check(n >= min, rule, name, "loops:count", f.Pos(), fmt.Sprintf("%d loop(s) examined (%d confirmed by reading)", n, min))
}

// m3RangeOverFieldChanges selects `range x` where x is a tsdb.FieldChanges or a
// slice of tsdb.FieldChanges.
func m3RangeOverFieldChanges() func(info *types.Info, s ast.Stmt) (string, core.EdgePred, bool) {
	isFC := func(t types.Type) bool {
		nt, ok := types.Unalias(t).(*types.Named)
		return ok && nt.Obj().Name() == "FieldChanges" && nt.Obj().Pkg() != nil && core.Short(nt.Obj().Pkg().Path()) == tsdbP
	}
	return func(info *types.Info, s ast.Stmt) (string, core.EdgePred, bool) {
		rs, ok := s.(*ast.RangeStmt)
		if !ok {
			return "", nil, false
		}
		t := info.TypeOf(rs.X)
		if t == nil {
			return "", nil, false
		}
		if isFC(t) {
			return "the changes of a set", nil, true
		}
		if sl, ok := t.Underlying().(*types.Slice); ok && isFC(sl.Elem()) {
			return "the change sets", nil, true
		}
		return "", nil, false
	}
}

func m3RangeOverParam(f func() *types.Var, label string) func(info *types.Info, s ast.Stmt) (string, core.EdgePred, bool) {
	return func(info *types.Info, s ast.Stmt) (string, core.EdgePred, bool) {
		rs, ok := s.(*ast.RangeStmt)
		pv := f()
		if !ok || pv == nil || core.ObjOf(info, rs.X) != types.Object(pv) {
			return "", nil, false
		}
		return label, nil, true
	}
}

// m3ForCalling selects `for …; cond; …` loops whose condition / init / post calls m;
// the edge on which a call of m in a condition is false is not an early exit.
func m3ForCalling(m core.Matcher, label string) func(info *types.Info, s ast.Stmt) (string, core.EdgePred, bool) {
	return func(info *types.Info, s ast.Stmt) (string, core.EdgePred, bool) {
		fs, ok := s.(*ast.ForStmt)
		if !ok {
			return "", nil, false
		}
		hit := false
		for _, part := range []ast.Node{fs.Cond, fs.Init, fs.Post} {
			if part != nil && !isNilNode(part) && len(core.AllCalls(info, part, m)) > 0 {
				hit = true
			}
		}
		if !hit && fs.Cond == nil {
			// for { if !it.Next() { break } … }
			if len(core.AllCalls(info, fs.Body, m)) > 0 {
				hit = true
			}
		}
		if !hit {
			return "", nil, false
		}
		exhausted := func(e *core.Edge) bool {
			return rw3EdgeImplies(e, func(c ast.Expr, val bool) bool {
				cx, ok := c.(*ast.CallExpr)
				return ok && !val && m(info, cx)
			})
		}
		return label, exhausted, true
	}
}

func isNilNode(n ast.Node) bool {
	switch x := n.(type) {
	case ast.Expr:
		return x == nil
	case ast.Stmt:
		return x == nil
	}
	return n == nil
}

// ---------------------------------------------------------------------------
// (10) rejected-point-not-kept (shared with C40, which also checks the converse)
// ---------------------------------------------------------------------------

func m3RejectedNotKept(p *core.Prog, r *core.Report, converse bool) {
	const rule = "rejected-point-not-kept"
	f := r.Need(p, tsdbP, "Shard.validateSeriesAndFields")
	if f == nil {
		return
	}
	info, g, name := f.Info(), f.Graph(), f.String()
	droppedF := core.LookupField(f.Pkg.Types, "PartialWriteError", "Dropped")
	batch := f.Param(0)
	vns := g.Select(g.Calling(call("tsdb.ValidateAndCreateFields")))
	if !r.Check(droppedF != nil && batch != nil && len(vns) >= 1, rule, name, "anchors", f.Pos(), "validator call, batch parameter and PartialWriteError.Dropped resolved") {
		return
	}
	for _, vn := range vns {
		as, ok := vn.N.(*ast.AssignStmt)
		var pwe types.Object
		if ok && len(as.Lhs) == 2 && len(as.Rhs) == 1 {
			pwe = core.ObjOf(info, as.Lhs[1])
		}
		if !r.Check(pwe != nil && len(rw3Defs(info, f.Decl.Body, pwe)) == 1, rule, name, "validator-verdict", g.Line(vn), "the PartialWriteError result of the validator is kept in a variable assigned only there") {
			continue
		}
		loop := m3InnermostLoop(f, g, vn)
		if !r.Check(loop != nil, rule, name, "point-loop:absent", g.Line(vn), "the validator is called inside the loop over the points") {
			continue
		}
		isKeep := func(n *core.Node) bool {
			s, ok := n.N.(*ast.AssignStmt)
			if !ok {
				return false
			}
			for _, l := range s.Lhs {
				if ix, ok := ast.Unparen(l).(*ast.IndexExpr); ok && core.ObjOf(info, ix.X) == types.Object(batch) {
					return true
				}
			}
			return false
		}
		isDroppedOfVerdict := func(x ast.Expr) bool {
			s, ok := ast.Unparen(x).(*ast.SelectorExpr)
			return ok && core.FieldOf(info, s) == droppedF && core.ObjOf(info, s.X) == pwe
		}
		accepted := core.EdgeEstablishingM3(info, f.Decl.Body, func(c ast.Expr, val bool) bool { // no error, or nothing dropped
			if x, nonNilOnTrue, ok := core.NilTest(info, c); ok && core.ObjOf(info, x) == pwe {
				return val != nonNilOnTrue
			}
			return core.QtyAtomM3(info, c, val, isDroppedOfVerdict, true)
		})
		rejected := core.EdgeEstablishingM3(info, f.Decl.Body, func(c ast.Expr, val bool) bool { // Dropped >= 1
			return core.QtyAtomM3(info, c, val, isDroppedOfVerdict, false)
		})
		var keeps []*core.Node
		for n := range loop.Within(g, vn) {
			if isKeep(n) {
				keeps = append(keeps, n)
			}
		}
		if !r.Check(len(keeps) >= 1, rule, name, "keep:absent", g.Line(vn), "the iteration keeps the point in the batch (points[j] = points[i])") {
			continue
		}
		reach := g.Reach(core.After(vn, nil), func(n *core.Node) bool { return !loop.In(n) }, accepted)
		bad := false
		for _, k := range keeps {
			if reach[k] {
				bad = true
				r.Bad(rule, name, "rejected-point-kept", g.Line(k), "the point is kept in the batch on a path that does not establish `validator error == nil` or `Dropped == 0`: a point rejected for a field type conflict is handed to the engine and stored")
			}
		}
		if !bad {
			r.Ok(rule, name+":keep-behind-verdict", g.Line(vn), fmt.Sprintf("%d keep statement(s) after the validator, each only behind `error == nil` / `Dropped == 0`", len(keeps)))
		}
		if converse {
			esc := loop.EscapesFrom(g, core.After(vn, nil), isKeep, rejected)
			if len(esc) == 0 {
				r.Ok(rule, name+":discard-behind-verdict", g.Line(vn), "after the validator an iteration ends without keeping the point only behind `Dropped >= 1`")
			} else {
				r.Bad(rule, name, "accepted-point-discarded", g.Line(vn), "after the validator an iteration can end without keeping the point although the edge `Dropped >= 1` was not taken: an accepted point (e.g. one whose \"time\" field was merely stripped) is not stored")
			}
		}
	}
}

// ---------------------------------------------------------------------------
// (11) every-element-visited
// ---------------------------------------------------------------------------

func m3C10Loops(p *core.Prog, r *core.Report) {
	const rule = "every-element-visited"
	next := call("models.FieldIterator.Next")
	m3NoEarlyExit(p, r, rule, tsdbP, "ValidateAndCreateFields", 1, m3ForCalling(next, "the fields of the point"))
	m3NoEarlyExit(p, r, rule, tsdbP, "marshalFieldChanges", 2, m3RangeOverFieldChanges())
	m3NoEarlyExit(p, r, rule, tsdbP, "MeasurementFieldSet.ApplyChanges", 2, m3RangeOverFieldChanges())
	m3NoEarlyExit(p, r, rule, tsdbP, "measurementFieldSetChangeMgr.loadFieldChangeSet", 1, func(info *types.Info, s ast.Stmt) (string, core.EdgePred, bool) {
		rs, ok := s.(*ast.RangeStmt)
		if !ok {
			return "", nil, false
		}
		if sl, ok := info.TypeOf(rs.X).Underlying().(*types.Slice); ok && rw3IsNamed(sl.Elem(), rw3Internal, "MeasurementFieldChange") {
			return "the decoded changes", nil, true
		}
		return "", nil, false
	})
	m3NoEarlyExit(p, r, rule, tsdbP, "measurementFieldSetChangeMgr.loadAllFieldChanges", 1, m3ForCalling(call("tsdb.measurementFieldSetChangeMgr.loadFieldChangeSet"), "the change sets of fields.idxl"))
	if f := p.Func(tsdbP, "Shard.saveFieldsAndMeasurements"); f != nil {
		m3NoEarlyExit(p, r, rule, tsdbP, "Shard.saveFieldsAndMeasurements", 1, m3RangeOverParam(func() *types.Var { return f.Param(0) }, "the created fields"))
	}
	if f := p.Func(tsm1, "Engine.WritePoints"); f != nil {
		// a conflicting field drops only itself: the other fields and points of the batch are still written
		m3NoEarlyExit(p, r, rule, tsm1, "Engine.WritePoints", 1, m3RangeOverParam(func() *types.Var { return f.Param(1) }, "the points of the batch"))
		m3NoEarlyExit(p, r, rule, tsm1, "Engine.WritePoints", 1, m3ForCalling(next, "the fields of the point"))
	}
	if f := r.Need(p, tsdbP, "MeasurementsToFieldChangeDeletions"); f != nil {
		m3NoEarlyExit(p, r, rule, tsdbP, "MeasurementsToFieldChangeDeletions", 1, m3RangeOverParam(func() *types.Var { return f.Param(0) }, "the dropped measurements"))
	}
}

// ---------------------------------------------------------------------------
// (12) deleted-iff-no-error
// ---------------------------------------------------------------------------

// m3Sentinel finds the local error variable that nested callbacks of fl return (>= 2 sites).
func m3Sentinel(info *types.Info, fl *ast.FuncLit) types.Object {
	sentinels := map[types.Object]int{}
	ast.Inspect(fl.Body, func(n ast.Node) bool {
		if inner, ok := n.(*ast.FuncLit); ok && inner != fl {
			ast.Inspect(inner.Body, func(m ast.Node) bool {
				if rs, ok := m.(*ast.ReturnStmt); ok && len(rs.Results) == 1 {
					if o, ok := core.ObjOf(info, rs.Results[0]).(*types.Var); ok && !core.IsNilIdent(info, rs.Results[0]) {
						sentinels[o]++
					}
				}
				return true
			})
		}
		return true
	})
	var s types.Object
	for o, n := range sentinels {
		if n >= 2 {
			s = o
		}
	}
	return s
}

func m3CleanupTable(p *core.Prog, r *core.Report) {
	const rule = "deleted-iff-no-error"
	f := r.Need(p, tsm1, "Engine.cleanupMeasurement")
	if f == nil {
		return
	}
	info, g, name := f.Info(), f.Graph(), f.String()
	dwl := core.AllCalls(info, f.Decl.Body, call("tsdb.MeasurementFieldSet.DeleteWithLock"))
	if !r.Check(len(dwl) == 1 && len(dwl[0].Args) == 2, rule, name, "DeleteWithLock:absent", f.Pos(), "one DeleteWithLock call") {
		return
	}
	fl, _ := ast.Unparen(dwl[0].Args[1]).(*ast.FuncLit)
	dn := g.NodeOf(dwl[0])
	var errObj types.Object
	if dn != nil {
		if as, ok := dn.N.(*ast.AssignStmt); ok && len(as.Lhs) == 1 {
			errObj = core.ObjOf(info, as.Lhs[0])
		}
	}
	var sentinel types.Object
	if fl != nil {
		sentinel = m3Sentinel(info, fl)
	}
	if !r.Check(fl != nil && dn != nil && errObj != nil && sentinel != nil, rule, name, "shape", f.Pos(), "DeleteWithLock's error is kept in a variable and the callback aborts with a sentinel") {
		return
	}
	// no later assignment to the error variable on the way to the exits
	for n := range g.Reach(core.After(dn, nil), nil, nil) {
		if g.AssigningObj(errObj)(n) {
			r.Bad(rule, name, "error-reassigned", g.Line(n), "the variable holding DeleteWithLock's error is reassigned before the result is computed")
			return
		}
	}
	isErr := func(x ast.Expr) bool { return core.ObjOf(info, x) == errObj }
	isSent := func(x ast.Expr) bool { return core.ObjOf(info, x) == sentinel }
	type row struct {
		abs         string
		wantDeleted bool
	}
	okAll := true
	for _, rw := range []row{{"nil", true}, {"abort-sentinel", false}, {"other error", false}} {
		rw := rw
		eq := func(a, b ast.Expr) (bool, bool) {
			switch {
			case (isErr(a) && core.IsNilIdent(info, b)) || (isErr(b) && core.IsNilIdent(info, a)):
				return rw.abs == "nil", true
			case (isErr(a) && isSent(b)) || (isErr(b) && isSent(a)):
				return rw.abs == "abort-sentinel", true
			}
			return false, false
		}
		leaf := func(e ast.Expr) (bool, bool) {
			if c, ok := ast.Unparen(e).(*ast.CallExpr); ok && call("errors.Is")(info, c) && len(c.Args) == 2 && isErr(c.Args[0]) && isSent(c.Args[1]) {
				return rw.abs == "abort-sentinel", true
			}
			if v, ok := core.ConstBool(info, e); ok {
				return v, true
			}
			return false, false
		}
		full := core.LeafResolvingM3(info, f.Decl.Body, core.LeafWithEqM3(leaf, eq))
		exits := core.ExitsInM3(g.ReachUnderM3(core.After(dn, nil), nil, full, eq))
		if len(exits) == 0 {
			okAll = false
			r.Bad(rule, name, "row:"+rw.abs+":no-exit", g.Line(dn), "no exit is reachable for this result of DeleteWithLock")
			continue
		}
		for _, x := range exits {
			rs, ok := x.N.(*ast.ReturnStmt)
			if !ok || len(rs.Results) != 2 {
				okAll = false
				r.Bad(rule, name, "row:"+rw.abs+":undecided", g.Line(x), "exit is not `return deleted, err` with explicit operands")
				continue
			}
			// error operand: nil, the error variable, or something else (a constructed error)
			success := false
			switch {
			case core.IsNilIdent(info, rs.Results[1]):
				success = true
			case isErr(rs.Results[1]):
				success = rw.abs == "nil"
			}
			del, known := core.EvalCond(core.ResolveLocal(info, f.Decl.Body, rs.Results[0]), full)
			if !known {
				if !success {
					continue // a failing exit: deleted is irrelevant
				}
				okAll = false
				r.Bad(rule, name, "row:"+rw.abs+":undecided", g.Line(x), "the deleted result cannot be evaluated from the error of DeleteWithLock")
				continue
			}
			reported := success && del
			if reported != rw.wantDeleted {
				okAll = false
				what := "the schema was removed from memory but deleted=false / an error is reported: the removal is never written to fields.idxl and the schema comes back at the next restart"
				if reported {
					what = "deleted=true is reported although DeleteWithLock did not remove the schema: a DeleteMeasurement entry is logged for a measurement whose schema (and possibly data) still exists, the recorded field types are lost at the next restart"
				}
				r.Bad(rule, name, "row:"+rw.abs, g.Line(x), "DeleteWithLock result "+rw.abs+": "+what)
			}
		}
	}
	if okAll {
		r.Ok(rule, name, g.Line(dn), "nil -> (true, nil); abort sentinel -> not deleted; other error -> not deleted")
	}
}

// ---------------------------------------------------------------------------
// (13) data-scan-predicate
// ---------------------------------------------------------------------------

// m3ByteValue evaluates a byte-valued term: a constant, or constString[constIndex].
func m3ByteValue(info *types.Info, e ast.Expr) (int64, bool) {
	e = ast.Unparen(e)
	if v := core.ConstVal(info, e); v != nil && v.Kind() == constant.Int {
		return constant.Int64Val(v)
	}
	if ix, ok := e.(*ast.IndexExpr); ok {
		s := core.ConstVal(info, ix.X)
		i := core.ConstVal(info, ix.Index)
		if s != nil && i != nil && s.Kind() == constant.String && i.Kind() == constant.Int {
			str := constant.StringVal(s)
			if k, ok := constant.Int64Val(i); ok && k >= 0 && int(k) < len(str) {
				return int64(str[k]), true
			}
		}
	}
	return 0, false
}

func m3ScanPredicate(p *core.Prog, r *core.Report) {
	const rule = "data-scan-predicate"
	f := r.Need(p, tsm1, "Engine.cleanupMeasurement")
	if f == nil {
		return
	}
	info, name := f.Info(), f.String()
	dwl := core.AllCalls(info, f.Decl.Body, call("tsdb.MeasurementFieldSet.DeleteWithLock"))
	if len(dwl) != 1 || len(dwl[0].Args) != 2 {
		return // reported by deleted-iff-no-error
	}
	fl, _ := ast.Unparen(dwl[0].Args[1]).(*ast.FuncLit)
	if fl == nil {
		return
	}
	sentinel := m3Sentinel(info, fl)
	pk := p.Pkg(tsm1)
	var fieldSep int64 = -1
	if pk != nil {
		if c, ok := pk.Types.Scope().Lookup("keyFieldSeparator").(*types.Const); ok && c.Val().Kind() == constant.String && len(constant.StringVal(c.Val())) > 0 {
			fieldSep = int64(constant.StringVal(c.Val())[0])
		}
	}
	if !r.Check(sentinel != nil && fieldSep >= 0, rule, name, "anchors", f.Pos(), "abort sentinel and tsm1.keyFieldSeparator resolved") {
		return
	}
	scans := core.AllCalls(info, fl.Body, call("tsdb/engine/tsm1.Cache.ApplyEntryFn", "tsdb/engine/tsm1.FileStore.WalkKeys"))
	nscan := 0
	for _, sc := range scans {
		var cb *ast.FuncLit
		for _, a := range sc.Args {
			if l, ok := ast.Unparen(a).(*ast.FuncLit); ok {
				cb = l
			}
		}
		if cb == nil || cb.Type.Params == nil || len(cb.Type.Params.List) == 0 || len(cb.Type.Params.List[0].Names) == 0 {
			r.Bad(rule, name, "scan-callback:"+core.FName(core.Callee(info, sc)), p.Pos(sc.Pos()), "the scan does not get a literal callback with a named key parameter")
			continue
		}
		nscan++
		what := core.FName(core.Callee(info, sc))
		key := info.Defs[cb.Type.Params.List[0].Names[0]]
		if key == nil {
			r.Bad(rule, name, "scan-callback:"+what, p.Pos(cb.Pos()), "the key parameter of the scan callback is not named")
			continue
		}
		cg := f.LitGraph(cb)
		isKeyByte := func(x ast.Expr) bool {
			ix, ok := ast.Unparen(x).(*ast.IndexExpr)
			return ok && core.ObjOf(info, ix.X) == key
		}
		sawPrefix, sawComma, sawSep := false, false, false
		okAll := true
		for _, prefix := range []bool{true, false} {
			for _, b := range []int64{',', fieldSep, -2} {
				prefix, b := prefix, b
				eq := func(x, y ast.Expr) (bool, bool) {
					var other ast.Expr
					switch {
					case isKeyByte(x):
						other = y
					case isKeyByte(y):
						other = x
					default:
						return false, false
					}
					v, ok := m3ByteValue(info, other)
					if !ok {
						return false, false
					}
					if v == ',' {
						sawComma = true
					}
					if v == fieldSep {
						sawSep = true
					}
					return v == b, true
				}
				leaf := func(e ast.Expr) (bool, bool) {
					if c, ok := ast.Unparen(e).(*ast.CallExpr); ok && call("bytes.HasPrefix")(info, c) && len(c.Args) == 2 && core.ObjOf(info, c.Args[0]) == key {
						sawPrefix = true
						return prefix, true
					}
					return false, false
				}
				mustAbort := prefix && b != -2
				if !mustAbort {
					// evaluate anyway so that the atoms are seen
					cg.ReachUnderM3([]*core.Node{cg.Entry}, nil, core.LeafResolvingM3(info, cb.Body, core.LeafWithEqM3(leaf, eq)), eq)
					continue
				}
				for _, x := range core.ExitsInM3(cg.ReachUnderM3([]*core.Node{cg.Entry}, nil, core.LeafResolvingM3(info, cb.Body, core.LeafWithEqM3(leaf, eq)), eq)) {
					rs, ok := x.N.(*ast.ReturnStmt)
					aborts := ok && len(rs.Results) == 1 && !core.IsNilIdent(info, rs.Results[0])
					if !aborts {
						okAll = false
						sep := "','"
						if b == fieldSep {
							sep = "the field separator"
						}
						r.Bad(rule, name, what+":data-not-seen:"+sep, cg.Line(x), "a key with the measurement's prefix followed by "+sep+" does not abort the schema deletion: the field types of a measurement that still has data are removed")
					}
				}
			}
		}
		if !r.Check(sawPrefix && sawComma && sawSep, rule, name, what+":undecided", p.Pos(cb.Pos()), "the callback tests bytes.HasPrefix(key, …) and compares a key byte with ',' and with keyFieldSeparator[0]") {
			continue
		}
		if okAll {
			r.Ok(rule, name+":"+what, p.Pos(cb.Pos()), "prefix && next byte in {',', field separator} => abort")
		}
	}
	r.Check(nscan >= 2, rule, name, "scans:count", f.Pos(), fmt.Sprintf("%d scan callback(s) examined (cache and file store)", nscan))
}

// ---------------------------------------------------------------------------
// (14) size-prefix
// ---------------------------------------------------------------------------

func m3SizePrefix(p *core.Prog, r *core.Report) {
	const rule = "size-prefix"
	rd := r.Need(p, tsdbP, "readSizePlusBuffer")
	wr := r.Need(p, tsdbP, "marshalFieldChanges")
	ld := r.Need(p, tsdbP, "measurementFieldSetChangeMgr.loadFieldChangeSet")
	if rd == nil || wr == nil || ld == nil {
		return
	}
	core.RuleMustPass(r, ld, rule, "readSizePlusBuffer", call("tsdb.readSizePlusBuffer"), false)
	// byte order the reader decodes with
	order := ""
	for _, c := range core.AllCalls(rd.Info(), rd.Decl.Body, call("encoding/binary.*.Uint64")) {
		nm := core.FName(core.Callee(rd.Info(), c)) // encoding/binary.littleEndian.Uint64
		parts := strings.Split(nm, ".")
		if len(parts) >= 3 {
			order = parts[len(parts)-2]
		}
	}
	if !r.Check(order != "", rule, rd.String(), "decode:absent", rd.Pos(), "readSizePlusBuffer decodes a 64-bit length prefix") {
		return
	}
	info, g := wr.Info(), wr.Graph()
	put := call("encoding/binary." + order + ".PutUint64")
	// the returned buffer
	var buf types.Object
	for _, x := range g.SuccessExits() {
		if rs, ok := x.N.(*ast.ReturnStmt); ok && len(rs.Results) == 2 {
			if o := core.ObjOf(info, rs.Results[0]); o != nil {
				buf = o
			}
		}
	}
	if !r.Check(buf != nil, rule, wr.String(), "returned-buffer", wr.Pos(), "the marshalled bytes are returned from a variable") {
		return
	}
	isPut := g.Calling(func(info *types.Info, c *ast.CallExpr) bool {
		return put(info, c) && len(c.Args) == 2 && core.MentionsObj(info, c.Args[0], buf) && core.MentionsObj(info, core.ResolveLocal(info, wr.Decl.Body, c.Args[1]), buf)
	})
	direct, deep := isPut, g.CallingDeep(put)
	isPut = func(n *core.Node) bool { // also through a helper that always stores the prefix into the buffer it is given
		return direct(n) || (n.N != nil && deep(n) && core.MentionsObj(info, n.N, buf))
	}
	r.Check(len(g.Select(isPut)) >= 1, rule, wr.String(), "PutUint64:absent", wr.Pos(), "the record length is stored into the head of the returned buffer with binary."+order+".PutUint64 (the order readSizePlusBuffer decodes)")
	core.RuleMustPassN(r, wr, g, rule, "binary."+order+".PutUint64(buf[0:8], len(buf)-8)", isPut, nil)
}

// ---------------------------------------------------------------------------
// (15) replay-exit-table
// ---------------------------------------------------------------------------

func m3ReplayExits(p *core.Prog, r *core.Report) {
	const rule = "replay-exit-table"
	f := r.Need(p, tsdbP, "measurementFieldSetChangeMgr.loadAllFieldChanges")
	if f == nil {
		return
	}
	info, g, name := f.Info(), f.Graph(), f.String()
	lf := call("tsdb.measurementFieldSetChangeMgr.loadFieldChangeSet")
	var loop *rw3Loop
	var fs *ast.ForStmt
	for _, s := range rw3TopLoops(f.Decl.Body) {
		if x, ok := s.(*ast.ForStmt); ok && len(core.AllCalls(info, x, lf)) > 0 {
			if l := rw3FindLoop(g, x); l != nil {
				loop, fs = l, x
			}
		}
	}
	if !r.Check(loop != nil, rule, name, "decode-loop:absent", f.Pos(), "decode loop found") {
		return
	}
	// the error of the decoder and the accumulator
	var errObj, acc types.Object
	for _, c := range core.AllCalls(info, fs, lf) {
		if n := g.NodeOf(c); n != nil {
			if as, ok := n.N.(*ast.AssignStmt); ok && len(as.Lhs) == 2 {
				errObj = core.ObjOf(info, as.Lhs[1])
				dec := core.ObjOf(info, as.Lhs[0])
				for _, m := range g.Nodes {
					if m.N == nil || !loop.In(m) {
						continue
					}
					if s, ok := m.N.(*ast.AssignStmt); ok && len(s.Lhs) == 1 {
						o := core.ObjOf(info, s.Lhs[0])
						for _, a := range rw3AppendTo(info, m.N, func(e ast.Expr) bool { return core.ObjOf(info, e) == o && o != nil }) {
							if core.ObjOf(info, a) == dec {
								acc = o
							}
						}
					}
				}
			}
		}
	}
	if !r.Check(errObj != nil && acc != nil, rule, name, "decoder-results", p.Pos(fs.Pos()), "the decoder's error and the accumulator of decoded sets are variables") {
		return
	}
	// (a) success exits behind a successful open return the accumulator
	notExist := func(e *core.Edge) bool {
		return rw3EdgeImplies(e, func(c ast.Expr, val bool) bool {
			cx, ok := c.(*ast.CallExpr)
			return ok && val && call("os.IsNotExist")(info, cx)
		})
	}
	opened := g.ReachFromEntry(nil, notExist)
	okA := true
	for _, x := range g.SuccessExits() {
		if !opened[x] {
			continue
		}
		rs, ok := x.N.(*ast.ReturnStmt)
		if !ok || len(rs.Results) != 2 || core.ObjOf(info, rs.Results[0]) != acc {
			okA = false
			r.Bad(rule, name, "success-without-accumulator", g.Line(x), "an exit that may report success after fields.idxl was opened does not return the accumulated change sets: ApplyChanges sees an empty log and removes it, the logged field changes are lost")
		}
	}
	if okA {
		r.Ok(rule, name+":success-returns-accumulator", f.Pos(), "every success exit behind a successful open returns "+acc.Name())
	}
	// (b) table over the error that ended the loop
	var after []*core.Node
	for _, n := range g.Nodes {
		if !(n == loop.Head || loop.In(n)) {
			continue
		}
		for _, e := range n.Succ {
			if loop.In(e.To) || e.To == loop.Head {
				continue
			}
			if b := e.To.Block; b != nil && b.Stmt == ast.Stmt(fs) && b.Kind == cfg.KindForPost {
				continue
			}
			after = append(after, e.To)
		}
	}
	if !r.Check(len(after) >= 1, rule, name, "loop-exit:absent", p.Pos(fs.Pos()), "the decode loop has an exit") {
		return
	}
	ioPk := p.All["io"]
	var eofV, ueofV types.Object
	if ioPk != nil {
		eofV = ioPk.Types.Scope().Lookup("EOF")
		ueofV = ioPk.Types.Scope().Lookup("ErrUnexpectedEOF")
	}
	if !r.Check(eofV != nil && ueofV != nil, "anchor", "io.EOF / io.ErrUnexpectedEOF", "unresolved", f.Pos(), "sentinels resolved") {
		return
	}
	isErr := func(x ast.Expr) bool { return core.ObjOf(info, x) == errObj }
	okB := true
	for _, abs := range []string{"io.EOF", "io.ErrUnexpectedEOF", "other error"} {
		abs := abs
		which := func(x ast.Expr) string {
			switch {
			case rw3Uses(info, x, eofV):
				return "io.EOF"
			case rw3Uses(info, x, ueofV):
				return "io.ErrUnexpectedEOF"
			}
			return ""
		}
		eq := func(a, b ast.Expr) (bool, bool) {
			switch {
			case (isErr(a) && core.IsNilIdent(info, b)) || (isErr(b) && core.IsNilIdent(info, a)):
				return false, true // the loop ended on an error
			case isErr(a) && which(b) != "":
				return which(b) == abs, true
			case isErr(b) && which(a) != "":
				return which(a) == abs, true
			}
			return false, false
		}
		leaf := func(e ast.Expr) (bool, bool) {
			if c, ok := ast.Unparen(e).(*ast.CallExpr); ok && call("errors.Is")(info, c) && len(c.Args) == 2 && isErr(c.Args[0]) && which(c.Args[1]) != "" {
				return which(c.Args[1]) == abs, true
			}
			return false, false
		}
		exits := core.ExitsInM3(g.ReachUnderM3(after, nil, core.LeafResolvingM3(info, f.Decl.Body, core.LeafWithEqM3(leaf, eq)), eq))
		if len(exits) == 0 {
			okB = false
			r.Bad(rule, name, "row:"+abs+":no-exit", p.Pos(fs.Pos()), "no exit reachable for this decoder error")
		}
		for _, x := range exits {
			rs, ok := x.N.(*ast.ReturnStmt)
			if !ok || len(rs.Results) != 2 {
				okB = false
				r.Bad(rule, name, "row:"+abs+":undecided", g.Line(x), "exit is not `return sets, err` with explicit operands")
				continue
			}
			success := core.IsNilIdent(info, rs.Results[1])
			if abs == "other error" {
				if success {
					okB = false
					r.Bad(rule, name, "row:other error", g.Line(x), "a decode error other than EOF / torn tail ends in a nil-error return: a damaged fields.idxl is treated as complete and then removed")
				}
				continue
			}
			if !success || core.ObjOf(info, rs.Results[0]) != acc {
				okB = false
				what := "end of fields.idxl"
				if abs == "io.ErrUnexpectedEOF" {
					what = "a torn last record (unclean shutdown)"
				}
				r.Bad(rule, name, "row:"+abs, g.Line(x), what+" does not end in `return "+acc.Name()+", nil`: the change sets decoded so far are not replayed / the shard does not open after an unclean restart")
			}
		}
	}
	if okB {
		r.Ok(rule, name+":table", p.Pos(fs.Pos()), "EOF -> (sets, nil); ErrUnexpectedEOF -> (sets, nil); other -> error")
	}
}

var _ = token.EQL

// ---------------------------------------------------------------------------
// (16) engine-conflict-polarity
// ---------------------------------------------------------------------------

func m3EngineConflictPolarity(p *core.Prog, r *core.Report) {
	const rule = "engine-conflict-polarity"
	f := r.Need(p, tsm1, "Engine.WritePoints")
	if f == nil {
		return
	}
	info, g, name, body := f.Info(), f.Graph(), f.String(), f.Decl.Body
	conflict := rw3PkgVar(p, tsdbP, "ErrFieldTypeConflict")
	cw := core.AllCalls(info, body, call("tsdb/engine/tsm1.Cache.WriteMulti"))
	if !r.Check(conflict != nil && len(cw) == 1 && len(cw[0].Args) == 1 && core.ObjOf(info, cw[0].Args[0]) != nil, rule, name, "anchors", f.Pos(), "ErrFieldTypeConflict and the map given to Cache.WriteMulti resolved") {
		return
	}
	values := core.ObjOf(info, cw[0].Args[0])
	var loop *rw3Loop
	for _, s := range rw3TopLoops(body) {
		if fs, ok := s.(*ast.ForStmt); ok && len(core.AllCalls(info, fs, call("models.FieldIterator.Next"))) > 0 && fs.Cond != nil {
			if l := rw3FindLoop(g, fs); l != nil {
				loop = l
			}
		}
	}
	if !r.Check(loop != nil, rule, name, "field-loop:absent", f.Pos(), "loop over the fields of a point found") {
		return
	}
	isFlag := func(n *core.Node) bool {
		as, ok := n.N.(*ast.AssignStmt)
		if !ok || len(as.Lhs) != len(as.Rhs) {
			return false
		}
		for i := range as.Rhs {
			if rw3Uses(info, as.Rhs[i], conflict) {
				return true
			}
		}
		return false
	}
	isStore := func(n *core.Node) bool {
		as, ok := n.N.(*ast.AssignStmt)
		if !ok {
			return false
		}
		for _, l := range as.Lhs {
			if ix, ok := ast.Unparen(l).(*ast.IndexExpr); ok && core.ObjOf(info, ix.X) == values {
				return true
			}
		}
		return false
	}
	isIterType := func(e ast.Expr) bool {
		x := e
		for i := 0; i < 4; i++ { // int(ft) with ft := iter.Type(), want := int(ft), …
			x = core.ResolveLocal(info, body, core.StripConv(info, x))
		}
		return core.AsCall(info, core.StripConv(info, x), call("models.FieldIterator.Type")) != nil
	}
	nCmp := 0
	differs := func(a ast.Expr, val bool) bool {
		be, ok := ast.Unparen(a).(*ast.BinaryExpr)
		if !ok || (be.Op != token.NEQ && be.Op != token.EQL) || isIterType(be.X) == isIterType(be.Y) {
			return false
		}
		nCmp++
		return (be.Op == token.NEQ) == val
	}
	// the comma-ok result of an insert into the series type map: false means "an entry exists already"
	insertFailed := func(a ast.Expr, val bool) bool {
		o := core.ObjOf(info, a)
		if o == nil || val {
			return false
		}
		d, ok := core.SingleDef(info, body, o)
		return ok && d.Index == 1 && d.Rhs != nil && core.AsCall(info, d.Rhs, call("pkg/radix.Tree.Insert")) != nil
	}
	conflictEdge := core.EdgeEstablishingM3(info, body, core.AnyFact(differs, insertFailed))
	inIter := func(n *core.Node) bool { return !loop.In(n) }
	reach := g.Reach([]*core.Node{loop.Entry}, inIter, conflictEdge)
	nFlag, ok1 := 0, true
	for _, n := range g.Nodes {
		if !loop.In(n) || !isFlag(n) {
			continue
		}
		nFlag++
		if reach[n] {
			ok1 = false
			r.Bad(rule, name, "conflict-without-difference", g.Line(n), "ErrFieldTypeConflict is assigned on a path that did not establish that the known type of the series field differs from the type of the value: values of the right type are dropped and, on the complementary branch, values of a different type are stored")
		}
	}
	r.Check(nFlag >= 1 && nCmp >= 1, rule, name, "comparisons:absent", p.Pos(loop.Stmt.Pos()), fmt.Sprintf("%d conflict assignment(s); the known type is compared with iter.Type()", nFlag))
	if ok1 && nFlag >= 1 {
		r.Ok(rule, name+":flag-behind-difference", p.Pos(loop.Stmt.Pos()), fmt.Sprintf("%d conflict assignment(s), each behind `known type != iter.Type()` / failed insert", nFlag))
	}
	ok2 := true
	for _, e := range g.Edges(conflictEdge) {
		if !loop.In(e.From) {
			continue
		}
		for n := range g.Reach([]*core.Node{e.To}, func(x *core.Node) bool { return !loop.In(x) }, nil) {
			if loop.In(n) && isStore(n) {
				ok2 = false
				r.Bad(rule, name, "stored-despite-difference", g.Line(n), "the value is stored into the map written to cache and WAL in an iteration that established at "+g.Line(e.From)+" that its type differs from the known type of the series field")
			}
		}
	}
	if ok2 {
		r.Ok(rule, name+":no-store-after-difference", p.Pos(loop.Stmt.Pos()), "no store is reachable in the iteration from an edge that established a type difference")
	}
}

// ---------------------------------------------------------------------------
// (17) no-append-after-failure
// ---------------------------------------------------------------------------

func m3NoAppendAfterFailure(p *core.Prog, r *core.Report) {
	const rule = "no-append-after-failure"
	f := r.Need(p, tsdbP, "measurementFieldSetChangeMgr.appendToChangesFile")
	if f == nil {
		return
	}
	info, g, name, body := f.Info(), f.Graph(), f.String(), f.Decl.Body
	sizeF := core.LookupField(f.Pkg.Types, "measurementFieldSetChangeMgr", "changeFileSize")
	write := g.Calling(call("os.File.Write"))
	wns := g.Select(write)
	if !r.Check(len(wns) == 1 && sizeF != nil, rule, name, "Write:absent", f.Pos(), "one File.Write and the last-good-size field resolved") {
		return
	}
	before := g.ReachFromEntry(write, nil)
	store := g.Assigning(sizeF)
	n := 0
	for _, c := range core.AllCalls(info, body, call("os.OpenFile", "os.File.Stat", "os.File.Truncate", "tsdb.marshalFieldChanges")) {
		cn := g.NodeOf(c)
		if cn == nil || !before[cn] || write(cn) {
			continue // e.g. the Stat after the Write
		}
		what := core.FName(core.Callee(info, c))
		errObj := g.ErrVarOf(cn)
		if !r.Check(errObj != nil, rule, name, what+":error-dropped", p.Pos(c.Pos()), "its error is kept in a variable") {
			continue
		}
		n++
		failed := core.EdgeEstablishingM3(info, body, func(a ast.Expr, val bool) bool {
			x, nonNilOnTrue, ok := core.NilTest(info, a)
			return ok && core.ObjOf(info, x) == errObj && val == nonNilOnTrue
		})
		// the first test of that variable after the call
		var test *core.Node
		cur := cn
		for steps := 0; steps < 8 && test == nil; steps++ {
			if len(cur.Succ) == 2 && cur.Succ[0].Cond != nil && cur != cn {
				test = cur
				break
			}
			if len(cur.Succ) != 1 {
				break
			}
			cur = cur.Succ[0].To
		}
		var fail *core.Edge
		if test != nil {
			for _, e := range test.Succ {
				if failed(e) {
					fail = e
				}
			}
		}
		if !r.Check(fail != nil, rule, name, what+":untested", p.Pos(c.Pos()), "the statement after the call branches on its error being non-nil") {
			continue
		}
		bad := false
		for x := range g.Reach([]*core.Node{fail.To}, nil, nil) {
			if write(x) || store(x) {
				bad = true
			}
		}
		r.Check(!bad, rule, name, what+":append-after-failure", p.Pos(c.Pos()), "after a failure of "+what+" neither the append nor the update of the last good size is reachable")
	}
	r.Check(n >= 4, rule, name, "calls:count", f.Pos(), fmt.Sprintf("%d fallible call(s) before the append examined (OpenFile, Stat, Truncate, marshalFieldChanges)", n))
}

// ---------------------------------------------------------------------------
// (18) partial-write-still-saves
// ---------------------------------------------------------------------------

func m3PartialStillSaves(p *core.Prog, r *core.Report) {
	const rule = "partial-write-still-saves"
	f := r.Need(p, tsdbP, "Shard.WritePoints")
	if f == nil {
		return
	}
	info, g, name, body := f.Info(), f.Graph(), f.String(), f.Decl.Body
	vns := g.Select(g.Calling(call("tsdb.Shard.validateSeriesAndFields")))
	if !r.Check(len(vns) == 1, rule, name, "validateSeriesAndFields:absent", f.Pos(), "one validator call") {
		return
	}
	vn := vns[0]
	as, ok := vn.N.(*ast.AssignStmt)
	if !r.Check(ok && len(as.Lhs) == 3, rule, name, "validator-results", g.Line(vn), "the three results of the validator are assigned") {
		return
	}
	list, verr := core.ObjOf(info, as.Lhs[1]), core.ObjOf(info, as.Lhs[2])
	if !r.Check(list != nil && verr != nil, rule, name, "validator-results", g.Line(vn), "created-field list and error are variables") {
		return
	}
	isSave := g.Calling(func(info *types.Info, c *ast.CallExpr) bool {
		return call("tsdb.Shard.saveFieldsAndMeasurements")(info, c) && len(c.Args) == 1 && core.ObjOf(info, c.Args[0]) == list
	})
	// the comma-ok results of `verr.(PartialWriteError)` / `verr.(*PartialWriteError)`
	okObjs := map[types.Object]bool{}
	ast.Inspect(body, func(n ast.Node) bool {
		if s, ok := n.(*ast.AssignStmt); ok && len(s.Lhs) == 2 && len(s.Rhs) == 1 {
			if ta, ok := ast.Unparen(s.Rhs[0]).(*ast.TypeAssertExpr); ok && ta.Type != nil && core.ObjOf(info, ta.X) == verr && rw3IsNamed(info.TypeOf(ta.Type), tsdbP, "PartialWriteError") {
				if o := core.ObjOf(info, s.Lhs[1]); o != nil {
					okObjs[o] = true
				}
			}
		}
		return true
	})
	if !r.Check(len(okObjs) >= 1, rule, name, "partial-test:absent", g.Line(vn), "the validator's error is classified by a type assertion to PartialWriteError") {
		return
	}
	hard := core.EdgeEstablishingM3(info, body, func(a ast.Expr, val bool) bool { return okObjs[core.ObjOf(info, a)] && !val })
	bad := false
	for _, x := range core.ExitsInM3(g.Reach(core.After(vn, nil), isSave, hard)) {
		bad = true
		r.Bad(rule, name, "exit-before-save", g.Line(x), "after the validator ran this exit is reachable without saveFieldsAndMeasurements and without the validator's error having been classified as a hard (non-partial) error: fields that a partially rejected batch created in memory are never logged, later writers see created=false")
	}
	if !bad {
		r.Ok(rule, name, g.Line(vn), "exits before saveFieldsAndMeasurements lie behind the failed PartialWriteError assertion")
	}
}

// ---------------------------------------------------------------------------
// (19) known-type-compared
// ---------------------------------------------------------------------------

func m3KnownTypeCompared(p *core.Prog, r *core.Report) {
	const rule = "known-type-compared"
	f := r.Need(p, tsm1, "Engine.WritePoints")
	if f == nil {
		return
	}
	info, g, name, body := f.Info(), f.Graph(), f.String(), f.Decl.Body
	cw := core.AllCalls(info, body, call("tsdb/engine/tsm1.Cache.WriteMulti"))
	if len(cw) != 1 || len(cw[0].Args) != 1 || core.ObjOf(info, cw[0].Args[0]) == nil {
		return // reported by engine-conflict-polarity
	}
	values := core.ObjOf(info, cw[0].Args[0])
	var loop *rw3Loop
	for _, s := range rw3TopLoops(body) {
		if fs, ok := s.(*ast.ForStmt); ok && len(core.AllCalls(info, fs, call("models.FieldIterator.Next"))) > 0 && fs.Cond != nil {
			if l := rw3FindLoop(g, fs); l != nil {
				loop = l
			}
		}
	}
	if loop == nil {
		return
	}
	isStore := func(n *core.Node) bool {
		as, ok := n.N.(*ast.AssignStmt)
		if !ok {
			return false
		}
		for _, l := range as.Lhs {
			if ix, ok := ast.Unparen(l).(*ast.IndexExpr); ok && core.ObjOf(info, ix.X) == values {
				return true
			}
		}
		return false
	}
	isIterType := func(e ast.Expr) bool {
		x := e
		for i := 0; i < 4; i++ {
			x = core.ResolveLocal(info, body, core.StripConv(info, x))
		}
		return core.AsCall(info, core.StripConv(info, x), call("models.FieldIterator.Type")) != nil
	}
	lookups := call("pkg/radix.Tree.Get", "pkg/radix.Tree.Insert", "tsdb/engine/tsm1.Engine.Type")
	n := 0
	for _, sn := range g.Nodes {
		as, ok := sn.N.(*ast.AssignStmt)
		if !ok || !loop.In(sn) || len(as.Lhs) != 2 || len(as.Rhs) != 1 || core.AsCall(info, as.Rhs[0], lookups) == nil {
			continue
		}
		t, second := core.ObjOf(info, as.Lhs[0]), core.ObjOf(info, as.Lhs[1])
		if t == nil || second == nil {
			continue // a result is discarded: not a lookup whose type is used
		}
		n++
		what := core.FName(core.Callee(info, core.AsCall(info, as.Rhs[0], lookups)))
		isT := func(e ast.Expr) bool {
			x := e
			for i := 0; i < 4; i++ {
				x = core.ResolveLocal(info, body, core.StripConv(info, x))
			}
			return core.ObjOf(info, core.StripConv(info, e)) == t || core.ObjOf(info, x) == t
		}
		same := func(a ast.Expr, val bool) bool {
			be, ok := ast.Unparen(a).(*ast.BinaryExpr)
			if !ok || (be.Op != token.NEQ && be.Op != token.EQL) {
				return false
			}
			if (isT(be.X) && isIterType(be.Y)) || (isT(be.Y) && isIterType(be.X)) {
				return (be.Op == token.EQL) == val
			}
			return false
		}
		// the edge on which the lookup found nothing: err != nil (Engine.Type) / ok == false (Get)
		nothing := func(a ast.Expr, val bool) bool {
			if core.IsErrorType(second.Type()) {
				x, nonNilOnTrue, ok := core.NilTest(info, a)
				return ok && core.ObjOf(info, x) == second && val == nonNilOnTrue
			}
			if core.AsCall(info, as.Rhs[0], call("pkg/radix.Tree.Get")) != nil {
				return core.ObjOf(info, a) == second && !val
			}
			return false
		}
		stopEdge := core.EdgeEstablishingM3(info, body, core.AnyFact(same, nothing))
		bad := false
		for x := range g.Reach(core.After(sn, nil), func(x *core.Node) bool { return !loop.In(x) }, stopEdge) {
			if loop.In(x) && isStore(x) {
				bad = true
			}
		}
		r.Check(!bad, rule, name, what+":not-compared", g.Line(sn), "after "+what+" returned the known type of the series field the value is stored only behind `that type == iter.Type()` (or behind the edge on which nothing was found)")
	}
	r.Check(n >= 3, rule, name, "lookups:count", p.Pos(loop.Stmt.Pos()), fmt.Sprintf("%d type lookup(s) in the field loop (series type map Get, Engine.Type, Insert)", n))
}

// ---------------------------------------------------------------------------
// (20) snapshot-load-fails
// ---------------------------------------------------------------------------

func m3SnapshotLoadFails(p *core.Prog, r *core.Report) {
	const rule = "snapshot-load-fails"
	f := r.Need(p, tsdbP, "MeasurementFieldSet.load")
	if f == nil {
		return
	}
	info, body, name := f.Info(), f.Decl.Body, f.String()
	parse := call("tsdb.MeasurementFieldSet.loadParseFieldIndexPB")
	// failing(g, n): from the edge on which the error assigned at n is non-nil, which exits return a nil error / which nodes are reached
	check := func(g *core.Graph, n *core.Node, what string, forbid core.NodePred) {
		errObj := g.ErrVarOf(n)
		if !r.Check(errObj != nil, rule, name, what+":error-dropped", g.Line(n), "its error is kept in a variable") {
			return
		}
		failed := core.EdgeEstablishingM3(info, body, func(a ast.Expr, val bool) bool {
			x, nonNilOnTrue, ok := core.NilTest(info, a)
			return ok && core.ObjOf(info, x) == errObj && val == nonNilOnTrue
		})
		var starts []*core.Node
		for x := range g.Reach(core.After(n, nil), nil, failed) {
			_ = x
		}
		for _, e := range g.Edges(failed) {
			starts = append(starts, e.To)
		}
		if !r.Check(len(starts) >= 1, rule, name, what+":untested", g.Line(n), "its error is tested") {
			return
		}
		reach := g.Reach(starts, nil, nil)
		bad := false
		for _, x := range core.ExitsInM3(reach) {
			rs, ok := x.N.(*ast.ReturnStmt)
			if !ok || len(rs.Results) == 0 || core.IsNilIdent(info, rs.Results[len(rs.Results)-1]) {
				bad = true
				r.Bad(rule, name, what+":failure-swallowed", g.Line(x), "after "+what+" failed this exit returns a nil error: the schema snapshot is treated as empty and then rewritten from the change log alone, the recorded types of all other fields are lost")
			}
		}
		if forbid != nil {
			for x := range reach {
				if forbid(x) {
					bad = true
					r.Bad(rule, name, what+":continues", g.Line(x), "after "+what+" failed the change log is still applied")
				}
			}
		}
		if !bad {
			r.Ok(rule, name+":"+what, g.Line(n), "a failure ends in a non-nil error")
		}
	}
	var lit *ast.FuncLit
	ast.Inspect(body, func(x ast.Node) bool {
		if fl, ok := x.(*ast.FuncLit); ok && len(core.AllCalls(info, fl.Body, parse)) > 0 && lit == nil {
			lit = fl
		}
		return true
	})
	outer := f.Graph()
	apply := outer.Calling(call("tsdb.MeasurementFieldSet.ApplyChanges"))
	if lit == nil {
		// no closure: the call is made by load itself
		ns := outer.Select(outer.Calling(parse))
		if r.Check(len(ns) == 1, rule, name, "loadParseFieldIndexPB:absent", f.Pos(), "the snapshot is parsed") {
			check(outer, ns[0], "loadParseFieldIndexPB", apply)
		}
		return
	}
	lg := f.LitGraph(lit)
	ns := lg.Select(lg.Calling(parse))
	if r.Check(len(ns) == 1, rule, name, "loadParseFieldIndexPB:absent", f.Pos(), "the snapshot is parsed") {
		check(lg, ns[0], "loadParseFieldIndexPB", nil)
	}
	// the statement of load that runs the closure
	var run *core.Node
	for _, n := range outer.Nodes {
		if n.N != nil && n.N.Pos() <= lit.Pos() && lit.End() <= n.N.End() {
			run = n
		}
	}
	if r.Check(run != nil, rule, name, "closure-call:absent", p.Pos(lit.Pos()), "the closure is invoked by load") {
		check(outer, run, "the snapshot-loading closure", apply)
	}
}

// ---------------------------------------------------------------------------
// (21) replay-read-fails
// ---------------------------------------------------------------------------

func m3ReplayReadFails(p *core.Prog, r *core.Report) {
	const rule = "replay-read-fails"
	type spec struct {
		fn    string
		calls core.Matcher
		min   int
	}
	for _, sp := range []spec{
		{"readSizePlusBuffer", call("io.Reader.Read", "io.ReadAtLeast", "io.ReadFull"), 2},
		{"measurementFieldSetChangeMgr.loadFieldChangeSet", call("tsdb.readSizePlusBuffer", "google.golang.org/protobuf/proto.Unmarshal", "google.golang.org/protobuf/proto.UnmarshalOptions.Unmarshal"), 2},
	} {
		f := r.Need(p, tsdbP, sp.fn)
		if f == nil {
			continue
		}
		info, g, name, body := f.Info(), f.Graph(), f.String(), f.Decl.Body
		n := 0
		for _, c := range core.AllCalls(info, body, sp.calls) {
			cn := g.NodeOf(c)
			if cn == nil {
				continue
			}
			what := core.FName(core.Callee(info, c))
			errObj := g.ErrVarOf(cn)
			if !r.Check(errObj != nil, rule, name, what+":error-dropped", p.Pos(c.Pos()), "its error is kept in a variable") {
				continue
			}
			n++
			nonNil := func(want bool) core.EdgePred {
				return core.EdgeEstablishingM3(info, body, func(a ast.Expr, val bool) bool {
					x, nonNilOnTrue, ok := core.NilTest(info, a)
					return ok && core.ObjOf(info, x) == errObj && (val == nonNilOnTrue) == want
				})
			}
			// the first branch after the call
			var test *core.Node
			cur := cn
			for steps := 0; steps < 8; steps++ {
				if len(cur.Succ) == 2 && cur.Succ[0].Cond != nil && cur != cn {
					test = cur
					break
				}
				if len(cur.Succ) != 1 {
					break
				}
				cur = cur.Succ[0].To
			}
			var fail, succ *core.Edge
			if test != nil {
				for _, e := range test.Succ {
					if nonNil(true)(e) {
						fail = e
					}
					if nonNil(false)(e) {
						succ = e
					}
				}
			}
			if !r.Check(fail != nil && succ != nil && fail != succ, rule, name, what+":untested", p.Pos(c.Pos()), "the statement after the call branches on its error") {
				continue
			}
			bad := false
			for _, x := range core.ExitsInM3(g.Reach([]*core.Node{fail.To}, nil, nil)) {
				rs, ok := x.N.(*ast.ReturnStmt)
				if !ok || len(rs.Results) == 0 || core.IsNilIdent(info, rs.Results[len(rs.Results)-1]) {
					bad = true
					r.Bad(rule, name, what+":failure-swallowed", g.Line(x), "after "+what+" failed this exit returns a nil error: a short or unreadable record of fields.idxl is replayed as an empty change set, the log is then rewritten without it")
				}
			}
			// the success edge does not return at once with the error variable (nil): `if err == nil { return nil, err }`
			if rs, ok := succ.To.N.(*ast.ReturnStmt); ok && len(rs.Results) > 0 && core.ObjOf(info, rs.Results[len(rs.Results)-1]) == errObj {
				bad = true
				r.Bad(rule, name, what+":success-returns-early", g.Line(succ.To), "on the edge where "+what+" succeeded the function returns at once with that (nil) error: the record is dropped and reported as read")
			}
			if !bad {
				r.Ok(rule, name+":"+what, p.Pos(c.Pos()), "failure -> non-nil error; success -> continues")
			}
		}
		r.Check(n >= sp.min, rule, name, "calls:count", f.Pos(), fmt.Sprintf("%d read / decode call(s) examined", n))
	}
}
