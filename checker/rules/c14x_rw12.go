package rules

import (
	"fmt"
	"go/ast"
	"go/token"
	"go/types"

	"verif/checker/core"
)

// C14 extension (rw12): a file's series set and tombstone set stay disjoint.
//
// Every tsi1 file (log file or compacted index file) carries two id sets: the
// series created in it and the series tombstoned in it. Readers give the
// tombstone set of a file precedence over the content of that file and of every
// older file: FileSet.TagValueSeriesIDIterator subtracts it from everything
// accumulated so far, Partition.buildSeriesSet subtracts it before it merges the
// file's series. That is only right while the two sets of one file are disjoint
// and each reflects the LAST event for an id inside the file — a series that is
// dropped and created again must leave the tombstone set, and a series that is
// created and dropped must leave the series set. The writers keep this by a
// paired update: whatever is added to one set is removed from the other
//   LogFile.execSeriesEntry           Add(id)  / Remove(id)
//   IndexFiles.buildSeriesIDSets      Merge(x) / Diff(x)   (x = set of the next newer file)
// The rule decides the pairing on the CFG; the single-accumulator fold
// Partition.buildSeriesSet gets the analogous obligation (Diff of the file's
// tombstones on every iteration that merges the file's series), and both folds
// must walk the files oldest-first (the file list is newest-first).

func init() {
	extend("C14",
		"(8) series-set-exclusive: in LogFile.execSeriesEntry and IndexFiles.buildSeriesIDSets (the sets written into a compacted index file) every operand added to the series set (Add/Merge…) is removed (Remove/Diff) from the tombstone set on the same path and vice versa, so a file never lists an id as both live and tombstoned; Partition.buildSeriesSet subtracts File.TombstoneSeriesIDSet of the same file on every iteration that merges its File.SeriesIDSet; both folds visit the file list from its last (oldest) element to its first with nothing in between skipped.",
		nil, runC14x12)
}

func runC14x12(p *core.Prog, r *core.Report, tier string) {
	const rule = "series-set-exclusive"
	pk := p.Pkg(tsi1)
	if pk == nil {
		return
	}
	gainM := call("tsdb.SeriesIDSet.Add", "tsdb.SeriesIDSet.AddNoLock", "tsdb.SeriesIDSet.AddMany", "tsdb.SeriesIDSet.Merge", "tsdb.SeriesIDSet.MergeInPlace")
	loseM := call("tsdb.SeriesIDSet.Remove", "tsdb.SeriesIDSet.RemoveNoLock", "tsdb.SeriesIDSet.Diff")

	// ---------- paired sets
	type pairSite struct {
		fn         string
		live, tomb func(f *core.Func) func(ast.Expr) bool
		minGains   int
	}
	byField := func(typ, fld string) func(f *core.Func) func(ast.Expr) bool {
		return func(f *core.Func) func(ast.Expr) bool {
			fv := core.LookupField(pk.Types, typ, fld)
			if fv == nil {
				return nil
			}
			info := f.Info()
			return func(e ast.Expr) bool { return core.FieldOf(info, e) == fv }
		}
	}
	// i-th operand of the success return (`return live, tomb, nil`), which is
	// what CompactTo writes into the new file
	byResult := func(i int) func(f *core.Func) func(ast.Expr) bool {
		return func(f *core.Func) func(ast.Expr) bool {
			info := f.Info()
			objs := map[types.Object]bool{}
			if v := f.X1Result(i); v != nil && v.Name() != "" && v.Name() != "_" {
				objs[v] = true
			}
			ast.Inspect(f.Decl.Body, func(x ast.Node) bool {
				if _, ok := x.(*ast.FuncLit); ok {
					return false
				}
				if rs, ok := x.(*ast.ReturnStmt); ok && len(rs.Results) > i && core.IsNilIdent(info, rs.Results[len(rs.Results)-1]) {
					if o := core.ObjOf(info, rs.Results[i]); o != nil {
						objs[o] = true
					}
				}
				return true
			})
			if len(objs) == 0 {
				return nil
			}
			return func(e ast.Expr) bool { o := core.ObjOf(info, e); return o != nil && objs[o] }
		}
	}
	for _, s := range []pairSite{
		{"LogFile.execSeriesEntry", byField("LogFile", "seriesIDSet"), byField("LogFile", "tombstoneSeriesIDSet"), 2},
		{"IndexFiles.buildSeriesIDSets", byResult(0), byResult(1), 2},
	} {
		f := r.Need(p, tsi1, s.fn)
		if f == nil {
			continue
		}
		isLive, isTomb := s.live(f), s.tomb(f)
		if !r.Check(isLive != nil && isTomb != nil, rule, f.String(), "sets:unresolved", f.Pos(), "series set and tombstone set of the file resolved") {
			continue
		}
		c14xPaired(p, r, f, rule, gainM, loseM, isLive, isTomb, s.minGains)
	}

	// ---------- folds over the file list
	c14xFold(p, r, rule, gainM, loseM)
}

type c14xOp struct {
	n    *core.Node
	recv ast.Expr
	args []ast.Expr
}

func c14xOps(info *types.Info, g *core.Graph, m core.Matcher) []c14xOp {
	var out []c14xOp
	for _, n := range g.Nodes {
		if n.N == nil {
			continue
		}
		for _, c := range core.CallsIn(info, n.N, m, core.WalkOpts{}) {
			if rc := core.MethodCallOn12(info, c, m); rc != nil {
				out = append(out, c14xOp{n, rc, c.Args})
			}
		}
	}
	return out
}

// c14xCovered: every path through gain node n is accompanied by a node of
// `loses` handling the same operand x — either between the definition of x (or
// the function entry) and n, or between n and the next success exit / the next
// visit of n / the next definition of x.
func c14xCovered(info *types.Info, g *core.Graph, body ast.Node, n *core.Node, x ast.Expr, loses []*core.Node) bool {
	ls := map[*core.Node]bool{}
	for _, l := range loses {
		ls[l] = true
	}
	stop := func(m *core.Node) bool { return ls[m] }
	var defs []*core.Node
	if root := core.BaseObj(info, x); root != nil {
		if v, ok := root.(*types.Var); ok && !v.IsField() {
			defs = g.Select(g.AssigningObj(v))
		}
	}
	starts := []*core.Node{g.Entry}
	if len(defs) > 0 {
		starts = core.X1SuccsOf(defs)
	}
	if before := g.Reach(starts, stop, nil); !before[n] {
		return true
	}
	after := g.Reach(core.After(n, nil), stop, nil)
	if after[n] {
		return false
	}
	for _, d := range defs {
		if after[d] {
			return false
		}
	}
	for _, e := range g.SuccessExits() {
		if after[e] {
			return false
		}
	}
	return true
}

func c14xPaired(p *core.Prog, r *core.Report, f *core.Func, rule string, gainM, loseM core.Matcher, isLive, isTomb func(ast.Expr) bool, minGains int) {
	info := f.Info()
	g := f.Graph()
	gains, loses := c14xOps(info, g, gainM), c14xOps(info, g, loseM)
	ng := 0
	for _, side := range []struct {
		name, other string
		isA, isB    func(ast.Expr) bool
	}{
		{"series", "tombstone", isLive, isTomb},
		{"tombstone", "series", isTomb, isLive},
	} {
		for _, gn := range gains {
			if !side.isA(gn.recv) {
				continue
			}
			for _, x := range gn.args {
				ng++
				var ls []*core.Node
				for _, l := range loses {
					if !side.isB(l.recv) {
						continue
					}
					for _, y := range l.args {
						if core.SameExpr(info, x, y) {
							ls = append(ls, l.n)
						}
					}
				}
				ok := len(ls) > 0 && c14xCovered(info, g, f.Decl.Body, gn.n, x, ls)
				what := side.name + "-set-gains:" + core.ExprStr(x) + ":not-removed-from-" + side.other + "-set"
				r.Check(ok, rule, f.String(), what, g.Line(gn.n), "what is added to the file's "+side.name+" set ("+core.ExprStr(x)+") is removed from its "+side.other+" set on the same path; otherwise the file lists an id as created and tombstoned at once and readers, which let a file's tombstones win over its own and older content, hide a live series (or resurrect a dropped one)")
			}
		}
	}
	r.Check(ng >= minGains, rule, f.String(), "gains:count", f.Pos(), fmt.Sprintf("%d additions to the two sets examined (>= %d confirmed by reading)", ng, minGains))
}

// c14xFold: the two functions that fold per-file sets into an accumulator.
func c14xFold(p *core.Prog, r *core.Report, rule string, gainM, loseM core.Matcher) {
	ssM := call(tsi1N+"File.SeriesIDSet", tsi1N+"IndexFile.SeriesIDSet", tsi1N+"LogFile.SeriesIDSet")
	tsM := call(tsi1N+"File.TombstoneSeriesIDSet", tsi1N+"IndexFile.TombstoneSeriesIDSet", tsi1N+"LogFile.TombstoneSeriesIDSet")
	for _, fn := range []string{"Partition.buildSeriesSet", "IndexFiles.buildSeriesIDSets"} {
		f := r.Need(p, tsi1, fn)
		if f == nil {
			continue
		}
		info := f.Info()
		g := f.Graph()
		// the file a per-iteration set comes from: x := <file>.SeriesIDSet()
		source := func(x ast.Expr, m core.Matcher) ast.Expr {
			o := core.ObjOf(info, x)
			if o == nil {
				return nil
			}
			ds := core.DefsOf(info, f.Decl.Body, o)
			if len(ds) != 1 || ds[0].Rhs == nil || ds[0].Index != 0 {
				return nil
			}
			c, ok := ast.Unparen(ds[0].Rhs).(*ast.CallExpr)
			if !ok {
				return nil
			}
			rc := core.MethodCallOn12(info, c, m)
			if rc == nil {
				return nil
			}
			return core.ResolveLocal(info, f.Decl.Body, rc)
		}
		gains, loses := c14xOps(info, g, gainM), c14xOps(info, g, loseM)
		var loop ast.Stmt
		n := 0
		for _, gn := range gains {
			for _, x := range gn.args {
				file := source(x, ssM)
				if file == nil {
					continue
				}
				l := core.InnermostLoop12(f.Decl.Body, gn.n)
				if l == nil {
					continue
				}
				n++
				loop = l
				_, entry, _ := g.LoopNodes(l)
				var ls []*core.Node
				for _, ln := range loses {
					if !core.SameExpr(info, ln.recv, gn.recv) {
						continue
					}
					for _, y := range ln.args {
						if tf := source(y, tsM); tf != nil && core.SameExpr(info, tf, file) {
							ls = append(ls, ln.n)
						}
					}
				}
				ok := entry != nil && len(ls) > 0
				if ok {
					lset := map[*core.Node]bool{}
					for _, l := range ls {
						lset[l] = true
					}
					// within one iteration the merge is reached only through the diff … or the diff follows before the iteration ends
					before := g.Reach([]*core.Node{entry}, func(m *core.Node) bool { return lset[m] }, nil)
					if before[gn.n] {
						esc, _ := g.IterEscapes12(l, func(m *core.Node) bool { return lset[m] }, nil)
						after := g.Reach(core.After(gn.n, nil), func(m *core.Node) bool { return lset[m] }, nil)
						for _, e := range esc {
							if after[e.Via] && e.Kind != "return" {
								ok = false
							}
						}
						for _, e := range g.SuccessExits() {
							if after[e] {
								ok = false
							}
						}
					}
				}
				r.Check(ok, rule, f.String(), "fold:tombstones-of-merged-file-not-applied", g.Line(gn.n), "every iteration that merges <file>.SeriesIDSet() into "+core.ExprStr(gn.recv)+" also subtracts <file>.TombstoneSeriesIDSet() of the same file from it")
			}
		}
		if !r.Check(n >= 1 && loop != nil, rule, f.String(), "fold:absent", f.Pos(), "a loop merges the per-file series sets") {
			continue
		}
		// oldest file first: the list is newest-first, so the index runs down to 0 by steps of one
		fs, isFor := loop.(*ast.ForStmt)
		okDir := false
		if isFor && fs.Cond != nil {
			if as, ok := fs.Init.(*ast.AssignStmt); ok && as.Tok == token.DEFINE && len(as.Lhs) == 1 {
				iv := core.ObjOf(info, as.Lhs[0])
				post, isDec := fs.Post.(*ast.IncDecStmt)
				down := isDec && post.Tok == token.DEC && core.ObjOf(info, post.X) == iv
				toZero := isAtom12(fs.Cond) && core.Establishes(fs.Cond, true, core.CmpFact12(func(a ast.Expr, op token.Token, b ast.Expr) bool {
					c, isC := core.ConstInt(info, b)
					return core.ObjOf(info, a) == iv && isC && ((op == token.GEQ && c == 0) || (op == token.GTR && c == -1))
				}))
				okDir = down && toZero && len(core.DefsOf(info, fs, iv)) == 2
			}
		}
		r.Check(okDir, rule, f.String(), "fold:order", p.Pos(loop.Pos()), "the fold runs from the end of the (newest-first) file list down to index 0, i.e. oldest file first, so newer tombstones/creations override older ones")
		all, _ := g.IterEscapes12(loop, nil, nil)
		cut := ""
		for _, e := range all {
			if e.Kind == "leave" {
				cut = g.Line(e.Via)
			}
		}
		r.Check(cut == "", rule, f.String(), "fold:cut-short", firstNonEmpty12(cut, p.Pos(loop.Pos())), "the fold is not left by break/goto before the newest file was merged")
	}
}
