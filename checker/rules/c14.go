package rules

import (
	"fmt"
	"go/ast"
	"go/token"
	"go/types"
	"sort"
	"strings"

	"verif/checker/core"
)

// C14 — tsi1 index metadata stays correct across log compaction, reopen and a
// crash that truncates the index log.
//
// Tables confirmed by reading tsdb/index/tsi1/log_file.go and partition.go.

func init() {
	register(&Prop{
		ID:       "C14",
		Patterns: []string{"./tsdb/index/tsi1"},
		Level:    "other",
		Explanation: "Necessary-condition rules for the tsi1 index log and file-set swap, decided on type-resolved callees, CFG paths and the lock-state dataflow: " +
			"(1) log-mutators: the functions calling LogFile.appendEntry are exactly AddSeriesList, DeleteSeriesID, DeleteMeasurement, DeleteTagKey, DeleteTagValue; each calls appendEntry/execEntry/FlushAndSync with f.mu write-locked, applies execEntry to the same entry only after (and, per loop iteration, always after) a successful appendEntry, never after a failed one, reaches no success return after an append without FlushAndSync, and propagates both errors; FlushAndSync does bufio Flush before File.Sync with errors propagated; " +
			"(2) guarded-by: LogFile.{mms,size,modTime,buf,keyBuf,w,file} only under f.mu; Partition.{activeLogFile,fileSet,seq,levelCompacting} only under p.mu (helpers are checked at their call sites); every mutator invoked on p.activeLogFile is invoked with p.mu held, so the active log cannot be retired and compacted while it is written; " +
			"(3) log-entry flag table: every LogEntry*Flag constant is dispatched by LogFile.execEntry (a case, or the default arm's callee), values are distinct, every LogEntry literal uses a declared flag and each Delete* mutator its own; " +
			"(4) checksum: LogEntry.UnmarshalBinary returns nil only on the equal outcome of comparing the stored checksum with crc32.ChecksumIEEE over the bytes read, and sets Size on every success path; appendLogEntry serialises crc32.ChecksumIEEE of the record right after it; " +
			"(5) replay: LogFile.open applies execEntry only to an entry that UnmarshalBinary accepted in the same iteration, advances the valid length by its Size, leaves the loop without failing on io.ErrShortBuffer / ErrLogEntryChecksumMismatch (torn tail), and positions the writer and f.size at the valid length; " +
			"(6) manifest protocol: Manifest.Write writes a temp file in the manifest's directory, Write < Sync < Close (captured) < Rename onto m.path, no rename after a failure, all errors propagated; " +
			"(7) compaction swap: compactLogFile and compactToLevel run Create < CompactTo < Sync < Close < IndexFile.Open < {p.mu.Lock; MustReplace; Manifest.Write; p.fileSet = new set} < close+remove of the inputs; the swap is skipped after any failed step, p.fileSet is stored only after (never after a failed) manifest write, old files are removed only after a successful swap; prependActiveLogFile publishes the new file set only after the manifest write succeeded; Partition.Open opens every manifest entry (.tsl/.tsi), installs the file set before rebuilding the series set and propagates every error.",
		NotCovered:  "contents produced by LogFile.CompactTo / IndexFiles.CompactTo and the merged FileSet iterators (tag/measurement blocks, tombstone precedence), equality of index answers with the live series, byte-level torn-write decoding inside one entry (length overflow), directory fsync after the MANIFEST rename, the logMeasurement objects handed out by LogFile.Measurement.",
		Assumptions: []string{"os.File.Sync makes data durable; rename within one directory is atomic", "a rule passing means the mechanism is in place on every CFG path, not that query results are value-correct"},
		Run:         runC14,
	})
}

var logFileMutators = []string{"LogFile.AddSeriesList", "LogFile.DeleteMeasurement", "LogFile.DeleteSeriesID", "LogFile.DeleteTagKey", "LogFile.DeleteTagValue"}

var logFileLocks = &core.LockRules{
	Pkg: tsi1,
	Guards: []core.Guard{
		{Type: "LogFile", Fields: []string{"mms", "size", "modTime", "buf", "keyBuf", "w", "file"}, Locks: []string{"mu"}},
		{Type: "Partition", Fields: []string{"activeLogFile", "fileSet", "seq", "levelCompacting"}, Locks: []string{"mu"}},
	},
	CallerHolds: map[string]map[string]byte{
		"LogFile.appendEntry":                  {"mu": 'W'},
		"LogFile.execEntry":                    {"mu": 'W'},
		"LogFile.execDeleteMeasurementEntry":   {"mu": 'W'},
		"LogFile.execDeleteTagKeyEntry":        {"mu": 'W'},
		"LogFile.execDeleteTagValueEntry":      {"mu": 'W'},
		"LogFile.execSeriesEntry":              {"mu": 'W'},
		"LogFile.createMeasurementIfNotExists": {"mu": 'W'},
		"LogFile.open":                         {"mu": 'W'},
		"LogFile.FlushAndSync":                 {"mu": 'W'},
		"LogFile.measurementNames":             {"mu": 'R'},
		"LogFile.writeTagsetsTo":               {"mu": 'R'},
		"LogFile.writeTagsetTo":                {"mu": 'R'},
		"LogFile.writeMeasurementBlockTo":      {"mu": 'R'},
		"LogFile.measurementsSketches":         {"mu": 'R'},
		"Partition.compact":                    {"mu": 'W'},
		"Partition.checkLogFile":               {"mu": 'W'},
		"Partition.prependActiveLogFile":       {"mu": 'W'},
		"Partition.nextSequence":               {"mu": 'W'},
		"Partition.buildSeriesSet":             {"mu": 'W'},
		"Partition.needsLogCompaction":         {"mu": 'R'},
		"Partition.retainFileSet":              {"mu": 'R'},
		"Partition.manifest":                   {"mu": 'R'},
	},
	ExemptFunc:   map[string]string{},
	ExemptAccess: map[string]string{},
}

func runC14(p *core.Prog, r *core.Report, tier string) {
	if p.Pkg(tsi1) == nil {
		r.Bad("anchor", tsi1, "unresolved", "-", "package not loaded")
		return
	}
	c14Mutators(p, r)
	c14Locks(p, r)
	c14Flags(p, r)
	c14Checksum(p, r)
	c14Replay(p, r)
	c14Manifest(p, r)
	c14Swap(p, r)
}

const tsi1N = "tsdb/index/tsi1."

// ---------------------------------------------------------------- (1) mutators

func c14Mutators(p *core.Prog, r *core.Report) {
	const rule = "log-mutators"
	appM := call(tsi1N + "LogFile.appendEntry")
	exM := call(tsi1N + "LogFile.execEntry")
	fsM := call(tsi1N + "LogFile.FlushAndSync")

	// the table is complete: callers of appendEntry
	var found []string
	for _, f := range p.Funcs(tsi1) {
		if f.Decl.Body != nil && core.HasCall(f, appM) {
			found = append(found, f.Name)
		}
	}
	sort.Strings(found)
	r.Check(strings.Join(found, ",") == strings.Join(logFileMutators, ","), rule, tsi1N+"LogFile.appendEntry", "callers", "-",
		"the functions appending to the index log are exactly "+core.Join(logFileMutators)+" (found: "+core.Join(found)+")")

	for _, fn := range logFileMutators {
		f := r.Need(p, tsi1, fn)
		if f == nil {
			continue
		}
		info := f.Info()
		g := f.Graph()
		name := f.String()
		recv := x4Recv(f)
		apps, exs := x4Calls(g, appM), x4Calls(g, exM)
		if !r.Check(len(apps) == 1 && len(exs) == 1, rule, name, "shape", f.Pos(), "one appendEntry and one execEntry call") {
			continue
		}
		// write lock held at append / exec / flush
		held := core.X4LocksHeld(p, f, nil)
		okLock := true
		nSites := 0
		for _, c := range core.AllCalls(info, f.Decl.Body, core.Or(appM, exM, fsM)) {
			st, ok := held.At(c)
			nSites++
			if !ok || st[recv+".mu"] != 2 {
				okLock = false
				r.Bad(rule, name, "unlocked:"+core.Callee(info, c).Name(), p.Pos(c.Pos()), "called without f.mu write-locked")
			}
		}
		if okLock {
			r.Ok(rule, name, f.Pos(), fmt.Sprintf("%d append/exec/flush call(s), all with %s.mu write-locked", nSites, recv))
		}
		// exec only after a successful append of the same entry, in the same iteration
		isApp := g.Calling(appM)
		r.Check(len(g.X4OnlyVia(exs, isApp, nil)) == 0, rule, name, "exec-without-append", g.Line(exs[0]), "execEntry is reachable only after appendEntry (per iteration)")
		fail, succ, okE := g.ErrEdges(apps[0])
		if r.Check(okE, rule, name, "appendEntry:unchecked", g.Line(apps[0]), "the error of appendEntry is tested") {
			okS, _ := x4OnlyOnSuccess(g, apps[0], exs, nil)
			r.Check(okS && !g.Reach([]*core.Node{fail.To}, nil, nil)[exs[0]], rule, name, "exec-after-failed-append", g.Line(exs[0]), "execEntry is reachable only through the err == nil outcome of appendEntry (an entry that could not be logged is not applied to the in-memory index)")
			// after a successful append: exec before the next append / any exit
			reach := g.Reach([]*core.Node{succ.To}, g.Calling(exM), nil)
			leak := reach[apps[0]]
			for _, x := range g.Exits {
				leak = leak || reach[x]
			}
			r.Check(!leak, rule, name, "append-without-exec", g.Line(apps[0]), "every logged entry is applied to the in-memory index before the function continues or returns")
			// no success return after an append without FlushAndSync
			reach = g.Reach([]*core.Node{succ.To}, g.Calling(fsM), nil)
			var bad []*core.Node
			for _, x := range g.SuccessExits() {
				if reach[x] {
					bad = append(bad, x)
				}
			}
			r.Check(len(bad) == 0 && len(x4Calls(g, fsM)) >= 1, rule, name, "success-without-FlushAndSync", x4Lines(g, bad), "after an append no success return is reachable without FlushAndSync")
		}
		// same entry
		ca, ce := x4TheCall(g, apps[0], appM), x4TheCall(g, exs[0], exM)
		r.Check(ca != nil && ce != nil && len(ca.Args) == 1 && len(ce.Args) == 1 && core.ExprStr(ca.Args[0]) == core.ExprStr(ce.Args[0]), rule, name, "same-entry", g.Line(exs[0]),
			"the entry applied is the entry appended")
		core.RuleErrorsUsed(r, f, "log-errors", "appendEntry/FlushAndSync", core.Or(appM, fsM), false, 2)
	}

	if f := r.Need(p, tsi1, "LogFile.FlushAndSync"); f != nil {
		g := f.Graph()
		info := f.Info()
		nosync := core.LookupField(f.Pkg.Types, "LogFile", "nosync")
		file := core.LookupField(f.Pkg.Types, "LogFile", "file")
		wF := core.LookupField(f.Pkg.Types, "LogFile", "w")
		noW := core.X4NilEdge(info, core.X4IsField(info, wF), true)
		syncs := x4Calls(g, call("os.File.Sync"))
		early := g.ReachFromEntry(g.Calling(call("bufio.Writer.Flush")), noW)
		okOrd := len(syncs) >= 1 && len(x4Calls(g, call("bufio.Writer.Flush"))) >= 1
		for _, n := range syncs {
			if early[n] {
				okOrd = false
			}
		}
		r.Check(okOrd, rule, f.String(), "Flush<Sync", f.Pos(), "File.Sync is reachable only after the buffered writer was flushed (exempt: no writer)")
		exempt := func(e *core.Edge) bool {
			if core.X4NilEdge(info, core.X4IsField(info, file), true)(e) {
				return true // no file handle: nothing to sync
			}
			return core.X4EdgeImplies(func(a ast.Expr, v bool) bool { return v && core.FieldOf(info, a) == nosync && nosync != nil })(e) // offline tooling switch
		}
		core.RuleMustPassN(r, f, g, rule, "File.Sync", g.Calling(call("os.File.Sync")), exempt)
		core.RuleErrorsUsed(r, f, "log-errors", "Flush/Sync", call("bufio.Writer.Flush", "os.File.Sync"), false, 2)
	}
	if f := r.Need(p, tsi1, "LogFile.appendEntry"); f != nil {
		g := f.Graph()
		size := core.LookupField(f.Pkg.Types, "LogFile", "size")
		core.RuleErrorsUsed(r, f, "log-errors", "bufio.Write", call("bufio.Writer.Write"), false, 1)
		core.RuleMustPassN(r, f, g, rule, "size-advance", g.Assigning(size), nil)
		core.RulePrecede(r, f, rule, "appendLogEntry", call(tsi1N+"appendLogEntry"), "bufio.Write", call("bufio.Writer.Write"))
	}
}

// ---------------------------------------------------------------- (2) locks

func c14Locks(p *core.Prog, r *core.Report) {
	logFileLocks.ExemptFunc = map[string]string{
		"LogFile.Close":      "runs from LogFile.Open's error path under f.mu, or after the file left the partition's file set and its reference count (f.wg) drained; no concurrent user remains",
		"Partition.bytes":    "memory-footprint estimate for statistics (Index.Bytes); observer only, its result never feeds the index contents",
		"Partition.Wait":     "reads p.fileSet only to log file names after a 24h compaction timeout; observer only",
		"Partition.Manifest": "exported accessor used by tests and the offline inspect tools; observer only",
	}
	core.RuleLocks(r, p, logFileLocks, "guarded-by", 90)

	// mutators on the active log file only with p.mu held
	const rule = "active-log-under-lock"
	pk := p.Pkg(tsi1)
	alf := core.LookupField(pk.Types, "Partition", "activeLogFile")
	if !r.Check(alf != nil, "anchor", tsi1N+"Partition.activeLogFile", "unresolved", "-", "field resolved") {
		return
	}
	mut := map[string]bool{}
	for _, m := range logFileMutators {
		mut[strings.TrimPrefix(m, "LogFile.")] = true
	}
	sites := 0
	for _, f := range p.Funcs(tsi1) {
		if f.Decl.Body == nil {
			continue
		}
		var calls []*ast.CallExpr
		ast.Inspect(f.Decl.Body, func(n ast.Node) bool {
			c, ok := n.(*ast.CallExpr)
			if !ok {
				return true
			}
			se, ok := ast.Unparen(c.Fun).(*ast.SelectorExpr)
			if ok && mut[se.Sel.Name] && core.FieldOf(f.Info(), se.X) == alf {
				calls = append(calls, c)
			}
			return true
		})
		if len(calls) == 0 {
			continue
		}
		r.Saw(f)
		held := core.X4LocksHeld(p, f, nil)
		for _, c := range calls {
			se := ast.Unparen(c.Fun).(*ast.SelectorExpr)
			base := core.ExprStr(ast.Unparen(se.X).(*ast.SelectorExpr).X)
			st, ok := held.At(c)
			sites++
			r.Check(ok && st[base+".mu"] >= 1, rule, f.String(), "LogFile."+se.Sel.Name, p.Pos(c.Pos()),
				fmt.Sprintf("%s.activeLogFile.%s runs with %s.mu held (the active log cannot be swapped out and compacted underneath the write)", base, se.Sel.Name, base))
		}
	}
	r.Check(sites >= 6, rule, tsi1N+"Partition.activeLogFile", "sites:count", "-", fmt.Sprintf("%d mutator calls on the active log file examined; confirmed by reading: >= 6", sites))
}

// ---------------------------------------------------------------- (3) flags

func c14Flags(p *core.Prog, r *core.Report) {
	const rule = "log-entry-flags"
	pk := p.Pkg(tsi1)
	flags := map[*types.Const]bool{}
	var names []string
	for _, n := range pk.Types.Scope().Names() {
		if c, ok := pk.Types.Scope().Lookup(n).(*types.Const); ok && core.Glob("LogEntry*Flag", n) {
			flags[c] = true
			names = append(names, n)
		}
	}
	r.Check(len(flags) >= 4, rule, tsi1N+"LogEntry*Flag", "flags:count", "-", "log entry flag constants: "+core.Join(names))
	seen := map[string]string{}
	for c := range flags {
		k := c.Val().ExactString()
		if prev, dup := seen[k]; dup {
			r.Bad(rule, tsi1N+c.Name(), "duplicate-value", "-", "same value as "+prev)
		}
		seen[k] = c.Name()
		// 0 is the series-insert entry
		r.Check(k != "0", rule, tsi1N+c.Name(), "zero-value", "-", "flag value differs from 0 (0 = series insert)")
	}
	refs := func(info *types.Info, n ast.Node) map[*types.Const]bool {
		out := map[*types.Const]bool{}
		ast.Inspect(n, func(x ast.Node) bool {
			if e, ok := x.(ast.Expr); ok {
				if c := core.X4ConstObj(info, e); c != nil && flags[c] {
					out[c] = true
				}
			}
			return true
		})
		return out
	}
	if f := r.Need(p, tsi1, "LogFile.execEntry"); f != nil {
		info := f.Info()
		flagField := core.LookupField(pk.Types, "LogEntry", "Flag")
		covered := map[*types.Const]bool{}
		nSwitch := 0
		ast.Inspect(f.Decl.Body, func(n ast.Node) bool {
			sw, ok := n.(*ast.SwitchStmt)
			if !ok || sw.Tag == nil || core.FieldOf(info, sw.Tag) != flagField {
				return true
			}
			nSwitch++
			for _, cl := range sw.Body.List {
				cc := cl.(*ast.CaseClause)
				if len(cc.Body) == 0 {
					continue // an empty arm drops the entry
				}
				for _, e := range cc.List {
					if c := core.X4ConstObj(info, e); c != nil && flags[c] {
						covered[c] = true
					}
				}
				if cc.List == nil {
					// default arm: flags tested by the functions it calls
					for _, c := range core.AllCalls(info, &ast.BlockStmt{List: cc.Body}, func(*types.Info, *ast.CallExpr) bool { return true }) {
						if callee := p.FuncOf(core.Callee(info, c)); callee != nil && callee.Decl.Body != nil {
							r.Saw(callee)
							for k := range refs(callee.Info(), callee.Decl.Body) {
								covered[k] = true
							}
						}
					}
				}
			}
			return true
		})
		r.Check(nSwitch == 1, rule, f.String(), "flag-switch", f.Pos(), "execEntry dispatches on e.Flag with one switch")
		var missing []string
		for c := range flags {
			if !covered[c] {
				missing = append(missing, c.Name())
			}
		}
		sort.Strings(missing)
		r.Check(len(missing) == 0, rule, f.String(), "unhandled:"+strings.Join(missing, ","), f.Pos(), "every LogEntry*Flag is handled by a non-empty case or by the default arm's callee")
	}
	// emitters: LogEntry literals
	want := map[string]string{
		"LogFile.DeleteMeasurement": "LogEntryMeasurementTombstoneFlag",
		"LogFile.DeleteTagKey":      "LogEntryTagKeyTombstoneFlag",
		"LogFile.DeleteTagValue":    "LogEntryTagValueTombstoneFlag",
		"LogFile.DeleteSeriesID":    "LogEntrySeriesTombstoneFlag",
		"LogFile.AddSeriesList":     "",
	}
	leT, _ := pk.Types.Scope().Lookup("LogEntry").(*types.TypeName)
	lits := 0
	for _, f := range p.Funcs(tsi1) {
		if f.Decl.Body == nil {
			continue
		}
		info := f.Info()
		ast.Inspect(f.Decl.Body, func(n ast.Node) bool {
			cl, ok := n.(*ast.CompositeLit)
			if !ok || leT == nil || !types.Identical(info.TypeOf(cl), leT.Type()) {
				return true
			}
			lits++
			r.Saw(f)
			flagName := ""
			okFlag := true
			for _, el := range cl.Elts {
				kv, ok := el.(*ast.KeyValueExpr)
				if !ok {
					okFlag = false // positional literal: not analysable
					continue
				}
				if k, ok := kv.Key.(*ast.Ident); ok && k.Name == "Flag" {
					c := core.X4ConstObj(info, kv.Value)
					if c == nil || !flags[c] {
						okFlag = false
					} else {
						flagName = c.Name()
					}
				}
			}
			r.Check(okFlag, rule, f.String(), "undeclared-flag", p.Pos(cl.Pos()), "LogEntry literal uses a declared LogEntry*Flag (or none = series insert)")
			if w, is := want[f.Name]; is {
				r.Check(flagName == w, rule, f.String(), "flag", p.Pos(cl.Pos()), fmt.Sprintf("emits %q (found %q)", w, flagName))
			}
			return true
		})
	}
	r.Check(lits >= 5, rule, tsi1N+"LogEntry", "literals:count", "-", fmt.Sprintf("%d LogEntry literals examined; confirmed by reading: >= 5", lits))
}

// ---------------------------------------------------------------- (4) checksum

func c14Checksum(p *core.Prog, r *core.Report) {
	const rule = "entry-checksum"
	pk := p.Pkg(tsi1)
	chkField := core.LookupField(pk.Types, "LogEntry", "Checksum")
	sizeField := core.LookupField(pk.Types, "LogEntry", "Size")
	crcM := call("hash/crc32.ChecksumIEEE")
	if f := r.Need(p, tsi1, "LogEntry.UnmarshalBinary"); f != nil {
		info := f.Info()
		g := f.Graph()
		// variable holding the computed checksum
		var chk types.Object
		ast.Inspect(f.Decl.Body, func(n ast.Node) bool {
			if as, ok := n.(*ast.AssignStmt); ok && len(as.Lhs) == 1 && len(as.Rhs) == 1 {
				if c, ok := ast.Unparen(as.Rhs[0]).(*ast.CallExpr); ok && crcM(info, c) {
					chk = core.ObjOf(info, as.Lhs[0])
				}
			}
			return true
		})
		if r.Check(chk != nil && chkField != nil && assignedOnlyFrom(f, chk, crcM), rule, f.String(), "computed-checksum", f.Pos(), "the checksum is computed once with crc32.ChecksumIEEE") {
			gate := core.X4CmpEdge(core.X4IsObj(info, chk), core.X4IsField(info, chkField), token.EQL, false)
			reach := g.ReachFromEntry(nil, gate)
			var bad []*core.Node
			ex := g.SuccessExits()
			for _, x := range ex {
				if reach[x] {
					bad = append(bad, x)
				}
			}
			r.Check(len(bad) == 0 && len(ex) >= 1, rule, f.String(), "success-without-checksum", x4Lines(g, bad), "nil is returned only on the `computed == stored` outcome of the checksum comparison")
			// the stored checksum is read from the input, after the payload the crc covers
			stores := g.Select(g.Assigning(chkField))
			okOrder := len(stores) == 1
			for _, s := range stores {
				if g.ReachFromEntry(g.Calling(crcM), nil)[s] {
					okOrder = false
				}
			}
			r.Check(okOrder, rule, f.String(), "crc<stored", f.Pos(), "the checksum is computed over the bytes consumed before the stored checksum is parsed")
		}
		core.RuleMustPassN(r, f, g, rule, "Size-store", g.Assigning(sizeField), nil)
		core.RuleErrorsUsed(r, f, "log-errors", "uvarint", call(tsi1N+"uvarint"), false, 4)
	}
	if f := r.Need(p, tsi1, "appendLogEntry"); f != nil {
		info := f.Info()
		// the 4 bytes serialised after the record are crc32.ChecksumIEEE of the record
		fieldFromCrc := false
		ast.Inspect(f.Decl.Body, func(n ast.Node) bool {
			if as, is := n.(*ast.AssignStmt); is && len(as.Lhs) == 1 && len(as.Rhs) == 1 && core.FieldOf(info, as.Lhs[0]) == chkField {
				if c, isC := ast.Unparen(as.Rhs[0]).(*ast.CallExpr); isC && crcM(info, c) {
					fieldFromCrc = true
				}
			}
			return true
		})
		put := false
		for _, c := range core.AllCalls(info, f.Decl.Body, call("encoding/binary.bigEndian.PutUint32", "encoding/binary.ByteOrder.PutUint32", "encoding/binary.bigEndian.AppendUint32", "encoding/binary.AppendByteOrder.AppendUint32")) {
			if len(c.Args) != 2 {
				continue
			}
			a := ast.Unparen(c.Args[1])
			switch {
			case core.FieldOf(info, a) == chkField && chkField != nil && fieldFromCrc:
				put = true
			case core.ObjOf(info, a) != nil && assignedOnlyFrom(f, core.ObjOf(info, a), crcM):
				put = true
			default:
				if cc, isC := a.(*ast.CallExpr); isC && crcM(info, cc) {
					put = true
				}
			}
		}
		r.Check(put, rule, f.String(), "checksum-appended", f.Pos(), "the value serialised after the record is crc32.ChecksumIEEE of the record")
		r.Check(len(core.AllCalls(info, f.Decl.Body, crcM)) == 1, rule, f.String(), "checksum-computed", f.Pos(), "the encoder computes crc32.ChecksumIEEE once")
	}
}

// ---------------------------------------------------------------- (5) replay

func c14Replay(p *core.Prog, r *core.Report) {
	const rule = "log-replay"
	f := r.Need(p, tsi1, "LogFile.open")
	if f == nil {
		return
	}
	pk := f.Pkg
	info := f.Info()
	g := f.Graph()
	name := f.String()
	umM := call(tsi1N + "LogEntry.UnmarshalBinary")
	exM := call(tsi1N + "LogFile.execEntry")
	seekM := call("os.File.Seek")
	ums, exs, seeks := x4Calls(g, umM), x4Calls(g, exM), x4Calls(g, seekM)
	if !r.Check(len(ums) == 1 && len(exs) == 1 && len(seeks) == 1, rule, name, "shape", f.Pos(), "one UnmarshalBinary, one execEntry, one Seek") {
		return
	}
	// error variable of UnmarshalBinary
	var errV types.Object
	if as, ok := ums[0].N.(*ast.AssignStmt); ok && len(as.Lhs) == 1 {
		errV = core.ObjOf(info, as.Lhs[0])
	}
	if !r.Check(errV != nil, rule, name, "Unmarshal-result", g.Line(ums[0]), "err := e.UnmarshalBinary(buf)") {
		return
	}
	okEdge := core.X4NilEdge(info, core.X4IsObj(info, errV), true)
	// exec only after an accepted entry, per iteration
	r.Check(len(g.X4OnlyVia(exs, g.Calling(umM), nil)) == 0, rule, name, "exec-without-decode", g.Line(exs[0]), "execEntry is reachable only after UnmarshalBinary (every iteration)")
	reach := g.Reach(core.After(ums[0], nil), nil, okEdge)
	r.Check(!reach[exs[0]], rule, name, "exec-rejected-entry", g.Line(exs[0]), "execEntry is reachable from UnmarshalBinary only through the err == nil outcome")
	// same entry
	cu, ce := x4TheCall(g, ums[0], umM), x4TheCall(g, exs[0], exM)
	sameEntry := false
	if cu != nil && ce != nil && len(ce.Args) == 1 {
		if se, ok := ast.Unparen(cu.Fun).(*ast.SelectorExpr); ok {
			arg := ast.Unparen(ce.Args[0])
			if u, isU := arg.(*ast.UnaryExpr); isU && u.Op == token.AND {
				arg = u.X
			}
			sameEntry = core.ObjOf(info, se.X) != nil && core.ObjOf(info, se.X) == core.ObjOf(info, arg)
		}
	}
	r.Check(sameEntry, rule, name, "same-entry", g.Line(exs[0]), "the entry applied is the entry decoded")

	// torn tail: the two sentinels leave the loop without a failing return
	sentinels := map[string]bool{}
	var tornEdges []*core.Edge
	for _, n := range g.Nodes {
		for _, e := range n.Succ {
			if e.Cond == nil || !e.Branch {
				continue
			}
			// condition is a disjunction of errors.Is(err, X) tests only
			all, cnt := true, 0
			var walk func(x ast.Expr)
			walk = func(x ast.Expr) {
				x = ast.Unparen(x)
				if be, ok := x.(*ast.BinaryExpr); ok && be.Op == token.LOR {
					walk(be.X)
					walk(be.Y)
					return
				}
				c, ok := x.(*ast.CallExpr)
				if !ok || !call("errors.Is")(info, c) || len(c.Args) != 2 || core.ObjOf(info, c.Args[0]) != errV {
					all = false
					return
				}
				cnt++
				switch t := ast.Unparen(c.Args[1]).(type) {
				case *ast.Ident:
					sentinels[t.Name] = true
				case *ast.SelectorExpr:
					sentinels[core.ExprStr(t)] = true
				}
			}
			walk(e.Cond)
			if all && cnt > 0 {
				tornEdges = append(tornEdges, e)
			}
		}
	}
	if r.Check(len(tornEdges) >= 1, rule, name, "torn-tail-test:absent", g.Line(ums[0]), "the decode error is classified with errors.Is") {
		r.Check(sentinels["io.ErrShortBuffer"] && sentinels["ErrLogEntryChecksumMismatch"], rule, name, "torn-tail-sentinels", g.Line(ums[0]),
			"a short buffer and a checksum mismatch are both treated as the end of the valid log")
		succ := map[*core.Node]bool{}
		for _, x := range g.SuccessExits() {
			succ[x] = true
		}
		okTorn := true
		for _, e := range tornEdges {
			rr := g.Reach([]*core.Node{e.To}, nil, nil)
			for _, x := range g.Exits {
				if rr[x] && !succ[x] {
					okTorn = false
				}
			}
			if rr[exs[0]] || rr[ums[0]] {
				okTorn = false
			}
			if !rr[seeks[0]] {
				okTorn = false
			}
		}
		r.Check(okTorn, rule, name, "torn-tail-fails-open", g.Line(ums[0]), "on a torn tail the loop is left for good, no failing return is reachable and the writer is positioned")
	}
	// the sentinels UnmarshalBinary can return are the ones classified
	if um := r.Need(p, tsi1, "LogEntry.UnmarshalBinary"); um != nil {
		ret := map[string]bool{}
		ug := um.Graph()
		for _, x := range ug.Exits {
			rs, ok := x.N.(*ast.ReturnStmt)
			if !ok || len(rs.Results) != 1 {
				continue
			}
			switch t := ast.Unparen(rs.Results[0]).(type) {
			case *ast.SelectorExpr:
				ret[core.ExprStr(t)] = true
			case *ast.Ident:
				if v, ok := core.ObjOf(um.Info(), t).(*types.Var); ok && v.Parent() == um.Pkg.Types.Scope() {
					ret[t.Name] = true
				}
			}
		}
		var miss []string
		for s := range ret {
			if !sentinels[s] {
				miss = append(miss, s)
			}
		}
		sort.Strings(miss)
		r.Check(len(ret) >= 2 && len(miss) == 0, rule, um.String(), "unclassified-sentinel:"+strings.Join(miss, ","), um.Pos(), "every sentinel error UnmarshalBinary returns directly is classified as torn tail by LogFile.open")
	}

	// valid length: n accumulates e.Size of every applied entry; f.size and Seek use n
	sizeF := core.LookupField(pk.Types, "LogFile", "size")
	eSize := core.LookupField(pk.Types, "LogEntry", "Size")
	var nObj types.Object
	if c := x4TheCall(g, seeks[0], seekM); c != nil && len(c.Args) == 2 {
		nObj = core.ObjOf(info, c.Args[0])
		v := core.ConstVal(info, c.Args[1])
		r.Check(nObj != nil && v != nil && v.ExactString() == "0", rule, name, "Seek-arg", g.Line(seeks[0]), "the writer is positioned at the valid length, from the start of the file")
	}
	if nObj != nil {
		isAcc := func(n *core.Node) bool {
			as, ok := n.N.(*ast.AssignStmt)
			return ok && len(as.Lhs) == 1 && core.ObjOf(info, as.Lhs[0]) == nObj && as.Tok == token.ADD_ASSIGN && core.X4MentionsField(info, as.Rhs[0], eSize)
		}
		acc := g.Select(isAcc)
		if r.Check(len(acc) == 1, rule, name, "valid-length-advance:absent", f.Pos(), "the valid length advances by e.Size") {
			rr := g.Reach(core.After(exs[0], nil), isAcc, nil)
			leak := rr[ums[0]]
			r.Check(!leak, rule, name, "valid-length-skipped", g.Line(acc[0]), "after an entry is applied the valid length is advanced before the next entry is decoded")
			nDefs := 0
			ast.Inspect(f.Decl.Body, func(x ast.Node) bool {
				if as, ok := x.(*ast.AssignStmt); ok {
					for _, l := range as.Lhs {
						if core.ObjOf(info, l) == nObj {
							nDefs++
						}
					}
				}
				return true
			})
			r.Check(nDefs == 1, rule, name, "valid-length-single-writer", g.Line(acc[0]), "the valid length is only ever advanced by e.Size")
		}
		okSize := false
		var sizeStore *core.Node
		for _, s := range g.Select(g.Assigning(sizeF)) {
			if as, ok := s.N.(*ast.AssignStmt); ok && len(as.Rhs) == 1 && core.ObjOf(info, as.Rhs[0]) == nObj {
				okSize = true
				sizeStore = s
			}
		}
		r.Check(okSize, rule, name, "size=valid-length", f.Pos(), "f.size is set to the valid length (not the file size)")
		if sizeStore != nil {
			// that store is the last one: no store of the raw file size after it
			rr := g.Reach(core.After(sizeStore, nil), nil, nil)
			later := false
			for _, s := range g.Select(g.Assigning(sizeF)) {
				if rr[s] {
					later = true
				}
			}
			r.Check(!later, rule, name, "size-overwritten", g.Line(sizeStore), "nothing overwrites f.size after it was set to the valid length")
		}
	}
	core.RuleErrorsUsed(r, f, "log-errors", "OpenFile/Stat/Map/Seek/Unmarshal", core.Or(call("os.OpenFile", "os.File.Stat", "pkg/mmap.Map"), seekM, umM), false, 5)
	// Seek is on every success path that read entries (exempt: empty file)
	if fOpen := r.Need(p, tsi1, "LogFile.Open"); fOpen != nil {
		core.RuleErrorsUsed(r, fOpen, "log-errors", "LogFile.open", call(tsi1N+"LogFile.open"), false, 1)
		held := core.X4LocksHeld(p, fOpen, nil)
		ok := false
		for _, c := range core.AllCalls(fOpen.Info(), fOpen.Decl.Body, call(tsi1N+"LogFile.open")) {
			if st, has := held.At(c); has && st[x4Recv(fOpen)+".mu"] == 2 {
				ok = true
			}
		}
		r.Check(ok, rule, fOpen.String(), "open-under-lock", fOpen.Pos(), "replay runs with f.mu write-locked")
	}
}

// ---------------------------------------------------------------- (6) manifest

func c14Manifest(p *core.Prog, r *core.Report) {
	const rule = "manifest-protocol"
	f := r.Need(p, tsi1, "Manifest.Write")
	if f == nil {
		return
	}
	info := f.Info()
	g := f.Graph()
	name := f.String()
	ctM, wrM, syM, rnM := call("os.CreateTemp"), call("os.File.Write"), call("os.File.Sync"), call("os.Rename")
	core.RuleOrder(r, f, rule, []string{"os.CreateTemp", "File.Write", "File.Sync", "os.Rename"}, []core.Matcher{ctM, wrM, syM, rnM})
	core.RuleMustPassN(r, f, g, rule, "os.Rename", g.Calling(rnM), nil)
	core.RuleErrorsUsed(r, f, "manifest-errors", "Marshal/CreateTemp/Write/Sync/Rename", core.Or(call("encoding/json.MarshalIndent"), ctM, wrM, syM, rnM), false, 5)
	lit := core.X4LitWith(f, syM)
	if r.Check(lit != nil, rule, name, "write-section:absent", f.Pos(), "function literal writing the temp file found") {
		lg := f.LitGraph(lit)
		core.X4PrecedeG(r, lg, f, rule, "File.Write", wrM, "File.Sync", syM)
		core.RuleMustPassN(r, f, lg, rule, "File.Sync", lg.Calling(syM), nil)
		// Close is deferred through errors2.Capture inside the literal → before Rename
		closes := false
		for _, n := range lg.Nodes {
			d, ok := n.N.(*ast.DeferStmt)
			if !ok {
				continue
			}
			for _, c := range core.AllCalls(info, d, call("pkg/errors.Capture")) {
				for _, a := range c.Args {
					if se, ok := ast.Unparen(a).(*ast.SelectorExpr); ok {
						if fn, ok := info.Uses[se.Sel].(*types.Func); ok && core.FName(fn) == "os.File.Close" {
							closes = true
						}
					}
				}
			}
		}
		r.Check(closes, rule, name, "close-captured", lg.Line(lg.Entry), "the temp file is closed (error captured) when the write section ends, i.e. before the rename")
	}
	// no rename after a failed write section
	var sect *core.Node
	for _, n := range g.Nodes {
		if n.N != nil && lit != nil && n.N.Pos() <= lit.Pos() && lit.End() <= n.N.End() {
			if _, ok := n.N.(*ast.AssignStmt); ok {
				sect = n
			}
		}
	}
	if r.Check(sect != nil, rule, name, "write-section-result", f.Pos(), "the write section's error is assigned") {
		fail, _, ok := g.ErrEdges(sect)
		if r.Check(ok, rule, name, "write-section:unchecked", g.Line(sect), "the write section's error is tested") {
			rr := g.Reach([]*core.Node{fail.To}, nil, nil)
			bad := false
			for _, n := range x4Calls(g, rnM) {
				bad = bad || rr[n]
			}
			r.Check(!bad, rule, name, "rename-after-failed-write", g.Line(sect), "a manifest that could not be written and fsynced completely is never renamed into place")
		}
	}
	// names: temp created in the manifest's directory, renamed onto m.path
	pathF := core.LookupField(f.Pkg.Types, "Manifest", "path")
	okDir, okTarget, okSrc := false, false, false
	var tmpObj types.Object
	for _, c := range core.AllCalls(info, f.Decl.Body, rnM) {
		if len(c.Args) == 2 {
			okTarget = core.FieldOf(info, c.Args[1]) == pathF && pathF != nil
			tmpObj = core.ObjOf(info, c.Args[0])
		}
	}
	for _, c := range core.AllCalls(info, f.Decl.Body, ctM) {
		if len(c.Args) == 2 {
			if dc, ok := ast.Unparen(c.Args[0]).(*ast.CallExpr); ok && call("path/filepath.Dir")(info, dc) && len(dc.Args) == 1 && core.FieldOf(info, dc.Args[0]) == pathF {
				okDir = true
			}
		}
	}
	if tmpObj != nil {
		okSrc = assignedOnlyFrom(f, tmpObj, call("os.File.Name"))
	}
	r.Check(okDir && okTarget && okSrc, rule, name, "names", f.Pos(), "temp file lives in filepath.Dir(m.path), its name is what gets renamed, the target is m.path (same directory ⇒ atomic replace)")
}

// ---------------------------------------------------------------- (7) swap

func c14Swap(p *core.Prog, r *core.Report) {
	const rule = "compaction-swap"
	pk := p.Pkg(tsi1)
	fsField := core.LookupField(pk.Types, "Partition", "fileSet")
	alfField := core.LookupField(pk.Types, "Partition", "activeLogFile")
	if !r.Check(fsField != nil && alfField != nil, "anchor", tsi1N+"Partition.fileSet", "unresolved", "-", "fields resolved") {
		return
	}
	mrM := call(tsi1N + "FileSet.MustReplace")
	mwM := call(tsi1N + "Manifest.Write")
	ioM := call(tsi1N + "IndexFile.Open")
	crM, syM, clM, rmM := call("os.Create"), call("os.File.Sync"), call("os.File.Close"), call("os.Remove")

	// the swap literal: Lock; new := MustReplace; Manifest.Write; p.fileSet = new
	swapSection := func(f *core.Func, lit *ast.FuncLit) {
		info := f.Info()
		lg := f.LitGraph(lit)
		name := f.String()
		core.X4OrderG(r, lg, f, rule, []string{"p.mu.Lock", "MustReplace", "Manifest.Write"}, []core.Matcher{call("sync.RWMutex.Lock"), mrM, mwM})
		r.Check(len(x4Calls(lg, call("sync.RWMutex.Unlock"))) == 0 && len(lg.Select(lg.Deferring(call("sync.RWMutex.Unlock")))) == 1, rule, name, "one-critical-section", lg.Line(lg.Entry), "the swap runs in one critical section (Unlock only deferred)")
		stores := lg.Select(lg.Assigning(fsField))
		mws := x4Calls(lg, mwM)
		if !r.Check(len(stores) == 1 && len(mws) == 1, rule, name, "swap-shape", lg.Line(lg.Entry), "one manifest write and one store to p.fileSet") {
			return
		}
		r.Check(!lg.ReachFromEntry(lg.Calling(mwM), nil)[stores[0]], rule, name, "manifest<fileSet", lg.Line(stores[0]), "p.fileSet is replaced only after the manifest naming the new set was written")
		_, succ, ok := lg.ErrEdges(mws[0])
		if r.Check(ok, rule, name, "Manifest.Write:unchecked", lg.Line(mws[0]), "the manifest write error is tested") {
			r.Check(!lg.ReachFromEntry(nil, func(e *core.Edge) bool { return e == succ })[stores[0]], rule, name, "fileSet-after-failed-manifest", lg.Line(stores[0]), "p.fileSet is replaced only on the err == nil outcome of the manifest write")
		}
		core.RuleMustPassN(r, f, lg, rule, "fileSet-store", lg.Assigning(fsField), nil)
		// the set stored is the set named in the manifest, built by MustReplace from the live p.fileSet
		var newObj types.Object
		if as, ok := stores[0].N.(*ast.AssignStmt); ok && len(as.Rhs) == 1 {
			newObj = core.ObjOf(info, as.Rhs[0])
		}
		okSame := newObj != nil && assignedOnlyFrom(f, newObj, mrM)
		okMan := false
		for _, c := range core.AllCalls(info, lit.Body, call(tsi1N+"Partition.manifest")) {
			if len(c.Args) == 1 && core.ObjOf(info, c.Args[0]) == newObj {
				okMan = true
			}
		}
		okLive := false
		for _, c := range core.AllCalls(info, lit.Body, mrM) {
			if se, ok := ast.Unparen(c.Fun).(*ast.SelectorExpr); ok && core.FieldOf(info, se.X) == fsField {
				okLive = true
			}
		}
		r.Check(okSame && okMan && okLive, rule, name, "same-set", lg.Line(stores[0]), "the set installed is the one MustReplace derived from the live p.fileSet under the lock, and the one written to the manifest")
	}

	for _, spec := range []struct {
		fn      string
		compact core.Matcher
		cname   string
	}{
		{"Partition.compactLogFile", call(tsi1N + "LogFile.CompactTo"), "LogFile.CompactTo"},
		{"Partition.compactToLevel", call(tsi1N + "IndexFiles.CompactTo"), "IndexFiles.CompactTo"},
	} {
		f := r.Need(p, tsi1, spec.fn)
		if f == nil {
			continue
		}
		info := f.Info()
		g := f.Graph()
		name := f.String()
		core.RuleOrder(r, f, rule, []string{"os.Create", spec.cname, "File.Sync", "File.Close", "IndexFile.Open", "MustReplace", "os.Remove"},
			[]core.Matcher{crM, spec.compact, syM, clM, ioM, mrM, rmM})
		core.RuleErrorsUsed(r, f, "swap-errors", "Create/CompactTo/Sync/Open/Remove", core.Or(crM, spec.compact, syM, ioM, rmM), false, 5)
		for _, st := range []struct {
			n string
			m core.Matcher
		}{{spec.cname, spec.compact}, {"File.Sync", syM}, {"IndexFile.Open", ioM}} {
			core.RuleNotAfterFailure(r, f, rule, st.n, st.m, "MustReplace", mrM)
		}
		// in-line Close error tested and no swap after it failed
		var closeN *core.Node
		for _, n := range x4Calls(g, clM) {
			if _, isDefer := n.N.(*ast.DeferStmt); !isDefer {
				closeN = n
			}
		}
		if r.Check(closeN != nil, rule, name, "File.Close:absent", f.Pos(), "the new index file is closed in line before it is reopened") {
			fail, _, ok := g.ErrEdges(closeN)
			if r.Check(ok, rule, name, "File.Close:unchecked", g.Line(closeN), "the close error is tested") {
				rr := g.Reach([]*core.Node{fail.To}, nil, nil)
				bad := false
				for _, n := range x4Calls(g, mrM) {
					bad = bad || rr[n]
				}
				r.Check(!bad, rule, name, "MustReplace-after-failed-File.Close", g.Line(closeN), "no swap after a failed close")
			}
		}
		lit := core.X4LitWith(f, mrM)
		if !r.Check(lit != nil, rule, name, "swap-section:absent", f.Pos(), "function literal performing the swap found") {
			continue
		}
		swapSection(f, lit)
		// removal of the inputs only after a successful swap
		var sect *core.Node
		for _, n := range g.Nodes {
			if n.N != nil && n.N.Pos() <= lit.Pos() && lit.End() <= n.N.End() {
				sect = n
			}
		}
		if r.Check(sect != nil, rule, name, "swap-result", f.Pos(), "the swap section's error is assigned") {
			fail, _, ok := g.ErrEdges(sect)
			if r.Check(ok, rule, name, "swap:unchecked", g.Line(sect), "the swap section's error is tested") {
				rr := g.Reach([]*core.Node{fail.To}, nil, nil)
				bad := false
				for _, n := range x4Calls(g, rmM) {
					bad = bad || rr[n]
				}
				r.Check(!bad, rule, name, "remove-after-failed-swap", g.Line(sect), "input files are deleted only when the manifest no longer names them")
			}
		}
		// the file swapped in is the one that was synced, closed and reopened from the created path
		okFile := false
		var pathObj types.Object
		for _, c := range core.AllCalls(info, f.Decl.Body, crM) {
			if len(c.Args) == 1 {
				pathObj = core.ObjOf(info, c.Args[0])
			}
		}
		var fileObj types.Object
		for _, c := range core.AllCalls(info, f.Decl.Body, call(tsi1N+"IndexFile.SetPath")) {
			if se, ok := ast.Unparen(c.Fun).(*ast.SelectorExpr); ok && len(c.Args) == 1 && core.ObjOf(info, c.Args[0]) == pathObj && pathObj != nil {
				fileObj = core.ObjOf(info, se.X)
			}
		}
		for _, c := range core.AllCalls(info, lit.Body, mrM) {
			if len(c.Args) == 2 && fileObj != nil && core.ObjOf(info, c.Args[1]) == fileObj {
				for _, oc := range core.AllCalls(info, f.Decl.Body, ioM) {
					if se, ok := ast.Unparen(oc.Fun).(*ast.SelectorExpr); ok && core.ObjOf(info, se.X) == fileObj {
						okFile = true
					}
				}
			}
		}
		r.Check(okFile, rule, name, "swapped-file", f.Pos(), "the file installed by MustReplace is the IndexFile opened from the path that was created, written and fsynced")
	}

	if f := r.Need(p, tsi1, "Partition.prependActiveLogFile"); f != nil {
		info := f.Info()
		g := f.Graph()
		name := f.String()
		stores := g.Select(g.Assigning(fsField))
		mws := x4Calls(g, mwM)
		if r.Check(len(stores) == 1 && len(mws) == 1, rule, name, "swap-shape", f.Pos(), "one manifest write and one store to p.fileSet") {
			r.Check(!g.ReachFromEntry(g.Calling(mwM), nil)[stores[0]], rule, name, "manifest<fileSet", g.Line(stores[0]), "p.fileSet is replaced only after the manifest naming the new log file was written")
			_, succ, ok := g.ErrEdges(mws[0])
			if r.Check(ok, rule, name, "Manifest.Write:unchecked", g.Line(mws[0]), "the manifest write error is tested") {
				r.Check(!g.ReachFromEntry(nil, func(e *core.Edge) bool { return e == succ })[stores[0]], rule, name, "fileSet-after-failed-manifest", g.Line(stores[0]), "p.fileSet is replaced only on the err == nil outcome of the manifest write")
			}
			core.RuleMustPassN(r, f, g, rule, "fileSet-store", g.Assigning(fsField), nil)
			var newObj types.Object
			if as, ok := stores[0].N.(*ast.AssignStmt); ok && len(as.Rhs) == 1 {
				newObj = core.ObjOf(info, as.Rhs[0])
			}
			plM := call(tsi1N + "FileSet.PrependLogFile")
			okMan := false
			for _, c := range core.AllCalls(info, f.Decl.Body, call(tsi1N+"Partition.manifest")) {
				if len(c.Args) == 1 && core.ObjOf(info, c.Args[0]) == newObj && newObj != nil {
					okMan = true
				}
			}
			r.Check(newObj != nil && assignedOnlyFrom(f, newObj, plM) && okMan, rule, name, "same-set", g.Line(stores[0]), "the set installed is PrependLogFile(new log) and is the one written to the manifest")
			// the active log file is restored when the manifest write failed
			restored := false
			for _, n := range g.Nodes {
				if d, ok := n.N.(*ast.DeferStmt); ok {
					ast.Inspect(d, func(x ast.Node) bool {
						if as, ok := x.(*ast.AssignStmt); ok {
							for _, l := range as.Lhs {
								if core.FieldOf(info, l) == alfField {
									restored = true
								}
							}
						}
						return true
					})
				}
			}
			r.Check(restored, rule, name, "active-log-rollback", f.Pos(), "a deferred handler puts the previous active log file back when the manifest write failed (writers never append to a log the manifest does not name)")
		}
		core.RuleErrorsUsed(r, f, "swap-errors", "openLogFile/Manifest.Write", core.Or(call(tsi1N+"Partition.openLogFile"), mwM), false, 2)
	}

	if f := r.Need(p, tsi1, "Partition.Open"); f != nil {
		info := f.Info()
		g := f.Graph()
		name := f.String()
		rmfM, olM, oiM, bsM, dnM := call(tsi1N+"ReadManifestFile"), call(tsi1N+"Partition.openLogFile"), call(tsi1N+"Partition.openIndexFile"), call(tsi1N+"Partition.buildSeriesSet"), call(tsi1N+"Partition.deleteNonManifestFiles")
		core.RuleErrorsUsed(r, f, "open-errors", "manifest/open files/buildSeriesSet", core.Or(rmfM, olM, oiM, bsM, dnM, call(tsi1N+"Manifest.Validate"), call(tsi1N+"Partition.prependActiveLogFile")), false, 7)
		core.RulePrecede(r, f, "open-order", "ReadManifestFile", rmfM, "openLogFile", olM)
		core.RulePrecede(r, f, "open-order", "ReadManifestFile", rmfM, "openIndexFile", oiM)
		stores := g.Select(g.Assigning(fsField))
		bs := x4Calls(g, bsM)
		if r.Check(len(stores) == 1 && len(bs) == 1, "open-order", name, "shape", f.Pos(), "one store to p.fileSet, one buildSeriesSet") {
			r.Check(!g.ReachFromEntry(g.Assigning(fsField), nil)[bs[0]], "open-order", name, "fileSet<buildSeriesSet", g.Line(bs[0]), "the series set is rebuilt from the installed file set")
			rr := g.Reach(core.After(stores[0], nil), nil, nil)
			late := false
			for _, n := range append(x4Calls(g, olM), x4Calls(g, oiM)...) {
				late = late || rr[n]
			}
			r.Check(!late, "open-order", name, "open-files<fileSet", g.Line(stores[0]), "every manifest entry is opened before the file set is installed")
			core.RuleMustPassN(r, f, g, "open-order", "buildSeriesSet", g.Calling(bsM), nil)
		}
		// both kinds of manifest entries are opened
		exts := map[string]bool{}
		ast.Inspect(f.Decl.Body, func(n ast.Node) bool {
			cc, ok := n.(*ast.CaseClause)
			if !ok {
				return true
			}
			for _, e := range cc.List {
				if c := core.X4ConstObj(info, e); c != nil {
					body := &ast.BlockStmt{List: cc.Body}
					if len(core.AllCalls(info, body, core.Or(olM, oiM))) > 0 && len(core.AllCalls(info, body, core.Builtin("append"))) > 0 {
						exts[c.Name()] = true
					}
				}
			}
			return true
		})
		r.Check(exts["LogFileExt"] && exts["IndexFileExt"], "open-order", name, "manifest-entry-kinds", f.Pos(), "log files and index files named in the manifest are both opened and added to the file set")
	}
	if f := r.Need(p, tsi1, "Partition.buildSeriesSet"); f != nil {
		core.RuleErrorsUsed(r, f, "open-errors", "series id sets", call(tsi1N+"File.TombstoneSeriesIDSet", tsi1N+"File.SeriesIDSet"), false, 2)
	}
}
