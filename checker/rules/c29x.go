package rules

import (
	"go/ast"
	"go/types"
	"strings"

	"verif/checker/core"
)

// A listing wrapper that filters what the store returned (AuthorizeFind*) decides
// per RETURNED resource. A fast path that returns the store's list unfiltered
// because some property of the REQUEST was authorized is not equivalent: the
// store may return resources the checked request parameter does not name (a
// filter whose ID and OrganizationID disagree, system buckets of the org, …).
// So in every wrapper method that uses an AuthorizeFind* filter, no success exit
// may bypass it.
func init() {
	extend("C29", "filter-not-bypassable: in every authorizer wrapper method that filters its delegate's result with an AuthorizeFind* function, every success exit passes that filter (no fast path returns the delegate's list on the strength of a check on the request alone).",
		nil, func(p *core.Prog, r *core.Report, tier string) {
			const rule = "filter-not-bypassable"
			filter := call("authorizer.AuthorizeFind*")
			n := 0
			for _, f := range p.Funcs("authorizer") {
				if f.Decl.Body == nil || f.Decl.Recv == nil || strings.HasPrefix(f.Decl.Name.Name, "AuthorizeFind") {
					continue
				}
				if !core.HasCall(f, filter) {
					continue
				}
				n++
				r.Saw(f)
				core.RuleMustPass(r, f, rule, "AuthorizeFind*", filter, false)
			}
			r.Check(n >= 15, rule, "authorizer", "methods:count", "-", "wrapper methods that filter their result found")
		})
}

// helperCheck summarises a call of a checking helper: a function or method of
// the module (or a local function literal bound once) that
//   - returns an error as its last result,
//   - makes no delegate call (it only checks), and
//   - has every success exit behind the nil-branch of a check.
//
// If all success exits lie behind write-class (or IsAllowed*) checks the call
// is itself a write-class check; if they lie behind checks of any class it is
// a read-class check. So `if err := s.authorizeX(ctx, a); err != nil` gates
// exactly like the checks it was extracted from. The resource-type constants
// the helper checks are returned too. depth bounds helper-in-helper nesting.
func (c *c29ctx) helperCheck(w *wrapperT, g *core.Graph, info *types.Info, cl *ast.CallExpr, depth int) (int, map[string]bool) {
	if depth <= 0 {
		return ckNone, nil
	}
	var hg *core.Graph
	if id, ok := ast.Unparen(cl.Fun).(*ast.Ident); ok && g.Fn != nil {
		if v, isVar := core.ObjOf(info, id).(*types.Var); isVar {
			if lit := core.LocalLit(info, g.Fn.Decl.Body, v); lit != nil {
				hg = g.Fn.GraphOf(lit)
			}
		}
	}
	if hg == nil {
		callee := core.Callee(info, cl)
		fn := c.p.FuncOf(callee)
		if fn == nil || fn.Decl.Body == nil || fn == g.Fn {
			return ckNone, nil
		}
		if pk := core.Short(fn.Pkg.PkgPath); pk != authzPkg && pk != authnPkg {
			return ckNone, nil
		}
		if w != nil && w.byObj[callee] != nil && w.ifaceMethod[callee.Name()] {
			return ckNone, nil // a service method, not a checking helper
		}
		hg = fn.Graph()
	}
	if hg == nil || hg == g || hg.Sig == nil || hg.Sig.Results().Len() == 0 ||
		!core.IsErrorType(hg.Sig.Results().At(hg.Sig.Results().Len()-1).Type()) {
		return ckNone, nil
	}
	if v, ok := c.helperMemo[hg]; ok {
		return v.kind, v.rts
	}
	if c.helperMemo == nil {
		c.helperMemo = map[*core.Graph]helperSum{}
	}
	c.helperMemo[hg] = helperSum{kind: ckNone} // cycle guard
	hinfo := hg.Info
	var strong, any []*core.Edge
	fwdStrong, fwdAny := map[*core.Node]bool{}, map[*core.Node]bool{}
	rts := map[string]bool{}
	for _, nd := range hg.Nodes {
		if nd.N == nil {
			continue
		}
		// no delegate calls, no nested function literals doing work
		pure := true
		core.Walk(nd.N, core.WalkOpts{IntoDefer: true}, func(y ast.Node) bool {
			if cc, isCall := y.(*ast.CallExpr); isCall && w != nil {
				if _, isDel := w.delegateCall(hinfo, cc); isDel {
					pure = false
				}
			}
			return true
		})
		if !pure {
			return ckNone, nil
		}
		as, ok := nd.N.(*ast.AssignStmt)
		if !ok || len(as.Rhs) != 1 {
			continue
		}
		cc, ok := ast.Unparen(as.Rhs[0]).(*ast.CallExpr)
		if !ok {
			continue
		}
		k := c.classify(nil, hinfo, cc)
		var sub map[string]bool
		if k == ckNone {
			k, sub = c.helperCheck(w, hg, hinfo, cc, depth-1)
		}
		if k != ckRead && k != ckWrite && k != ckGeneric {
			continue
		}
		gt, ok := hg.GateOf(nd, c.transformer())
		if !ok {
			// `_, _, err := Check(…); return err`: the verdict itself is the result
			if x := forwardedBy(hg, nd); x != nil {
				fwdAny[x] = true
				if k != ckRead {
					fwdStrong[x] = true
				}
				for _, a := range cc.Args {
					if kc := core.ConstOf(hinfo, a); kc != nil && namedIs(kc.Type(), ".", "ResourceType") {
						rts[kc.Name()] = true
					}
				}
				for rt := range sub {
					rts[rt] = true
				}
			}
			continue
		}
		for _, a := range cc.Args {
			if kc := core.ConstOf(hinfo, a); kc != nil && namedIs(kc.Type(), ".", "ResourceType") {
				rts[kc.Name()] = true
			}
		}
		for rt := range sub {
			rts[rt] = true
		}
		any = append(any, gt.Succ)
		if k != ckRead {
			strong = append(strong, gt.Succ)
		}
	}
	exits := hg.SuccessExits()
	if len(any)+len(fwdAny) == 0 || len(exits) == 0 {
		return ckNone, nil
	}
	behind := func(es []*core.Edge, fwd map[*core.Node]bool) bool {
		if len(es)+len(fwd) == 0 {
			return false
		}
		reach := hg.ReachFromEntry(nil, core.WithoutEdges(es))
		for _, x := range exits {
			if reach[x] && !fwd[x] {
				return false
			}
		}
		return true
	}
	kind := ckNone
	switch {
	case behind(strong, fwdStrong):
		kind = ckWrite
	case behind(any, fwdAny):
		kind = ckRead
	}
	if kind == ckNone {
		return ckNone, nil
	}
	c.helperMemo[hg] = helperSum{kind: kind, rts: rts}
	return kind, rts
}

type helperSum struct {
	kind int
	rts  map[string]bool
}

// forwardedBy: the error assigned at node n is returned unchanged as the last
// result by the return statement that follows n in straight line (nil otherwise).
func forwardedBy(g *core.Graph, n *core.Node) *core.Node {
	ev := g.ErrVarOf(n)
	if ev == nil {
		return nil
	}
	cur := n
	for steps := 0; steps < 6; steps++ {
		if len(cur.Succ) != 1 {
			return nil
		}
		cur = cur.Succ[0].To
		if cur.N == nil {
			continue
		}
		if rs, ok := cur.N.(*ast.ReturnStmt); ok {
			if len(rs.Results) >= 1 && core.ObjOf(g.Info, rs.Results[len(rs.Results)-1]) == ev {
				return cur
			}
			return nil
		}
		if _, wr := nodeWrites(g.Info, cur.N, ev); wr {
			return nil
		}
	}
	return nil
}
