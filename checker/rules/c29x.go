package rules

import (
	"strings"

	"verif/checker/core"
)

// A listing wrapper that filters what the store returned (AuthorizeFind*) decides
// per RETURNED resource. A fast path that returns the store's list unfiltered
// because some property of the REQUEST was authorized is not equivalent: the
// store may return resources the checked request parameter does not name (a
// filter whose ID and OrganizationID disagree, system buckets of the org, …).
// So in every wrapper method that uses an AuthorizeFind* filter, no success exit
// may bypass it.
func init() {
	extend("C29", "filter-not-bypassable: in every authorizer wrapper method that filters its delegate's result with an AuthorizeFind* function, every success exit passes that filter (no fast path returns the delegate's list on the strength of a check on the request alone).",
		nil, func(p *core.Prog, r *core.Report, tier string) {
			const rule = "filter-not-bypassable"
			filter := call("authorizer.AuthorizeFind*")
			n := 0
			for _, f := range p.Funcs("authorizer") {
				if f.Decl.Body == nil || f.Decl.Recv == nil || strings.HasPrefix(f.Decl.Name.Name, "AuthorizeFind") {
					continue
				}
				if !core.HasCall(f, filter) {
					continue
				}
				n++
				r.Saw(f)
				core.RuleMustPass(r, f, rule, "AuthorizeFind*", filter, false)
			}
			r.Check(n >= 15, rule, "authorizer", "methods:count", "-", "wrapper methods that filter their result found")
		})
}
