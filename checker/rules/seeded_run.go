package rules

import (
	"encoding/json"
	"fmt"
	"os"
	"os/exec"
	"path/filepath"
	"regexp"
	"sort"
	"strings"

	"verif/checker/core"
)

// Seeded changes live in /verif/seeded/<name>/{patch.diff, meta.json, demo…}.
// They are applied IN MEMORY (go/packages overlay) on top of the current tree:
// the patched files are materialised in a private temp dir with patch(1), read
// back and handed to the loader as overlay; /repo is never modified.

type seedMeta struct {
	Property string   `json:"property"`
	Summary  string   `json:"summary"`
	Catches  []string `json:"detected_by"` // optional: properties whose check is expected to fire
}

var diffFileRe = regexp.MustCompile(`(?m)^\+\+\+ b/(\S+)`)

// SeedOverlay builds the overlay for one seeded change.
func SeedOverlay(dir string) (map[string][]byte, []string, error) {
	if abs, err := filepath.Abs(dir); err == nil {
		dir = abs
	}
	pb, err := os.ReadFile(filepath.Join(dir, "patch.diff"))
	if err != nil {
		return nil, nil, err
	}
	var files []string
	for _, m := range diffFileRe.FindAllStringSubmatch(string(pb), -1) {
		files = append(files, m[1])
	}
	if len(files) == 0 {
		return nil, nil, fmt.Errorf("no files in patch")
	}
	tmp, err := os.MkdirTemp("", "verifseed")
	if err != nil {
		return nil, nil, err
	}
	defer os.RemoveAll(tmp)
	repo := core.RepoDir()
	for _, f := range files {
		src, err := os.ReadFile(filepath.Join(repo, f))
		if err != nil {
			return nil, nil, err
		}
		dst := filepath.Join(tmp, f)
		os.MkdirAll(filepath.Dir(dst), 0o755)
		if err := os.WriteFile(dst, src, 0o644); err != nil {
			return nil, nil, err
		}
	}
	cmd := exec.Command("patch", "-p1", "-s", "--no-backup-if-mismatch", "-d", tmp, "-i", filepath.Join(dir, "patch.diff"))
	if out, err := cmd.CombinedOutput(); err != nil {
		return nil, files, fmt.Errorf("patch does not apply to the current tree: %v: %s", err, strings.TrimSpace(string(out)))
	}
	ov := map[string][]byte{}
	for _, f := range files {
		b, err := os.ReadFile(filepath.Join(tmp, f))
		if err != nil {
			return nil, files, err
		}
		ov[filepath.Join(repo, f)] = b
	}
	return ov, files, nil
}

// RunOnSeed evaluates property p on the tree with the seeded change applied and
// returns the keys of the violated obligations (known findings excluded).
func RunOnSeed(p *Prop, dir, tier string) ([]string, error) {
	ov, _, err := SeedOverlay(dir)
	if err != nil {
		return nil, err
	}
	prog, err := core.Load(core.LoadOpts{Patterns: p.Patterns, Overlay: ov})
	if err != nil {
		return nil, fmt.Errorf("load with seed: %w", err)
	}
	r := core.NewReport(p.ID, tier)
	func() {
		defer func() {
			if e := recover(); e != nil {
				r.Bad("framework", "panic", "panic", "-", fmt.Sprint(e))
			}
		}()
		p.Run(prog, r, "quick")
	}()
	// only what the seeded change ADDS counts: subtract what the same rules
	// report on the unchanged tree (known findings, defects awaiting a fix)
	base, err := baselineKeys(p)
	if err != nil {
		return nil, err
	}
	var out []string
	for _, v := range r.NewViolations() {
		k, _, _ := strings.Cut(v, " @")
		if !base[k] {
			out = append(out, v)
		}
	}
	return out, nil
}

var baseCache = map[string]map[string]bool{}

func baselineKeys(p *Prop) (map[string]bool, error) {
	if b, ok := baseCache[p.ID]; ok {
		return b, nil
	}
	prog, err := core.Load(core.LoadOpts{Patterns: p.Patterns})
	if err != nil {
		return nil, fmt.Errorf("baseline load: %w", err)
	}
	r := core.NewReport(p.ID, "quick")
	func() {
		defer func() { recover() }()
		p.Run(prog, r, "quick")
	}()
	b := map[string]bool{}
	for _, k := range r.Violations() {
		b[k] = true
	}
	baseCache[p.ID] = b
	return b, nil
}

func seedDirs() []string {
	ds, _ := filepath.Glob(filepath.Join(core.VerifDir(), "seeded", "*", "meta.json"))
	var out []string
	for _, d := range ds {
		out = append(out, filepath.Dir(d))
	}
	sort.Strings(out)
	return out
}

func readSeedMeta(dir string) seedMeta {
	var m seedMeta
	b, _ := os.ReadFile(filepath.Join(dir, "meta.json"))
	json.Unmarshal(b, &m)
	return m
}

// runSeeded: thorough tier — every seeded change recorded for this property must
// make the check fire (a silent check on its own seeded fault is vacuous).
func runSeeded(p *Prop, r *core.Report) {
	for _, dir := range seedDirs() {
		m := readSeedMeta(dir)
		mine := m.Property == p.ID
		listed := false
		for _, c := range m.Catches {
			if c == p.ID {
				mine, listed = true, true
			}
		}
		if !mine {
			continue
		}
		// a change that breaks this property but is recorded (detected_by) as caught by
		// the rules of ANOTHER property that shares the mechanism: evaluated, not required here
		elsewhere := len(m.Catches) > 0 && !listed
		name := filepath.Base(dir)
		expectMiss := false
		if b, err := os.ReadFile(filepath.Join(dir, "EXPECT_MISS")); err == nil && len(b) > 0 {
			expectMiss = true
		}
		vs, err := RunOnSeed(p, dir, "thorough")
		switch {
		case err != nil:
			r.Mutants = append(r.Mutants, core.MutantResult{Name: name, Killed: false, Note: "stale: " + err.Error()})
			r.Note("seeded change %s could not be evaluated: %v", name, err)
		case len(vs) > 0:
			r.Mutants = append(r.Mutants, core.MutantResult{Name: name, Killed: true, By: strings.Join(vs, " ; ")})
			r.Ok("seeded-fault", name, "-", "seeded change is reported: "+core.Trim(strings.Join(vs, " ; "), 200))
		case expectMiss:
			r.Mutants = append(r.Mutants, core.MutantResult{Name: name, Killed: false, Note: "out of reach of the static rules (documented in DESIGN.md)"})
		case elsewhere:
			r.Mutants = append(r.Mutants, core.MutantResult{Name: name, Killed: false, Note: "reported by the rules of " + strings.Join(m.Catches, ", ") + " (shared mechanism), whose thorough tier requires it"})
		default:
			r.Mutants = append(r.Mutants, core.MutantResult{Name: name, Killed: false})
			r.Bad("seeded-fault", name, "not-detected", "-", "the check stays silent on a seeded change it is recorded to detect (rule vacuous?)")
		}
	}
}

// SeedMatrix evaluates every seeded change with the property it breaks (and the
// properties listed in detected_by) and prints one line per change.
func SeedMatrix() int {
	miss := 0
	for _, dir := range seedDirs() {
		m := readSeedMeta(dir)
		name := filepath.Base(dir)
		props := append([]string{m.Property}, m.Catches...)
		seen := map[string]bool{}
		detected := false
		var lines []string
		for _, id := range props {
			if seen[id] {
				continue
			}
			seen[id] = true
			p := Get(id)
			if p == nil {
				lines = append(lines, fmt.Sprintf("  %s: property not claimed", id))
				continue
			}
			vs, err := RunOnSeed(p, dir, "quick")
			if err != nil {
				lines = append(lines, fmt.Sprintf("  %s: error %v", id, err))
				continue
			}
			if len(vs) > 0 {
				detected = true
				lines = append(lines, fmt.Sprintf("  %s: DETECTED %s", id, core.Trim(strings.Join(vs, " ; "), 220)))
			} else {
				lines = append(lines, fmt.Sprintf("  %s: silent", id))
			}
		}
		st := "MISSED"
		if detected {
			st = "CAUGHT"
		} else {
			miss++
		}
		fmt.Printf("%s %s\n%s\n", st, name, strings.Join(lines, "\n"))
	}
	fmt.Printf("seed matrix: %d missed\n", miss)
	return 0
}
