package rules

import "verif/checker/core"

func runSeeded(p *Prop, r *core.Report) {}
