package rules

import (
	"go/ast"
	"go/token"

	"verif/checker/core"
)

// conjuncts splits a && b && c into its operands.
func conjuncts(e ast.Expr) []ast.Expr {
	e = ast.Unparen(e)
	if be, ok := e.(*ast.BinaryExpr); ok && be.Op == token.LAND {
		return append(conjuncts(be.X), conjuncts(be.Y)...)
	}
	return []ast.Expr{e}
}

func init() {
	// C15: OR needs both operands. The AND/OR arm of the expression walker may
	// only report a result through a combinator of BOTH recursive results; an early
	// success return after the left operand alone is only sound for AND.
	extend("C15", "both-operands: in IndexSet.seriesByExprIterator, once the left operand of an AND/OR has been evaluated, every success exit passes IntersectSeriesIDIterators or UnionSeriesIDIterators of both recursive results (an early success return on an empty left operand would drop the right operand of an OR); the only exempt exits are those on a branch that established expr.Op == AND.",
		nil, func(p *core.Prog, r *core.Report, tier string) {
			const rule = "both-operands"
			f := r.Need(p, tsdbP, "IndexSet.seriesByExprIterator")
			if f == nil {
				return
			}
			g := f.Graph()
			info := f.Info()
			rec := g.Select(g.Calling(call("tsdb.IndexSet.seriesByExprIterator")))
			comb := g.Calling(call("tsdb.IntersectSeriesIDIterators", "tsdb.UnionSeriesIDIterators"))
			if !r.Check(len(rec) >= 3 && len(g.Select(comb)) >= 2, rule, f.String(), "shape", f.Pos(), "recursive evaluation of both operands and both combinators found") {
				return
			}
			// the first recursion inside the AND/OR arm: the one whose argument is .LHS
			var lhs *core.Node
			for _, n := range rec {
				for _, c := range core.CallsIn(info, n.N, call("tsdb.IndexSet.seriesByExprIterator"), core.WalkOpts{}) {
					if len(c.Args) == 2 {
						if se, ok := ast.Unparen(c.Args[1]).(*ast.SelectorExpr); ok && se.Sel.Name == "LHS" {
							lhs = n
						}
					}
				}
			}
			if !r.Check(lhs != nil, rule, f.String(), "lhs-recursion:absent", f.Pos(), "left operand is evaluated recursively") {
				return
			}
			isAndEdge := func(e *core.Edge) bool {
				if e.Cond == nil || !e.Branch {
					return false
				}
				for _, c := range conjuncts(e.Cond) {
					if be, ok := c.(*ast.BinaryExpr); ok && be.Op == token.EQL {
						s := core.ExprStr(be.X) + "|" + core.ExprStr(be.Y)
						if (s == "expr.Op|influxql.AND") || (s == "influxql.AND|expr.Op") {
							return true
						}
					}
				}
				return false
			}
			reach := g.Reach(core.After(lhs, nil), comb, isAndEdge)
			bad := ""
			for _, x := range g.SuccessExits() {
				if reach[x] {
					bad = g.Line(x)
				}
			}
			r.Check(bad == "", rule, f.String(), "result-without-right-operand", g.Line(lhs), "after the left operand, success is reported only through a combinator of both operands (early success at "+bad+")")
		})

	// C31: the CAS loop of the snowflake generator must re-read the state on every
	// attempt; with a stale expected value every retry fails and the unguarded
	// fallback add can carry the sequence into the machine-id bits (duplicate ids).
	extend("C31", "cas-reload: in snowflake Generator.Next every retry of the CompareAndSwap re-loads g.state first (the Load lies on the retry cycle); a failed CAS never loops back to another CAS with the same stale expected value.",
		nil, func(p *core.Prog, r *core.Report, tier string) {
			const rule = "cas-reload"
			f := r.Need(p, "pkg/snowflake", "Generator.Next")
			if f == nil {
				return
			}
			g := f.Graph()
			cas := g.Select(g.Calling(call("sync/atomic.CompareAndSwapUint64")))
			load := g.Calling(call("sync/atomic.LoadUint64"))
			if !r.Check(len(cas) == 1 && len(g.Select(load)) >= 1, rule, f.String(), "shape", f.Pos(), "one CompareAndSwap and a Load of the state found") {
				return
			}
			var starts []*core.Node
			for _, e := range cas[0].Succ {
				if e.Cond != nil && !e.Branch {
					starts = append(starts, e.To)
				}
			}
			if !r.Check(len(starts) == 1, rule, f.String(), "cas-not-a-condition", g.Line(cas[0]), "the CAS result is branched on") {
				return
			}
			again := g.Reach(starts, load, nil)[cas[0]]
			retried := g.Reach(starts, nil, nil)[cas[0]]
			r.Check(retried, rule, f.String(), "no-retry", g.Line(cas[0]), "a failed CAS is retried")
			r.Check(!again, rule, f.String(), "retry-with-stale-expected-value", g.Line(cas[0]), "every retry passes a fresh atomic.LoadUint64 of the state before the next CompareAndSwap")
		})
}
