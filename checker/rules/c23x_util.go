package rules

import (
	"go/ast"
	"go/types"

	"verif/checker/core"
)

// Recognisers of C23 look through single-definition temporaries (core.N1Resolver)
// and, for operands, through type conversions.

func (c *c23) path(fs ...*types.Var) func(ast.Expr) bool {
	is := core.N1Path(c.info, fs...)
	return func(e ast.Expr) bool { return e != nil && is(c.res.Resolve(e)) }
}

func (c *c23) pathConv(fs ...*types.Var) func(ast.Expr) bool {
	is := core.N1Path(c.info, fs...)
	return func(e ast.Expr) bool {
		if e == nil {
			return false
		}
		e = core.StripConv(c.info, e)
		e = core.StripConv(c.info, c.res.Resolve(e))
		return is(e)
	}
}

func (c *c23) factEdge(p core.X1FactPred) core.EdgePred { return c.res.FactEdge(p) }
func (c *c23) boolEdge(is func(ast.Expr) bool, val bool) core.EdgePred {
	return c.res.FactEdge(core.X1BoolFact(is, val))
}
func (c *c23) cmpEdge(x, y func(ast.Expr) bool, want core.X1Rel) core.EdgePred {
	return c.res.FactEdge(core.X1CmpFact(x, y, want))
}

// deepRoots: the bodies of in plus the bodies of same-package functions called
// from them inside expressions (one level) — a value computed by a small helper
// (`Value: r.elapsed()`) is still seen by the syntactic operand scans.
func (c *c23) deepRoots(in *core.Inlined) []ast.Node {
	roots := append([]ast.Node(nil), in.Roots...)
	seen := map[ast.Node]bool{}
	for _, r := range roots {
		seen[r] = true
	}
	for _, r := range in.Roots {
		ast.Inspect(r, func(x ast.Node) bool {
			cl, ok := x.(*ast.CallExpr)
			if !ok {
				return true
			}
			fn := core.Callee(c.info, cl)
			if fn == nil || fn.Pkg() != c.pk {
				return true
			}
			if h := c.p.FuncOf(fn); h != nil && h.Decl.Body != nil && !seen[h.Decl.Body] && h != in.F {
				seen[h.Decl.Body] = true
				roots = append(roots, h.Decl.Body)
			}
			return true
		})
	}
	return roots
}
