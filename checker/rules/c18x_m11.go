package rules

import (
	"fmt"
	"go/ast"
	"go/token"
	"go/types"
	"strings"

	"verif/checker/core"
)

// C18 extensions (m11), driven by the surviving faults of the generic enumeration.
//
// The routing rules say which group a point may be given; what was still open
// is that every point and every group is looked at (no loop left early), that
// the "nothing found" answers are given only when nothing can be found, that a
// live untruncated group containing the timestamp IS found (otherwise a second,
// overlapping group is created), and that a reload restores what is on the wire.

func init() {
	extend("C18", "(complete-enumeration) the loops over the points of a request (MapShards), over the shard groups of a policy (ShardGroupsByTimeRange of Data and Client, CreateShardGroup, ShardGroupByTimestamp) and the marshal/unmarshal element loops are left early only on an error or — for the lookup — with the group that Contains the timestamp; "+
		"(nil-result-guard) a retention policy / shard group that may be nil is dereferenced only where `!= nil` was established (guard polarity in MapShards, ShardGroupsByTimeRange, CreateShardGroup, createShardGroup); "+
		"(lookup-finds) RetentionPolicyInfo.ShardGroupByTimestamp returns a live group that Contains the timestamp when it is not truncated, or truncated after the timestamp, and does not return it when truncated at or before it; "+
		"(no-group-answers) sgList.ShardGroupAt answers nil only where the list is empty, t lies outside [earliest, latest] or the linear search is exhausted, and reads items[idx] only where idx != Len() was established; "+
		"(reload-restores) in every unmarshal of the metadata codec each conditional field store is reachable when the wire field is present (non-empty list, non-nil optional); Client.load reports success without decoding only where the key does not exist.",
		nil, func(p *core.Prog, r *core.Report, tier string) {
			if p.Pkg(metaP) == nil || p.Pkg(coordP) == nil {
				return
			}
			c18EnumerationM11(p, r)
			c18LookupFindsM11(p, r)
			c18NoGroupAnswersM11(p, r)
			c18ReloadRestoresM11(p, r)
		})
}

func c18EnumerationM11(p *core.Prog, r *core.Report) {
	loops, nilSites := 0, 0
	for _, t := range []struct{ pkg, fn string }{
		{coordP, "PointsWriter.MapShards"},
		{metaP, "Data.ShardGroupsByTimeRange"}, {metaP, "Client.ShardGroupsByTimeRange"},
		{metaP, "Data.CreateShardGroup"}, {metaP, "RetentionPolicyInfo.ShardGroupByTimestamp"},
		{metaP, "createShardGroup"},
		{metaP, "Data.marshal"}, {metaP, "Data.unmarshal"}, {metaP, "DatabaseInfo.marshal"}, {metaP, "DatabaseInfo.unmarshal"},
		{metaP, "RetentionPolicyInfo.marshal"}, {metaP, "RetentionPolicyInfo.unmarshal"}, {metaP, "ShardGroupInfo.marshal"}, {metaP, "ShardGroupInfo.unmarshal"},
		{metaP, "ShardInfo.marshal"}, {metaP, "ShardInfo.unmarshal"},
	} {
		f := r.Need(p, t.pkg, t.fn)
		if f == nil {
			continue
		}
		info := f.Info()
		for _, g := range f.Graphs() {
			var gate core.EdgePred
			if t.fn == "RetentionPolicyInfo.ShardGroupByTimestamp" {
				// the lookup leaves its loop with the group that contains the timestamp
				gate = core.EdgeEstablishing(core.CallFact(info, call(metaP+".ShardGroupInfo.Contains"), true, nil))
			}
			loops += core.RuleIterProtocolM11(r, f, g, g.Body, "complete-enumeration", f.String(), gate, nil)
		}
		if strings.HasSuffix(t.fn, "marshal") {
			continue
		}
		bad, n := core.NilResultUsesM11(p, f)
		nilSites += n
		seen := map[string]bool{}
		for _, b := range bad {
			k := b.Callee + "@" + b.G.Line(b.Def)
			if seen[k] {
				continue
			}
			seen[k] = true
			what := b.Callee
			if what == "" {
				what = "call"
			}
			r.Bad("nil-result-guard", f.String(), "unguarded-use:"+what, b.G.Line(b.Use),
				"the result of "+what+" may be nil (policy / group not found) and is dereferenced on a path where `!= nil` was not established: the guard is missing or inverted")
		}
		if n > 0 && len(bad) == 0 {
			r.Ok("nil-result-guard", f.String(), f.Pos(), fmt.Sprintf("%d possibly-nil result(s) dereferenced only where non-nil was established", n))
		}
	}
	r.Check(loops >= 14, "complete-enumeration", metaP, "loops:count", "-", fmt.Sprintf("%d enumerating loops examined (>= 14 confirmed by reading)", loops))
	r.Check(nilSites >= 5, "nil-result-guard", metaP, "sites:count", "-", fmt.Sprintf("%d possibly-nil results examined (>= 5; 10 today)", nilSites))
}

// ---------------------------------------------------------------- lookup finds the group

func c18LookupFindsM11(p *core.Prog, r *core.Report) {
	const rule = "lookup-finds"
	f := r.Need(p, metaP, "RetentionPolicyInfo.ShardGroupByTimestamp")
	pk := p.Pkg(metaP)
	if f == nil || pk == nil {
		return
	}
	info, g, body := f.Info(), f.Graph(), f.Decl.Body
	fGroups := core.LookupField(pk.Types, "RetentionPolicyInfo", "ShardGroups")
	fTrunc := core.LookupField(pk.Types, "ShardGroupInfo", "TruncatedAt")
	ts := f.Param(0)
	if !r.Check(fGroups != nil && fTrunc != nil && ts != nil, "anchor", metaP+".RetentionPolicyInfo.ShardGroups/ShardGroupInfo.TruncatedAt", "unresolved", "-", "fields resolved") {
		return
	}
	var loop *ast.RangeStmt
	for _, l := range core.RangeOver(body, func(e ast.Expr) bool { return core.FieldOf(info, e) == fGroups }) {
		loop = l
	}
	if !r.Check(loop != nil, rule, f.String(), "loop:absent", f.Pos(), "the groups of the policy are searched") {
		return
	}
	_, bodyN, _ := g.LoopNodes(loop)
	head, _, _ := g.LoopNodes(loop)
	if bodyN == nil {
		return
	}
	callLeaf := func(name string, v bool) core.Leaf10 {
		return core.CallLeaf10(info, call(metaP+".ShardGroupInfo."+name), nil, v)
	}
	// timestamp < TruncatedAt, spelled with Before or After
	beforeTrunc := func(v bool) core.Leaf10 {
		return func(e ast.Expr) (bool, bool) {
			c, ok := ast.Unparen(e).(*ast.CallExpr)
			if !ok || len(c.Args) != 1 {
				return false, false
			}
			isTS := func(x ast.Expr) bool { return core.ObjOf(info, x) == ts }
			isTr := func(x ast.Expr) bool { return core.FieldOf(info, x) == fTrunc }
			switch core.FName(core.Callee(info, c)) {
			case "time.Time.Before":
				if isTS(core.Recv(c)) && isTr(c.Args[0]) {
					return v, true
				}
			case "time.Time.After":
				if isTr(core.Recv(c)) && isTS(c.Args[0]) {
					return v, true
				}
			}
			return false, false
		}
	}
	for _, row := range []struct {
		label string
		leaf  core.Leaf10
		want  bool
	}{
		{"contains,live,not-truncated", core.Leaves10(callLeaf("Contains", true), callLeaf("Deleted", false), callLeaf("Truncated", false), beforeTrunc(false)), true},
		{"contains,live,truncated-after-t", core.Leaves10(callLeaf("Contains", true), callLeaf("Deleted", false), callLeaf("Truncated", true), beforeTrunc(true)), true},
		{"contains,live,truncated-at-or-before-t", core.Leaves10(callLeaf("Contains", true), callLeaf("Deleted", false), callLeaf("Truncated", true), beforeTrunc(false)), false},
		{"contains,deleted", core.Leaves10(callLeaf("Contains", true), callLeaf("Deleted", true), callLeaf("Truncated", false), beforeTrunc(false)), false},
		{"not-contained", core.Leaves10(callLeaf("Contains", false), callLeaf("Deleted", false), callLeaf("Truncated", false), beforeTrunc(false)), false},
	} {
		reach := g.ReachUnder10([]*core.Node{bodyN}, func(n *core.Node) bool { return n == head && head != bodyN }, row.leaf)
		found, next := false, false
		for n := range reach {
			if rs, ok := n.N.(*ast.ReturnStmt); ok && len(rs.Results) == 1 && !core.IsNilIdent(info, rs.Results[0]) {
				found = true
			}
			if n == head {
				next = true
			}
		}
		good := found == row.want && next == !row.want
		r.Check(good, rule, f.String(), "row:"+row.label, p.Pos(loop.Pos()),
			fmt.Sprintf("a group that is %s is returned: %v, search goes on: %v (want returned=%v)", row.label, found, next, row.want))
	}
}

// ---------------------------------------------------------------- sgList.ShardGroupAt: when "no group" may be answered

func c18NoGroupAnswersM11(p *core.Prog, r *core.Report) {
	const rule = "no-group-answers"
	f := r.Need(p, coordP, "sgList.ShardGroupAt")
	pk := p.Pkg(coordP)
	if f == nil || pk == nil {
		return
	}
	info, g, body := f.Info(), f.Graph(), f.Decl.Body
	fItems := core.LookupField(pk.Types, "sgList", "items")
	fEarliest := core.LookupField(pk.Types, "sgList", "earliest")
	fLatest := core.LookupField(pk.Types, "sgList", "latest")
	t := f.Param(0)
	if !r.Check(fItems != nil && fEarliest != nil && fLatest != nil && t != nil, "anchor", coordP+".sgList fields", "unresolved", "-", "fields resolved") {
		return
	}
	isT := func(e ast.Expr) bool { return core.ObjOf(info, e) == t }
	isLen := func(e ast.Expr) bool {
		c, ok := ast.Unparen(core.ResolveLocal(info, body, e)).(*ast.CallExpr) // also through `n := l.items.Len()`
		if !ok {
			return false
		}
		if core.Builtin("len")(info, c) && len(c.Args) == 1 {
			return core.FieldOf(info, c.Args[0]) == fItems
		}
		return core.FName(core.Callee(info, c)) == metaP+".ShardGroupInfos.Len" && core.FieldOf(info, core.Recv(c)) == fItems
	}
	// idx: the variable holding the sort.Search result
	var idx types.Object
	for _, c := range core.AllCalls(info, body, call("sort.Search")) {
		ast.Inspect(body, func(n ast.Node) bool {
			if as, ok := n.(*ast.AssignStmt); ok && len(as.Rhs) == 1 && ast.Unparen(as.Rhs[0]) == ast.Expr(c) && len(as.Lhs) == 1 {
				idx = core.ObjOf(info, as.Lhs[0])
			}
			return true
		})
	}
	if !r.Check(idx != nil, rule, f.String(), "search-result:absent", f.Pos(), "the binary search result is kept in a variable") {
		return
	}
	empty := func(a ast.Expr, v bool) bool { // Len() == 0
		x, op, c, ok := core.IntCmp(info, a)
		if !ok || !isLen(x) {
			return false
		}
		return (op == token.EQL && c == 0 && v) || (op == token.NEQ && c == 0 && !v) || (op == token.GTR && c == 0 && !v) || (op == token.LEQ && c == 0 && v) || (op == token.LSS && c == 1 && v) || (op == token.GEQ && c == 1 && !v)
	}
	exhausted := func(want bool) core.CondFact { // idx == Len()  /  idx >= Len()
		return func(a ast.Expr, v bool) bool {
			be, ok := ast.Unparen(a).(*ast.BinaryExpr)
			if !ok {
				return false
			}
			x, y, op := ast.Unparen(be.X), ast.Unparen(be.Y), be.Op
			if isLen(x) && core.ObjOf(info, y) == idx {
				x, y = y, x
				op = map[token.Token]token.Token{token.EQL: token.EQL, token.NEQ: token.NEQ, token.LSS: token.GTR, token.GTR: token.LSS, token.LEQ: token.GEQ, token.GEQ: token.LEQ}[op]
			}
			if core.ObjOf(info, x) != idx || !isLen(y) {
				return false
			}
			// idx ranges over [0, Len()]: idx == Len ⇔ idx >= Len ⇔ !(idx < Len) ⇔ !(idx != Len)
			var means bool
			switch op {
			case token.EQL, token.GEQ:
				means = true
			case token.NEQ, token.LSS:
				means = false
			default:
				return false
			}
			return (means == v) == want
		}
	}
	outside := func(a ast.Expr, v bool) bool { // t < earliest or latest < t
		return core.TimeLess(info, a, v, true, isT, func(e ast.Expr) bool { return core.FieldOf(info, e) == fEarliest }) ||
			core.TimeLess(info, a, v, true, func(e ast.Expr) bool { return core.FieldOf(info, e) == fLatest }, isT)
	}
	// a disjunction `t < earliest || latest < t` taken true establishes "outside" through either atom
	temps := func(fc core.CondFact) core.CondFact { return core.FactThroughTempsM11(info, body, fc) } // `notFound := idx >= n`
	justified := core.ImpliesAnyM11(temps(empty), temps(exhausted(true)), temps(outside))
	nNil := 0
	for _, x := range g.Exits {
		rs, ok := x.N.(*ast.ReturnStmt)
		if !ok || len(rs.Results) != 1 || !core.IsNilIdent(info, rs.Results[0]) {
			continue
		}
		nNil++
		r.Check(len(g.Bypassing8([]*core.Node{x}, justified)) == 0, rule, f.String(), "nil-unjustified", g.Line(x),
			"`return nil` (no group for t: the point is dropped) is reachable only where the list is empty, t lies outside [earliest, latest], or the search ran to the end of the list")
	}
	r.Check(nNil >= 1, rule, f.String(), "nil-returns:absent", f.Pos(), fmt.Sprintf("%d `return nil` exits", nNil))
	// items[idx] is read only where idx != Len()
	inRange := temps(exhausted(false))
	badAt := ""
	nReads := 0
	for _, n := range g.Nodes {
		if n.N == nil {
			continue
		}
		var reads []ast.Node
		ast.Inspect(n.N, func(x ast.Node) bool {
			switch y := x.(type) {
			case *ast.FuncLit:
				return false
			case *ast.IndexExpr:
				if core.FieldOf(info, y.X) == fItems && core.ObjOf(info, y.Index) == idx {
					reads = append(reads, y)
				}
			}
			return true
		})
		if len(reads) == 0 {
			continue
		}
		nReads += len(reads)
		byEdge := len(g.Bypassing8([]*core.Node{n}, core.ImpliesEdge8(inRange))) == 0
		for _, rd := range reads {
			if byEdge {
				continue
			}
			if c, ok := n.N.(ast.Expr); ok && len(n.Succ) == 2 && core.GuardedWithinM11(c, rd, inRange) {
				continue
			}
			badAt = g.Line(n)
		}
	}
	r.Check(nReads >= 2 && badAt == "", rule, f.String(), "items[idx]-unchecked", f.Pos(), "l.items[idx] is evaluated only where idx != Len() was established (sort.Search answers Len() when every group ends at or before t)"+badAt)
}

// ---------------------------------------------------------------- reload restores what is on the wire

func c18ReloadRestoresM11(p *core.Prog, r *core.Report) {
	const rule = "reload-restores"
	pk := p.Pkg(metaP)
	if pk == nil {
		return
	}
	nCond := 0
	for _, tn := range []string{"Data", "DatabaseInfo", "RetentionPolicyInfo", "ShardGroupInfo", "ShardInfo", "ShardOwner"} {
		f := r.Need(p, metaP, tn+".unmarshal")
		st := core.StructOf(pk.Types, tn)
		if f == nil || st == nil {
			continue
		}
		info, g := f.Info(), f.Graph()
		pb := f.Param(0)
		if pb == nil {
			continue
		}
		fromPB := func(e ast.Expr) bool { // pb, pb.X, pb.GetX(), a local defined from those
			found := false
			var visit func(x ast.Expr, depth int)
			visit = func(x ast.Expr, depth int) {
				ast.Inspect(x, func(n ast.Node) bool {
					if id, ok := n.(*ast.Ident); ok {
						o := info.Uses[id]
						if o == pb {
							found = true
						} else if v, ok := o.(*types.Var); ok && !v.IsField() && depth > 0 && o != nil {
							for _, d := range core.DefsOf(info, f.Decl.Body, o) {
								if d.Rhs != nil {
									visit(d.Rhs, depth-1)
								}
							}
						}
					}
					return !found
				})
			}
			visit(e, 2)
			return found
		}
		// "the wire field is present": non-empty lists, non-nil optionals, non-nil message
		present := core.Leaf10(func(e ast.Expr) (bool, bool) {
			if x, eval, ok := core.LenCmp(info, e); ok && fromPB(x) {
				return eval(1), true
			}
			if x, nonNilOnTrue, ok := core.NilTest(info, e); ok && fromPB(x) {
				return nonNilOnTrue, true
			}
			return false, false
		})
		reach := g.ReachUnder10([]*core.Node{g.Entry}, nil, present)
		all := g.ReachFromEntry(nil, nil)
		for i := 0; i < st.NumFields(); i++ {
			fv := st.Field(i)
			stores := g.Select(g.Assigning(fv))
			if len(stores) == 0 {
				continue
			}
			cond := false
			// a store that is not executed on every path is conditional
			for _, s := range stores {
				if !all[s] {
					continue
				}
				if rr := g.ReachFromEntry(func(n *core.Node) bool { return n == s }, nil); exitReached(g, rr) {
					cond = true
				}
			}
			if !cond {
				continue
			}
			nCond++
			ok := false
			for _, s := range stores {
				if reach[s] {
					ok = true
				}
			}
			r.Check(ok, rule, f.String()+":"+fv.Name(), "not-restored-when-present", g.Line(stores[0]),
				"with the wire field present (non-empty list / non-nil optional) the store of "+tn+"."+fv.Name()+" is reachable")
		}
	}
	r.Check(nCond >= 5, rule, metaP, "conditional-stores:count", "-", fmt.Sprintf("%d conditional field restores examined (>= 5 confirmed by reading)", nCond))

	// Client.load: success without decoding only where the key does not exist
	if f := r.Need(p, metaP, "Client.load"); f != nil {
		info := f.Info()
		okAny := false
		for _, g := range f.Graphs() {
			dec := g.Calling(call(metaP + ".Data.UnmarshalBinary"))
			if len(g.Select(dec)) == 0 {
				continue
			}
			notFound := core.EdgeEstablishing(core.FactThroughTempsM11(info, g.Body, core.CallFact(info, call("errors.Is"), true, func(c *ast.CallExpr) bool {
				if len(c.Args) != 2 {
					return false
				}
				se, ok := ast.Unparen(c.Args[1]).(*ast.SelectorExpr)
				if !ok {
					return false
				}
				v, isVar := info.Uses[se.Sel].(*types.Var)
				return isVar && v.Name() == "ErrKeyNotFound" && v.Pkg() != nil && strings.HasSuffix(v.Pkg().Path(), "/kv")
			})))
			okAny = true
			reach := g.ReachFromEntry(dec, notFound)
			bad := ""
			for _, x := range g.SuccessExits() {
				if reach[x] && !dec(x) {
					bad = g.Line(x)
				}
			}
			r.Check(bad == "", rule, f.String(), "success-without-decoding", f.Pos(), "load reports success without decoding the stored metadata only where Get answered kv.ErrKeyNotFound (otherwise a restart silently starts from empty metadata: every shard group is forgotten)"+bad)
		}
		r.Check(okAny, rule, f.String(), "UnmarshalBinary:absent", f.Pos(), "the stored bytes are decoded")
	}
}

func exitReached(g *core.Graph, reach map[*core.Node]bool) bool {
	for _, x := range g.Exits {
		if reach[x] {
			return true
		}
	}
	return false
}
