package rules

import (
	"fmt"
	"go/ast"
	"go/constant"
	"go/token"
	"go/types"

	"verif/checker/core"
)

const (
	kitioPk8  = "kit/io"
	pointsPk8 = "http/points"
	httpPk8   = "http"
	kithttp8  = "kit/transport/http"
	kiterr8   = "kit/platform/errors"
	storPk8   = "storage"
)

func init() {
	register(&Prop{
		ID:       "C32",
		Patterns: []string{"./kit/io", "./http/points", "./http", "./kit/transport/http", "./storage"},
		Level:    "other",
		Explanation: "Necessary-condition rules for the write API's all-or-nothing contract, decided on CFG paths with type-resolved callees, fields and constants: " +
			"(1) limit-probe (information rule): in kit/io.LimitedReadCloser.Read the store limitExceeded=true must come after a Read of the underlying reader — with N==0 a body of exactly the limit and a longer one cannot be told apart without consulting l.R; reads into the caller's buffer happen only after the buffer was cut to the remaining budget and N is decremented by the bytes read on every path; Close turns the flag into ErrReadLimitExceeded, keeps the underlying Close error and returns l.err on every exit; " +
			"(2) limit-after-gzip: points.BatchReadCloser wraps the reader with NewLimitedReadCloser after (never before) gzip.NewReader on the gzip/x-gzip cases, with its own maxBatchSizeBytes and only when it is > 0, and returns the wrapped reader; " +
			"(3) limit-to-413: readAll closes the body, maps ErrReadLimitExceeded from Close to ErrMaxBatchSizeExceeded and publishes it through the named result; parsePoints answers ETooLarge exactly on that error, EInvalid on a line-protocol parse error, and returns points only where both readAll and ParsePointsWithPrecision returned nil errors; the code→status table maps ETooLarge→413, EInvalid→400, EUnprocessableEntity→422 and is what WriteErrorResponse writes; " +
			"(4) write-order in http.WriteHandler.handleWrite: PointsWriter.WritePoints is reachable only where the permission check and the parse returned nil, it receives the parsed points, WriteHeader(204) is reachable only where WritePoints returned nil, every failure branch passes HandleHTTPError before returning, and a tsdb.PartialWriteError is forwarded as the Err of the response error (it carries the dropped count); decodeWriteRequest hands the handler's maxBatchSizeBytes and the Content-Encoding header to BatchReadCloser; " +
			"(5) storage.LoggingPointsWriter.WritePoints reports success only where the underlying write returned nil (or there was nothing to write).",
		NotCovered:  "sizes around the limit other than the exact-limit case, the text of the 400 body (which lines are named), what models.ParsePointsWithPrecision accepts, and whether the storage engine stores every point it reports as written (C40).",
		Assumptions: []string{"io.ReadAll reads until EOF or error", "models.ParsePointsWithPrecision returns a non-nil error when any line is malformed"},
		Run:         runC32,
	})
}

func runC32(p *core.Prog, r *core.Report, tier string) {
	c32Limited(p, r)
	c32Batch(p, r)
	c32ReadAll(p, r)
	c32ParsePoints(p, r)
	c32StatusMap(p, r)
	c32Handle(p, r)
	c32Logging(p, r)
}

// exitsReachable8 reports the exits of g reachable from start without entering stop nodes.
func exitsReachable8(g *core.Graph, start []*core.Node, stop core.NodePred) []*core.Node {
	reach := g.Reach(start, stop, nil)
	var out []*core.Node
	for _, x := range g.Exits {
		if reach[x] && x.Kind != core.KPanic {
			out = append(out, x)
		}
	}
	return out
}

// ---------------------------------------------------------------- (1) LimitedReadCloser

func c32Limited(p *core.Prog, r *core.Report) {
	const rule = "limit-probe"
	pk := p.Pkg(kitioPk8)
	if pk == nil {
		r.Bad("anchor", kitioPk8, "unresolved", "-", "package not loaded")
		return
	}
	fld := func(n string) *types.Var {
		v := core.LookupField(pk.Types, "LimitedReadCloser", n)
		r.Check(v != nil, "anchor", kitioPk8+".LimitedReadCloser."+n, "unresolved", "-", "field resolved")
		return v
	}
	fR, fN, fErr, fClosed, fExc := fld("R"), fld("N"), fld("err"), fld("closed"), fld("limitExceeded")
	if fR == nil || fN == nil || fErr == nil || fClosed == nil || fExc == nil {
		return
	}
	underRead := core.MethodOnField8(fR, "io.Reader.Read", "io.ReadCloser.Read")
	if f := r.Need(p, kitioPk8, "LimitedReadCloser.Read"); f != nil {
		g := f.Graph()
		info := f.Info()
		// (a) information rule
		stores := g.Select(func(n *core.Node) bool {
			if !g.Assigning(fExc)(n) {
				return false
			}
			as, ok := n.N.(*ast.AssignStmt)
			return !ok || len(as.Rhs) != 1 || !core.IsConstBool8(info, as.Rhs[0], false)
		})
		if r.Check(len(stores) >= 1, rule, f.String(), "limitExceeded-store:absent", f.Pos(), "Read records that the limit was exceeded") {
			reach := g.ReachFromEntry(g.Calling(underRead), nil)
			bad := false
			for _, s := range stores {
				if reach[s] {
					bad = true
					r.Bad(rule, f.String(), "limitExceeded-without-probe", g.Line(s),
						"limitExceeded is set on a path that has not read from the underlying reader: when N reaches 0 a body of exactly the limit is indistinguishable from a longer one, so an exact-limit body is answered 413")
				}
			}
			if !bad {
				r.Ok(rule, f.String(), g.Line(stores[0]), fmt.Sprintf("%d store(s) of limitExceeded, each after a Read of l.R", len(stores)))
			}
		}
		// (b) reads into the caller's buffer are bounded by N
		var pbuf types.Object
		if ps := f.Decl.Type.Params; ps != nil && len(ps.List) == 1 && len(ps.List[0].Names) == 1 {
			pbuf = info.Defs[ps.List[0].Names[0]]
		}
		mainReads := g.Select(func(n *core.Node) bool {
			for _, c := range core.CallsIn(info, n.N, underRead, core.WalkOpts{}) {
				if len(c.Args) == 1 && core.ObjOf(info, c.Args[0]) == pbuf && pbuf != nil {
					return true
				}
			}
			return false
		})
		if r.Check(len(mainReads) >= 1, rule, f.String(), "R.Read(p):absent", f.Pos(), "Read forwards to the underlying reader with the caller's buffer") {
			isLenP := func(e ast.Expr) bool {
				e = ast.Unparen(e)
				if cv, ok := e.(*ast.CallExpr); ok && len(cv.Args) == 1 {
					if tv := info.Types[cv.Fun]; tv.IsType() {
						e = ast.Unparen(cv.Args[0])
					}
				}
				lc, ok := e.(*ast.CallExpr)
				return ok && core.Builtin("len")(info, lc) && len(lc.Args) == 1 && core.ObjOf(info, lc.Args[0]) == pbuf
			}
			fits := core.CmpFactEdge8(func(c core.Cmp8) bool {
				return isLenP(c.L) && core.FieldOf(info, c.R) == fN && (c.Op == token.LEQ || c.Op == token.LSS || c.Op == token.EQL)
			})
			// the truncation p = p[:l.N]
			trunc := func(n *core.Node) bool {
				as, ok := n.N.(*ast.AssignStmt)
				if !ok || len(as.Lhs) != 1 || len(as.Rhs) != 1 || core.ObjOf(info, as.Lhs[0]) != pbuf {
					return false
				}
				se, ok := ast.Unparen(as.Rhs[0]).(*ast.SliceExpr)
				if !ok || core.ObjOf(info, se.X) != pbuf || se.High == nil || core.FieldOf(info, se.High) != fN {
					return false
				}
				if se.Low != nil {
					v, isC := core.IntConst8(info, se.Low)
					return isC && constant.Sign(v) == 0
				}
				return true
			}
			reach := g.ReachFromEntry(trunc, fits)
			bad := false
			for _, m := range mainReads {
				if reach[m] {
					bad = true
				}
			}
			r.Check(!bad, rule, f.String(), "unbounded-read", g.Line(mainReads[0]), "l.R.Read(p) is reached only with len(p) <= l.N (tested, or p cut to p[:l.N]): never more than the remaining budget is consumed")
			// budget positive: main read only where N > 0
			positive := core.CmpFactEdge8(func(c core.Cmp8) bool {
				if core.FieldOf(info, c.L) != fN {
					return false
				}
				k, ok := core.IntConst8(info, c.R)
				if !ok {
					return false
				}
				return (c.Op == token.GTR && constant.Sign(k) >= 0) || (c.Op == token.GEQ && constant.Sign(k) > 0)
			})
			r.Check(len(g.Bypassing8(mainReads, positive)) == 0 && g.HasEdge8(positive), rule, f.String(), "read-at-zero-budget", g.Line(mainReads[0]), "l.R.Read(p) is reached only where l.N > 0")
			// (c) accounting: from the main read every path to an exit passes `l.N -= …n…`
			dec := func(n *core.Node) bool {
				as, ok := n.N.(*ast.AssignStmt)
				return ok && as.Tok == token.SUB_ASSIGN && len(as.Lhs) == 1 && core.FieldOf(info, as.Lhs[0]) == fN
			}
			bad = false
			for _, m := range mainReads {
				if len(exitsReachable8(g, core.After(m, nil), dec)) > 0 {
					bad = true
				}
			}
			r.Check(!bad && len(g.Select(dec)) >= 1, rule, f.String(), "budget-not-decremented", g.Line(mainReads[0]), "after l.R.Read(p) every path decrements l.N before returning")
			// the decrement uses the count returned by that Read
			okCnt := false
			for _, m := range mainReads {
				if as, ok := m.N.(*ast.AssignStmt); ok && len(as.Lhs) == 2 {
					cnt := core.ObjOf(info, as.Lhs[0])
					for _, d := range g.Select(dec) {
						das := d.N.(*ast.AssignStmt)
						ast.Inspect(das.Rhs[0], func(x ast.Node) bool {
							if id, ok := x.(*ast.Ident); ok && cnt != nil && info.Uses[id] == cnt {
								okCnt = true
							}
							return true
						})
					}
				}
			}
			r.Check(okCnt, rule, f.String(), "decrement-operand", g.Line(mainReads[0]), "l.N is decremented by the byte count returned by l.R.Read")
		}
	}
	if f := r.Need(p, kitioPk8, "LimitedReadCloser.Close"); f != nil {
		g := f.Graph()
		info := f.Info()
		errLimit := pk.Types.Scope().Lookup("ErrReadLimitExceeded")
		r.Check(errLimit != nil, "anchor", kitioPk8+".ErrReadLimitExceeded", "unresolved", "-", "sentinel resolved")
		setLimit := g.Select(func(n *core.Node) bool {
			as, ok := n.N.(*ast.AssignStmt)
			return ok && len(as.Lhs) == 1 && len(as.Rhs) == 1 && core.FieldOf(info, as.Lhs[0]) == fErr && core.ObjOf(info, as.Rhs[0]) == errLimit && errLimit != nil
		})
		if r.Check(len(setLimit) == 1, rule, f.String(), "err=ErrReadLimitExceeded:absent", f.Pos(), "Close records ErrReadLimitExceeded in l.err") {
			flagTrue := core.FactEdge8(func(x ast.Expr, v bool) bool { return v && core.FieldOf(info, x) == fExc })
			core.RuleOnlyVia8(r, f, g, rule, "err=ErrReadLimitExceeded", "l.limitExceeded", func(n *core.Node) bool { return n == setLimit[0] }, flagTrue, 1)
			// from the flag-true edge every path to an exit passes the assignment
			bad := false
			for _, n := range g.Nodes {
				for _, e := range n.Succ {
					if flagTrue(e) && len(exitsReachable8(g, []*core.Node{e.To}, func(x *core.Node) bool { return x == setLimit[0] })) > 0 {
						bad = true
					}
				}
			}
			r.Check(!bad, rule, f.String(), "flag-ignored", g.Line(setLimit[0]), "whenever the flag is set Close records ErrReadLimitExceeded before returning")
			// the flag test happens on every path (before the already-closed shortcut)
			reach := g.ReachFromEntry(func(n *core.Node) bool {
				for _, e := range n.Succ {
					if flagTrue(e) {
						return true
					}
				}
				return false
			}, nil)
			bad = false
			for _, x := range g.Exits {
				if reach[x] {
					bad = true
				}
			}
			r.Check(!bad, rule, f.String(), "exit-before-flag-test", f.Pos(), "every exit of Close is preceded by the limitExceeded test (also the already-closed shortcut)")
		}
		// every return yields l.err
		okRet := len(g.Exits) > 0
		for _, x := range g.Exits {
			rs, ok := x.N.(*ast.ReturnStmt)
			if !ok || len(rs.Results) != 1 || core.FieldOf(info, rs.Results[0]) != fErr {
				okRet = false
			}
		}
		r.Check(okRet, rule, f.String(), "return-not-l.err", f.Pos(), "every exit of Close returns l.err")
		// the limit error is never overwritten by the underlying close error: other stores to err are guarded by l.err == nil
		for _, n := range g.Select(g.Assigning(fErr)) {
			if len(setLimit) == 1 && n == setLimit[0] {
				continue
			}
			nilErr := core.CmpFactEdge8(func(c core.Cmp8) bool {
				return c.Op == token.EQL && core.FieldOf(info, c.L) == fErr && core.IsNilIdent(info, c.R)
			})
			r.Check(len(g.Bypassing8([]*core.Node{n}, nilErr)) == 0, rule, f.String(), "err-overwritten", g.Line(n), "the underlying Close error is stored only where l.err == nil (the limit error wins)")
		}
		core.RuleHasCall(r, f, rule, "l.R.Close", core.MethodOnField8(fR, "io.Closer.Close", "io.ReadCloser.Close"))
	}
	if f := r.Need(p, kitioPk8, "NewLimitedReadCloser"); f != nil {
		// R and N come from the parameters
		info := f.Info()
		ok := false
		ast.Inspect(f.Decl.Body, func(n ast.Node) bool {
			cl, isCl := n.(*ast.CompositeLit)
			if !isCl {
				return true
			}
			got := map[*types.Var]types.Object{}
			for _, el := range cl.Elts {
				if kv, isKV := el.(*ast.KeyValueExpr); isKV {
					if id, isId := kv.Key.(*ast.Ident); isId {
						if fv, isVar := info.Uses[id].(*types.Var); isVar {
							got[fv] = core.ObjOf(info, kv.Value)
						}
					}
				}
			}
			ps := f.Obj.Type().(*types.Signature).Params()
			if ps.Len() == 2 && got[fR] == ps.At(0) && got[fN] == ps.At(1) {
				ok = true
			}
			return true
		})
		r.Check(ok, rule, f.String(), "ctor-fields", f.Pos(), "NewLimitedReadCloser(r, n) stores r in R and n in N")
	}
}

// ---------------------------------------------------------------- (2) BatchReadCloser

func strConst8(info *types.Info, e ast.Expr) (string, bool) {
	tv, ok := info.Types[e]
	if !ok || tv.Value == nil || tv.Value.Kind() != constant.String {
		return "", false
	}
	return constant.StringVal(tv.Value), true
}

func c32Batch(p *core.Prog, r *core.Report) {
	const rule = "limit-after-gzip"
	f := r.Need(p, pointsPk8, "BatchReadCloser")
	if f == nil {
		return
	}
	g := f.Graph()
	info := f.Info()
	sig := f.Obj.Type().(*types.Signature)
	if !r.Check(sig.Params().Len() == 3, rule, f.String(), "signature", f.Pos(), "BatchReadCloser(rc, encoding, maxBatchSizeBytes)") {
		return
	}
	rc, enc, max := sig.Params().At(0), sig.Params().At(1), sig.Params().At(2)
	gz := call("compress/gzip.NewReader")
	lim := call("kit/io.NewLimitedReadCloser")
	gzN, limN := g.Select(g.Calling(gz)), g.Select(g.Calling(lim))
	if !r.Check(len(gzN) == 1, rule, f.String(), "gzip.NewReader:absent", f.Pos(), "one gzip.NewReader call") ||
		!r.Check(len(limN) == 1, rule, f.String(), "NewLimitedReadCloser:absent", f.Pos(), "one NewLimitedReadCloser call") {
		return
	}
	// data flow through the single variable rc: gzip reads rc and is stored to rc; the limiter reads rc and is stored to rc
	flow := func(n *core.Node, m core.Matcher) (argOK, lhsOK bool, c *ast.CallExpr) {
		as, ok := n.N.(*ast.AssignStmt)
		if !ok || len(as.Rhs) != 1 {
			return
		}
		c, ok = ast.Unparen(as.Rhs[0]).(*ast.CallExpr)
		if !ok || !m(info, c) || len(c.Args) < 1 {
			return false, false, nil
		}
		return core.ObjOf(info, c.Args[0]) == rc, core.ObjOf(info, as.Lhs[0]) == rc, c
	}
	a1, l1, _ := flow(gzN[0], gz)
	a2, l2, lc := flow(limN[0], lim)
	r.Check(a1 && l1, rule, f.String(), "gzip-dataflow", g.Line(gzN[0]), "rc, err = gzip.NewReader(rc): the decompressor replaces the body reader")
	r.Check(a2 && l2, rule, f.String(), "limit-dataflow", g.Line(limN[0]), "rc = NewLimitedReadCloser(rc, …): the limiter wraps whatever rc is at that point")
	if lc != nil && len(lc.Args) == 2 {
		r.Check(core.ObjOf(info, lc.Args[1]) == max, rule, f.String(), "limit-value", g.Line(limN[0]), "the limit is the function's maxBatchSizeBytes parameter")
	}
	// order: the gzip wrapping is never reachable after the limiter was installed
	after := g.Reach(core.After(limN[0], nil), nil, nil)
	r.Check(!after[gzN[0]], rule, f.String(), "gzip-after-limit", g.Line(gzN[0]), "gzip.NewReader is not reachable after NewLimitedReadCloser: the limit counts decompressed bytes")
	// gzip cases: decided under a valuation of the encoding parameter, so a tag
	// switch, an if/else chain, one `a || b` condition, a temporary or a
	// predicate helper all mean the same thing (c32x.go).
	c32GzipCases(p, r, f, g, enc, gzN[0], rule)
	// limiter installed exactly where max > 0, and on every such path
	pos := core.CmpFactEdge8(func(c core.Cmp8) bool {
		if core.ObjOf(info, c.L) != max {
			return false
		}
		k, ok := core.IntConst8(info, c.R)
		return ok && ((c.Op == token.GTR && constant.Sign(k) == 0) || (c.Op == token.GEQ && constant.Compare(k, token.EQL, constant.MakeInt64(1))))
	})
	core.RuleOnlyVia8(r, f, g, rule, "NewLimitedReadCloser", "maxBatchSizeBytes > 0", func(n *core.Node) bool { return n == limN[0] }, pos, 1)
	for _, n := range g.Nodes {
		for _, e := range n.Succ {
			if pos(e) {
				reach := g.Reach([]*core.Node{e.To}, func(x *core.Node) bool { return x == limN[0] }, nil)
				bad := false
				for _, x := range g.SuccessExits() {
					if reach[x] {
						bad = true
					}
				}
				r.Check(!bad, rule, f.String(), "limit-skipped", g.Line(n), "with a positive limit every successful return passes NewLimitedReadCloser")
			}
		}
	}
	// every success exit passes the limit test, and returns rc
	okRet := true
	for _, x := range g.SuccessExits() {
		rs, ok := x.N.(*ast.ReturnStmt)
		if !ok || len(rs.Results) != 2 || core.ObjOf(info, rs.Results[0]) != rc {
			okRet = false
		}
	}
	r.Check(okRet && len(g.SuccessExits()) >= 1, rule, f.String(), "returns-wrapped", f.Pos(), "success returns the (wrapped) rc")
	core.RuleErrorsUsed(r, f, rule, "gzip.NewReader", gz, false, 1)
}

// ---------------------------------------------------------------- (3) readAll / parsePoints / status map

func c32ReadAll(p *core.Prog, r *core.Report) {
	const rule = "limit-to-413"
	f := r.Need(p, pointsPk8, "readAll")
	if f == nil {
		return
	}
	info := f.Info()
	ioPk := p.Pkg(kitioPk8)
	ptPk := p.Pkg(pointsPk8)
	if ioPk == nil || ptPk == nil {
		return
	}
	errLimit := ioPk.Types.Scope().Lookup("ErrReadLimitExceeded")
	errBatch := ptPk.Types.Scope().Lookup("ErrMaxBatchSizeExceeded")
	if !r.Check(errLimit != nil && errBatch != nil, "anchor", "ErrReadLimitExceeded/ErrMaxBatchSizeExceeded", "unresolved", "-", "sentinels resolved") {
		return
	}
	sig := f.Obj.Type().(*types.Signature)
	var rcParam, errRes types.Object
	if sig.Params().Len() == 2 {
		rcParam = sig.Params().At(1)
	}
	if sig.Results().Len() == 2 && sig.Results().At(1).Name() != "" {
		errRes = sig.Results().At(1)
	}
	if !r.Check(rcParam != nil && errRes != nil, rule, f.String(), "signature", f.Pos(), "readAll(ctx, rc) (data, err) with a named error result") {
		return
	}
	// the deferred literal that closes rc
	var lit *ast.FuncLit
	for _, st := range f.Decl.Body.List {
		if d, ok := st.(*ast.DeferStmt); ok {
			if fl, ok := d.Call.Fun.(*ast.FuncLit); ok {
				for _, c := range core.AllCalls(info, fl.Body, call("io.Closer.Close", "io.ReadCloser.Close")) {
					if se, ok := c.Fun.(*ast.SelectorExpr); ok && core.ObjOf(info, se.X) == rcParam {
						lit = fl
					}
				}
			}
		}
	}
	if !r.Check(lit != nil, rule, f.String(), "deferred-close:absent", f.Pos(), "rc.Close() runs in a deferred function at top level (on every exit)") {
		return
	}
	// the defer is registered before ReadAll
	g := f.Graph()
	reachRA := g.ReachFromEntry(func(n *core.Node) bool {
		d, ok := n.N.(*ast.DeferStmt)
		return ok && d.Call.Fun == ast.Expr(lit)
	}, nil)
	for _, n := range g.Select(g.Calling(call("io.ReadAll"))) {
		r.Check(!reachRA[n], rule, f.String(), "read-before-defer", g.Line(n), "the closing defer is registered before the body is read")
	}
	core.RuleMustPass(r, f, rule, "io.ReadAll", call("io.ReadAll"), false)
	lg := f.LitGraph(lit)
	isLimit := core.FactEdge8(func(x ast.Expr, v bool) bool {
		c, ok := x.(*ast.CallExpr)
		if !ok || !v || !call("errors.Is")(info, c) || len(c.Args) != 2 {
			return false
		}
		return selObj8(info, c.Args[1]) == errLimit
	})
	var cerr types.Object
	mapped := lg.Select(func(n *core.Node) bool {
		as, ok := n.N.(*ast.AssignStmt)
		if !ok || len(as.Lhs) != 1 || len(as.Rhs) != 1 || selObj8(info, as.Rhs[0]) != errBatch {
			return false
		}
		cerr = core.ObjOf(info, as.Lhs[0])
		return cerr != nil
	})
	if !r.Check(len(mapped) == 1 && lg.HasEdge8(isLimit), rule, f.String(), "mapping:absent", p.Pos(lit.Pos()), "the deferred close maps errors.Is(cerr, ErrReadLimitExceeded) to ErrMaxBatchSizeExceeded") {
		return
	}
	publish := lg.Select(func(n *core.Node) bool {
		as, ok := n.N.(*ast.AssignStmt)
		return ok && len(as.Lhs) == 1 && len(as.Rhs) == 1 && core.ObjOf(info, as.Lhs[0]) == errRes && core.ObjOf(info, as.Rhs[0]) == cerr
	})
	if !r.Check(len(publish) >= 1, rule, f.String(), "publish:absent", p.Pos(lit.Pos()), "the close error is assigned to the named result") {
		return
	}
	isPub := func(n *core.Node) bool {
		for _, q := range publish {
			if q == n {
				return true
			}
		}
		return false
	}
	// cerr is the result of rc.Close()
	okSrc := false
	for _, a := range core.AssignsTo8(info, lit.Body, cerr) {
		if c, ok := a.Rhs.(*ast.CallExpr); ok && call("io.Closer.Close", "io.ReadCloser.Close")(info, c) {
			okSrc = true
		}
	}
	r.Check(okSrc, rule, f.String(), "cerr-source", p.Pos(lit.Pos()), "the mapped error is the result of rc.Close()")
	bad := false
	for _, n := range lg.Nodes {
		for _, e := range n.Succ {
			if !isLimit(e) {
				continue
			}
			// limit edge -> mapping -> publish on every path to the exit
			if len(exitsReachable8(lg, []*core.Node{e.To}, func(x *core.Node) bool { return x == mapped[0] })) > 0 {
				bad = true
			}
		}
	}
	r.Check(!bad, rule, f.String(), "limit-not-mapped", lg.Line(mapped[0]), "whenever Close reports ErrReadLimitExceeded it is replaced by ErrMaxBatchSizeExceeded")
	r.Check(len(exitsReachable8(lg, core.After(mapped[0], nil), isPub)) == 0, rule, f.String(), "mapped-not-published", lg.Line(mapped[0]), "the mapped error is always assigned to the named result")
	core.RuleOnlyVia8(r, f, lg, rule, "cerr=ErrMaxBatchSizeExceeded", "errors.Is(cerr, ErrReadLimitExceeded)", func(n *core.Node) bool { return n == mapped[0] }, isLimit, 1)
	// the only condition that may suppress the close error is "a read error is already being returned"
	closeFail := lg.NilFactEdge8(func(x ast.Expr) bool { return core.ObjOf(info, x) == cerr }, false)
	errNil := lg.NilFactEdge8(func(x ast.Expr) bool { return core.ObjOf(info, x) == errRes }, true)
	both := func(e *core.Edge) bool { return closeFail(e) && errNil(e) }
	ok2 := false
	for _, n := range lg.Nodes {
		for _, e := range n.Succ {
			if both(e) {
				ok2 = len(exitsReachable8(lg, []*core.Node{e.To}, isPub)) == 0
			}
		}
	}
	r.Check(ok2, rule, f.String(), "close-error-dropped", p.Pos(lit.Pos()), "where Close failed and no read error is pending, every path publishes the close error")
}

// selObj8 resolves `x` or `pkg.x` to its object.
func selObj8(info *types.Info, e ast.Expr) types.Object {
	e = ast.Unparen(e)
	if se, ok := e.(*ast.SelectorExpr); ok {
		return info.Uses[se.Sel]
	}
	return core.ObjOf(info, e)
}

// errorLitCode returns, for `&errors.Error{Code: X, …}`, the expression X and the Err expression.
func errorLitFields8(p *core.Prog, info *types.Info, e ast.Expr) (code, inner ast.Expr, ok bool) {
	e = ast.Unparen(e)
	if u, isU := e.(*ast.UnaryExpr); isU && u.Op == token.AND {
		e = ast.Unparen(u.X)
	}
	cl, isCl := e.(*ast.CompositeLit)
	if !isCl {
		return nil, nil, false
	}
	nt, _ := info.TypeOf(cl).(*types.Named)
	if nt == nil || nt.Obj().Name() != "Error" || nt.Obj().Pkg() == nil || core.Short(nt.Obj().Pkg().Path()) != kiterr8 {
		return nil, nil, false
	}
	for _, el := range cl.Elts {
		if kv, isKV := el.(*ast.KeyValueExpr); isKV {
			if id, isId := kv.Key.(*ast.Ident); isId {
				switch id.Name {
				case "Code":
					code = kv.Value
				case "Err":
					inner = kv.Value
				}
			}
		}
	}
	return code, inner, true
}

func errCodeConst8(p *core.Prog, name string) (types.Object, string) {
	pk := p.Pkg(kiterr8)
	if pk == nil {
		return nil, ""
	}
	c, _ := pk.Types.Scope().Lookup(name).(*types.Const)
	if c == nil {
		return nil, ""
	}
	return c, constant.StringVal(c.Val())
}

func c32ParsePoints(p *core.Prog, r *core.Report) {
	const rule = "limit-to-413"
	f := r.Need(p, pointsPk8, "Parser.parsePoints")
	if f == nil {
		return
	}
	g := f.Graph()
	info := f.Info()
	ptPk := p.Pkg(pointsPk8)
	errBatch := ptPk.Types.Scope().Lookup("ErrMaxBatchSizeExceeded")
	tooLarge, _ := errCodeConst8(p, "ETooLarge")
	invalid, _ := errCodeConst8(p, "EInvalid")
	if !r.Check(errBatch != nil && tooLarge != nil && invalid != nil, "anchor", "ErrMaxBatchSizeExceeded/ETooLarge/EInvalid", "unresolved", "-", "constants resolved") {
		return
	}
	readAll := g.Select(g.Calling(call("http/points.readAll")))
	parse := g.Select(g.Calling(call("models.ParsePointsWithPrecision")))
	if !r.Check(len(readAll) == 1 && len(parse) == 1, rule, f.String(), "calls:absent", f.Pos(), "one readAll and one ParsePointsWithPrecision call") {
		return
	}
	failRA, okRA, has1 := g.ErrEdges(readAll[0])
	// ParsePoints: err tested a few statements later (span bookkeeping in between)
	var okP, failP *core.Edge
	var perr types.Object
	if as, ok := parse[0].N.(*ast.AssignStmt); ok && len(as.Lhs) == 2 {
		perr = core.ObjOf(info, as.Lhs[1])
	}
	for _, n := range g.Nodes {
		for _, e := range n.Succ {
			if perr != nil && g.NilFactEdge8(func(x ast.Expr) bool { return core.ObjOf(info, x) == perr }, false)(e) && g.Reach(core.After(parse[0], nil), nil, nil)[n] {
				failP = e
			}
			if perr != nil && g.NilFactEdge8(func(x ast.Expr) bool { return core.ObjOf(info, x) == perr }, true)(e) && g.Reach(core.After(parse[0], nil), nil, nil)[n] {
				okP = e
			}
		}
	}
	if !r.Check(has1 && okRA != nil && okP != nil && failP != nil, rule, f.String(), "errors-untested", f.Pos(), "the errors of readAll and ParsePointsWithPrecision are tested") {
		return
	}
	// success only where both are nil; the parser input is the data read
	for name, e := range map[string]*core.Edge{"readAll": okRA, "ParsePointsWithPrecision": okP} {
		reach := g.ReachFromEntry(nil, func(x *core.Edge) bool { return x == e })
		bad := false
		for _, x := range g.SuccessExits() {
			if reach[x] {
				bad = true
			}
		}
		r.Check(!bad, rule, f.String(), "success-without-"+name, f.Pos(), "points are returned only where "+name+" returned a nil error")
	}
	r.Check(g.ReachFromEntry(nil, func(x *core.Edge) bool { return x == okRA })[parse[0]] == false, rule, f.String(), "parse-after-failed-read", g.Line(parse[0]), "parsing happens only after a successful read")
	// every non-success exit on a failure branch returns nil points
	for _, x := range g.Exits {
		rs, ok := x.N.(*ast.ReturnStmt)
		if !ok || len(rs.Results) != 2 {
			continue
		}
		isSucc := false
		for _, s := range g.SuccessExits() {
			if s == x {
				isSucc = true
			}
		}
		if !isSucc {
			r.Check(core.IsNilIdent(info, rs.Results[0]), rule, f.String(), "points-with-error", g.Line(x), "an error return carries no points (nothing is written)")
		}
	}
	// the code variable of the read-failure block
	checkBlock := func(fail *core.Edge, what string, wantOn func(codeVar types.Object) bool) {
		// returns reachable from the failure edge before leaving: the first return statements
		reach := g.Reach([]*core.Node{fail.To}, nil, nil)
		n := 0
		for _, x := range g.Exits {
			if !reach[x] {
				continue
			}
			rs, ok := x.N.(*ast.ReturnStmt)
			if !ok || len(rs.Results) != 2 {
				continue
			}
			code, inner, isLit := errorLitFields8(p, info, rs.Results[1])
			if !isLit {
				continue
			}
			n++
			cv := core.ObjOf(info, code)
			r.Check(cv != nil && wantOn(cv), rule, f.String(), what, g.Line(x), what+": the returned *errors.Error carries the expected Code")
			_ = inner
		}
		r.Check(n >= 1, rule, f.String(), what+":absent", f.Pos(), "the failure branch returns an *errors.Error literal")
	}
	// read failure: code is ETooLarge exactly under errors.Is(err, ErrMaxBatchSizeExceeded)
	isBatch := core.FactEdge8(func(x ast.Expr, v bool) bool {
		c, ok := x.(*ast.CallExpr)
		return ok && v && call("errors.Is")(info, c) && len(c.Args) == 2 && selObj8(info, c.Args[1]) == errBatch
	})
	checkBlock(failRA, "read-failure-code", func(cv types.Object) bool {
		var setTL []*core.Node
		okAll := true
		for _, a := range core.AssignsTo8(info, f.Decl.Body, cv) {
			if a.Rhs == nil {
				okAll = false
				continue
			}
			if selObj8(info, a.Rhs) == tooLarge {
				if n := g.NodeOf(a.Stmt); n != nil {
					setTL = append(setTL, n)
				}
			}
		}
		if !okAll || len(setTL) != 1 || !g.HasEdge8(isBatch) {
			return false
		}
		// only under the errors.Is edge …
		if len(g.Bypassing8(setTL, isBatch)) > 0 {
			return false
		}
		// … and always under it, with no later overwrite
		for _, n := range g.Nodes {
			for _, e := range n.Succ {
				if isBatch(e) && len(exitsReachable8(g, []*core.Node{e.To}, func(x *core.Node) bool { return x == setTL[0] })) > 0 {
					return false
				}
			}
		}
		for x := range g.Reach(core.After(setTL[0], nil), nil, nil) {
			if as, ok := x.N.(*ast.AssignStmt); ok {
				for _, l := range as.Lhs {
					if core.ObjOf(info, l) == cv {
						return false
					}
				}
			}
		}
		return true
	})
	// parse failure: code is EInvalid on every assignment
	checkBlock(failP, "parse-failure-code", func(cv types.Object) bool {
		as := core.AssignsTo8(info, f.Decl.Body, cv)
		if len(as) == 0 {
			return false
		}
		for _, a := range as {
			if a.Rhs == nil || selObj8(info, a.Rhs) != invalid {
				return false
			}
		}
		return true
	})
	// Parse delegates
	if pf := r.Need(p, pointsPk8, "Parser.Parse"); pf != nil {
		core.RuleMustPass(r, pf, rule, "parsePoints", call("http/points.Parser.parsePoints"), false)
	}
}

func c32StatusMap(p *core.Prog, r *core.Report) {
	const rule = "status-table"
	pk := p.Pkg(kithttp8)
	if pk == nil {
		r.Bad("anchor", kithttp8, "unresolved", "-", "package not loaded")
		return
	}
	tbl, _ := pk.Types.Scope().Lookup("influxDBErrorToStatusCode").(*types.Var)
	if !r.Check(tbl != nil, "anchor", kithttp8+".influxDBErrorToStatusCode", "unresolved", "-", "table resolved") {
		return
	}
	want := map[string]int64{}
	for name, st := range map[string]int64{"ETooLarge": 413, "EInvalid": 400, "EUnprocessableEntity": 422} {
		_, v := errCodeConst8(p, name)
		if r.Check(v != "", "anchor", kiterr8+"."+name, "unresolved", "-", "code constant resolved") {
			want[v] = st
		}
	}
	got := map[string]int64{}
	var lit *ast.CompositeLit
	for _, file := range pk.Syntax {
		ast.Inspect(file, func(n ast.Node) bool {
			vs, ok := n.(*ast.ValueSpec)
			if !ok {
				return true
			}
			for i, nm := range vs.Names {
				if pk.TypesInfo.Defs[nm] == tbl && i < len(vs.Values) {
					lit, _ = vs.Values[i].(*ast.CompositeLit)
				}
			}
			return true
		})
	}
	if !r.Check(lit != nil, rule, kithttp8+".influxDBErrorToStatusCode", "literal:absent", "-", "the table is a composite literal") {
		return
	}
	dup := false
	for _, el := range lit.Elts {
		kv, ok := el.(*ast.KeyValueExpr)
		if !ok {
			continue
		}
		k, ok1 := strConst8(pk.TypesInfo, kv.Key)
		v, ok2 := core.IntConst8(pk.TypesInfo, kv.Value)
		if ok1 && ok2 {
			if _, d := got[k]; d {
				dup = true
			}
			got[k], _ = constant.Int64Val(v)
		}
	}
	r.Check(!dup && len(got) >= 10, rule, kithttp8+".influxDBErrorToStatusCode", "entries:count", p.Pos(lit.Pos()), fmt.Sprintf("%d constant entries", len(got)))
	for code, st := range want {
		r.Check(got[code] == st, rule, kithttp8+".influxDBErrorToStatusCode", "entry:"+code, p.Pos(lit.Pos()), fmt.Sprintf("code %q maps to HTTP %d (found %d)", code, st, got[code]))
	}
	// the table is never written after initialisation
	writes := 0
	for _, f := range p.Funcs(kithttp8) {
		if f.Decl.Body == nil {
			continue
		}
		ast.Inspect(f.Decl.Body, func(n ast.Node) bool {
			switch s := n.(type) {
			case *ast.AssignStmt:
				for _, l := range s.Lhs {
					b := l
					if ix, ok := ast.Unparen(l).(*ast.IndexExpr); ok {
						b = ix.X
					}
					if core.ObjOf(f.Info(), b) == tbl {
						writes++
					}
				}
			case *ast.CallExpr:
				if (core.Builtin("delete")(f.Info(), s) || core.Builtin("clear")(f.Info(), s)) && len(s.Args) > 0 && core.ObjOf(f.Info(), s.Args[0]) == tbl {
					writes++
				}
			}
			return true
		})
	}
	r.Check(writes == 0, rule, kithttp8+".influxDBErrorToStatusCode", "mutated", "-", "the table is not modified by any function of the package")
	// lookup chain
	if f := r.Need(p, kithttp8, "ErrorCodeToStatusCode"); f != nil {
		info := f.Info()
		var codeParam types.Object
		if ps := f.Obj.Type().(*types.Signature).Params(); ps.Len() == 2 {
			codeParam = ps.At(1)
		}
		ok := false
		var res types.Object
		ast.Inspect(f.Decl.Body, func(n ast.Node) bool {
			if as, isAs := n.(*ast.AssignStmt); isAs && len(as.Rhs) == 1 && len(as.Lhs) == 2 {
				if ix, isIx := ast.Unparen(as.Rhs[0]).(*ast.IndexExpr); isIx && core.ObjOf(info, ix.X) == tbl && core.ObjOf(info, ix.Index) == codeParam {
					ok = true
					res = core.ObjOf(info, as.Lhs[0])
				}
			}
			return true
		})
		r.Check(ok, rule, f.String(), "lookup:absent", f.Pos(), "the status is looked up in the table by the code parameter")
		ret := false
		for _, x := range f.Graph().Exits {
			if rs, isRet := x.N.(*ast.ReturnStmt); isRet && len(rs.Results) == 1 && core.ObjOf(info, rs.Results[0]) == res && res != nil {
				ret = true
			}
		}
		r.Check(ret, rule, f.String(), "lookup-unused", f.Pos(), "the looked-up status is returned")
	}
	if f := r.Need(p, kithttp8, "WriteErrorResponse"); f != nil {
		info := f.Info()
		ok := false
		for _, c := range core.AllCalls(info, f.Decl.Body, call("net/http.ResponseWriter.WriteHeader")) {
			if len(c.Args) == 1 {
				if ic, isCall := ast.Unparen(c.Args[0]).(*ast.CallExpr); isCall && call("kit/transport/http.ErrorCodeToStatusCode")(info, ic) && len(ic.Args) == 2 {
					if ps := f.Obj.Type().(*types.Signature).Params(); ps.Len() == 4 && core.ObjOf(info, ic.Args[1]) == ps.At(2) {
						ok = true
					}
				}
			}
		}
		r.Check(ok, rule, f.String(), "WriteHeader-arg", f.Pos(), "WriteHeader(ErrorCodeToStatusCode(ctx, code)) with the function's code parameter")
	}
	if f := r.Need(p, kithttp8, "ErrorHandler.HandleHTTPError"); f != nil {
		info := f.Info()
		ok := false
		var codeVar types.Object
		ast.Inspect(f.Decl.Body, func(n ast.Node) bool {
			if as, isAs := n.(*ast.AssignStmt); isAs && len(as.Lhs) == 1 && len(as.Rhs) == 1 {
				if c, isCall := as.Rhs[0].(*ast.CallExpr); isCall && call("kit/platform/errors.ErrorCode")(info, c) && len(c.Args) == 1 {
					if core.ObjOf(info, c.Args[0]) == f.Obj.Type().(*types.Signature).Params().At(1) {
						codeVar = core.ObjOf(info, as.Lhs[0])
					}
				}
			}
			return true
		})
		for _, c := range core.AllCalls(info, f.Decl.Body, call("kit/transport/http.WriteErrorResponse")) {
			if len(c.Args) == 4 && codeVar != nil && core.ObjOf(info, c.Args[2]) == codeVar && len(core.AssignsTo8(info, f.Decl.Body, codeVar)) == 1 {
				ok = true
			}
		}
		r.Check(ok, rule, f.String(), "code-flow", f.Pos(), "HandleHTTPError writes the response with code = errors.ErrorCode(err)")
	}
}

// ---------------------------------------------------------------- (4) handleWrite

func c32Handle(p *core.Prog, r *core.Report) {
	const rule = "write-order"
	f := r.Need(p, httpPk8, "WriteHandler.handleWrite")
	if f == nil {
		return
	}
	g := f.Graph()
	info := f.Info()
	write := call("storage.PointsWriter.WritePoints")
	perm := call("http.checkBucketWritePermissions")
	parse := call("http/points.Parser.Parse")
	decode := call("http.decodeWriteRequest")
	handle := call("kit/platform/errors.HTTPErrorHandler.HandleHTTPError")
	wn, pn, an, dn := g.Select(g.Calling(write)), g.Select(g.Calling(perm)), g.Select(g.Calling(parse)), g.Select(g.Calling(decode))
	if !r.Check(len(wn) == 1 && len(pn) == 1 && len(an) == 1 && len(dn) == 1, rule, f.String(), "calls:absent", f.Pos(),
		fmt.Sprintf("one call each of WritePoints(%d) checkBucketWritePermissions(%d) Parser.Parse(%d) decodeWriteRequest(%d)", len(wn), len(pn), len(an), len(dn))) {
		return
	}
	type step struct {
		name string
		n    *core.Node
	}
	steps := []step{{"decodeWriteRequest", dn[0]}, {"checkBucketWritePermissions", pn[0]}, {"Parser.Parse", an[0]}, {"WritePoints", wn[0]}}
	for _, n := range g.Select(g.Calling(call("context.GetAuthorizer", "http.queryOrganization", "http.WriteHandler.findBucket"))) {
		steps = append(steps, step{"lookup", n})
	}
	okEdge := map[string]*core.Edge{}
	for _, s := range steps {
		fail, ok, has := g.ErrEdges(s.n)
		if !r.Check(has && ok != nil, rule, f.String(), s.name+":unchecked", g.Line(s.n), "the error of "+s.name+" is tested") {
			continue
		}
		okEdge[s.name] = ok
		// failure branch: HandleHTTPError before any exit
		ex := exitsReachable8(g, []*core.Node{fail.To}, g.Calling(handle))
		r.Check(len(ex) == 0, rule, f.String(), s.name+"-failure-unreported", g.Line(s.n), "a failed "+s.name+" always passes HandleHTTPError before returning")
		// and never reaches the write / the 204
		if s.name != "WritePoints" {
			r.Check(!g.Reach([]*core.Node{fail.To}, nil, nil)[wn[0]], rule, f.String(), "write-after-failed-"+s.name, g.Line(s.n), "WritePoints is not reachable from the failure branch of "+s.name)
		}
	}
	for _, name := range []string{"checkBucketWritePermissions", "Parser.Parse"} {
		e := okEdge[name]
		if e == nil {
			continue
		}
		reach := g.ReachFromEntry(nil, func(x *core.Edge) bool { return x == e })
		r.Check(!reach[wn[0]], rule, f.String(), "write-without-"+name, g.Line(wn[0]), "WritePoints is reachable only where "+name+" returned nil")
	}
	// 204 only after a nil WritePoints
	noContent := g.Select(func(n *core.Node) bool {
		for _, c := range core.CallsIn(info, n.N, call("*.WriteHeader"), core.WalkOpts{}) {
			if len(c.Args) == 1 {
				if v, ok := core.IntConst8(info, c.Args[0]); ok && constant.Compare(v, token.EQL, constant.MakeInt64(204)) {
					return true
				}
			}
		}
		return false
	})
	if r.Check(len(noContent) >= 1, rule, f.String(), "WriteHeader(204):absent", f.Pos(), "WriteHeader(204) present") {
		if e := okEdge["WritePoints"]; e != nil {
			reach := g.ReachFromEntry(nil, func(x *core.Edge) bool { return x == e })
			for _, nc := range noContent {
				r.Check(!reach[nc], rule, f.String(), "204-without-write", g.Line(nc), "204 is written only where WritePoints returned nil")
			}
		}
		// no other success status is written by this function
		others := 0
		for _, c := range core.AllCalls(info, f.Decl.Body, call("*.WriteHeader")) {
			if len(c.Args) == 1 {
				if v, ok := core.IntConst8(info, c.Args[0]); ok && !constant.Compare(v, token.EQL, constant.MakeInt64(204)) {
					others++
				}
			}
		}
		r.Check(others == 0, rule, f.String(), "other-status", f.Pos(), "handleWrite writes no status other than 204 itself (errors go through HandleHTTPError)")
	}
	// the points written are the parsed ones; the parser reads the decoded body
	var parsed, req types.Object
	if as, ok := an[0].N.(*ast.AssignStmt); ok && len(as.Lhs) == 2 {
		parsed = core.ObjOf(info, as.Lhs[0])
	}
	if as, ok := dn[0].N.(*ast.AssignStmt); ok && len(as.Lhs) == 2 {
		req = core.ObjOf(info, as.Lhs[0])
	}
	okPts, okBody := false, false
	for _, c := range core.CallsIn(info, wn[0].N, write, core.WalkOpts{}) {
		if len(c.Args) == 4 {
			if se, ok := ast.Unparen(c.Args[3]).(*ast.SelectorExpr); ok && se.Sel.Name == "Points" && core.ObjOf(info, se.X) == parsed && parsed != nil {
				okPts = true
			}
		}
	}
	for _, c := range core.CallsIn(info, an[0].N, parse, core.WalkOpts{}) {
		if len(c.Args) == 4 {
			if se, ok := ast.Unparen(c.Args[3]).(*ast.SelectorExpr); ok && se.Sel.Name == "Body" && core.ObjOf(info, se.X) == req && req != nil {
				okBody = true
			}
		}
	}
	r.Check(okPts, rule, f.String(), "written-points", g.Line(wn[0]), "WritePoints receives parsed.Points of the Parse result")
	r.Check(okBody, rule, f.String(), "parsed-body", g.Line(an[0]), "Parse reads req.Body of the decoded (limited, decompressed) request")
	// the limit handed to decodeWriteRequest is the handler's configured one
	hb := core.LookupField(f.Pkg.Types, "WriteHandler", "maxBatchSizeBytes")
	okLim := false
	for _, c := range core.CallsIn(info, dn[0].N, decode, core.WalkOpts{}) {
		if len(c.Args) == 3 && hb != nil && core.FieldOf(info, c.Args[2]) == hb {
			okLim = true
		}
	}
	r.Check(okLim, rule, f.String(), "limit-arg", g.Line(dn[0]), "decodeWriteRequest receives h.maxBatchSizeBytes")
	// partial write error forwarded
	tsdbPk := p.Pkg("tsdb")
	var pwe types.Type
	if tsdbPk != nil {
		if o := tsdbPk.Types.Scope().Lookup("PartialWriteError"); o != nil {
			pwe = o.Type()
		}
	}
	if r.Check(pwe != nil, "anchor", "tsdb.PartialWriteError", "unresolved", "-", "type resolved") {
		var werr types.Object
		if as, ok := wn[0].N.(*ast.AssignStmt); ok && len(as.Lhs) == 1 {
			werr = core.ObjOf(info, as.Lhs[0])
		}
		fwd, generic := c32WriteErrorForwarded(p, f, g, handle, pwe, werr)
		r.Check(fwd, rule, f.String(), "partial-write-not-forwarded", g.Line(wn[0]), "a tsdb.PartialWriteError is passed on as Err of an EUnprocessableEntity response (the message states the dropped count)")
		// every other write failure also carries the error
		r.Check(generic, rule, f.String(), "write-error-not-forwarded", g.Line(wn[0]), "any other WritePoints error is passed on as Err of the response")
	}
	// decodeWriteRequest
	if d := r.Need(p, httpPk8, "decodeWriteRequest"); d != nil {
		dinfo := d.Info()
		brc := call("http/points.BatchReadCloser")
		core.RuleMustPass(r, d, rule, "BatchReadCloser", brc, false)
		core.RuleErrorsUsed(r, d, rule, "BatchReadCloser", brc, false, 1)
		ps := d.Obj.Type().(*types.Signature).Params()
		okArgs := false
		var bodyVar types.Object
		ast.Inspect(d.Decl.Body, func(n ast.Node) bool {
			as, ok := n.(*ast.AssignStmt)
			if !ok || len(as.Rhs) != 1 || len(as.Lhs) != 2 {
				return true
			}
			c, ok := as.Rhs[0].(*ast.CallExpr)
			if !ok || !brc(dinfo, c) || len(c.Args) != 3 {
				return true
			}
			bodyVar = core.ObjOf(dinfo, as.Lhs[0])
			// arg0 is r.Body of the request parameter, arg2 the limit parameter, arg1 from Header.Get("Content-Encoding")
			se, isSel := ast.Unparen(c.Args[0]).(*ast.SelectorExpr)
			a0 := isSel && se.Sel.Name == "Body" && ps.Len() == 3 && core.ObjOf(dinfo, se.X) == ps.At(1)
			a2 := ps.Len() == 3 && core.ObjOf(dinfo, c.Args[2]) == ps.At(2)
			a1 := false
			if ev := core.ObjOf(dinfo, c.Args[1]); ev != nil {
				for _, a := range core.AssignsTo8(dinfo, d.Decl.Body, ev) {
					if hc, ok := a.Rhs.(*ast.CallExpr); ok && call("net/http.Header.Get")(dinfo, hc) && len(hc.Args) == 1 {
						if s, ok := strConst8(dinfo, hc.Args[0]); ok && s == "Content-Encoding" {
							a1 = true
						}
					}
				}
			}
			okArgs = a0 && a1 && a2
			return true
		})
		r.Check(okArgs, rule, d.String(), "BatchReadCloser-args", d.Pos(), "BatchReadCloser(r.Body, Content-Encoding header, maxBatchSizeBytes parameter)")
		// the request's Body is that reader
		okBody := false
		ast.Inspect(d.Decl.Body, func(n ast.Node) bool {
			if kv, ok := n.(*ast.KeyValueExpr); ok {
				if id, ok := kv.Key.(*ast.Ident); ok && id.Name == "Body" && bodyVar != nil && core.ObjOf(dinfo, kv.Value) == bodyVar {
					okBody = true
				}
			}
			return true
		})
		r.Check(okBody, rule, d.String(), "request-body", d.Pos(), "writeRequest.Body is the reader returned by BatchReadCloser")
	}
	// checkBucketWritePermissions: nil only where the permission is allowed
	if c := r.Need(p, httpPk8, "checkBucketWritePermissions"); c != nil {
		cg := c.Graph()
		cinfo := c.Info()
		allowed := cg.CallFactEdge8(call("*.PermissionSet.Allowed", "*.Allowed"), true)
		core.RuleOnlyVia8(r, c, cg, rule, "success-exit", "pset.Allowed(p)", cg.SuccessExitPred8(), allowed, 1)
		psetOK := cg.NilFactEdge8(func(x ast.Expr) bool { return core.IsErrorType(cinfo.TypeOf(x)) }, true)
		core.RuleOnlyVia8(r, c, cg, rule, "success-exit/PermissionSet", "PermissionSet() error nil", cg.SuccessExitPred8(), psetOK, 1)
		// the permission is a write permission on the bucket
		okP := false
		for _, cc := range core.AllCalls(cinfo, c.Decl.Body, call("*.NewPermissionAtID")) {
			if len(cc.Args) == 4 {
				a := selObj8(cinfo, cc.Args[1])
				b := selObj8(cinfo, cc.Args[2])
				okP = a != nil && a.Name() == "WriteAction" && b != nil && b.Name() == "BucketsResourceType" &&
					core.ObjOf(cinfo, cc.Args[0]) == c.Obj.Type().(*types.Signature).Params().At(2)
			}
		}
		r.Check(okP, rule, c.String(), "permission-kind", c.Pos(), "the permission tested is WriteAction on BucketsResourceType at the bucket id")
	}
}

// ---------------------------------------------------------------- (5) LoggingPointsWriter

func c32Logging(p *core.Prog, r *core.Report) {
	const rule = "write-order"
	f := r.Need(p, storPk8, "LoggingPointsWriter.WritePoints")
	if f == nil {
		return
	}
	g := f.Graph()
	info := f.Info()
	under := call("storage.PointsWriter.WritePoints")
	un := g.Select(g.Calling(under))
	if !r.Check(len(un) >= 1, rule, f.String(), "Underlying.WritePoints:absent", f.Pos(), "delegates to the underlying writer") {
		return
	}
	var werr types.Object
	if as, ok := un[0].N.(*ast.AssignStmt); ok && len(as.Lhs) == 1 {
		werr = core.ObjOf(info, as.Lhs[0])
	}
	pts := f.Obj.Type().(*types.Signature).Params().At(3)
	gate := core.OrEdge8(
		g.NilFactEdge8(func(x ast.Expr) bool { return werr != nil && core.ObjOf(info, x) == werr }, true),
		core.CmpFactEdge8(func(c core.Cmp8) bool {
			lc, ok := c.L.(*ast.CallExpr)
			if !ok || !core.Builtin("len")(info, lc) || core.ObjOf(info, lc.Args[0]) != pts || c.Op != token.EQL {
				return false
			}
			k, ok := core.IntConst8(info, c.R)
			return ok && constant.Sign(k) == 0
		}))
	core.RuleOnlyVia8(r, f, g, rule, "success-exit", "underlying WritePoints returned nil (or no points)", g.SuccessExitPred8(), gate, 1)
}
