package rules

import (
	"fmt"
	"go/ast"
	"go/token"
	"go/types"

	"verif/checker/core"
)

// C08 extension (rw12): rebuilding the in-memory tombstone state on open.
//
// TSMReader.applyTombstones walks the tombstone file and applies the recorded
// (key, Min, Max) triples to the index in batches: keys are collected in a local
// slice and handed to index.DeleteRange together with ONE time range. "Tombstones
// hide exactly the recorded ranges … persist across reopen" therefore needs the
// batch invariant
//     every key in the batch was recorded with the range (prev.Min, prev.Max)
// which the code maintains by flushing the batch whenever the walked tombstone's
// range differs from the range of the keys collected so far. The rules decide
// the mechanism, not the values: a key is added to a non-empty batch only on
// paths that establish equality of EVERY component of the range with the range
// the batch will be applied with, the range variable follows the key that was
// added, a batch is cleared only after it was applied, the range handed to
// DeleteRange is the (Min, Max) pair of one tracked tombstone and the remainder
// is applied after the walk.

func init() {
	extend("C08",
		"(6) tombstone-apply: in TSMReader.applyTombstones the walked key is added to a non-empty batch only on paths establishing prev.Min == ts.Min AND prev.Max == ts.Max (checked per component: otherwise the batch is flushed and cleared first, or is empty), the variable holding the batch's range is assigned from the walked tombstone after every accumulation and never before it, the batch is cleared only after index.DeleteRange(batch, …), every DeleteRange gets (batch, X.Min, X.Max) of one tracked tombstone (the batch's range variable before the accumulation), the accumulated key is the walked tombstone's Key, and after a successful Walk a non-empty batch reaches DeleteRange before the function reports success.",
		nil, runC08x12)
}

func runC08x12(p *core.Prog, r *core.Report, tier string) {
	const rule = "tombstone-apply"
	f := r.Need(p, tsm1, "TSMReader.applyTombstones")
	if f == nil {
		return
	}
	pk := p.Pkg(tsm1)
	info := f.Info()
	g := f.Graph()
	name := f.String()
	minF := core.LookupField(pk.Types, "Tombstone", "Min")
	maxF := core.LookupField(pk.Types, "Tombstone", "Max")
	keyF := core.LookupField(pk.Types, "Tombstone", "Key")
	if !r.Check(minF != nil && maxF != nil && keyF != nil, "anchor", tsm1+".Tombstone.Key/Min/Max", "unresolved", "-", "fields resolved") {
		return
	}
	walkM := call(tsm1 + ".Tombstoner.Walk")
	delM := call(tsm1+".TSMIndex.DeleteRange", tsm1+".indirectIndex.DeleteRange")

	// ---- the Walk callback
	var lit *ast.FuncLit
	walkNodes := g.Select(g.Calling(walkM))
	if len(walkNodes) == 1 {
		for _, c := range core.CallsIn(info, walkNodes[0].N, walkM, core.WalkOpts{}) {
			if len(c.Args) == 1 {
				lit, _ = ast.Unparen(c.Args[0]).(*ast.FuncLit)
			}
		}
	}
	if !r.Check(lit != nil && lit.Type.Params != nil && len(lit.Type.Params.List) == 1 && len(lit.Type.Params.List[0].Names) == 1, rule, name, "walk-callback:absent", f.Pos(), "one Tombstoner.Walk call with a function literal taking the walked tombstone") {
		return
	}
	ts := info.Defs[lit.Type.Params.List[0].Names[0]]
	lg := f.LitGraph(lit)

	// ---- DeleteRange calls and the batch variable
	dels := core.AllCalls(info, f.Decl.Body, delM)
	var batch types.Object
	okBatch := len(dels) >= 2
	for _, c := range dels {
		if len(c.Args) != 3 {
			okBatch = false
			continue
		}
		o := core.ObjOf(info, c.Args[0])
		if o == nil || (batch != nil && o != batch) {
			okBatch = false
		}
		if batch == nil {
			batch = o
		}
	}
	if !r.Check(okBatch && batch != nil, rule, name, "batch-variable", f.Pos(), fmt.Sprintf("%d index.DeleteRange call(s), all applying the same local batch slice", len(dels))) {
		return
	}
	isBatch := func(e ast.Expr) bool { return core.ObjOf(info, e) == batch }

	// base of an assignment target / copy destination: x[i], x[i:j], *x -> x
	var base func(e ast.Expr) ast.Expr
	base = func(e ast.Expr) ast.Expr {
		switch t := ast.Unparen(e).(type) {
		case *ast.IndexExpr:
			return base(t.X)
		case *ast.SliceExpr:
			return base(t.X)
		case *ast.StarExpr:
			return base(t.X)
		default:
			return ast.Unparen(e)
		}
	}
	isZero := func(e ast.Expr) bool {
		if e == nil {
			return true
		}
		v, ok := core.ConstInt(info, e)
		return ok && v == 0
	}
	isResetValue := func(e ast.Expr) bool {
		e = ast.Unparen(e)
		if core.IsNilIdent(info, e) {
			return true
		}
		if se, ok := e.(*ast.SliceExpr); ok {
			return isBatch(se.X) && se.High != nil && isZero(se.High) && isZero(se.Low)
		}
		if c, ok := e.(*ast.CallExpr); ok && core.Builtin("make")(info, c) && len(c.Args) >= 2 {
			return isZero(c.Args[1])
		}
		return false
	}
	// classify the nodes that write the batch
	classify := func(n *core.Node) (write, reset bool) {
		switch s := n.N.(type) {
		case *ast.AssignStmt:
			for i, l := range s.Lhs {
				if !isBatch(base(l)) {
					continue
				}
				write = true
				if isBatch(l) && s.Tok == token.ASSIGN && len(s.Lhs) == len(s.Rhs) && isResetValue(s.Rhs[i]) {
					reset = true
				}
			}
		case *ast.ExprStmt:
			if c, ok := ast.Unparen(s.X).(*ast.CallExpr); ok && core.Builtin("copy")(info, c) && len(c.Args) == 2 && isBatch(base(c.Args[0])) {
				write = true
			}
		}
		return
	}
	var accs, resets []*core.Node
	for _, n := range lg.Nodes {
		if n.N == nil {
			continue
		}
		w, z := classify(n)
		switch {
		case w && z:
			resets = append(resets, n)
		case w:
			accs = append(accs, n)
		}
	}
	if !r.Check(len(accs) >= 1, rule, name, "accumulate:absent", p.Pos(lit.Pos()), fmt.Sprintf("the callback adds to the batch (%d writing node(s), %d clearing node(s))", len(accs), len(resets))) {
		return
	}
	inSet := func(ns []*core.Node) core.NodePred {
		m := map[*core.Node]bool{}
		for _, n := range ns {
			m[n] = true
		}
		return func(n *core.Node) bool { return m[n] }
	}
	isAcc, isReset := inSet(accs), inSet(resets)
	entry := []*core.Node{lg.Entry}

	// ---- variables tracking the walked tombstone
	tomb := map[types.Object]bool{ts: true}
	assignsOf := func(v types.Object) []*core.Node { return lg.Select(lg.AssigningObj(v)) }
	for changed := true; changed; {
		changed = false
		for _, n := range lg.Nodes {
			as, ok := n.N.(*ast.AssignStmt)
			if !ok || len(as.Lhs) != len(as.Rhs) {
				continue
			}
			for i, l := range as.Lhs {
				v := core.ObjOf(info, l)
				if v == nil || tomb[v] || !tomb[core.ObjOf(info, as.Rhs[i])] {
					continue
				}
				// every definition of v in the function copies a tracked tombstone
				all := true
				for _, d := range core.DefsOf(info, f.Decl.Body, v) {
					if d.Rhs == nil || d.Index != -1 || !tomb[core.ObjOf(info, d.Rhs)] {
						all = false
					}
				}
				if all {
					tomb[v] = true
					changed = true
				}
			}
		}
	}
	// cur-like: assigned from the walked tombstone before any use in the callback
	// prev-like: assigned only after the accumulation, and after every accumulation
	curLike := map[types.Object]bool{ts: true}
	prevLike := map[types.Object]bool{}
	nilExit := func(n *core.Node) bool {
		if len(n.Succ) != 0 || n.Kind == core.KPanic {
			return false
		}
		rs, ok := n.N.(*ast.ReturnStmt)
		return !ok || len(rs.Results) == 0 || core.IsNilIdent(info, rs.Results[len(rs.Results)-1])
	}
	for v := range tomb {
		if v == ts {
			continue
		}
		as := assignsOf(v)
		if len(as) == 0 {
			continue
		}
		isAs := inSet(as)
		pre := lg.Reach(entry, isAs, nil)
		usedBefore := false
		for n := range pre {
			if n.N != nil && core.Mentions(info, n.N, v) {
				usedBefore = true
			}
		}
		if !usedBefore {
			curLike[v] = true
			continue
		}
		beforeAcc := lg.Reach(entry, isAcc, nil)
		early := false
		for _, a := range as {
			if beforeAcc[a] {
				early = true
			}
		}
		late := false
		after := lg.Reach(core.X1SuccsOf(accs), isAs, nil)
		for n := range after {
			if nilExit(n) {
				late = true
			}
		}
		if !early && !late {
			prevLike[v] = true
		}
	}
	if !r.Check(len(prevLike) >= 1, rule, name, "range-variable", p.Pos(lit.Pos()), "a variable holding the range of the collected keys is assigned from the walked tombstone after every accumulation and never before it") {
		return
	}
	rootIn := func(set map[types.Object]bool, fld *types.Var) func(ast.Expr) bool {
		return func(e ast.Expr) bool {
			se, ok := ast.Unparen(e).(*ast.SelectorExpr)
			return ok && core.FieldOf(info, se) == fld && set[core.ObjOf(info, se.X)]
		}
	}

	// ---- (a) a key joins a non-empty batch only when both range components are equal
	emptyFact := func(a ast.Expr, v bool) bool {
		x, br, ok := core.EmptyOn(info, a)
		return ok && isBatch(x) && br == v
	}
	for _, fld := range []*types.Var{minF, maxF} {
		isPrev, isCur := rootIn(prevLike, fld), rootIn(curLike, fld)
		same := core.CmpFact12(func(l ast.Expr, op token.Token, rr ast.Expr) bool {
			return op == token.EQL && isPrev(l) && isCur(rr)
		})
		reach := lg.Reach(entry, isReset, core.EdgeEstablishing(core.AnyFact(emptyFact, same)))
		var hit *core.Node
		for _, a := range accs {
			if reach[a] && (hit == nil || a.ID < hit.ID) {
				hit = a
			}
		}
		if hit == nil {
			r.Ok(rule, name+":same-"+fld.Name(), p.Pos(lit.Pos()), "a key is added to the batch only after the batch was cleared, found empty, or "+fld.Name()+" of the batch's range was found equal to the walked tombstone's")
		} else {
			r.Bad(rule, name, "batch-mixes-ranges:"+fld.Name(), lg.Line(hit), "the walked key can be added to a non-empty batch on a path that does not establish that the batch's range and the walked tombstone's range have the same "+fld.Name()+": the whole batch is applied with one range, so after reopen earlier keys get the later tombstone's range (too much or too little data hidden)")
		}
	}

	// ---- (b) a batch is cleared only after it was applied
	delOnBatch := func(gr *core.Graph) core.NodePred { return gr.Calling(delM) }
	{
		starts := append([]*core.Node{lg.Entry}, core.X1SuccsOf(accs)...)
		reach := lg.Reach(starts, delOnBatch(lg), nil)
		bad := ""
		for _, z := range resets {
			if reach[z] {
				bad = lg.Line(z)
			}
		}
		r.Check(bad == "", rule, name, "cleared-without-apply", firstNonEmpty12(bad, p.Pos(lit.Pos())), "the batch is cleared only after index.DeleteRange(batch, …) since the last accumulation")
	}

	// ---- (c) arguments of every DeleteRange
	beforeAcc := lg.Reach(entry, isAcc, nil)
	for i, c := range dels {
		a1, ok1 := ast.Unparen(c.Args[1]).(*ast.SelectorExpr)
		a2, ok2 := ast.Unparen(c.Args[2]).(*ast.SelectorExpr)
		ok := ok1 && ok2 && core.FieldOf(info, a1) == minF && core.FieldOf(info, a2) == maxF
		var root types.Object
		if ok {
			root = core.ObjOf(info, a1.X)
			ok = root != nil && root == core.ObjOf(info, a2.X) && (prevLike[root] || curLike[root])
		}
		where := "after the accumulation"
		if ok && c.Pos() >= lit.Pos() && c.End() <= lit.End() {
			if n := lg.NodeOf(c); n != nil && beforeAcc[n] {
				// before the walked key is added the batch holds the previous range
				where = "before the accumulation"
				ok = prevLike[root]
			}
		}
		r.Check(ok, rule, name, fmt.Sprintf("apply-range:%d", i), p.Pos(c.Pos()), "DeleteRange("+batch.Name()+", X.Min, X.Max) with X one tombstone variable that holds the range of the keys in the batch ("+where+")")
	}

	// ---- (d) the accumulated key is the walked tombstone's key
	keyOK := false
	isKey := rootIn(curLike, keyF)
	for _, a := range accs {
		ast.Inspect(a.N, func(x ast.Node) bool {
			if e, ok := x.(ast.Expr); ok && isKey(e) {
				keyOK = true
			}
			return true
		})
	}
	r.Check(keyOK, rule, name, "accumulate-key", lg.Line(accs[0]), "the key written into the batch is the walked tombstone's Key")

	// ---- (e) the remainder is applied after the walk
	if len(walkNodes) == 1 {
		_, succ, ok := g.ErrEdges(walkNodes[0])
		if !r.Check(ok && succ != nil, rule, name, "walk-error:unchecked", g.Line(walkNodes[0]), "the error of Tombstoner.Walk is tested") {
			return
		}
		emptyEdge := core.EdgeEstablishing(emptyFact)
		reach := g.Reach([]*core.Node{succ.To}, delOnBatch(g), emptyEdge)
		bad := ""
		for _, x := range g.SuccessExits() {
			if reach[x] {
				bad = g.Line(x)
			}
		}
		r.Check(bad == "", rule, name, "final-flush", firstNonEmpty12(bad, f.Pos()), "after a successful Walk a non-empty batch reaches index.DeleteRange before the function reports success")
	}
}
