package rules

import (
	"fmt"
	"go/ast"
	"go/constant"
	"go/token"
	"go/types"

	"verif/checker/core"
)

const (
	coordPkg = "task/backend/coordinator"
	mwPkg    = "task/backend/middleware"
	backPkg  = "task/backend"
	tmPkg    = "task/taskmodel"
)

func init() {
	register(&Prop{
		ID:       "C25",
		Patterns: []string{"./task/backend/coordinator", "./task/backend/middleware", "./task/backend"},
		Level:    "other",
		Explanation: "CFG dependence rules on the coordinator's status→action behaviour. The comparisons of Task.Status with the TaskActive/TaskInactive constants (==, !=, switch cases, through one-assignment local aliases) are evaluated under an assumed status of the task parameters and the contradicting CFG edges are removed; on what remains: " +
			"(1) status-gate: in Coordinator.TaskCreated no Scheduler.Schedule call is reachable when the task is inactive, and every success exit passes Schedule when it is active; in Coordinator.TaskUpdated no Schedule is reachable when `to` is inactive, every success exit passes Release on active→inactive, every success exit passes Schedule when `to` is active and no Release follows that Schedule; Coordinator.TaskDeleted passes Release on every success exit; errors of Schedule/Release are propagated; " +
			"(2) latest-schedule: the Schedulable handed to Schedule is built by NewSchedulableTask from the created task / from `to` (not `from`); " +
			"(3) existing-tasks: in NotifyCoordinatorOfExisting and TaskNotifyCoordinatorOfExisting no TaskCreated call is reachable when the listed tasks are inactive; " +
			"(4) coordinating service order: CreateTask stores before it notifies (no notification after a failed store), every success exit notified, a failed notification passes the clean-up DeleteTask; UpdateTask reads the old task before updating, updates before notifying, hands (old, new) in that order; DeleteTask releases (TaskDeleted) before deleting and does not delete after a failed release.",
		NotCovered:  "that the middleware is the only writer of tasks (other TaskService decorators, direct kv writes), the scheduler's own behaviour (C24), status strings other than active/inactive, concurrency between API calls, the exhaustive decision-table form (engine E9).",
		Assumptions: []string{"Task.Status is either \"active\" or \"inactive\" (validated by the task service)"},
		Run:         runC25,
	})
}

// statusEnv evaluates comparisons of Task.Status under an assumed status of
// some *Task-typed variables.
type statusEnv struct {
	g      *core.Graph
	status *types.Var                             // taskmodel.Task.Status
	val    func(base types.Object) (string, bool) // assumed status of <base>.Status
}

// operand: constant string, X.Status, or a local bound once to X.Status.
func (s *statusEnv) operand(x ast.Expr) (string, bool) {
	info := s.g.Info
	if v := core.ConstVal(info, x); v != nil && v.Kind() == constant.String {
		return constant.StringVal(v), true
	}
	x = core.StripConv(info, x)
	if v := core.ConstVal(info, x); v != nil && v.Kind() == constant.String {
		return constant.StringVal(v), true
	}
	if se, ok := x.(*ast.SelectorExpr); ok && core.FieldOf(info, se) == s.status {
		if base := core.ObjOf(info, se.X); base != nil {
			return s.val(base)
		}
		return "", false
	}
	if o, ok := core.ObjOf(info, x).(*types.Var); ok && !o.IsField() {
		if def := singleDef(info, s.g.Body, o); def != nil {
			if se, ok := core.StripConv(info, def).(*ast.SelectorExpr); ok && core.FieldOf(info, se) == s.status {
				if base := core.ObjOf(info, se.X); base != nil {
					return s.val(base)
				}
			}
		}
	}
	return "", false
}

// eval computes the truth of a condition under the assumption with three-valued
// logic over &&, ||, ! and ==/!= comparisons of status operands.
func (s *statusEnv) eval(c ast.Expr) (val, known bool) {
	c = ast.Unparen(c)
	switch x := c.(type) {
	case *ast.UnaryExpr:
		if x.Op == token.NOT {
			v, k := s.eval(x.X)
			return !v, k
		}
	case *ast.BinaryExpr:
		switch x.Op {
		case token.LAND, token.LOR:
			lv, lk := s.eval(x.X)
			rv, rk := s.eval(x.Y)
			and := x.Op == token.LAND
			switch {
			case lk && lv != and: // false && _ , true || _
				return lv, true
			case rk && rv != and:
				return rv, true
			case lk && rk:
				return and, true
			}
			return false, false
		case token.EQL, token.NEQ:
			lv, ok1 := s.operand(x.X)
			rv, ok2 := s.operand(x.Y)
			if ok1 && ok2 {
				return (lv == rv) == (x.Op == token.EQL), true
			}
		}
	}
	return false, false
}

// infeasible selects the edges whose condition is decided by the assumption and
// has the opposite truth value.
func (s *statusEnv) infeasible(e *core.Edge) bool {
	if e.Cond == nil {
		return false
	}
	if e.Tag != nil {
		lv, ok1 := s.operand(e.Tag)
		rv, ok2 := s.operand(e.Cond)
		return ok1 && ok2 && (lv == rv) != e.Branch
	}
	v, known := s.eval(e.Cond)
	return known && v != e.Branch
}

// decided counts the condition edges the assumption decides (anti-vacuity).
func (s *statusEnv) decided() int {
	n := 0
	for _, nd := range s.g.Nodes {
		for _, e := range nd.Succ {
			if s.infeasible(e) {
				n++
			}
		}
	}
	return n
}

func runC25(p *core.Prog, r *core.Report, tier string) {
	tm := p.Pkg(tmPkg)
	if tm == nil {
		r.Bad("anchor", tmPkg, "unresolved", "-", "package not loaded")
		return
	}
	statusF := core.LookupField(tm.Types, "Task", "Status")
	cv := func(name string) string {
		c, _ := tm.Types.Scope().Lookup(name).(*types.Const)
		if c == nil || c.Val().Kind() != constant.String {
			r.Bad("anchor", tmPkg+"."+name, "unresolved", "-", "status constant not found")
			return ""
		}
		return constant.StringVal(c.Val())
	}
	active, inactive := cv("TaskActive"), cv("TaskInactive")
	if !r.Check(statusF != nil, "anchor", tmPkg+".Task.Status", "unresolved", "-", "field resolved") || active == "" || inactive == "" {
		return
	}
	schedule := call("task/backend/scheduler.Scheduler.Schedule")
	release := call("task/backend/scheduler.Scheduler.Release")
	newSched := call("task/backend/coordinator.NewSchedulableTask")

	under := func(g *core.Graph, assume map[types.Object]string) *statusEnv {
		return &statusEnv{g: g, status: statusF, val: func(o types.Object) (string, bool) { v, ok := assume[o]; return v, ok }}
	}
	// mustPassUnder: every success exit still reachable under env passes gate.
	mustPassUnder := func(f *core.Func, g *core.Graph, env *statusEnv, rule, what, label string, gate core.NodePred) {
		bad := g.MustPass(gate, env.infeasible)
		var ls []string
		for _, b := range bad {
			ls = append(ls, g.Line(b))
		}
		r.Check(len(bad) == 0, rule, f.String(), what, f.Pos(), fmt.Sprintf("%s: every success exit passes the call (escaping exits: %s)", label, core.Join(ls)))
	}
	noneUnder := func(f *core.Func, g *core.Graph, env *statusEnv, rule, what, label string, sel core.NodePred) {
		reach := g.ReachFromEntry(nil, env.infeasible)
		var ls []string
		for _, n := range g.Select(sel) {
			if reach[n] {
				ls = append(ls, g.Line(n))
			}
		}
		r.Check(len(ls) == 0, rule, f.String(), what, f.Pos(), fmt.Sprintf("%s: the call is not reachable (reachable at: %s)", label, core.Join(ls)))
	}
	// schedArg: the argument of every Schedule call is built by NewSchedulableTask(param).
	schedArg := func(f *core.Func, param *types.Var, pname string) {
		info := f.Info()
		calls := core.AllCalls(info, f.Decl.Body, schedule)
		for _, c := range calls {
			good := false
			if len(c.Args) == 1 {
				if o := core.ObjOf(info, c.Args[0]); o != nil {
					fromParam := func(info *types.Info, nc *ast.CallExpr) bool {
						return newSched(info, nc) && len(nc.Args) == 1 && core.ObjOf(info, nc.Args[0]) == types.Object(param)
					}
					good = core.AssignedFrom(info, f.Decl.Body, o, fromParam, 0).OnlyFrom()
				}
			}
			r.Check(good, "latest-schedule", f.String(), "Schedule-arg", p.Pos(c.Pos()), "the Schedulable handed to Schedule is NewSchedulableTask("+pname+")")
		}
	}

	// ---- (1)(2) Coordinator.TaskCreated
	if f := r.Need(p, coordPkg, "Coordinator.TaskCreated"); f != nil {
		g := f.Graph()
		task := f.Param(1)
		if r.Check(task != nil && len(g.Select(g.Calling(schedule))) >= 1, "status-gate", f.String(), "Schedule:absent", f.Pos(), "TaskCreated schedules the task") {
			noneUnder(f, g, under(g, map[types.Object]string{task: inactive}), "status-gate", "Schedule-when-inactive", "task created inactive", g.Calling(schedule))
			mustPassUnder(f, g, under(g, map[types.Object]string{task: active}), "status-gate", "Schedule-when-active", "task created active", g.Calling(schedule))
			schedArg(f, task, "task")
		}
		core.RuleErrorsUsed(r, f, "status-gate", "Schedule", schedule, false, 1)
	}

	// ---- (1)(2) Coordinator.TaskUpdated
	if f := r.Need(p, coordPkg, "Coordinator.TaskUpdated"); f != nil {
		g := f.Graph()
		from, to := f.Param(1), f.Param(2)
		okAnchors := from != nil && to != nil && len(g.Select(g.Calling(schedule))) >= 1 && len(g.Select(g.Calling(release))) >= 1
		if r.Check(okAnchors, "status-gate", f.String(), "Schedule/Release:absent", f.Pos(), "TaskUpdated both schedules and releases") {
			env := func(fs, ts string) *statusEnv { return under(g, map[types.Object]string{from: fs, to: ts}) }
			r.Check(env(active, inactive).decided() >= 2, "status-gate", f.String(), "status-tests:count", f.Pos(), "the status comparisons of TaskUpdated are understood by the evaluator")
			for _, fs := range []string{active, inactive} {
				noneUnder(f, g, env(fs, inactive), "status-gate", "Schedule-when-inactive:"+fs+"→inactive", fs+"→inactive", g.Calling(schedule))
				mustPassUnder(f, g, env(fs, active), "status-gate", "Schedule-when-active:"+fs+"→active", fs+"→active", g.Calling(schedule))
				// no Release after the Schedule when the task ends up active
				e := env(fs, active)
				var starts []*core.Node
				reach0 := g.ReachFromEntry(nil, e.infeasible)
				for _, n := range g.Select(g.Calling(schedule)) {
					if reach0[n] {
						starts = append(starts, core.After(n, e.infeasible)...)
					}
				}
				after := g.Reach(starts, nil, e.infeasible)
				bad := false
				for _, n := range g.Select(g.Calling(release)) {
					if after[n] {
						bad = true
					}
				}
				r.Check(!bad, "status-gate", f.String(), "Release-after-Schedule:"+fs+"→active", f.Pos(), fs+"→active: no Release follows the Schedule")
			}
			mustPassUnder(f, g, env(active, inactive), "status-gate", "Release-on-deactivate", "active→inactive", g.Calling(release))
			schedArg(f, to, "to")
		}
		core.RuleErrorsUsed(r, f, "status-gate", "Schedule/Release", core.Or(schedule, release), false, 2)
	}

	// ---- (1) Coordinator.TaskDeleted
	if f := r.Need(p, coordPkg, "Coordinator.TaskDeleted"); f != nil {
		core.RuleMustPass(r, f, "status-gate", "Scheduler.Release", release, false)
		core.RuleErrorsUsed(r, f, "status-gate", "Release", release, false, 1)
	}

	// ---- (3) startup notification of existing tasks
	created := call("task/backend.Coordinator.TaskCreated")
	for _, name := range []string{"NotifyCoordinatorOfExisting", "TaskNotifyCoordinatorOfExisting"} {
		f := r.Need(p, backPkg, name)
		if f == nil {
			continue
		}
		g := f.Graph()
		isTask := func(o types.Object) bool {
			pt, ok := o.Type().(*types.Pointer)
			if !ok {
				return false
			}
			nt, ok := pt.Elem().(*types.Named)
			return ok && nt.Obj().Name() == "Task" && nt.Obj().Pkg() != nil && core.Short(nt.Obj().Pkg().Path()) == tmPkg
		}
		all := func(st string) *statusEnv {
			return &statusEnv{g: g, status: statusF, val: func(o types.Object) (string, bool) { return st, isTask(o) }}
		}
		n := len(g.Select(g.Calling(created)))
		if !r.Check(n >= 1, "existing-tasks", f.String(), "TaskCreated:absent", f.Pos(), "existing tasks are handed to the coordinator") {
			continue
		}
		r.Check(all(inactive).decided() >= 1, "existing-tasks", f.String(), "status-test:absent", f.Pos(), "the loop tests Task.Status against a status constant")
		noneUnder(f, g, all(inactive), "existing-tasks", "TaskCreated-when-inactive", "all listed tasks inactive", g.Calling(created))
		reach := g.ReachFromEntry(nil, all(active).infeasible)
		live := false
		for _, nd := range g.Select(g.Calling(created)) {
			live = live || reach[nd]
		}
		r.Check(live, "existing-tasks", f.String(), "TaskCreated-when-active", f.Pos(), "active tasks do reach TaskCreated")
	}

	// ---- (4) coordinating task service
	svcCreate, svcUpdate, svcDelete, svcFind := call("task/taskmodel.TaskService.CreateTask"), call("task/taskmodel.TaskService.UpdateTask"),
		call("task/taskmodel.TaskService.DeleteTask"), call("task/taskmodel.TaskService.FindTaskByID")
	coCreated, coUpdated, coDeleted := call("task/backend/middleware.Coordinator.TaskCreated"), call("task/backend/middleware.Coordinator.TaskUpdated"),
		call("task/backend/middleware.Coordinator.TaskDeleted")
	if f := r.Need(p, mwPkg, "CoordinatingTaskService.CreateTask"); f != nil {
		g := f.Graph()
		core.RulePrecede(r, f, "service-order", "TaskService.CreateTask", svcCreate, "Coordinator.TaskCreated", coCreated)
		core.RuleNotAfterFailure(r, f, "service-order", "TaskService.CreateTask", svcCreate, "Coordinator.TaskCreated", coCreated)
		core.RuleMustPass(r, f, "service-order", "Coordinator.TaskCreated", coCreated, false)
		core.RuleErrorsUsed(r, f, "service-order", "CreateTask/TaskCreated", core.Or(svcCreate, coCreated), false, 2)
		// failed notification ⇒ the stored task is removed again
		n := 0
		for _, nd := range g.Select(g.Calling(coCreated)) {
			fail, _, ok := g.ErrEdges(nd)
			if !ok {
				continue
			}
			n++
			esc := g.ExitsFrom([]*core.Node{fail.To}, g.Calling(svcDelete))
			r.Check(len(esc) == 0, "service-order", f.String(), "cleanup-after-failed-TaskCreated", g.Line(nd), "when the coordinator refuses the task every path deletes the stored task before returning")
		}
		r.Check(n >= 1, "service-order", f.String(), "TaskCreated:unchecked", f.Pos(), "the result of TaskCreated is tested")
	}
	if f := r.Need(p, mwPkg, "CoordinatingTaskService.UpdateTask"); f != nil {
		info := f.Info()
		core.RuleOrder(r, f, "service-order", []string{"TaskService.FindTaskByID", "TaskService.UpdateTask", "Coordinator.TaskUpdated"}, []core.Matcher{svcFind, svcUpdate, coUpdated})
		core.RuleNotAfterFailure(r, f, "service-order", "TaskService.UpdateTask", svcUpdate, "Coordinator.TaskUpdated", coUpdated)
		core.RuleMustPass(r, f, "service-order", "Coordinator.TaskUpdated", coUpdated, false)
		core.RuleErrorsUsed(r, f, "service-order", "Find/Update/TaskUpdated", core.Or(svcFind, svcUpdate, coUpdated), false, 3)
		for _, c := range core.AllCalls(info, f.Decl.Body, coUpdated) {
			good := len(c.Args) == 3 &&
				core.AssignedFrom(info, f.Decl.Body, core.ObjOf(info, c.Args[1]), svcFind, 0).OnlyFrom() &&
				core.AssignedFrom(info, f.Decl.Body, core.ObjOf(info, c.Args[2]), svcUpdate, 0).OnlyFrom()
			r.Check(good, "service-order", f.String(), "TaskUpdated-args", p.Pos(c.Pos()), "TaskUpdated receives (task read before the update, task returned by the update)")
		}
	}
	if f := r.Need(p, mwPkg, "CoordinatingTaskService.DeleteTask"); f != nil {
		core.RulePrecede(r, f, "service-order", "Coordinator.TaskDeleted", coDeleted, "TaskService.DeleteTask", svcDelete)
		core.RuleNotAfterFailure(r, f, "service-order", "Coordinator.TaskDeleted", coDeleted, "TaskService.DeleteTask", svcDelete)
		core.RuleMustPass(r, f, "service-order", "TaskService.DeleteTask", svcDelete, false)
		core.RuleErrorsUsed(r, f, "service-order", "TaskDeleted/DeleteTask", core.Or(coDeleted, svcDelete), false, 2)
	}
}
