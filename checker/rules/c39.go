package rules

import (
	"fmt"
	"go/ast"
	"sort"
	"strings"

	"verif/checker/core"
)

// ---- lock tables added for C39 (confirmed by reading engine.go, shard.go, store.go)

// rw11EngineLocks: the level/snapshot compaction control state of tsm1.Engine.
var rw11EngineLocks = &core.LockRules{
	Pkg: tsm1,
	Guards: []core.Guard{
		{Type: "Engine", Fields: []string{"done", "wg", "levelWorkers", "snapDone", "snapWG"}, Locks: []string{"mu"}},
		{Type: "purger", Fields: []string{"running"}, Locks: []string{"mu"}},
	},
	CallerHolds:  map[string]map[string]byte{},
	ExemptFunc:   map[string]string{},
	ExemptAccess: map[string]string{},
}

// rw11ShardLocks: tsdb.Shard (engine/index/enabled under s.mu) and tsdb.Store
// (shard, database, series-file, epoch and pending-delete maps under s.mu).
var rw11ShardLocks = &core.LockRules{
	Pkg: tsdbP,
	Guards: []core.Guard{
		{Type: "Shard", Fields: []string{"_engine", "index", "enabled"}, Locks: []string{"mu"}},
		{Type: "Store", Fields: []string{"shards", "databases", "sfiles", "pendingShardDeletes", "epochs", "opened", "closing"}, Locks: []string{"mu"}},
	},
	CallerHolds: map[string]map[string]byte{
		"Shard.closeNoLock":               {"mu": 'W'},
		"Shard.openNoLock":                {"mu": 'W'},
		"Shard.setEnabledNoLock":          {"mu": 'W'},
		"Shard.engineNoLock":              {"mu": 'R'},
		"Shard.ready":                     {"mu": 'R'},
		"Shard.mapType":                   {"mu": 'R'},
		"Shard.expandSources":             {"mu": 'R'},
		"Shard.validateSeriesAndFields":   {"mu": 'R'},
		"Shard.saveFieldsAndMeasurements": {"mu": 'R'},
		"Store.loadShards":                {"mu": 'W'},
		"Store.registerShard":             {"mu": 'W'},
		"Store.openSeriesFile":            {"mu": 'W'},
		"Store.newShardLoader":            {"mu": 'W'},
		"Store.warnMixedIndexTypes":       {"mu": 'R'},
		"Store.epochsForShards":           {"mu": 'R'},
		"Store.filterShards":              {"mu": 'R'},
		"Store.shardIDs":                  {"mu": 'R'},
		"Store.shardsSlice":               {"mu": 'R'},
	},
	ExemptFunc: map[string]string{
		"Store.IndexBytes": "has no caller anywhere in the module (left over from the 1.x monitor service); it reads s.shards through shardIDs() before taking s.mu and Shard.index without the shard lock, which would have to be fixed before it is used",
	},
	ExemptAccess: map[string]string{
		"Shard.WithLogger:index":        "documented precondition: WithLogger is called before Open (Store.WithLogger / shardLoader set the logger on a shard that is not yet published)",
		"Store.WithLogger:shards":       "configuration call made before Store.Open, when no shard exists and no other goroutine uses the store",
		"Store.monitorShards:closing":   "goroutine started by Store.Open after s.closing was assigned under s.mu (the go statement orders the write before the read); Store.Close waits for it (s.wg.Wait) before a later Open can replace the channel",
		"Store.collectMetrics:closing":  "same as monitorShards: started by Store.Open after the assignment, joined by Store.Close before the channel can be replaced",
		"Store.Close:Store.shardsSlice": "runs after close(s.closing) and s.wg.Wait(): the store's own goroutines are gone; the code documents that no lock is needed here",
	},
}

// rw11Backbone: edges of the lock-order graph confirmed by reading; they must
// still be found (anti-vacuity of the edge computation; a missing one means the
// table has to be re-confirmed).
var rw11Backbone = [][2]string{
	{"tsdb.Store.mu", "tsdb.Shard.mu"},                                         // Store.CreateShard -> shardLoader.Load -> Shard.Open
	{"tsdb.Shard.mu", "tsdb/engine/tsm1.Engine.mu"},                            // Shard.SetNewReadersBlocked / closeNoLock -> Engine.Close
	{"tsdb.Shard.mu", "tsdb/index/tsi1.Index.mu"},                              // Shard.closeNoLock -> Index.Close
	{"tsdb/engine/tsm1.Engine.mu", "tsdb/engine/tsm1.Cache.mu"},                // Engine.WritePoints -> Cache.WriteMulti
	{"tsdb/engine/tsm1.Engine.mu", "tsdb/engine/tsm1.WAL.mu"},                  // Engine.WritePoints -> WAL.WriteMulti
	{"tsdb/engine/tsm1.Engine.mu", "tsdb/engine/tsm1.FileStore.slowMu"},        // Engine.CreateSnapshot -> FileStore.CreateSnapshot -> wlock
	{"tsdb/engine/tsm1.FileStore.slowMu", "tsdb/engine/tsm1.FileStore.fastMu"}, // FileStore.wlock
	{"tsdb/engine/tsm1.FileStore.fastMu", "tsdb/engine/tsm1.purger.mu"},        // FileStore.replace -> purger.add -> purge
	{"tsdb/engine/tsm1.FileStore.slowMu", "tsdb/engine/tsm1.TSMReader.mu"},     // FileStore.Close / replace -> TSMReader.Close
	{"tsdb/engine/tsm1.TSMReader.mu", "tsdb/engine/tsm1.Tombstoner.mu"},        // TSMReader.HasTombstones
	{"tsdb/engine/tsm1.Cache.mu", "tsdb/engine/tsm1.partition.mu"},             // Cache.Count -> ring.count
	{"tsdb/engine/tsm1.partition.mu", "tsdb/engine/tsm1.entry.mu"},             // partition.count -> entry.count
	{"tsdb/index/tsi1.Index.mu", "tsdb/index/tsi1.Partition.mu"},               // Index.Close -> Partition.Close
	{"tsdb/index/tsi1.Partition.mu", "tsdb/index/tsi1.LogFile.mu"},             // Partition.CheckLogFile -> LogFile.ModTime
	{"tsdb/index/tsi1.LogFile.mu", "tsdb.SeriesPartition.mu"},                  // LogFile.AddSeriesList -> SeriesFile.SeriesKey
}

func init() {
	register(&Prop{
		ID:        "C39",
		Patterns:  []string{"./tsdb", "./tsdb/engine/tsm1", "./tsdb/index/tsi1"},
		Level:     "other",
		Technique: "static analysis: lockset (guarded-by) dataflow over go/cfg for every lock table of the storage engine, a lock-order graph over lock classes (struct type + mutex field) built from the lock state at every Lock/RLock and at every call whose callee may (transitively) take a lock, cycle detection (Tarjan), re-acquisition check, atomic-only and gate rules for the reader reference counts",
		Explanation: "Necessary conditions of race- and deadlock-freedom of concurrent shard operations, decided for every function of packages tsdb, tsdb/engine/tsm1 and tsdb/index/tsi1: " +
			"(1) guarded-by tables (E2): tsm1.Engine.{done,wg,levelWorkers,snapDone,snapWG} under Engine.mu, purger.running under purger.mu, tsdb.Shard.{_engine,index,enabled} under Shard.mu, tsdb.Store.{shards,databases,sfiles,pendingShardDeletes,epochs,opened,closing} under Store.mu (write mode for stores; *NoLock helpers are checked at their call sites) — on a flow that treats `func(){ mu.Lock(); defer mu.Unlock(); … }()` as a unit; plus the existing tables, re-evaluated: Cache/entry/ring partition (C09), FileStore two-lane lock incl. raw-lock discipline (C06), Tombstoner (C08), SeriesPartition (C13), tsi1 LogFile/Partition (C14), epochTracker (C17); " +
			"(2) lock-order: lock classes are struct type + mutex field; an edge A→B is recorded when B is locked while A is held on every path — directly, or inside a callee (static callees and all implementers of interfaces declared in the three packages, followed transitively; code started with `go` excluded; function literals run where they are written; deferred calls run with the locks still held at the exits). The graph over distinct classes must be acyclic (any cycle is reported with the acquisition sites of its edges), the FileStore order slowMu→fastMu must exist and fastMu→slowMu must not, and the backbone edges Store.mu→Shard.mu→Engine.mu→{Cache.mu→partition.mu→entry.mu, WAL.mu, FileStore.slowMu→fastMu→purger.mu, TSMReader.mu→Tombstoner.mu}, Shard.mu→Index.mu→Partition.mu→LogFile.mu→SeriesPartition.mu must still be found; " +
			"(3) relock: no lock is acquired (Lock or RLock) while the same lock object is already held by the same goroutine — in the function itself or in a callee reached with the same receiver/argument (self-deadlock for Lock; for RLock under RLock a deadlock as soon as a writer waits in between); " +
			"(4) reader reference counts: TSMReader.refs only through sync/atomic; Ref adds +1 and Unref −1 together with refsWG.Add/Done; FileStore.replace calls TSMFile.InUse with both FileStore write locks held and closes/removes a replaced file only on the !InUse edge (in-use files go to the purger); the purger closes/removes a file only on the !InUse edge; Ref/Unref pairing rules of C06 re-evaluated.",
		NotCovered:  "serializability of reads; races on state that is not in a table (e.g. Shard.metricUpdater, Engine.enableCompactionsOnOpen); lock acquisitions inside callbacks invoked by a callee while it holds further locks (FileStore.Apply/ReplaceWithCallback, walkShards) and through function values; edges held only on some paths (the lock state is a must-analysis); channel/WaitGroup waits (e.g. wg.Wait while holding a lock) and goroutine joins; interface dispatch outside the three packages.",
		Assumptions: []string{"lock identity is by access path: two different expressions for the same object are treated as different locks", "a function literal that is not started with `go` runs with the locks held where it is written", "sync.RWMutex semantics: a blocked Lock blocks later RLock calls, so read-mode edges count like write-mode edges"},
		Run:         runC39,
	})
}

func runC39(p *core.Prog, r *core.Report, tier string) {
	for _, pkg := range []string{tsdbP, tsm1, tsi1} {
		if p.Pkg(pkg) == nil {
			r.Bad("anchor", pkg, "unresolved", "-", "package not loaded")
			return
		}
	}
	a := core.NewX11Locks(p)

	// ---- (1) guarded-by
	core.RuleLocksP(r, p, a, rw11EngineLocks, "engine-guarded-by", 25)
	core.RuleLocksP(r, p, a, rw11ShardLocks, "shard-guarded-by", 90)
	core.RuleLocks(r, p, cacheLocks, "cache-guarded-by", 60)
	fsRules := &core.LockRulesX{
		LockRules: core.LockRules{
			Pkg:          tsm1,
			Guards:       []core.Guard{{Type: "FileStore", Fields: x2FsGuarded, Locks: x2FsEither}},
			CallerHolds:  map[string]map[string]byte{},
			ExemptFunc:   map[string]string{},
			ExemptAccess: map[string]string{},
		},
		HoldsAny: map[string]core.HoldAny{
			"FileStore.newReadersBlocked": {Param: -1, Locks: x2FsEither},
			"FileStore.locations":         {Param: -1, Locks: x2FsEither},
			"FileStore.cost":              {Param: -1, Locks: x2FsEither},
			"newKeyCursor":                {Param: 1, Locks: x2FsEither},
		},
	}
	core.RuleLocksX(r, p, fsRules, "filestore-guarded-by", 60, 6)
	x2RawLocks(p, r)
	core.RuleLocksX(r, p, x2TombLocks, "tombstoner-guarded-by", 40, 0)
	core.RuleLocks(r, p, seriesPartitionLocks, "seriespartition-guarded-by", 45)
	lf := *logFileLocks
	lf.ExemptFunc = map[string]string{ // the exceptions C14 applies to this table
		"LogFile.Close":      "runs from LogFile.Open's error path under f.mu, or after the file left the partition's file set and its reference count (f.wg) drained; no concurrent user remains",
		"Partition.bytes":    "memory-footprint estimate for statistics (Index.Bytes); observer only, its result never feeds the index contents",
		"Partition.Wait":     "reads p.fileSet only to log file names after a 24h compaction timeout; observer only",
		"Partition.Manifest": "exported accessor used by tests and the offline inspect tools; observer only",
	}
	core.RuleLocks(r, p, &lf, "tsi1-guarded-by", 90)
	core.RuleLocks(r, p, rw3EpochLocks, "epoch-guarded-by", 10)

	// ---- (2) + (3) lock order
	c39LockOrder(p, r, a)

	// ---- (4) reference counts
	c39Refs(p, r, a)
}

func c39LockOrder(p *core.Prog, r *core.Report, a *core.X11Locks) {
	const rule = "lock-order"
	o := core.X11LockOrder(p, a, []string{tsdbP, tsm1, tsi1})
	edges := o.SortedEdges()
	have := map[[2]string]*core.X11Edge{}
	for _, e := range edges {
		have[[2]string{e.From, e.To}] = e
	}
	describe := func(e *core.X11Edge) string {
		via := ""
		if e.Via != "" {
			via = " through " + e.Via
		}
		return fmt.Sprintf("%s is held in %s (%s) when %s is locked in %s (%s)%s; %d site(s)", e.From, e.Holder, p.Pos(e.Site), e.To, e.Acq, p.Pos(e.AcqPos), via, e.Count)
	}
	// anti-vacuity
	r.Check(o.LockSites >= 330 && len(o.Classes) >= 35 && o.HeldCalls >= 350 && len(edges) >= 80, rule, "graph", "size", "-",
		fmt.Sprintf("%d functions, %d Lock/RLock sites of %d lock classes, %d calls evaluated with a lock held, %d edges between distinct classes (>= 330 / 35 / 350 / 80 confirmed on the reference tree)", o.Funcs, o.LockSites, len(o.Classes), o.HeldCalls, len(edges)))
	for _, b := range rw11Backbone {
		e := have[b]
		if e == nil {
			r.Bad(rule, b[0]+" -> "+b[1], "edge:absent", "-", "the reference edge (confirmed by reading) is no longer found: the edge computation or the code changed, re-confirm the table")
			continue
		}
		r.Ok(rule, b[0]+" -> "+b[1], p.Pos(e.Site), "reference edge: "+describe(e))
	}
	// FileStore two-lane order
	slow, fast := tsm1+".FileStore.slowMu", tsm1+".FileStore.fastMu"
	if e := have[[2]string{fast, slow}]; e != nil {
		r.Bad(rule, "FileStore.slowMu<fastMu", "fastMu-then-slowMu", p.Pos(e.Site), "slowMu is acquired while fastMu is held (wlock takes them in the opposite order): "+describe(e))
	} else {
		r.Ok(rule, "FileStore.slowMu<fastMu", "-", "fastMu is never held when slowMu is acquired")
	}
	// acyclic
	cycles := o.Cycles()
	for _, c := range cycles {
		in := map[string]bool{}
		for _, n := range c {
			in[n] = true
		}
		var parts []string
		pos := "-"
		for _, e := range edges {
			if in[e.From] && in[e.To] {
				parts = append(parts, describe(e))
				if pos == "-" {
					pos = p.Pos(e.Site)
				}
				r.Saw(e.Holder)
				r.Saw(e.Acq)
			}
		}
		r.Bad(rule, strings.Join(c, " | "), "cycle", pos, "lock-order cycle (two goroutines taking these locks in opposite orders can deadlock): "+strings.Join(parts, " ;; "))
	}
	if len(cycles) == 0 {
		r.Ok(rule, "graph", "-", fmt.Sprintf("the lock-order graph (%d classes, %d edges) is acyclic", len(o.Classes), len(edges)))
	}
	for _, e := range edges {
		r.Saw(e.Holder)
		r.Note("lock-order edge %s -> %s: %s", e.From, e.To, describe(e))
	}
	var selfs []string
	for c := range o.SelfEdges {
		selfs = append(selfs, c)
	}
	sort.Strings(selfs)
	for _, c := range selfs {
		e := o.SelfEdges[c]
		r.Note("same-class edge (two objects of class %s, not part of the order check): %s (%s)", c, e.Holder, p.Pos(e.Site))
	}

	// relock
	seen := map[string]bool{}
	for _, re := range o.Reentries {
		key := re.Holder.Name + ":" + re.Class
		if seen[key] {
			continue
		}
		seen[key] = true
		how := "self-deadlock"
		if re.Op == "RLock" && re.HeldMode == 1 {
			how = "recursive read lock: deadlocks as soon as a writer waits between the two RLock calls"
		}
		via := ""
		if re.Via != "" {
			via = " through " + re.Via
		}
		r.Saw(re.Holder)
		r.Bad("relock", re.Holder.String(), re.Class+":"+re.Op, p.Pos(re.Site),
			fmt.Sprintf("%s is already held (path %s) when it is acquired again by %s in %s (%s)%s — %s", re.Class, re.Path, re.Op, re.Acq, p.Pos(re.AcqPos), via, how))
	}
	if len(seen) == 0 {
		r.Ok("relock", "graph", "-", fmt.Sprintf("no lock is re-acquired while held (%d calls evaluated with a lock held)", o.HeldCalls))
	}
}

func c39Refs(p *core.Prog, r *core.Report, a *core.X11Locks) {
	const rule = "reader-refs"
	core.RuleAtomicOnly(r, p, tsm1, "TSMReader", []string{"refs"}, 3)
	for _, it := range []struct {
		fn, wg string
		delta  string
	}{{"TSMReader.Ref", "sync.WaitGroup.Add", "1"}, {"TSMReader.Unref", "sync.WaitGroup.Done", "-1"}} {
		f := r.Need(p, tsm1, it.fn)
		if f == nil {
			continue
		}
		okDelta := false
		for _, c := range core.AllCalls(f.Info(), f.Decl.Body, call("sync/atomic.AddInt64")) {
			if len(c.Args) == 2 {
				if v := core.ConstVal(f.Info(), c.Args[1]); v != nil && v.ExactString() == it.delta {
					okDelta = true
				}
			}
		}
		r.Check(okDelta, rule, f.String(), "delta", f.Pos(), "the reference count changes by "+it.delta)
		core.RuleMustPass(r, f, rule, it.wg, call(it.wg), false)
	}
	inUse := call(tsm1+".TSMFile.InUse", tsm1+".TSMReader.InUse")
	closeRm := call(tsm1+".TSMFile.Close", tsm1+".TSMFile.Remove")
	if f := r.Need(p, tsm1, "FileStore.replace"); f != nil {
		info, g := f.Info(), f.Graph()
		isInUse := func(e ast.Expr) bool {
			c, ok := ast.Unparen(e).(*ast.CallExpr)
			return ok && inUse(info, c)
		}
		rn := ""
		if rv := f.X1Recv(); rv != nil {
			rn = rv.Name()
		}
		sites, locked := 0, 0
		a.Walk(f, nil, nil, func(s *core.X11Site) {
			if inUse(s.G.Info, s.Call) {
				sites++
				if s.Held.Mode(rn+".slowMu") == 2 && s.Held.Mode(rn+".fastMu") == 2 {
					locked++
				}
			}
		})
		r.Check(sites >= 1 && locked == sites, rule, f.String(), "InUse-without-wlock", f.Pos(), fmt.Sprintf("InUse is evaluated with both FileStore write locks held (%d of %d sites): no reader can Ref the file between the test and the close", locked, sites))
		ungated := g.ReachFromEntry(nil, core.X1BoolEdge(isInUse, false))
		n := 0
		for _, nd := range g.Select(g.Calling(closeRm)) {
			n++
			r.Check(!ungated[nd], rule, f.String(), "close-while-in-use", g.Line(nd), "a replaced file is closed/removed only on the edge !file.InUse() (files still referenced by readers are renamed and handed to the purger)")
		}
		r.Check(n >= 2, rule, f.String(), "close/remove:count", f.Pos(), "Close and Remove of replaced files found")
		core.RuleHasCall(r, f, rule, "purger.add", call(tsm1+".purger.add"))
	}
	if f := r.Need(p, tsm1, "purger.purge"); f != nil {
		info := f.Info()
		isInUse := func(e ast.Expr) bool {
			c, ok := ast.Unparen(e).(*ast.CallExpr)
			return ok && inUse(info, c)
		}
		found := 0
		for _, g := range f.Graphs() {
			nodes := g.Select(g.Calling(closeRm))
			if len(nodes) == 0 {
				continue
			}
			ungated := g.ReachFromEntry(nil, core.X1BoolEdge(isInUse, false))
			for _, nd := range nodes {
				found++
				r.Check(!ungated[nd], rule, f.String(), "purge-while-in-use", g.Line(nd), "the purger closes/removes a held file only on the edge !InUse()")
			}
		}
		r.Check(found >= 2, rule, f.String(), "close/remove:count", f.Pos(), "Close and Remove in the purge loop found")
	}
	refCall := call(tsm1+".TSMFile.Ref", tsm1+".TSMReader.Ref")
	unrefCall := call(tsm1+".TSMFile.Unref", tsm1+".TSMReader.Unref")
	x2RefPairing(p, r, refCall, unrefCall)
}
