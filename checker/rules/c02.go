package rules

import (
	"fmt"
	"go/ast"
	"go/constant"
	"go/token"
	"go/types"
	"strings"

	"verif/checker/core"
)

func init() {
	register(&Prop{
		ID:       "C02",
		Patterns: []string{"./tsdb/engine/tsm1", "./tsdb", "./pkg/file"},
		Level:    "other",
		Explanation: "Necessary-condition rules for crash durability, decided on the CFG of the anchored functions with type-resolved callees: " +
			"(1) WAL ack-after-fsync: the only success return of WAL.writeToLog yields a receive from the channel it queued in l.syncWaiters; WAL.sync broadcasts the result of WALSegmentWriter.sync, which passes bufio Flush then os.File.Sync with both errors propagated; " +
			"(2) WAL entry tag table: every WALEntry implementer has a distinct Type() constant, a decoder case in WALSegmentReader.Next and a replay arm in CacheLoader.Load; " +
			"(3) snapshot commit order FileStore.Replace < Cache.ClearSnapshot(true) < WAL.Remove, no WAL.Remove after a failed Replace; Engine.Open order cleanup < FileStore.Open < reloadCache; " +
			"(4) durable-replace protocol (write, flush, fsync, rename, fsync dir; every error propagated) in Tombstoner.commit, FileStore.replace, tsmWriter.Close/Flush/sync, MeasurementFieldSet.WriteToFile (O_SYNC) and renameFileNoLock, pkg/file.SyncDir; " +
			"(5) CacheLoader.Load truncates a corrupt WAL tail to the reader's valid byte count before continuing.",
		NotCovered:  "byte-level torn-write decoding, equality of the recovered state with the acknowledged history, the OS honouring fsync.",
		Assumptions: []string{"os.File.Sync/O_SYNC make data durable", "a rule passing means the mechanism is in place on every CFG path, not that recovery is value-correct"},
		Run:         runC02,
	})
}

// class D: calls whose error must never be dropped on a durability path
var durableCalls = call("os.File.Sync", "os.File.Write", "os.File.Truncate", "os.File.WriteAt", "bufio.Writer.Flush", "bufio.Writer.Write",
	"os.Rename", "pkg/file.RenameFile", "pkg/file.SyncDir", "compress/gzip.Writer.Close", "compress/gzip.Writer.Write",
	"tsdb/engine/tsm1.WALSegmentWriter.sync", "tsdb/engine/tsm1.WALSegmentWriter.Write", "tsdb/engine/tsm1.WALSegmentWriter.Flush",
	"tsdb/engine/tsm1.tsmWriter.sync", "tsdb/engine/tsm1.tsmWriter.Flush", "tsdb/engine/tsm1.Tombstoner.commit",
	"tsdb.MeasurementFieldSet.renameFileNoLock", "tsdb/engine/tsm1.WAL.rollSegment", "tsdb/engine/tsm1.WAL.newSegmentFile")

func runC02(p *core.Prog, r *core.Report, tier string) {
	walAck(p, r)
	walEntryTable(p, r)

	// ---- (3) snapshot commit and open order
	if f := r.Need(p, tsm1, "Engine.writeSnapshotAndCommit"); f != nil {
		replace := call("tsdb/engine/tsm1.FileStore.Replace", "tsdb/engine/tsm1.FileStore.ReplaceWithCallback")
		clear := call("tsdb/engine/tsm1.Cache.ClearSnapshot")
		remove := call("tsdb/engine/tsm1.WAL.Remove")
		core.RuleOrder(r, f, "snapshot-commit-order", []string{"Compactor.WriteSnapshot", "FileStore.Replace", "Cache.ClearSnapshot", "WAL.Remove"},
			[]core.Matcher{call("tsdb/engine/tsm1.Compactor.WriteSnapshot"), replace, clear, remove})
		core.RuleNotAfterFailure(r, f, "snapshot-commit-order", "FileStore.Replace", replace, "WAL.Remove", remove)
		core.RuleNotAfterFailure(r, f, "snapshot-commit-order", "FileStore.Replace", replace, "Cache.ClearSnapshot", clear)
		core.RuleNotAfterFailure(r, f, "snapshot-commit-order", "Compactor.WriteSnapshot", call("tsdb/engine/tsm1.Compactor.WriteSnapshot"), "WAL.Remove", remove)
		// the in-line ClearSnapshot must be ClearSnapshot(true), the deferred one (false) guarded by err != nil
		for _, c := range core.AllCalls(f.Info(), f.Decl.Body, clear) {
			arg := ""
			if len(c.Args) == 1 {
				arg = core.ExprStr(c.Args[0])
			}
			g := f.Graph()
			inline := g.NodeOf(c) != nil && !isInDefer(f, c)
			if inline {
				r.Check(arg == "true", "snapshot-commit-order", f.String(), "ClearSnapshot-arg", p.Pos(c.Pos()), "in-line ClearSnapshot is ClearSnapshot(true) (success: drop the snapshot)")
			} else {
				r.Check(arg == "false", "snapshot-commit-order", f.String(), "ClearSnapshot-deferred-arg", p.Pos(c.Pos()), "deferred ClearSnapshot is ClearSnapshot(false) (failure: keep the data)")
			}
		}
	}
	if f := r.Need(p, tsm1, "Engine.Open"); f != nil {
		core.RuleOrder(r, f, "open-order", []string{"Engine.cleanup", "FileStore.Open", "Engine.reloadCache"},
			[]core.Matcher{call("tsdb/engine/tsm1.Engine.cleanup"), call("tsdb/engine/tsm1.FileStore.Open"), call("tsdb/engine/tsm1.Engine.reloadCache")})
		// (same-package helpers spliced in: wrapping e.g. the WAL open in a helper keeps the count)
		openSteps := call("tsdb/engine/tsm1.Engine.cleanup", "tsdb/engine/tsm1.FileStore.Open", "tsdb/engine/tsm1.Engine.reloadCache", "tsdb/engine/tsm1.WAL.Open")
		core.RuleErrorsUsedInl(r, f.Inline(openSteps), "open-errors", "cleanup/Open/reloadCache", openSteps, false, 4)
	}
	if f := r.Need(p, tsm1, "Engine.reloadCache"); f != nil {
		core.RuleMustPass(r, f, "open-order", "CacheLoader.Load", call("tsdb/engine/tsm1.CacheLoader.Load"), false)
		core.RuleErrorsUsed(r, f, "open-errors", "CacheLoader.Load", call("tsdb/engine/tsm1.CacheLoader.Load", "tsdb/engine/tsm1.WAL.ClosedSegments"), false, 1)
	}

	// ---- (4) durable replace protocol
	if f := r.Need(p, tsm1, "Tombstoner.commit"); f != nil {
		names := []string{"gzip.Close", "bufio.Flush", "File.Sync", "RenameFile", "SyncDir"}
		ms := []core.Matcher{call("compress/gzip.Writer.Close"), call("bufio.Writer.Flush"), call("os.File.Sync"), call("pkg/file.RenameFile"), call("pkg/file.SyncDir")}
		core.RuleOrder(r, f, "durable-replace", names, ms)
		g := f.Graph()
		// nothing pending: the branch on which t.pendingFile is known to be nil
		pending := core.LookupField(f.Pkg.Types, "Tombstoner", "pendingFile")
		exempt := g.NilEdge(func(x ast.Expr) bool { return pending != nil && core.FieldOf(f.Info(), x) == pending }, true)
		core.RuleMustPassN(r, f, g, "durable-replace", "SyncDir", g.Calling(call("pkg/file.SyncDir")), exempt)
		core.RuleErrorsUsed(r, f, "durable-errors", "sync/flush/rename", durableCalls, false, 5)
	}
	if f := r.Need(p, tsm1, "Tombstoner.Flush"); f != nil {
		core.RuleErrorsUsed(r, f, "durable-errors", "Tombstoner.commit", call("tsdb/engine/tsm1.Tombstoner.commit"), false, 1)
	}
	if f := r.Need(p, tsm1, "FileStore.replace"); f != nil {
		g := f.Graph()
		files := core.LookupField(f.Pkg.Types, "FileStore", "files")
		if r.Check(files != nil, "anchor", "tsm1.FileStore.files", "unresolved", f.Pos(), "field resolved") {
			stores := g.Select(g.Assigning(files))
			r.Check(len(stores) >= 1, "durable-replace", f.String(), "files-store:absent", f.Pos(), "FileStore.replace publishes the new file set")
			reach := g.ReachFromEntry(g.Calling(call("pkg/file.SyncDir")), nil)
			for _, s := range stores {
				r.Check(!reach[s], "durable-replace", f.String(), "SyncDir<files-store", g.Line(s), "the new file set is published only after the directory holding the renames was fsynced")
			}
		}
		// nothing to do: the branch on which a file-list parameter is known to be empty
		exempt := g.EmptyEdge(func(x ast.Expr) bool { return isParamOf(f, core.ObjOf(f.Info(), x)) })
		core.RuleMustPassN(r, f, g, "durable-replace", "SyncDir", g.Calling(call("pkg/file.SyncDir")), exempt)
		core.RuleErrorsUsed(r, f, "durable-errors", "rename/syncdir", durableCalls, false, 4)
	}
	if f := r.Need(p, tsm1, "tsmWriter.Close"); f != nil {
		core.RuleMustPass(r, f, "durable-replace", "tsmWriter.Flush", call("tsdb/engine/tsm1.tsmWriter.Flush"), false)
		core.RuleErrorsUsed(r, f, "durable-errors", "Flush/Close", call("tsdb/engine/tsm1.tsmWriter.Flush", "io.Closer.Close", "tsdb/engine/tsm1.IndexWriter.Close"), false, 3)
	}
	if f := r.Need(p, tsm1, "tsmWriter.Flush"); f != nil {
		core.RuleOrder(r, f, "durable-replace", []string{"bufio.Flush", "tsmWriter.sync"}, []core.Matcher{call("bufio.Writer.Flush"), call("tsdb/engine/tsm1.tsmWriter.sync")})
		core.RuleMustPass(r, f, "durable-replace", "tsmWriter.sync", call("tsdb/engine/tsm1.tsmWriter.sync"), false)
		core.RuleErrorsUsed(r, f, "durable-errors", "flush/sync", durableCalls, false, 2)
	}
	if f := r.Need(p, tsm1, "tsmWriter.sync"); f != nil {
		syncCall := call("*.Sync")
		g := f.Graph()
		// the only success path that may skip Sync is the failed type assertion (in-memory writer)
		exempt := assertFailedEdge(f)
		core.RuleMustPassN(r, f, g, "durable-replace", "Sync", g.Calling(syncCall), exempt)
		core.RuleErrorsUsed(r, f, "durable-errors", "Sync", syncCall, false, 1)
	}
	if f := r.Need(p, tsdbP, "MeasurementFieldSet.WriteToFile"); f != nil {
		// O_SYNC in the open flags (constant argument)
		opens := core.AllCalls(f.Info(), f.Decl.Body, call("os.OpenFile"))
		okSync := false
		for _, c := range opens {
			if len(c.Args) == 3 {
				if tv, ok := f.Info().Types[c.Args[1]]; ok && tv.Value != nil {
					if v, ok := constant.Int64Val(tv.Value); ok && v&0x101000 == 0x101000 { // syscall.O_SYNC on linux
						okSync = true
					}
				}
				if strings.Contains(core.ExprStr(c.Args[1]), "os.O_SYNC") {
					okSync = true
				}
			}
		}
		r.Check(okSync, "durable-replace", f.String(), "O_SYNC", f.Pos(), "fields.idx temp file is opened with O_SYNC (no explicit fsync follows the writes)")
		g := f.Graph()
		gate := core.AnyOf(g.Calling(call("tsdb.MeasurementFieldSet.renameFileNoLock")), g.Calling(call("os.RemoveAll")))
		core.RuleMustPassN(r, f, g, "durable-replace", "renameFileNoLock|RemoveAll(empty)", gate, nil)
		core.RuleErrorsUsed(r, f, "durable-errors", "Write/rename", call("os.File.Write", "tsdb.MeasurementFieldSet.renameFileNoLock", "tsdb.MeasurementFieldSet.marshalMeasurementFieldSetNoLock"), false, 4)
	}
	if f := r.Need(p, tsdbP, "MeasurementFieldSet.renameFileNoLock"); f != nil {
		core.RuleOrder(r, f, "durable-replace", []string{"RenameFile", "SyncDir"}, []core.Matcher{call("pkg/file.RenameFile"), call("pkg/file.SyncDir")})
		core.RuleMustPass(r, f, "durable-replace", "SyncDir", call("pkg/file.SyncDir"), false)
		core.RuleErrorsUsed(r, f, "durable-errors", "rename/syncdir", durableCalls, false, 2)
	}
	if f := r.Need(p, filePk, "SyncDir"); f != nil {
		core.RuleMustPass(r, f, "durable-replace", "os.File.Sync", call("os.File.Sync"), false)
		core.RuleErrorsUsed(r, f, "durable-errors", "Sync", call("os.File.Sync"), false, 1)
	}
	if f := r.Need(p, filePk, "RenameFile"); f != nil {
		core.RuleMustPass(r, f, "durable-replace", "os.Rename", call("os.Rename"), false)
		core.RuleErrorsUsed(r, f, "durable-errors", "os.Rename", call("os.Rename"), false, 1)
	}

	// ---- WAL segment roll / close keep errors
	for _, n := range []string{"WAL.rollSegment", "WAL.newSegmentFile", "WAL.closeCurrentSegmentFile", "WALSegmentWriter.close", "WAL.CloseSegment"} {
		if f := r.Need(p, tsm1, n); f != nil {
			core.RuleErrorsUsed(r, f, "durable-errors", "segment io", core.Or(durableCalls, call("tsdb/engine/tsm1.WALSegmentWriter.close", "tsdb/engine/tsm1.WAL.closeCurrentSegmentFile", "os.OpenFile", "io.WriteCloser.Close")), false, 1)
		}
	}

	// ---- segment id recovery: a reopened WAL must continue numbering after the
	// highest existing segment, or the next segment file is opened on top of a
	// live one (O_CREATE|O_RDWR, no O_EXCL) and overwrites acknowledged entries.
	if f := r.Need(p, tsm1, "WAL.Open"); f != nil {
		const rule = "wal-segment-id-recovery"
		g := f.Graph()
		idField := core.LookupField(f.Pkg.Types, "WAL", "currentSegmentID")
		r.Check(idField != nil, "anchor", "tsm1.WAL.currentSegmentID", "unresolved", f.Pos(), "field resolved")
		assign := g.Assigning(idField)
		// paths on which segment files exist: an edge on which the list returned by
		// segmentFileNames is known to be non-empty
		nonEmpty := core.AtomEdge(func(x ast.Expr, val bool) bool {
			sl, emptyOn, ok := core.EmptyOn(f.Info(), x)
			if !ok || val == emptyOn {
				return false
			}
			o := core.ObjOf(f.Info(), sl)
			if o == nil {
				return false
			}
			from := false
			ast.Inspect(f.Decl.Body, func(n ast.Node) bool {
				if as, ok := n.(*ast.AssignStmt); ok && len(as.Rhs) == 1 && len(as.Lhs) >= 1 && core.ObjOf(f.Info(), as.Lhs[0]) == o {
					if c, ok := as.Rhs[0].(*ast.CallExpr); ok && call("tsdb/engine/tsm1.segmentFileNames")(f.Info(), c) {
						from = true
					}
				}
				return true
			})
			return from
		})
		var starts []*core.Node
		for _, n := range g.Nodes {
			for _, e := range n.Succ {
				if nonEmpty(e) {
					starts = append(starts, e.To)
				}
			}
		}
		if r.Check(len(starts) >= 1, rule, f.String(), "existing-segments-branch:absent", f.Pos(), "branch handling existing segment files found") {
			reach := g.Reach(starts, assign, nil)
			bad := ""
			for _, x := range g.SuccessExits() {
				if reach[x] {
					bad = g.Line(x)
				}
			}
			r.Check(bad == "", rule, f.String(), "currentSegmentID-not-restored", f.Pos(),
				"when segment files exist, every successful Open restores currentSegmentID (also when the last, empty segment is removed) "+bad)
			// the restored value is the id parsed from the last segment's name
			okSrc := false
			for _, n := range g.Select(assign) {
				if as, ok := n.N.(*ast.AssignStmt); ok && len(as.Rhs) == 1 {
					if o := core.ObjOf(f.Info(), as.Rhs[0]); o != nil && assignedOnlyFrom(f, o, call("tsdb/engine/tsm1.idFromFileName")) {
						okSrc = true
					}
				}
			}
			r.Check(okSrc, rule, f.String(), "currentSegmentID-source", f.Pos(), "restored id is the one parsed from the last segment file name")
		}
	}
	// ---- the reused segment is written in append mode: the cache loader truncates
	// a torn tail off that segment AFTER WAL.Open positioned the writer, so only an
	// O_APPEND descriptor keeps later entries contiguous with the validated prefix.
	if f := r.Need(p, tsm1, "WAL.Open"); f != nil {
		okAppend, n := false, 0
		for _, c := range core.AllCalls(f.Info(), f.Decl.Body, call("os.OpenFile")) {
			if len(c.Args) != 3 {
				continue
			}
			n++
			if v := core.ConstVal(f.Info(), c.Args[1]); v != nil {
				if iv, ok := constant.Int64Val(v); ok && iv&0x400 != 0 { // O_APPEND on linux
					okAppend = true
				}
			}
		}
		r.Check(n >= 1 && okAppend, "wal-torn-tail", f.String(), "reopened-segment-not-append", f.Pos(), "the last segment is re-opened with O_APPEND (entries written after a torn tail was truncated stay contiguous)")
	}
	// ---- a snapshot and the WAL segments removed after it must cover the same
	// writes: doWriteSnapshot closes the segment and lists the closed segments in
	// the same critical section in which it takes the snapshot, so the snapshot
	// returned must contain everything written before that point, i.e. every
	// success exit of Cache.Snapshot passes the store swap.
	if f := r.Need(p, tsm1, "Cache.Snapshot"); f != nil {
		g := f.Graph()
		store := core.LookupField(f.Pkg.Types, "Cache", "store")
		core.RuleMustPassN(r, f, g, "snapshot-covers-closed-segments", "store swap", g.Assigning(store), nil)
	}
	if f := r.Need(p, tsm1, "Engine.doWriteSnapshot"); f != nil {
		// the three steps happen under one hold of e.mu, in this order
		for _, lg := range f.Graphs() {
			cs := lg.Select(lg.Calling(call("tsdb/engine/tsm1.WAL.ClosedSegments")))
			sn := lg.Select(lg.Calling(call("tsdb/engine/tsm1.Cache.Snapshot")))
			if len(cs) == 0 || len(sn) == 0 {
				continue
			}
			r.Check(!lg.Reach(core.After(sn[0], nil), nil, nil)[cs[0]], "snapshot-covers-closed-segments", f.String(), "segments-listed-after-snapshot", lg.Line(cs[0]), "the closed-segment list is taken before the snapshot in the same critical section")
		}
	}
	if f := r.Need(p, tsm1, "WAL.newSegmentFile"); f != nil {
		g := f.Graph()
		idField := core.LookupField(f.Pkg.Types, "WAL", "currentSegmentID")
		reach := g.ReachFromEntry(g.Assigning(idField), nil)
		for _, n := range g.Select(g.Calling(call("os.OpenFile"))) {
			r.Check(!reach[n], "wal-segment-id-recovery", f.String(), "id-advance<OpenFile", g.Line(n), "the segment id is advanced before the new segment file is created")
		}
	}

	// ---- (5) torn tail truncation
	walTruncate(p, r)
}

func isInDefer(f *core.Func, c *ast.CallExpr) bool {
	in := false
	ast.Inspect(f.Decl.Body, func(n ast.Node) bool {
		if d, ok := n.(*ast.DeferStmt); ok && d.Pos() <= c.Pos() && c.End() <= d.End() {
			in = true
		}
		return true
	})
	return in
}

// walAck: "no acknowledgement before fsync".
func walAck(p *core.Prog, r *core.Report) {
	const rule = "wal-ack-after-sync"
	f := r.Need(p, tsm1, "WAL.writeToLog")
	if f != nil {
		info := f.Info()
		g := f.Graph()
		// the sync channel: a local chan error created in this function
		var ch types.Object
		ast.Inspect(f.Decl.Body, func(n ast.Node) bool {
			as, ok := n.(*ast.AssignStmt)
			if !ok || len(as.Lhs) != 1 || len(as.Rhs) != 1 {
				return true
			}
			c, ok := as.Rhs[0].(*ast.CallExpr)
			if !ok || !core.Builtin("make")(info, c) {
				return true
			}
			if t, ok := info.TypeOf(c).(*types.Chan); ok && core.IsErrorType(t.Elem()) {
				ch = core.ObjOf(info, as.Lhs[0])
			}
			return true
		})
		if r.Check(ch != nil, rule, f.String(), "sync-channel:absent", f.Pos(), "per-call `chan error` created") {
			// (a) every success exit returns a receive from ch as its error operand
			exits := g.SuccessExits()
			okAll := len(exits) > 0
			for _, x := range exits {
				rs, _ := x.N.(*ast.ReturnStmt)
				good := false
				if rs != nil && len(rs.Results) == 2 {
					if u, ok := ast.Unparen(rs.Results[1]).(*ast.UnaryExpr); ok && u.Op == token.ARROW && core.ObjOf(info, u.X) == ch {
						good = true
					}
				}
				if !good {
					okAll = false
					r.Bad(rule, f.String(), "success-return-not-sync-result", g.Line(x), "a success return of writeToLog does not yield the fsync result received from the sync channel")
				}
			}
			if okAll {
				r.Ok(rule, f.String(), g.Line(exits[0]), fmt.Sprintf("%d success exit(s), each returns <-%s", len(exits), ch.Name()))
			}
			// (b) inside the locked literal: success exits pass `l.syncWaiters <- ch` and then scheduleSync
			var lit *ast.FuncLit
			ast.Inspect(f.Decl.Body, func(n ast.Node) bool {
				if fl, ok := n.(*ast.FuncLit); ok && lit == nil {
					if len(core.AllCalls(info, fl.Body, call("tsdb/engine/tsm1.WALSegmentWriter.Write"))) > 0 {
						lit = fl
					}
				}
				return true
			})
			if r.Check(lit != nil, rule, f.String(), "locked-section:absent", f.Pos(), "function literal performing the segment write found") {
				lg := f.LitGraph(lit)
				waiters := core.LookupField(f.Pkg.Types, "WAL", "syncWaiters")
				send := func(n *core.Node) bool {
					s, ok := n.N.(*ast.SendStmt)
					return ok && core.FieldOf(info, s.Chan) == waiters && core.ObjOf(info, s.Value) == ch
				}
				core.RuleMustPassN(r, f, lg, rule, "enqueue in l.syncWaiters", send, nil)
				core.RuleMustPassN(r, f, lg, rule, "scheduleSync", lg.Calling(call("tsdb/engine/tsm1.WAL.scheduleSync")), nil)
				core.RuleMustPassN(r, f, lg, rule, "WALSegmentWriter.Write", lg.Calling(call("tsdb/engine/tsm1.WALSegmentWriter.Write")), nil)
				// write precedes enqueue precedes scheduleSync
				reach := lg.ReachFromEntry(lg.Calling(call("tsdb/engine/tsm1.WALSegmentWriter.Write")), nil)
				for _, n := range lg.Select(send) {
					r.Check(!reach[n], rule, f.String(), "Write<enqueue", lg.Line(n), "segment write precedes queuing for fsync")
				}
				reach = lg.ReachFromEntry(send, nil)
				for _, n := range lg.Select(lg.Calling(call("tsdb/engine/tsm1.WAL.scheduleSync"))) {
					r.Check(!reach[n], rule, f.String(), "enqueue<scheduleSync", lg.Line(n), "waiter is queued before the fsync is scheduled")
				}
			}
			core.RuleErrorsUsed(r, f, "durable-errors", "segment write/roll", durableCalls, false, 2)
		}
	}
	if f := r.Need(p, tsm1, "WAL.sync"); f != nil {
		info := f.Info()
		// err := l.currentSegmentWriter.sync(); every send sends err; err not reassigned
		var v types.Object
		assigns := 0
		ast.Inspect(f.Decl.Body, func(n ast.Node) bool {
			if as, ok := n.(*ast.AssignStmt); ok {
				for i, l := range as.Lhs {
					o := core.ObjOf(info, l)
					if o == nil || !core.IsErrorType(o.Type()) {
						continue
					}
					if i < len(as.Rhs) {
						if c, ok := as.Rhs[i].(*ast.CallExpr); ok && call("tsdb/engine/tsm1.WALSegmentWriter.sync")(info, c) {
							v = o
						}
					}
					assigns++
				}
			}
			return true
		})
		r.Check(v != nil && assigns == 1, rule, f.String(), "sync-result", f.Pos(), "the fsync result is captured once and never overwritten")
		sends := 0
		ast.Inspect(f.Decl.Body, func(n ast.Node) bool {
			if s, ok := n.(*ast.SendStmt); ok {
				sends++
				r.Check(v != nil && core.ObjOf(info, s.Value) == v, rule, f.String(), "broadcast-value", p.Pos(s.Pos()), "every waiter is sent the fsync result")
			}
			return true
		})
		r.Check(sends >= 1, rule, f.String(), "broadcast:absent", f.Pos(), "waiters are notified")
	}
	if f := r.Need(p, tsm1, "WAL.scheduleSync"); f != nil {
		core.RuleHasCall(r, f, rule, "WAL.sync", call("tsdb/engine/tsm1.WAL.sync"))
	}
	if f := r.Need(p, tsm1, "WALSegmentWriter.sync"); f != nil {
		g := f.Graph()
		core.RuleOrder(r, f, rule, []string{"bufio.Flush", "os.File.Sync"}, []core.Matcher{call("bufio.Writer.Flush"), call("os.File.Sync")})
		core.RuleMustPass(r, f, rule, "bufio.Flush", call("bufio.Writer.Flush"), false)
		exempt := assertFailedEdge(f)
		core.RuleMustPassN(r, f, g, rule, "os.File.Sync", g.Calling(call("os.File.Sync")), exempt)
		core.RuleErrorsUsed(r, f, "durable-errors", "Flush/Sync", durableCalls, false, 2)
	}
	if f := r.Need(p, tsm1, "WAL.WriteMulti"); f != nil {
		core.RuleMustPass(r, f, rule, "WAL.writeToLog", call("tsdb/engine/tsm1.WAL.writeToLog"), false)
		core.RuleErrorsUsed(r, f, "durable-errors", "writeToLog", call("tsdb/engine/tsm1.WAL.writeToLog"), false, 1)
	}
	for _, n := range []string{"WAL.Delete", "WAL.DeleteRange"} {
		if f := r.Need(p, tsm1, n); f != nil {
			core.RuleErrorsUsed(r, f, "durable-errors", "writeToLog", call("tsdb/engine/tsm1.WAL.writeToLog"), false, 1)
		}
	}
}

// walEntryTable: writer/reader tag tables agree.
func walEntryTable(p *core.Prog, r *core.Report) {
	const rule = "wal-entry-table"
	pk := p.Pkg(tsm1)
	if pk == nil {
		r.Bad("anchor", tsm1, "unresolved", "-", "package not loaded")
		return
	}
	ifaceObj := pk.Types.Scope().Lookup("WALEntry")
	if ifaceObj == nil {
		r.Bad("anchor", "tsm1.WALEntry", "unresolved", "-", "type not found")
		return
	}
	iface, _ := ifaceObj.Type().Underlying().(*types.Interface)
	// implementers
	var impls []*types.Named
	for _, n := range pk.Types.Scope().Names() {
		tn, ok := pk.Types.Scope().Lookup(n).(*types.TypeName)
		if !ok || tn.IsAlias() {
			continue
		}
		nt, ok := tn.Type().(*types.Named)
		if !ok || types.IsInterface(nt) {
			continue
		}
		if types.Implements(types.NewPointer(nt), iface) || types.Implements(nt, iface) {
			impls = append(impls, nt)
		}
	}
	r.Check(len(impls) >= 3, rule, "tsm1.WALEntry", "implementers", "-", fmt.Sprintf("%d WALEntry implementers found (>= 3 confirmed by reading)", len(impls)))
	// Type() constant of each implementer
	tagOf := map[string]string{} // type name -> constant name
	seen := map[string]string{}
	for _, nt := range impls {
		f := p.Func(tsm1, nt.Obj().Name()+".Type")
		if f == nil {
			r.Bad(rule, "tsm1."+nt.Obj().Name(), "Type:absent", "-", "no Type() method body")
			continue
		}
		r.Saw(f)
		var cn string
		var cv constant.Value
		ast.Inspect(f.Decl.Body, func(n ast.Node) bool {
			if rs, ok := n.(*ast.ReturnStmt); ok && len(rs.Results) == 1 {
				if c, ok := core.ObjOf(f.Info(), rs.Results[0]).(*types.Const); ok {
					cn, cv = c.Name(), c.Val()
				}
			}
			return true
		})
		if !r.Check(cn != "", rule, f.String(), "Type-not-constant", f.Pos(), "Type() returns a WalEntryType constant") {
			continue
		}
		key := cv.ExactString()
		if prev, dup := seen[key]; dup {
			r.Bad(rule, f.String(), "duplicate-tag", f.Pos(), fmt.Sprintf("tag value %s already used by %s", key, prev))
		} else {
			seen[key] = nt.Obj().Name()
			r.Ok(rule, f.String(), f.Pos(), "tag "+cn+"="+key+" is unique")
		}
		tagOf[nt.Obj().Name()] = cn
	}
	// decoder: WALSegmentReader.Next has a case per constant constructing that type
	if f := r.Need(p, tsm1, "WALSegmentReader.Next"); f != nil {
		cases := map[string]string{} // const name -> constructed type
		ast.Inspect(f.Decl.Body, func(n ast.Node) bool {
			sw, ok := n.(*ast.SwitchStmt)
			if !ok {
				return true
			}
			for _, cl := range sw.Body.List {
				cc := cl.(*ast.CaseClause)
				for _, e := range cc.List {
					c, ok := core.ObjOf(f.Info(), e).(*types.Const)
					if !ok {
						continue
					}
					built := ""
					ast.Inspect(cc, func(m ast.Node) bool {
						if cl, ok := m.(*ast.CompositeLit); ok {
							if nt, ok := f.Info().TypeOf(cl).(*types.Named); ok {
								built = nt.Obj().Name()
							}
						}
						return true
					})
					cases[c.Name()] = built
				}
			}
			return true
		})
		for tn, cn := range tagOf {
			r.Check(cases[cn] == tn, rule, f.String(), "decoder-case:"+tn, f.Pos(), fmt.Sprintf("case %s constructs %s (found %q)", cn, tn, cases[cn]))
		}
	}
	// replay: CacheLoader.Load has a type-switch arm per implementer
	if f := r.Need(p, tsm1, "CacheLoader.Load"); f != nil {
		arms := map[string]bool{}
		ast.Inspect(f.Decl.Body, func(n ast.Node) bool {
			ts, ok := n.(*ast.TypeSwitchStmt)
			if !ok {
				return true
			}
			for _, cl := range ts.Body.List {
				cc := cl.(*ast.CaseClause)
				for _, e := range cc.List {
					t := f.Info().TypeOf(e)
					if pt, ok := t.(*types.Pointer); ok {
						t = pt.Elem()
					}
					if nt, ok := t.(*types.Named); ok && len(cc.Body) > 0 {
						arms[nt.Obj().Name()] = true
					}
				}
			}
			return true
		})
		for tn := range tagOf {
			r.Check(arms[tn], rule, f.String(), "replay-arm:"+tn, f.Pos(), "WAL replay applies "+tn)
		}
		// replay applies writes and deletes to the cache
		core.RuleHasCall(r, f, rule, "Cache.WriteMulti", call("tsdb/engine/tsm1.Cache.WriteMulti"))
		core.RuleHasCall(r, f, rule, "Cache.DeleteRange", call("tsdb/engine/tsm1.Cache.DeleteRange"))
		core.RuleHasCall(r, f, rule, "Cache.Delete", call("tsdb/engine/tsm1.Cache.Delete"))
	}
}

// walTruncate: a corrupt tail is cut at the reader's valid byte count.
func walTruncate(p *core.Prog, r *core.Report) {
	const rule = "wal-torn-tail"
	f := r.Need(p, tsm1, "CacheLoader.Load")
	if f == nil {
		return
	}
	info := f.Info()
	read := call("tsdb/engine/tsm1.WALSegmentReader.Read")
	trunc := call("os.File.Truncate")
	found := false
	for _, g := range f.Graphs() {
		for _, n := range g.Select(g.Calling(read)) {
			fail, _, ok := g.ErrEdges(n)
			if !ok {
				r.Bad(rule, f.String(), "Read-unchecked", g.Line(n), "error of WALSegmentReader.Read is not tested")
				continue
			}
			found = true
			// every path from the failure branch passes Truncate before leaving the if-body
			reach := g.Reach([]*core.Node{fail.To}, g.Calling(trunc), nil)
			escaped := false
			body := core.ThenBody(fail.To)
			for x := range reach {
				if body == nil || !core.InRegion(x, body) {
					escaped = true
				}
			}
			r.Check(!escaped && len(g.Select(g.Calling(trunc))) > 0, rule, f.String(), "Truncate-on-corrupt", g.Line(n), "every path from a failed Read passes File.Truncate before leaving the loop")
			// truncate offset comes from WALSegmentReader.Count
			for _, tn := range g.Select(g.Calling(trunc)) {
				for _, c := range core.CallsIn(info, tn.N, trunc, core.WalkOpts{}) {
					okArg := false
					if len(c.Args) == 1 {
						if ac, isCall := ast.Unparen(c.Args[0]).(*ast.CallExpr); isCall && call("tsdb/engine/tsm1.WALSegmentReader.Count")(info, ac) {
							okArg = true
						} else if o := core.ObjOf(info, c.Args[0]); o != nil {
							okArg = assignedOnlyFrom(f, o, call("tsdb/engine/tsm1.WALSegmentReader.Count"))
						}
					}
					r.Check(okArg, rule, f.String(), "Truncate-offset", p.Pos(c.Pos()), "truncate offset is WALSegmentReader.Count() (valid bytes)")
				}
			}
		}
	}
	r.Check(found, rule, f.String(), "Read:absent", f.Pos(), "replay loop reads entries")
	core.RuleErrorsUsed(r, f, "durable-errors", "Truncate", trunc, false, 1)
	if nx := r.Need(p, tsm1, "WALSegmentReader.Next"); nx != nil {
		// r.n (valid bytes) advances only under r.err == nil
		nField := core.LookupField(nx.Pkg.Types, "WALSegmentReader", "n")
		g := nx.Graph()
		stores := g.Select(g.Assigning(nField))
		r.Check(len(stores) >= 1, rule, nx.String(), "n-store:absent", nx.Pos(), "valid-byte counter is advanced")
		errField := core.LookupField(nx.Pkg.Types, "WALSegmentReader", "err")
		reach := g.ReachFromEntry(nil, g.NilEdge(func(x ast.Expr) bool { return errField != nil && core.FieldOf(nx.Info(), x) == errField }, true))
		for _, s := range stores {
			r.Check(!reach[s], rule, nx.String(), "n-advance-guard", g.Line(s), "valid-byte counter advances only after the entry decoded without error")
		}
		um := g.Select(g.Calling(call("tsdb/engine/tsm1.WALEntry.UnmarshalBinary")))
		r.Check(len(um) >= 1, rule, nx.String(), "UnmarshalBinary:absent", nx.Pos(), "entry is decoded")
		reachU := g.ReachFromEntry(g.Calling(call("tsdb/engine/tsm1.WALEntry.UnmarshalBinary")), nil)
		for _, s := range stores {
			r.Check(!reachU[s], rule, nx.String(), "decode<n-advance", g.Line(s), "decode precedes advancing the valid-byte counter")
		}
	}
}

// assignedOnlyFrom: local variable o has exactly one assignment, from a call of class m.
func assignedOnlyFrom(f *core.Func, o types.Object, m core.Matcher) bool {
	n, good := 0, 0
	ast.Inspect(f.Decl.Body, func(x ast.Node) bool {
		as, ok := x.(*ast.AssignStmt)
		if !ok {
			return true
		}
		for i, l := range as.Lhs {
			if core.ObjOf(f.Info(), l) != o {
				continue
			}
			n++
			if len(as.Lhs) == len(as.Rhs) {
				if c, ok := ast.Unparen(as.Rhs[i]).(*ast.CallExpr); ok && m(f.Info(), c) {
					good++
				}
			} else if len(as.Rhs) == 1 {
				// v, err := call()
				if c, ok := ast.Unparen(as.Rhs[0]).(*ast.CallExpr); ok && m(f.Info(), c) {
					good++
				}
			}
		}
		return true
	})
	return n == 1 && good == 1
}
