package rules

import (
	"go/ast"

	"verif/checker/core"
)

// The robin-hood map owns its keys: callers (series index, tag caches) re-use the
// key slice they pass to Put. A slot whose key aliases a caller's buffer changes
// silently afterwards — Get of the original key finds nothing, Len under-counts.
// Every store to hashElem.key therefore has to be a copy made by the package's own
// copy helper (or nil / a reslice of the slot's own buffer); seed C36c swapped the
// caller's slice into the slot on displacement.
func init() {
	extend("C36", "key-owned: in pkg/rhh every store to hashElem.key is the result of the package's copy helper `assign`, nil, or a reslice of the same field — a slot never aliases a slice handed in by a caller (callers re-use their key buffers).",
		nil, func(p *core.Prog, r *core.Report, tier string) {
			const rule = "key-owned"
			const pkg = "pkg/rhh"
			pk := p.Pkg(pkg)
			if pk == nil {
				r.Bad("anchor", pkg, "unresolved", "-", "package not loaded")
				return
			}
			kf := core.LookupField(pk.Types, "hashElem", "key")
			if kf == nil {
				r.Bad("anchor", pkg+".hashElem.key", "unresolved", "-", "field not found")
				return
			}
			copyCall := call(pkg + ".assign")
			stores := 0
			for _, f := range p.Funcs(pkg) {
				if f.Decl.Body == nil {
					continue
				}
				info := f.Info()
				ast.Inspect(f.Decl.Body, func(n ast.Node) bool {
					as, ok := n.(*ast.AssignStmt)
					if !ok {
						return true
					}
					for i, l := range as.Lhs {
						if core.FieldOf(info, ast.Unparen(l)) != kf {
							continue
						}
						stores++
						r.Saw(f)
						owned := false
						if len(as.Rhs) == len(as.Lhs) {
							rhs := ast.Unparen(as.Rhs[i])
							switch x := rhs.(type) {
							case *ast.CallExpr:
								owned = copyCall(info, x)
							case *ast.Ident:
								owned = x.Name == "nil" && info.Uses[x] != nil && info.Uses[x].Pkg() == nil
							case *ast.SliceExpr:
								owned = core.FieldOf(info, ast.Unparen(x.X)) == kf
							}
						}
						r.Check(owned, rule, f.String(), "store:"+core.ExprStr(as.Rhs[min(i, len(as.Rhs)-1)]), p.Pos(as.Pos()),
							"hashElem.key is stored from a copy (assign), nil or its own buffer")
					}
					return true
				})
			}
			r.Check(stores >= 1, rule, pkg, "stores:count", "-", "stores to hashElem.key examined")
		})
}
