package rules

import (
	"fmt"
	"go/ast"
	"go/token"
	"go/types"
	"sort"
	"strings"

	"verif/checker/core"
)

const (
	httpPkg    = "http"
	jwtPkg     = "jsonweb"
	cryptPkg   = "pkg/crypt/algorithm/influxdb2"
	rootPkg    = ""
	sessionPkg = "session"
)

func init() {
	register(&Prop{
		ID:       "C44",
		Patterns: []string{"./http", "./tenant", "./authorization", "./authorizer", "./jsonweb", "./session", "./pkg/crypt/algorithm/influxdb2"},
		Level:    "other",
		Explanation: "Necessary-condition rules for authentication, decided on CFG paths (conditions evaluated under stated facts) with type-resolved callees. " +
			"(serve) http.AuthenticationHandler.ServeHTTP: outside the registered no-auth routes the wrapped Handler is reached only through the nil-branch of the error test that follows extractAuthorization/extractSession (the only producers of the authorizer put on the context; every other switch arm sets a non-nil error), after SetAuthorizer of that authorizer, and, when the authorizer names a valid user id, only after isUserActive returned nil. " +
			"(user-active) isUserActive returns nil only after a successful FindUserByID of the authorizer's user and never when that user's Status is inactive. " +
			"(extract) extractAuthorization returns a *jsonweb.Token only from a nil TokenParser.Parse error (Parse itself only from a nil ParseWithClaims error) and otherwise the result of AuthorizationService.FindAuthorizationByToken on the presented token; extractSession returns only the session found by FindSession and fails when renewal fails; the authorization store returns a token's authorization only after validateToken reported a match. " +
			"(liveness) every implementer of influxdb.Authorizer in the loaded packages is enumerated; Authorization.PermissionSet yields permissions only when IsActive() (Status == Active), Session.PermissionSet only when Expired() == nil (time.Now().After(ExpiresAt) is false); jsonweb.Token is the listed exception (validated at parse time, see extract); any other implementer is reported; authorizer.isAllowedAll/IsAllowedAny fail when PermissionSet() fails. " +
			"(password) comparePasswordNoStrengthCheck returns nil only after bcrypt.CompareHashAndPassword returned nil on the hash loaded for that user id and the presented password; ComparePassword succeeds only with that result; CompareAndSetPassword reaches SetPassword only after the comparison of the *old* password returned nil and stores the *new* one; SetPassword stores the bcrypt hash of its password argument; the password bucket is read, written and deleted under the same key (ID.Encode of the user id). " +
			"(hash-format) the influxdb2 digest variants listed in AllVariants each have a case in Prefix, Hash, Decode and RegisterDecoder, and NewVariant is the inverse of Prefix.",
		NotCovered:  "the numeric/bytes content of hashes (bcrypt, sha256/512, base64) and of session expiry arithmetic; token checks are enforced at authorization time through PermissionSet, so an endpoint that never asks the authorizer for permissions accepts an inactive token (the middleware itself does not test Status); JWT signature/expiry validation inside the jwt library; cookie decoding; influxdb.Authorizer implementers in packages outside the import closure of the loaded patterns (test doubles, mock).",
		Assumptions: []string{"bcrypt.CompareHashAndPassword returns nil only for the password that was hashed", "jwt.Parser.ParseWithClaims validates signature and expiry"},
		Run:         runC44,
	})
}

type c44ctx struct {
	p *core.Prog
	r *core.Report
}

func runC44(p *core.Prog, r *core.Report, tier string) {
	for _, pk := range []string{httpPkg, tenantPkg, authnPkg, authzPkg, jwtPkg, sessionPkg, cryptPkg} {
		if p.Pkg(pk) == nil {
			r.Bad("anchor", pk, "unresolved", "-", "package not loaded")
			return
		}
	}
	c := &c44ctx{p: p, r: r}
	c.serve()
	c.userActive()
	c.extract()
	c.liveness()
	c.password()
	c.hashFormat()
}

func reachesAny(reach map[*core.Node]bool, ns []*core.Node) bool {
	for _, n := range ns {
		if reach[n] {
			return true
		}
	}
	return false
}

// ---------------------------------------------------------------- (serve)

func (c *c44ctx) serve() {
	const rule = "serve"
	r, p := c.r, c.p
	f := r.Need(p, httpPkg, "AuthenticationHandler.ServeHTTP")
	if f == nil {
		return
	}
	g := f.Graph()
	info := f.Info()
	// protected calls: h.Handler.ServeHTTP(…)
	isProt := func(n *core.Node) bool {
		if n.N == nil {
			return false
		}
		for _, cl := range core.CallsIn(info, n.N, call("net/http.Handler.ServeHTTP"), core.WalkOpts{}) {
			recv, _ := core.RecvCall(info, cl)
			if fv := core.FieldOf(info, recv); fv != nil && fv.Name() == "Handler" {
				return true
			}
		}
		return false
	}
	all := g.Select(isProt)
	// no-auth exemption: `handler != nil` where handler comes from noAuthRouter.Lookup
	var hv types.Object
	for _, nd := range g.Select(g.Calling(call("*httprouter.Router.Lookup"))) {
		if as, ok := nd.N.(*ast.AssignStmt); ok && len(as.Lhs) >= 1 {
			cl := core.CallsIn(info, nd.N, call("*httprouter.Router.Lookup"), core.WalkOpts{})[0]
			recv, _ := core.RecvCall(info, cl)
			if fv := core.FieldOf(info, recv); fv != nil && fv.Name() == "noAuthRouter" {
				hv = core.ObjOf(info, as.Lhs[0])
			}
		}
	}
	if !r.Check(hv != nil, rule, f.String(), "noauth-lookup:absent", f.Pos(), "the no-auth route lookup is resolved") {
		return
	}
	noAuthLeaf := func(e ast.Expr) (bool, bool) {
		if x, nonNilOnTrue, ok := core.NilTest(info, e); ok && core.ObjOf(info, x) == hv {
			return !nonNilOnTrue, true // fact: handler == nil (route needs authentication)
		}
		return false, false
	}
	authedWorld := g.ReachUnder([]*core.Node{g.Entry}, nil, noAuthLeaf)
	var prot []*core.Node
	for _, n := range all {
		if authedWorld[n] {
			prot = append(prot, n)
		}
	}
	if !r.Check(len(prot) >= 1 && len(all) >= 2, rule, f.String(), "handler-calls:count", f.Pos(), fmt.Sprintf("%d wrapped-handler calls, %d of them on the authenticated path (>= 2 / >= 1 confirmed by reading)", len(all), len(prot))) {
		return
	}
	// the authorizer variable = operand of SetAuthorizer
	setA := call("context.SetAuthorizer")
	var av types.Object
	for _, cl := range core.AllCalls(info, f.Decl.Body, setA) {
		if len(cl.Args) == 2 {
			av = core.ObjOf(info, cl.Args[1])
		}
	}
	if !r.Check(av != nil, rule, f.String(), "SetAuthorizer:absent", f.Pos(), "the authorizer is placed on the request context") {
		return
	}
	extract := call("http.AuthenticationHandler.extractAuthorization", "http.AuthenticationHandler.extractSession")
	var gates []*core.Gate
	okProv := true
	nAssign := 0
	var errVar types.Object
	for _, a := range core.AssignmentsTo(info, f.Decl.Body, av) {
		if a.Rhs == nil {
			continue // var auth platform.Authorizer
		}
		nAssign++
		cl, isCall := ast.Unparen(a.Rhs).(*ast.CallExpr)
		if !isCall || !extract(info, cl) {
			okProv = false
			r.Bad(rule, f.String(), "authorizer-provenance", p.Pos(a.Stmt.Pos()), "the authorizer is assigned from something other than extractAuthorization/extractSession")
			continue
		}
		nd := g.NodeOf(cl)
		gt, ok := g.GateOf(nd, nil)
		if !r.Check(ok, rule, f.String(), "extract-error-unchecked", p.Pos(cl.Pos()), "the error of "+core.FName(core.Callee(info, cl))+" is tested") {
			okProv = false
			continue
		}
		gates = append(gates, gt)
		errVar = g.ErrVarOf(nd)
		r.Check(!reachesAny(g.Reach([]*core.Node{gt.Fail.To}, nil, nil), prot), rule, f.String(), "handler-after-failed-extract", p.Pos(cl.Pos()), "a failed "+core.FName(core.Callee(info, cl))+" never reaches the wrapped handler")
	}
	if !r.Check(okProv && nAssign >= 2, rule, f.String(), "authorizer-provenance:count", f.Pos(), fmt.Sprintf("%d assignments of the authorizer, all from extract* (>= 2 confirmed by reading)", nAssign)) {
		return
	}
	// every authenticated path to the handler passes the nil-branch of that test
	var succ []*core.Edge
	for _, gt := range gates {
		succ = append(succ, gt.Succ)
	}
	stopSucc := core.WithoutEdges(succ)
	reach := map[*core.Node]bool{}
	{
		// the authenticated world with the nil-branches removed (ReachUnder has no
		// edge filter, so the walk is spelled out here)
		var walk func(n *core.Node)
		walk = func(n *core.Node) {
			if n == nil || reach[n] {
				return
			}
			reach[n] = true
			if len(n.Succ) == 2 && n.Succ[0].Cond != nil && n.Succ[0].Tag == nil {
				if v, known := core.EvalCond(n.Succ[0].Cond, noAuthLeaf); known {
					for _, e := range n.Succ {
						if e.Branch == v && !stopSucc(e) {
							walk(e.To)
						}
					}
					return
				}
			}
			for _, e := range n.Succ {
				if !stopSucc(e) {
					walk(e.To)
				}
			}
		}
		walk(g.Entry)
	}
	r.Check(!reachesAny(reach, prot), rule, f.String(), "handler-without-extract", g.Line(prot[0]), "on routes that need authentication the wrapped handler is reached only through the nil-branch of the extract error test")
	// switch arms: every arm produces the authorizer or a non-nil error
	var sw *ast.SwitchStmt
	ast.Inspect(f.Decl.Body, func(n ast.Node) bool {
		if s, ok := n.(*ast.SwitchStmt); ok && len(core.AllCalls(info, s, extract)) > 0 {
			sw = s
		}
		return true
	})
	if sw != nil {
		hasDefault := false
		for _, cl := range sw.Body.List {
			cc := cl.(*ast.CaseClause)
			if cc.List == nil {
				hasDefault = true
			}
			good := len(core.AllCalls(info, cc, extract)) > 0
			if !good {
				for _, st := range cc.Body {
					if as, ok := st.(*ast.AssignStmt); ok && len(as.Lhs) == 1 && len(as.Rhs) == 1 && errVar != nil && core.ObjOf(info, as.Lhs[0]) == errVar {
						if ec, ok := ast.Unparen(as.Rhs[0]).(*ast.CallExpr); ok && call("errors.New", "fmt.Errorf")(info, ec) {
							good = true
						}
					}
				}
			}
			r.Check(good, rule, f.String(), "switch-arm", p.Pos(cc.Pos()), "the scheme switch arm yields an extracted authorizer or a non-nil error")
		}
		r.Check(hasDefault, rule, f.String(), "switch-default", p.Pos(sw.Pos()), "an unknown scheme is rejected (default arm)")
	} else {
		// no switch: the handler must be dominated by an extract call outright
		r.Check(!reachesAny(g.ReachUnder([]*core.Node{g.Entry}, g.Calling(extract), noAuthLeaf), prot), rule, f.String(), "extract-not-dominating", f.Pos(), "every authenticated path calls extract*")
	}
	// SetAuthorizer(ctx, auth) precedes the handler
	isSet := func(n *core.Node) bool {
		if n.N == nil {
			return false
		}
		for _, cl := range core.CallsIn(info, n.N, setA, core.WalkOpts{}) {
			if len(cl.Args) == 2 && core.ObjOf(info, cl.Args[1]) == av {
				return true
			}
		}
		return false
	}
	r.Check(!reachesAny(g.ReachUnder([]*core.Node{g.Entry}, isSet, noAuthLeaf), prot) || allAreStops(prot, isSet), rule, f.String(), "SetAuthorizer<handler", g.Line(prot[0]), "the request context carries the extracted authorizer before the handler runs")
	// isUserActive for valid user ids
	active := call("http.AuthenticationHandler.isUserActive")
	an := g.Select(g.Calling(active))
	if r.Check(len(an) >= 1, rule, f.String(), "isUserActive:absent", f.Pos(), "the user status check is called") {
		validLeaf := func(e ast.Expr) (bool, bool) {
			if v, k := noAuthLeaf(e); k {
				return v, k
			}
			if cl, ok := e.(*ast.CallExpr); ok && call("kit/platform.ID.Valid")(info, cl) {
				recv, _ := core.RecvCall(info, cl)
				if rc, ok := ast.Unparen(recv).(*ast.CallExpr); ok && call("..Authorizer.GetUserID")(info, rc) {
					if ro, _ := core.RecvCall(info, rc); core.ObjOf(info, ro) == av {
						return true, true // fact: the authorizer names a valid user
					}
				}
			}
			return false, false
		}
		skip := g.ReachUnder([]*core.Node{g.Entry}, g.Calling(active), validLeaf)
		// nodes selected by stop are recorded; drop them (they are the gate itself)
		for _, n := range an {
			delete(skip, n)
		}
		r.Check(!reachesAny(skip, prot), rule, f.String(), "handler-without-isUserActive", g.Line(prot[0]), "for an authorizer with a valid user id the handler is reached only after isUserActive")
		for _, n := range an {
			cl := core.CallsIn(info, n.N, active, core.WalkOpts{})[0]
			r.Check(len(cl.Args) == 2 && core.ObjOf(info, cl.Args[1]) == av, rule, f.String(), "isUserActive-operand", g.Line(n), "isUserActive is asked about the extracted authorizer")
			gt, ok := g.GateOf(n, nil)
			if r.Check(ok, rule, f.String(), "isUserActive-unchecked", g.Line(n), "the verdict of isUserActive is tested") {
				r.Check(!reachesAny(g.Reach([]*core.Node{gt.Fail.To}, nil, nil), prot), rule, f.String(), "handler-for-inactive-user", g.Line(n), "an inactive (or unknown) user never reaches the wrapped handler")
			}
		}
	}
}

func allAreStops(ns []*core.Node, stop core.NodePred) bool {
	for _, n := range ns {
		if !stop(n) {
			return false
		}
	}
	return len(ns) > 0
}

// ---------------------------------------------------------------- (user-active)

func (c *c44ctx) userActive() {
	const rule = "user-active"
	r, p := c.r, c.p
	f := r.Need(p, httpPkg, "AuthenticationHandler.isUserActive")
	if f == nil {
		return
	}
	g := f.Graph()
	info := f.Info()
	find := call("..UserService.FindUserByID")
	fn := g.Select(g.Calling(find))
	if !r.Check(len(fn) == 1, rule, f.String(), "FindUserByID:absent", f.Pos(), "the user is looked up") {
		return
	}
	exits := g.SuccessExitsX()
	r.Check(len(exits) >= 1, rule, f.String(), "success-exit:absent", f.Pos(), "has a success exit")
	gt, ok := g.GateOf(fn[0], nil)
	if r.Check(ok, rule, f.String(), "FindUserByID-unchecked", g.Line(fn[0]), "the lookup error is tested") {
		r.Check(!reachesAny(g.ReachFromEntry(nil, core.WithoutEdges([]*core.Edge{gt.Succ})), exits), rule, f.String(), "active-without-lookup", g.Line(fn[0]), "nil is returned only after the user was found")
	}
	// operand: the authorizer's user id
	cl := core.CallsIn(info, fn[0].N, find, core.WalkOpts{})[0]
	okArg := false
	if len(cl.Args) == 2 {
		if gc, isCall := ast.Unparen(cl.Args[1]).(*ast.CallExpr); isCall && call("..Authorizer.GetUserID")(info, gc) {
			ro, _ := core.RecvCall(info, gc)
			okArg = core.ObjOf(info, ro) == f.Param(1)
		}
	}
	r.Check(okArg, rule, f.String(), "lookup-operand", g.Line(fn[0]), "the user looked up is the authorizer's user")
	// status: never nil for an inactive user
	var uv types.Object
	if as, ok := fn[0].N.(*ast.AssignStmt); ok {
		uv = core.ObjOf(info, as.Lhs[0])
	}
	inactive := ""
	if rp := p.Pkg(rootPkg); rp != nil {
		if k, ok := rp.Types.Scope().Lookup("Inactive").(*types.Const); ok {
			inactive = k.Val().ExactString()
		}
	}
	tested := false
	leaf := func(e ast.Expr) (bool, bool) {
		be, ok := e.(*ast.BinaryExpr)
		if !ok || (be.Op != token.EQL && be.Op != token.NEQ) {
			return false, false
		}
		isStatus := func(x ast.Expr) bool {
			se, ok := ast.Unparen(x).(*ast.SelectorExpr)
			if !ok {
				return false
			}
			fv := core.FieldOf(info, se)
			return fv != nil && fv.Name() == "Status" && uv != nil && core.ObjOf(info, se.X) == uv
		}
		isInactive := func(x ast.Expr) bool {
			v := core.ConstVal(info, x)
			return v != nil && inactive != "" && v.ExactString() == inactive
		}
		if (isStatus(be.X) && isInactive(be.Y)) || (isStatus(be.Y) && isInactive(be.X)) {
			tested = true
			return be.Op == token.EQL, true // fact: Status == inactive
		}
		return false, false
	}
	under := g.ReachUnder([]*core.Node{g.Entry}, nil, leaf)
	r.Check(tested, rule, f.String(), "status-test:absent", f.Pos(), "the found user's Status is compared with the inactive status")
	r.Check(!reachesAny(under, exits), rule, f.String(), "inactive-user-accepted", f.Pos(), "with Status == inactive no success return is reachable")
}

// ---------------------------------------------------------------- (extract)

func (c *c44ctx) extract() {
	const rule = "extract"
	r, p := c.r, c.p
	if f := r.Need(p, httpPkg, "AuthenticationHandler.extractAuthorization"); f != nil {
		g := f.Graph()
		info := f.Info()
		parse := call("jsonweb.TokenParser.Parse")
		find := call("..AuthorizationService.FindAuthorizationByToken")
		getTok := call("http.GetToken")
		pn := g.Select(g.Calling(parse))
		tn := g.Select(g.Calling(getTok))
		if r.Check(len(pn) == 1 && len(tn) == 1, rule, f.String(), "shape", f.Pos(), "one GetToken and one TokenParser.Parse") {
			var tv types.Object
			if as, ok := tn[0].N.(*ast.AssignStmt); ok {
				tv = core.ObjOf(info, as.Lhs[0])
			}
			pgt, okP := g.GateOf(pn[0], nil)
			tgt, okT := g.GateOf(tn[0], nil)
			r.Check(okP, rule, f.String(), "Parse-unchecked", g.Line(pn[0]), "the parse error is tested")
			r.Check(okT, rule, f.String(), "GetToken-unchecked", g.Line(tn[0]), "the GetToken error is tested")
			exits := g.SuccessExitsX()
			var noParse map[*core.Node]bool
			if okP {
				noParse = g.ReachFromEntry(nil, core.WithoutEdges([]*core.Edge{pgt.Succ}))
			}
			nTok, nFind := 0, 0
			for _, x := range exits {
				rs, _ := x.N.(*ast.ReturnStmt)
				if rs == nil {
					r.Bad(rule, f.String(), "exit-shape", g.Line(x), "unexpected exit")
					continue
				}
				if len(rs.Results) == 1 {
					cl, isCall := ast.Unparen(rs.Results[0]).(*ast.CallExpr)
					if isCall && find(info, cl) && len(cl.Args) == 2 && tv != nil && core.ObjOf(info, cl.Args[1]) == tv {
						nFind++
						continue
					}
					r.Bad(rule, f.String(), "unknown-authorizer-source", g.Line(x), "a success return forwards something other than FindAuthorizationByToken(ctx, <presented token>)")
					continue
				}
				if len(rs.Results) == 2 && namedIs(info.TypeOf(rs.Results[0]), "jsonweb", "Token") {
					nTok++
					tokObj := core.ObjOf(info, rs.Results[0])
					sc := core.SoleCall(info, f.Decl.Body, tokObj)
					r.Check(sc != nil && parse(info, sc), rule, f.String(), "token-provenance", g.Line(x), "the returned JWT is the one produced by TokenParser.Parse")
					r.Check(okP && !noParse[x], rule, f.String(), "jwt-without-valid-parse", g.Line(x), "a *jsonweb.Token is returned only under a nil parse error")
					continue
				}
				r.Bad(rule, f.String(), "unknown-authorizer-source", g.Line(x), "a success return yields an authorizer that is neither a parsed JWT nor a looked-up authorization")
			}
			r.Check(nTok >= 1 && nFind >= 1, rule, f.String(), "exits:count", f.Pos(), fmt.Sprintf("%d JWT return(s), %d token lookup return(s) (>= 1 each confirmed by reading)", nTok, nFind))
			// Parse gets the presented token
			pc := core.CallsIn(info, pn[0].N, parse, core.WalkOpts{})[0]
			r.Check(len(pc.Args) == 1 && tv != nil && core.ObjOf(info, pc.Args[0]) == tv, rule, f.String(), "Parse-operand", g.Line(pn[0]), "the presented token is what gets parsed")
			if okT {
				r.Check(!reachesAny(g.Reach([]*core.Node{tgt.Fail.To}, nil, nil), exits), rule, f.String(), "success-without-token", g.Line(tn[0]), "a request without a usable Authorization header fails")
			}
		}
	}
	if f := r.Need(p, jwtPkg, "TokenParser.Parse"); f != nil {
		g := f.Graph()
		pw := call("*jwt*.Parser.ParseWithClaims")
		pn := g.Select(g.Calling(pw))
		if r.Check(len(pn) == 1, rule, f.String(), "ParseWithClaims:absent", f.Pos(), "delegates validation to jwt.Parser.ParseWithClaims") {
			gt, ok := g.GateOf(pn[0], nil)
			if r.Check(ok, rule, f.String(), "ParseWithClaims-unchecked", g.Line(pn[0]), "the validation error is tested") {
				r.Check(!reachesAny(g.ReachFromEntry(nil, core.WithoutEdges([]*core.Edge{gt.Succ})), g.SuccessExitsX()), rule, f.String(), "token-without-validation", g.Line(pn[0]), "a token is returned only after ParseWithClaims returned nil")
			}
		}
	}
	if f := r.Need(p, httpPkg, "AuthenticationHandler.extractSession"); f != nil {
		g := f.Graph()
		info := f.Info()
		fs := call("..SessionService.FindSession")
		rn := call("..SessionService.RenewSession")
		fn := g.Select(g.Calling(fs))
		if r.Check(len(fn) == 1, rule, f.String(), "FindSession:absent", f.Pos(), "the session is looked up") {
			exits := g.SuccessExitsX()
			var sv types.Object
			if as, ok := fn[0].N.(*ast.AssignStmt); ok {
				sv = core.ObjOf(info, as.Lhs[0])
			}
			gt, ok := g.GateOf(fn[0], nil)
			if r.Check(ok, rule, f.String(), "FindSession-unchecked", g.Line(fn[0]), "the lookup error is tested") {
				r.Check(!reachesAny(g.ReachFromEntry(nil, core.WithoutEdges([]*core.Edge{gt.Succ})), exits), rule, f.String(), "session-without-lookup", g.Line(fn[0]), "a session is returned only after FindSession returned nil")
			}
			for _, x := range exits {
				rs, _ := x.N.(*ast.ReturnStmt)
				r.Check(rs != nil && len(rs.Results) == 2 && sv != nil && core.ObjOf(info, rs.Results[0]) == sv && len(core.AssignmentsTo(info, f.Decl.Body, sv)) == 1, rule, f.String(), "session-provenance", g.Line(x), "the returned session is the one FindSession produced")
			}
			for _, n := range g.Select(g.Calling(rn)) {
				if rgt, ok := g.GateOf(n, nil); r.Check(ok, rule, f.String(), "RenewSession-unchecked", g.Line(n), "the renewal error is tested") {
					r.Check(!reachesAny(g.Reach([]*core.Node{rgt.Fail.To}, nil, nil), exits), rule, f.String(), "session-after-failed-renew", g.Line(n), "a failed renewal fails the authentication")
				}
			}
		}
	}
	// the authorization store returns an authorization for a token only on a match
	if f := r.Need(p, authnPkg, "Store.GetAuthorizationByToken"); f != nil {
		g := f.Graph()
		info := f.Info()
		vt := call("authorization.Store.validateToken")
		vn := g.Select(g.Calling(vt))
		if r.Check(len(vn) == 1, rule, f.String(), "validateToken:absent", f.Pos(), "the stored token is compared with the presented one") {
			exits := nonNilFirst(g)
			r.Check(len(exits) >= 1, rule, f.String(), "success-exit:absent", f.Pos(), "has an exit that returns an authorization")
			r.Check(!reachesAny(g.ReachFromEntry(func(n *core.Node) bool { return n == vn[0] }, nil), exits), rule, f.String(), "success-without-validateToken", g.Line(vn[0]), "every success return passes validateToken")
			var mv types.Object
			if as, ok := vn[0].N.(*ast.AssignStmt); ok {
				mv = core.ObjOf(info, as.Lhs[0])
			}
			cl := core.CallsIn(info, vn[0].N, vt, core.WalkOpts{})[0]
			r.Check(len(cl.Args) == 2 && core.ObjOf(info, cl.Args[1]) == f.Param(2), rule, f.String(), "validateToken-operand", g.Line(vn[0]), "the presented token is what gets validated")
			leaf := func(e ast.Expr) (bool, bool) {
				if mv != nil && core.ObjOf(info, e) == mv {
					return false, true // fact: no match
				}
				return false, false
			}
			var starts []*core.Node
			for _, e := range vn[0].Succ {
				starts = append(starts, e.To)
			}
			r.Check(mv != nil && len(core.AssignmentsTo(info, f.Decl.Body, mv)) == 1 && !reachesAny(g.ReachUnder(starts, nil, leaf), exits), rule, f.String(), "mismatch-accepted", g.Line(vn[0]), "with match == false no success return is reachable")
			if gt, ok := g.GateOf(vn[0], nil); r.Check(ok, rule, f.String(), "validateToken-unchecked", g.Line(vn[0]), "the validation error is tested") {
				r.Check(!reachesAny(g.Reach([]*core.Node{gt.Fail.To}, nil, nil), exits), rule, f.String(), "validation-error-accepted", g.Line(vn[0]), "a validation error fails the lookup")
			}
		}
	}
}

// ---------------------------------------------------------------- (liveness)

func (c *c44ctx) liveness() {
	const rule = "liveness"
	r, p := c.r, c.p
	rp := p.Pkg(rootPkg)
	if rp == nil {
		r.Bad("anchor", "influxdb", "unresolved", "-", "root package not loaded")
		return
	}
	ifaceObj := rp.Types.Scope().Lookup("Authorizer")
	if ifaceObj == nil {
		r.Bad("anchor", "influxdb.Authorizer", "unresolved", "-", "interface not found")
		return
	}
	iface := ifaceObj.Type().Underlying().(*types.Interface)
	var impls []string
	byName := map[string]*types.Named{}
	for _, pk := range p.ModPkgs() {
		for _, nt := range core.Implementers(pk.Types, iface) {
			n := core.Short(pk.PkgPath) + "." + nt.Obj().Name()
			impls = append(impls, n)
			byName[n] = nt
		}
	}
	sort.Strings(impls)
	r.Check(len(impls) >= 3, rule, "influxdb.Authorizer", "implementers:count", "-", fmt.Sprintf("implementers in the loaded packages: %s (>= 3 confirmed by reading)", strings.Join(impls, ", ")))
	for _, n := range impls {
		switch n {
		case "..Authorization":
			c.authorizationLive(rule)
		case "..Session":
			c.sessionLive(rule)
		case "jsonweb.Token":
			r.Ok(rule, n, "-", "exception: a *jsonweb.Token only exists after TokenParser.Parse validated signature and expiry (rule extract: jwt-without-valid-parse, token-without-validation)")
		default:
			// PermissionSet promoted from an embedded, listed implementer inherits its rule
			from := ""
			if sel := types.NewMethodSet(types.NewPointer(byName[n])).Lookup(byName[n].Obj().Pkg(), "PermissionSet"); sel != nil && len(sel.Index()) > 1 {
				if fn, ok := sel.Obj().(*types.Func); ok {
					if rn := core.NamedOf(fn.Type().(*types.Signature).Recv().Type()); rn != nil && rn.Obj().Pkg() != nil {
						from = core.Short(rn.Obj().Pkg().Path()) + "." + rn.Obj().Name()
					}
				}
			}
			if from == "..Authorization" || from == "..Session" {
				r.Ok(rule, n, p.Pos(byName[n].Obj().Pos()), "PermissionSet is promoted from embedded "+from+", whose liveness rule applies")
			} else {
				r.Bad(rule, n, "unlisted-implementer", p.Pos(byName[n].Obj().Pos()), "an influxdb.Authorizer implementer without a liveness rule; read its PermissionSet and add it to the table")
			}
		}
	}
	for _, want := range []string{"..Authorization", "..Session", "jsonweb.Token"} {
		r.Check(byName[want] != nil, "anchor", want, "unresolved", "-", "implementer present")
	}
	// a failing PermissionSet is a failed authorization
	cc := &c29ctx{p: p, r: r}
	for _, n := range []string{"isAllowedAll", "IsAllowedAny"} {
		if f := r.Need(p, authzPkg, n); f != nil {
			cc.permSetFailsClosed(rule, f)
		}
	}
}

// nonNilSetExits: success exits whose first operand is not the nil literal.
func nonNilFirst(g *core.Graph) []*core.Node {
	var out []*core.Node
	for _, x := range g.SuccessExitsX() {
		rs, _ := x.N.(*ast.ReturnStmt)
		if rs != nil && len(rs.Results) >= 1 && core.IsNilIdent(g.Info, rs.Results[0]) {
			continue
		}
		out = append(out, x)
	}
	return out
}

func (c *c44ctx) authorizationLive(rule string) {
	r, p := c.r, c.p
	if f := r.Need(p, rootPkg, "Authorization.PermissionSet"); f != nil {
		g := f.Graph()
		info := f.Info()
		recvObj := info.Defs[f.Decl.Recv.List[0].Names[0]]
		tested := false
		leaf := func(e ast.Expr) (bool, bool) {
			if cl, ok := e.(*ast.CallExpr); ok && call("..Authorization.IsActive", "..IsActive")(info, cl) {
				ro, _ := core.RecvCall(info, cl)
				if (ro != nil && core.ObjOf(info, ro) == recvObj) || (len(cl.Args) == 1 && core.ObjOf(info, cl.Args[0]) == recvObj) {
					tested = true
					return false, true // fact: not active
				}
			}
			return false, false
		}
		exits := nonNilFirst(g)
		under := g.ReachUnder([]*core.Node{g.Entry}, nil, leaf)
		r.Check(len(exits) >= 1, rule, f.String(), "success-exit:absent", f.Pos(), "returns the permissions on some path")
		r.Check(tested, rule, f.String(), "IsActive-test:absent", f.Pos(), "branches on IsActive() of the receiver")
		r.Check(!reachesAny(under, exits), rule, f.String(), "inactive-token-permissions", f.Pos(), "with IsActive() == false no permission set is returned")
	}
	if f := r.Need(p, rootPkg, "Authorization.IsActive"); f != nil {
		info := f.Info()
		good, n := true, 0
		recvObj := info.Defs[f.Decl.Recv.List[0].Names[0]]
		ast.Inspect(f.Decl.Body, func(x ast.Node) bool {
			rs, ok := x.(*ast.ReturnStmt)
			if !ok {
				return true
			}
			n++
			be, ok := ast.Unparen(rs.Results[0]).(*ast.BinaryExpr)
			if !ok || be.Op != token.EQL {
				good = false
				return true
			}
			isStatus := func(e ast.Expr) bool {
				se, ok := ast.Unparen(e).(*ast.SelectorExpr)
				fv := core.FieldOf(info, e)
				return ok && fv != nil && fv.Name() == "Status" && core.ObjOf(info, se.X) == recvObj
			}
			isActive := func(e ast.Expr) bool { k := core.ConstOf(info, e); return k != nil && k.Name() == "Active" }
			if !((isStatus(be.X) && isActive(be.Y)) || (isStatus(be.Y) && isActive(be.X))) {
				good = false
			}
			return true
		})
		r.Check(good && n == 1, rule, f.String(), "definition", f.Pos(), "IsActive is exactly `a.Status == Active`")
	}
}

func (c *c44ctx) sessionLive(rule string) {
	r, p := c.r, c.p
	if f := r.Need(p, rootPkg, "Session.PermissionSet"); f != nil {
		g := f.Graph()
		info := f.Info()
		recvObj := info.Defs[f.Decl.Recv.List[0].Names[0]]
		exp := call("..Session.Expired")
		en := g.Select(g.Calling(exp))
		exits := nonNilFirst(g)
		r.Check(len(exits) >= 1, rule, f.String(), "success-exit:absent", f.Pos(), "returns the permissions on some path")
		if r.Check(len(en) >= 1, rule, f.String(), "Expired:absent", f.Pos(), "asks Expired()") {
			var succ []*core.Edge
			for _, n := range en {
				cl := core.CallsIn(info, n.N, exp, core.WalkOpts{})[0]
				ro, _ := core.RecvCall(info, cl)
				r.Check(core.ObjOf(info, ro) == recvObj, rule, f.String(), "Expired-operand", g.Line(n), "Expired() is asked of the receiver")
				if gt, ok := g.GateOf(n, nil); r.Check(ok, rule, f.String(), "Expired-unchecked", g.Line(n), "the verdict of Expired() is tested") {
					succ = append(succ, gt.Succ)
				}
			}
			r.Check(len(succ) > 0 && !reachesAny(g.ReachFromEntry(nil, core.WithoutEdges(succ)), exits), rule, f.String(), "expired-session-permissions", f.Pos(), "a permission set is returned only when Expired() returned nil")
		}
	}
	if f := r.Need(p, rootPkg, "Session.Expired"); f != nil {
		g := f.Graph()
		info := f.Info()
		recvObj := info.Defs[f.Decl.Recv.List[0].Names[0]]
		tested := false
		isNow := func(e ast.Expr) bool {
			cl, ok := ast.Unparen(e).(*ast.CallExpr)
			return ok && call("time.Now")(info, cl)
		}
		isExp := func(e ast.Expr) bool {
			se, ok := ast.Unparen(e).(*ast.SelectorExpr)
			fv := core.FieldOf(info, e)
			return ok && fv != nil && fv.Name() == "ExpiresAt" && core.ObjOf(info, se.X) == recvObj
		}
		leaf := func(e ast.Expr) (bool, bool) {
			cl, ok := e.(*ast.CallExpr)
			if !ok || len(cl.Args) != 1 {
				return false, false
			}
			ro, callee := core.RecvCall(info, cl)
			if callee == nil {
				return false, false
			}
			switch core.FName(callee) {
			case "time.Time.After":
				if isNow(ro) && isExp(cl.Args[0]) {
					tested = true
					return true, true // fact: now is after the expiry
				}
			case "time.Time.Before":
				if isExp(ro) && isNow(cl.Args[0]) {
					tested = true
					return true, true
				}
			}
			return false, false
		}
		under := g.ReachUnder([]*core.Node{g.Entry}, nil, leaf)
		r.Check(tested, rule, f.String(), "expiry-test:absent", f.Pos(), "compares time.Now() with the receiver's ExpiresAt")
		r.Check(!reachesAny(under, g.SuccessExitsX()), rule, f.String(), "expired-session-accepted", f.Pos(), "once now is after ExpiresAt, Expired() never returns nil")
	}
}

// ---------------------------------------------------------------- (password)

func (c *c44ctx) password() {
	const rule = "password"
	r, p := c.r, c.p
	cmp := call("tenant.UserSvc.comparePasswordNoStrengthCheck")
	setP := call("tenant.UserSvc.SetPassword")
	// comparePasswordNoStrengthCheck
	if f := r.Need(p, tenantPkg, "UserSvc.comparePasswordNoStrengthCheck"); f != nil {
		g := f.Graph()
		info := f.Info()
		bc := call("golang.org/x/crypto/bcrypt.CompareHashAndPassword")
		bn := g.Select(g.Calling(bc))
		exits := g.SuccessExitsX()
		r.Check(len(exits) >= 1, rule, f.String(), "success-exit:absent", f.Pos(), "has a success exit")
		if r.Check(len(bn) == 1, rule, f.String(), "bcrypt-compare:absent", f.Pos(), "compares with bcrypt.CompareHashAndPassword") {
			gt, ok := g.GateOf(bn[0], nil)
			if r.Check(ok, rule, f.String(), "bcrypt-compare-unchecked", g.Line(bn[0]), "the comparison result is tested") {
				r.Check(!reachesAny(g.ReachFromEntry(nil, core.WithoutEdges([]*core.Edge{gt.Succ})), exits), rule, f.String(), "success-without-match", g.Line(bn[0]), "nil is returned only after bcrypt.CompareHashAndPassword returned nil")
			}
			cl := core.CallsIn(info, bn[0].N, bc, core.WalkOpts{})[0]
			// operand roles
			okPw := false
			if cv, isCall := ast.Unparen(cl.Args[1]).(*ast.CallExpr); isCall {
				if x, isConv := core.IsConversion(info, cv); isConv && core.ObjOf(info, x) == f.Param(2) {
					okPw = true
				}
			}
			r.Check(okPw, rule, f.String(), "compare-operand-password", g.Line(bn[0]), "the presented password (parameter) is what gets compared")
			hv := core.ObjOf(info, cl.Args[0])
			okHash := false
			var hashAssign ast.Node
			if hv != nil {
				var real []core.Assignment
				for _, a := range core.AssignmentsTo(info, f.Decl.Body, hv) {
					if a.Rhs != nil {
						real = append(real, a)
					}
				}
				if len(real) == 1 {
					hashAssign = real[0].Stmt
					if cv, isCall := ast.Unparen(real[0].Rhs).(*ast.CallExpr); isCall {
						if x, isConv := core.IsConversion(info, cv); isConv {
							if sc := core.SoleCall(info, f.Decl.Body, core.ObjOf(info, x)); sc != nil && call("tenant.Store.GetPassword")(info, sc) && len(sc.Args) == 3 && core.ObjOf(info, sc.Args[2]) == f.Param(1) {
								okHash = true
							}
						}
					}
				}
			}
			r.Check(okHash, rule, f.String(), "compare-operand-hash", g.Line(bn[0]), "the hash compared is the one GetPassword returned for the user id parameter")
			// the hash was loaded: the View transaction succeeded, and inside it every success exit stored the hash
			vn := g.Select(g.Calling(call("tenant.Store.View")))
			if r.Check(len(vn) == 1, rule, f.String(), "View:absent", f.Pos(), "the hash is read in a View transaction") {
				if vgt, ok := g.GateOf(vn[0], nil); r.Check(ok, rule, f.String(), "View-unchecked", g.Line(vn[0]), "the transaction error is tested") {
					r.Check(!g.ReachFromEntry(nil, core.WithoutEdges([]*core.Edge{vgt.Succ}))[bn[0]], rule, f.String(), "compare-after-failed-load", g.Line(bn[0]), "the comparison runs only after the hash was loaded without error")
				}
				for _, lg := range f.Graphs()[1:] {
					if hashAssign == nil || lg.NodeOf(hashAssign) == nil {
						continue
					}
					hn := lg.NodeOf(hashAssign)
					bad := lg.MustPassX(func(n *core.Node) bool { return n == hn }, nil)
					r.Check(len(bad) == 0, rule, f.String(), "hash-load", lg.Line(hn), "inside the transaction every success exit has stored the loaded hash")
					// GetPassword error leads to failure
					for _, gn := range lg.Select(lg.Calling(call("tenant.Store.GetPassword"))) {
						if ggt, ok := lg.GateOf(gn, nil); r.Check(ok, rule, f.String(), "GetPassword-unchecked", lg.Line(gn), "the GetPassword error is tested") {
							r.Check(!reachesAny(lg.Reach([]*core.Node{ggt.Fail.To}, nil, nil), lg.SuccessExitsX()), rule, f.String(), "missing-hash-accepted", lg.Line(gn), "a missing password hash fails the comparison")
						}
					}
				}
			}
		}
	}
	// ComparePassword: success only with the comparison's result
	if f := r.Need(p, tenantPkg, "UserSvc.ComparePassword"); f != nil {
		g := f.Graph()
		info := f.Info()
		exits := g.SuccessExitsX()
		good := len(exits) >= 1
		for _, x := range exits {
			rs, _ := x.N.(*ast.ReturnStmt)
			ok := false
			if rs != nil && len(rs.Results) == 1 {
				if sc := core.SoleCall(info, f.Decl.Body, core.ObjOf(info, rs.Results[0])); sc != nil && cmp(info, sc) {
					ok = len(sc.Args) == 3 && core.ObjOf(info, sc.Args[1]) == f.Param(1) && core.ObjOf(info, sc.Args[2]) == f.Param(2)
				}
			}
			if !ok {
				good = false
				r.Bad(rule, f.String(), "success-not-compare-result", g.Line(x), "a success return is not the result of comparePasswordNoStrengthCheck(ctx, userID, password)")
			}
		}
		if good {
			r.Ok(rule, f.String(), f.Pos(), fmt.Sprintf("%d success exit(s) return the comparison result", len(exits)))
		}
	}
	// CompareAndSetPassword
	if f := r.Need(p, tenantPkg, "UserSvc.CompareAndSetPassword"); f != nil {
		g := f.Graph()
		info := f.Info()
		cn, sn := g.Select(g.Calling(cmp)), g.Select(g.Calling(setP))
		if r.Check(len(cn) == 1 && len(sn) >= 1, rule, f.String(), "shape", f.Pos(), "one comparison, at least one SetPassword") {
			gt, ok := g.GateOf(cn[0], nil)
			if r.Check(ok, rule, f.String(), "compare-unchecked", g.Line(cn[0]), "the comparison result is tested") {
				reach := g.ReachFromEntry(nil, core.WithoutEdges([]*core.Edge{gt.Succ}))
				r.Check(!reachesAny(reach, sn), rule, f.String(), "set-without-compare", g.Line(sn[0]), "SetPassword is reachable only after the comparison returned nil")
			}
			cc := core.CallsIn(info, cn[0].N, cmp, core.WalkOpts{})[0]
			r.Check(len(cc.Args) == 3 && core.ObjOf(info, cc.Args[1]) == f.Param(1) && core.ObjOf(info, cc.Args[2]) == f.Param(2), rule, f.String(), "compare-operands", g.Line(cn[0]), "the comparison is of (userID, old)")
			for _, n := range sn {
				sc := core.CallsIn(info, n.N, setP, core.WalkOpts{})[0]
				r.Check(len(sc.Args) == 3 && core.ObjOf(info, sc.Args[1]) == f.Param(1) && core.ObjOf(info, sc.Args[2]) == f.Param(3), rule, f.String(), "set-operands", g.Line(n), "the password stored is (userID, new)")
			}
			core.RuleMustPass(r, f, rule, "SetPassword", setP, false)
		}
	}
	// SetPassword stores the bcrypt hash of its argument
	if f := r.Need(p, tenantPkg, "UserSvc.SetPassword"); f != nil {
		info := f.Info()
		ss := core.AllCalls(info, f.Decl.Body, call("tenant.Store.SetPassword"))
		if r.Check(len(ss) == 1, rule, f.String(), "Store.SetPassword:absent", f.Pos(), "writes through Store.SetPassword") {
			ok := false
			if len(ss[0].Args) == 4 && core.ObjOf(info, ss[0].Args[2]) == f.Param(1) {
				if sc := core.SoleCall(info, f.Decl.Body, core.ObjOf(info, ss[0].Args[3])); sc != nil && call("tenant.encryptPassword")(info, sc) && len(sc.Args) == 1 && core.ObjOf(info, sc.Args[0]) == f.Param(2) {
					ok = true
				}
			}
			r.Check(ok, rule, f.String(), "stored-value", p.Pos(ss[0].Pos()), "what is stored for userID is encryptPassword(password)")
		}
		core.RuleErrorsUsed(r, f, rule+"-errors", "encrypt/Update/SetPassword", call("tenant.encryptPassword", "tenant.Store.Update", "tenant.Store.SetPassword"), false, 3)
	}
	if f := r.Need(p, tenantPkg, "encryptPassword"); f != nil {
		info := f.Info()
		gen := core.AllCalls(info, f.Decl.Body, call("golang.org/x/crypto/bcrypt.GenerateFromPassword"))
		ok := false
		if len(gen) == 1 {
			if cv, isCall := ast.Unparen(gen[0].Args[0]).(*ast.CallExpr); isCall {
				if x, isConv := core.IsConversion(info, cv); isConv && core.ObjOf(info, x) == f.Param(0) {
					ok = true
				}
			}
		}
		r.Check(ok, rule, f.String(), "hash-input", f.Pos(), "the bcrypt hash is generated from the password parameter")
		g := f.Graph()
		good := ok
		for _, x := range g.SuccessExitsX() {
			rs, _ := x.N.(*ast.ReturnStmt)
			okRet := false
			if rs != nil && len(rs.Results) == 2 {
				if cv, isCall := ast.Unparen(rs.Results[0]).(*ast.CallExpr); isCall {
					if xx, isConv := core.IsConversion(info, cv); isConv {
						if sc := core.SoleCall(info, f.Decl.Body, core.ObjOf(info, xx)); sc != nil && len(gen) == 1 && sc == gen[0] {
							okRet = true
						}
					}
				}
			}
			if !okRet {
				good = false
			}
		}
		r.Check(good, rule, f.String(), "hash-output", f.Pos(), "the value returned is the generated hash")
	}
	// the password bucket: one key function, key from the id parameter, value from the password parameter
	for _, n := range []string{"Store.GetPassword", "Store.SetPassword", "Store.DeletePassword"} {
		f := r.Need(p, tenantPkg, n)
		if f == nil {
			continue
		}
		info := f.Info()
		ops := kvOpsOf(f)
		if !r.Check(len(ops) == 1 && ops[0].bucket != nil && ops[0].bucket.Name() == "userpasswordBucket", rule, f.String(), "bucket", f.Pos(), "one operation, on userpasswordBucket") {
			continue
		}
		op := ops[0]
		okKey := op.keyFn == "kit/platform.ID.Encode"
		if kc, isCall := op.keyExpr.(*ast.CallExpr); okKey && isCall {
			ro, _ := core.RecvCall(info, kc)
			okKey = core.ObjOf(info, ro) == f.Param(2)
		}
		r.Check(okKey, rule, f.String(), "key", p.Pos(op.call.Pos()), "the key is ID.Encode of the user id parameter")
		if op.op == "Put" {
			okV := false
			if cv, isCall := ast.Unparen(op.call.Args[1]).(*ast.CallExpr); isCall {
				if x, isConv := core.IsConversion(info, cv); isConv && core.ObjOf(info, x) == f.Param(3) {
					okV = true
				}
			}
			r.Check(okV, rule, f.String(), "value", p.Pos(op.call.Pos()), "the value stored is the hash parameter")
		}
	}
}

// ---------------------------------------------------------------- (hash-format)

func (c *c44ctx) hashFormat() {
	const rule = "hash-format"
	r, p := c.r, c.p
	pk := p.Pkg(cryptPkg)
	consts := core.ConstsOfType(pk.Types, "Variant")
	var variants []string
	for n, k := range consts {
		if n == "VariantNone" || n == "DefaultVariant" {
			continue
		}
		_ = k
		variants = append(variants, n)
	}
	sort.Strings(variants)
	if !r.Check(len(variants) >= 2, rule, cryptPkg+".Variant", "variants:count", "-", fmt.Sprintf("digest variants %v (>= 2 confirmed by reading)", variants)) {
		return
	}
	// AllVariants lists them all
	listed := map[string]bool{}
	for _, file := range pk.Syntax {
		ast.Inspect(file, func(n ast.Node) bool {
			vs, ok := n.(*ast.ValueSpec)
			if !ok {
				return true
			}
			for i, nm := range vs.Names {
				if nm.Name == "AllVariants" && i < len(vs.Values) {
					if cl, ok := vs.Values[i].(*ast.CompositeLit); ok {
						for _, e := range cl.Elts {
							if k := core.ConstOf(pk.TypesInfo, e); k != nil {
								listed[k.Name()] = true
							}
						}
					}
				}
			}
			return true
		})
	}
	for _, v := range variants {
		r.Check(listed[v], rule, cryptPkg+".AllVariants", v, "-", "AllVariants (the decoders that get registered) lists "+v)
	}
	for _, fn := range []string{"Variant.Prefix", "Variant.Hash", "Variant.Decode", "Variant.RegisterDecoder", "Digest.defaults"} {
		f := r.Need(p, cryptPkg, fn)
		if f == nil {
			continue
		}
		sws := core.Switches(f.Info(), f.Decl.Body, "Variant")
		if !r.Check(len(sws) == 1, rule, f.String(), "switch:absent", f.Pos(), "switches on the variant") {
			continue
		}
		for _, v := range variants {
			r.Check(sws[0].Consts[v], rule, f.String(), "case:"+v, f.Pos(), "has a case for "+v)
		}
	}
	// Prefix and NewVariant are inverse
	pf, nv := r.Need(p, cryptPkg, "Variant.Prefix"), r.Need(p, cryptPkg, "NewVariant")
	if pf == nil || nv == nil {
		return
	}
	table := func(f *core.Func) map[string]string {
		out := map[string]string{}
		ast.Inspect(f.Decl.Body, func(n ast.Node) bool {
			cc, ok := n.(*ast.CaseClause)
			if !ok || len(cc.List) != 1 {
				return true
			}
			k := core.ConstOf(f.Info(), cc.List[0])
			if k == nil {
				return true
			}
			for _, st := range cc.Body {
				if rs, ok := st.(*ast.ReturnStmt); ok && len(rs.Results) == 1 {
					if v := core.ConstOf(f.Info(), rs.Results[0]); v != nil {
						out[k.Name()] = v.Name()
					}
				}
			}
			return true
		})
		return out
	}
	pt, nt := table(pf), table(nv)
	for _, v := range variants {
		id := pt[v]
		r.Check(id != "" && nt[id] == v, rule, cryptPkg+".NewVariant", "inverse:"+v, nv.Pos(), fmt.Sprintf("Prefix(%s) = %s and NewVariant(%s) = %s", v, id, id, nt[id]))
	}
}
