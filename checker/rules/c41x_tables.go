package rules

import (
	"fmt"
	"go/ast"
	"go/token"
	"go/types"
	"strings"

	"golang.org/x/tools/go/cfg"

	"verif/checker/core"
)

// ---------------------------------------------------------------- (2) window-of-timestamp

const (
	c41GetLatest = "*flux/interval.Window.GetLatestBounds"
	c41Prev      = "*flux/interval.Window.PrevBounds"
	c41Next      = "*flux/interval.Window.NextBounds"
	c41BStart    = "*flux/interval.Bounds.Start"
	c41BStop     = "*flux/interval.Bounds.Stop"
)

func (c *c41Ctx) windowOfTimestamp() {
	const rule = "window-of-timestamp"
	p, r := c.p, c.r
	tsF := map[string]*types.Var{}
	n := 0
	for _, T := range c41Types {
		typ := strings.ToLower(T) + "WindowTable"
		f := r.Need(p, c41Pk, typ+".createNextBufferTimes")
		isAggF := c.field(typ, "isAggregate")
		arrF := c.field(typ, "arr")
		tsF[T] = c.extField("tsdb/cursors", T+"Array", "Timestamps")
		if f == nil || isAggF == nil || arrF == nil || tsF[T] == nil {
			continue
		}
		info, g, body := f.Info(), f.Graph(), f.Decl.Body
		recv := f.X1Recv()
		isAgg := func(e ast.Expr) bool {
			return fieldOfRoot(info, recv, isAggF)(c41Resolve(info, body, e))
		}
		// the loop over the cursor's timestamps
		var loop *ast.RangeStmt
		for _, rs := range core.RangeOver(body, func(x ast.Expr) bool {
			se, ok := ast.Unparen(x).(*ast.SelectorExpr)
			return ok && core.FieldOf(info, se) == tsF[T] && core.FieldOf(info, se.X) == arrF
		}) {
			loop = rs
		}
		if !r.Check(loop != nil && loop.Value != nil, rule, f.String(), "timestamp-loop:absent", f.Pos(), "the windows of the cursor's points are derived in a loop over t.arr.Timestamps") {
			continue
		}
		tsV := core.ObjOf(info, loop.Value)
		// GetLatestBounds(timestamp) inside the loop
		nLatest := 0
		for _, cl := range core.AllCalls(info, loop.Body, call(c41GetLatest)) {
			if len(cl.Args) == 1 && core.ObjOf(info, c41Resolve(info, loop.Body, cl.Args[0])) == tsV {
				nLatest++
			}
		}
		r.Check(nLatest >= 1, rule, f.String(), "GetLatestBounds(timestamp):absent", p.Pos(loop.Pos()), "the window of a point is looked up from the point's timestamp")
		// PrevBounds only for aggregates
		prev := g.Calling(call(c41Prev))
		var prevs []*core.Node
		for _, nd := range g.Select(prev) {
			if core.InRegion(nd, loop) {
				prevs = append(prevs, nd)
			}
		}
		r.Check(len(prevs) >= 1, rule, f.String(), "PrevBounds:absent", p.Pos(loop.Pos()), "an aggregate's timestamp is the stop of its window: its window is the one before GetLatestBounds(timestamp)")
		noAgg := g.ReachFromEntry(nil, core.X1BoolEdge(isAgg, true))
		ok := true
		for _, nd := range prevs {
			if noAgg[nd] {
				ok = false
				r.Bad(rule, f.String(), "PrevBounds-without-isAggregate", g.Line(nd),
					"PrevBounds is applied to the window of a cursor timestamp on a path that did not establish t.isAggregate: a selector's timestamp (ForceAggregate) lies inside its window (isInWindow: start <= ts < stop), so its row gets the previous window, no value matches it and idxInArr never advances")
			}
		}
		if ok && len(prevs) > 0 {
			r.Ok(rule, f.String(), p.Pos(loop.Pos()), "PrevBounds is applied only behind t.isAggregate")
		}
		// on the aggregate path the clip is not reached without PrevBounds
		_, lbody, _ := g.LoopNodes(loop)
		gwb := g.Calling(call(c41Pk + "." + typ + ".getWindowBoundsFor"))
		var clipN []*core.Node
		for _, nd := range g.Select(gwb) {
			if core.InRegion(nd, loop) {
				clipN = append(clipN, nd)
			}
		}
		if r.Check(lbody != nil && len(clipN) >= 1, rule, f.String(), "clip-in-loop:absent", p.Pos(loop.Pos()), "each point's window is clipped by getWindowBoundsFor") {
			free := g.Reach([]*core.Node{lbody}, prev, core.X1BoolEdge(isAgg, false))
			bad := false
			for _, nd := range clipN {
				if free[nd] && !prev(nd) {
					bad = true
				}
			}
			r.Check(!bad, rule, f.String(), "aggregate-without-PrevBounds", p.Pos(loop.Pos()), "with t.isAggregate the window handed to getWindowBoundsFor went through PrevBounds")
		}
		n++
	}
	r.Check(n == 5, rule, c41Pk, "instances:fewer-than-confirmed", "-", fmt.Sprintf("%d createNextBufferTimes examined (5 confirmed by reading)", n))
}

// ---------------------------------------------------------------- (3) table-end

func (c *c41Ctx) tableEnd() {
	const rule = "table-end"
	p, r := c.p, c.r
	n := 0
	for _, T := range c41Types {
		typ := strings.ToLower(T) + "EmptyWindowSelectorTable"
		f := r.Need(p, c41Pk, typ+".advance")
		wbF := c.field(typ, "windowBounds")
		stopF := c.field(typ, "rangeStop")
		arrF := c.field(typ, "arr")
		if f == nil || wbF == nil || stopF == nil {
			continue
		}
		info, g, body := f.Info(), f.Graph(), f.Decl.Body
		recv := f.X1Recv()
		isWinStart := c41MethodOn(info, body, c41BStart, func(rc ast.Expr) bool { return fieldOfRoot(info, recv, wbF)(c41Resolve(info, body, rc)) })
		isStop := func(e ast.Expr) bool { return fieldOfRoot(info, recv, stopF)(c41Resolve(info, body, e)) }
		exhausted := core.X1CmpFact(isWinStart, isStop, core.X1GE)
		// "nothing produced yet": a boolean field of the table that is only ever set to true, and that advance sets on every continuing path
		started := c.startedFlags(f, typ)
		notStarted := func(ft core.X1Fact) bool {
			fv := core.FieldOf(info, c41Resolve(info, body, ft.E))
			return fv != nil && started[fv] && !ft.True && fieldOfRoot(info, recv, fv)(c41Resolve(info, body, ft.E))
		}
		isArr := func(e ast.Expr) bool { return arrF != nil && fieldOfRoot(info, recv, arrF)(c41Resolve(info, body, e)) }
		dry := c41LenZero(info, body, isArr, true)
		notDry := c41LenZero(info, body, isArr, false)
		remains := core.X1CmpFact(isWinStart, isStop, core.X1LT)
		// ending needs: no window left, or (nothing produced yet and the cursor is dry)
		okEdge := func(e *core.Edge) bool {
			if e.Cond == nil || e.Tag != nil {
				return false
			}
			if c41Holds(e.Cond, e.Branch, exhausted) {
				return true
			}
			return c41Holds(e.Cond, e.Branch, core.X1AnyFact(exhausted, notStarted)) && c41Holds(e.Cond, e.Branch, dry)
		}
		free := g.ReachFromEntry(nil, okEdge)
		// continuing needs: the cursor is not dry, or a window remains
		goOn := g.ReachFromEntry(nil, c41HoldsEdge(core.X1AnyFact(notDry, remains)))
		nFalse, nTrue := 0, 0
		for _, x := range g.Exits {
			rs, ok := x.N.(*ast.ReturnStmt)
			if !ok || len(rs.Results) != 1 {
				continue
			}
			v, isConst := core.ConstBool(info, rs.Results[0])
			if !r.Check(isConst, rule, f.String(), "end-decision-not-constant", g.Line(x), "advance reports more / no more rows with a constant per path") {
				continue
			}
			if v {
				nTrue++
				r.Check(!goOn[x], rule, f.String(), "continues-without-work", g.Line(x), "advance goes on only while the cursor still has points or a window remains (windowBounds.Start() < rangeStop); otherwise it would hand out empty buffers for ever")
				continue
			}
			nFalse++
			r.Check(!free[x], rule, f.String(), "ends-while-windows-remain", g.Line(x),
				"`return false` (no more rows) is reached only after windowBounds.Start() >= rangeStop or while nothing has been produced yet; today it is reachable because the cursor ran dry, which drops the empty windows after a full block")
		}
		r.Check(nFalse >= 1 && nTrue >= 1, rule, f.String(), "returns:absent", f.Pos(), fmt.Sprintf("%d `return false`, %d `return true`", nFalse, nTrue))
		n++
		// loop exits of the enumeration
		c.loopExits(typ+".startStopTimes", func(lf *core.Func) (isStart, isEnd func(ast.Expr) bool) {
			li, lb := lf.Info(), lf.Decl.Body
			lr := lf.X1Recv()
			return c41MethodOn(li, lb, c41BStart, func(rc ast.Expr) bool { return fieldOfRoot(li, lr, wbF)(c41Resolve(li, lb, rc)) }),
				func(e ast.Expr) bool { return fieldOfRoot(li, lr, stopF)(c41Resolve(li, lb, e)) }
		}, nil)
	}
	r.Check(n == 5, rule, c41Pk, "instances:fewer-than-confirmed", "-", fmt.Sprintf("%d advance functions examined (5 confirmed by reading)", n))
	// window table: the createEmpty enumeration ends only when no window is left (all windows in one buffer)
	for _, T := range c41Types {
		typ := strings.ToLower(T) + "WindowTable"
		wbF := c.field(typ, "windowBounds")
		bndF := core.LookupField(c.pkT, "table", "bounds")
		stopF := c.extField("github.com/influxdata/flux/execute", "Bounds", "Stop")
		ceF := c.field(typ, "createEmpty")
		if wbF == nil || bndF == nil || stopF == nil || ceF == nil {
			continue
		}
		c.loopExits(typ+".createNextBufferTimes", func(lf *core.Func) (isStart, isEnd func(ast.Expr) bool) {
			li, lb := lf.Info(), lf.Decl.Body
			gwb := call(c41Pk + "." + typ + ".getWindowBoundsFor")
			isStart = func(e ast.Expr) bool {
				// Bounds.Start() of the current window, or its clipped form: result 0 of getWindowBoundsFor
				if c41MethodOn(li, lb, c41BStart, nil)(e) {
					return true
				}
				if o := core.ObjOf(li, core.StripConv(li, e)); o != nil {
					for _, d := range core.DefsOf(li, lb, o) {
						if cl, ok := d.Rhs.(*ast.CallExpr); ok && d.Index == 0 && gwb(li, cl) {
							return true
						}
					}
				}
				return false
			}
			isEnd = func(e ast.Expr) bool {
				se, ok := c41Resolve(li, lb, e).(*ast.SelectorExpr)
				return ok && core.FieldOf(li, se) == stopF && core.FieldOf(li, se.X) == bndF
			}
			return
		}, ceF)
	}
}

// startedFlags: boolean fields of typ that the package only ever stores the
// constant true into and that advance stores on every path to `return true`.
func (c *c41Ctx) startedFlags(adv *core.Func, typ string) map[*types.Var]bool {
	out := map[*types.Var]bool{}
	st := core.StructOf(c.pkT, typ)
	if st == nil {
		return out
	}
	info, g := adv.Info(), adv.Graph()
	for i := 0; i < st.NumFields(); i++ {
		fv := st.Field(i)
		b, ok := fv.Type().Underlying().(*types.Basic)
		if !ok || b.Kind() != types.Bool {
			continue
		}
		onlyTrue, any := true, false
		for _, fn := range c.p.Funcs(c41Pk) {
			if fn.Decl.Body == nil {
				continue
			}
			fi := fn.Info()
			ast.Inspect(fn.Decl.Body, func(n ast.Node) bool {
				switch s := n.(type) {
				case *ast.AssignStmt:
					for k, l := range s.Lhs {
						if core.FieldOf(fi, l) == fv {
							any = true
							if len(s.Rhs) != len(s.Lhs) || !core.X1IsConstBool(fi, s.Rhs[k], true) {
								onlyTrue = false
							}
						}
					}
				case *ast.KeyValueExpr:
					if id, ok := s.Key.(*ast.Ident); ok && fi.Uses[id] == types.Object(fv) && !core.X1IsConstBool(fi, s.Value, false) {
						onlyTrue = false
					}
				case *ast.UnaryExpr:
					if s.Op == token.AND && core.FieldOf(fi, s.X) == fv {
						onlyTrue = false
					}
				}
				return true
			})
		}
		if !any || !onlyTrue {
			continue
		}
		// set on every continuing path of advance
		miss := g.ReachFromEntry(g.Assigning(fv), nil)
		ok = true
		for _, x := range g.Exits {
			if rs, isRet := x.N.(*ast.ReturnStmt); isRet && miss[x] && len(rs.Results) == 1 && !core.X1IsConstBool(info, rs.Results[0], false) {
				ok = false
			}
		}
		if ok {
			out[fv] = true
		}
	}
	return out
}

// loopExits: in function fname, the loop that appends the window bounds leaves
// only on an edge that establishes start >= end ("no window left") or that a
// builder holds MaxPointsPerBlock rows ("block full"; not allowed when
// onlyUnder != nil: that loop, under the createEmpty branch, must emit every
// window at once because advance does not come back for the rest).
func (c *c41Ctx) loopExits(fname string, recog func(f *core.Func) (isStart, isEnd func(ast.Expr) bool), onlyUnder *types.Var) {
	const rule = "enumeration-exits"
	p, r := c.p, c.r
	f := r.Need(p, c41Pk, fname)
	if f == nil {
		return
	}
	info, g, body := f.Info(), f.Graph(), f.Decl.Body
	isStart, isEnd := recog(f)
	next := g.Calling(call(c41Next))
	// the enumeration loop: the innermost for statement that contains a NextBounds call
	var loop *ast.ForStmt
	for _, nd := range g.Select(next) {
		ast.Inspect(body, func(n ast.Node) bool {
			if fs, ok := n.(*ast.ForStmt); ok && fs.Pos() <= nd.N.Pos() && nd.N.End() <= fs.End() {
				loop = fs
			}
			return true
		})
	}
	if !r.Check(loop != nil, rule, f.String(), "enumeration-loop:absent", f.Pos(), "the windows are enumerated by a loop that advances with NextBounds") {
		return
	}
	if onlyUnder != nil {
		recvO := f.X1Recv()
		under := core.X1BoolEdge(func(e ast.Expr) bool { return fieldOfRoot(info, recvO, onlyUnder)(c41Resolve(info, body, e)) }, true)
		top := c41LoopTop(g, loop)
		r.Check(top != nil && !g.ReachFromEntry(nil, under)[top], rule, f.String(), "enumeration-under-createEmpty", p.Pos(loop.Pos()), "the enumeration of all windows runs only when createEmpty is set")
	}
	maxC := (*types.Const)(nil)
	if pk := p.Pkg(readsPk10); pk != nil {
		maxC, _ = pk.Types.Scope().Lookup("MaxPointsPerBlock").(*types.Const)
	}
	exhausted := core.X1CmpFact(isStart, isEnd, core.X1GE)
	full := func(ft core.X1Fact) bool {
		x, y, rel, ok := core.X1CmpAtom(ft.E)
		if !ok {
			return false
		}
		if !ft.True {
			rel = [...]core.X1Rel{core.X1GE, core.X1GT, core.X1NE, core.X1EQ, core.X1LT, core.X1LE}[rel]
		}
		isLen := func(e ast.Expr) bool {
			cl, ok := c41Resolve(info, body, e).(*ast.CallExpr)
			return ok && core.Callee(info, cl) != nil && core.Callee(info, cl).Name() == "Len" && strings.Contains(core.FName(core.Callee(info, cl)), "Builder")
		}
		isMax := func(e ast.Expr) bool { return maxC != nil && core.X4ConstObj(info, e) == maxC }
		return ((isLen(x) && isMax(y)) || (isLen(y) && isMax(x))) && (rel == core.X1EQ || rel == core.X1GE || rel == core.X1LE)
	}
	allowed := core.X1AnyFact(exhausted)
	if onlyUnder == nil {
		allowed = core.X1AnyFact(exhausted, full)
	}
	okEdge := core.X1FactEdge(allowed)
	nExit := 0
	for _, nd := range g.Nodes {
		if !c41InLoop(nd, loop) {
			continue
		}
		for _, e := range nd.Succ {
			if c41InLoop(e.To, loop) {
				continue
			}
			nExit++
			// the exit edge itself establishes the reason, or its source (a break / return)
			// is reachable inside the loop only through an edge that does
			okE := okEdge(e) || !c41ReachWithin(g, loop, nd, okEdge)
			r.Check(okE, rule, f.String(), "exit-while-windows-remain", g.Line(nd), "the enumeration loop is left only when the window start reached the end of the range"+map[bool]string{true: "", false: " or the block is full"}[onlyUnder != nil])
		}
	}
	r.Check(nExit >= 1, rule, f.String(), "exits:absent", p.Pos(loop.Pos()), fmt.Sprintf("%d exit edges of the enumeration loop", nExit))
	// conversely a window is emitted only while one remains: the appends of window bounds lie behind start < end
	remains := core.X1FactEdge(core.X1CmpFact(isStart, isEnd, core.X1LT))
	nApp := 0
	for _, nd := range g.Nodes {
		if nd.N == nil || !c41InLoop(nd, loop) || len(core.CallsIn(info, nd.N, call("*flux/array.IntBuilder.Append"), core.WalkOpts{})) == 0 {
			continue
		}
		nApp++
		r.Check(!c41ReachWithin(g, loop, nd, remains), rule, f.String(), "emit-while-no-window-remains", g.Line(nd), "window bounds are appended only behind window start < end of the range (no window at or beyond the end of the range)")
	}
	r.Check(nApp >= 2, rule, f.String(), "appends:absent", p.Pos(loop.Pos()), fmt.Sprintf("%d appends of window bounds in the enumeration loop", nApp))
}

func c41InLoop(n *core.Node, loop ast.Stmt) bool {
	if n == nil {
		return false
	}
	if n.Block != nil && n.Block.Stmt == loop {
		return n.Block.Kind != cfg.KindForDone && n.Block.Kind != cfg.KindRangeDone
	}
	if n.N != nil {
		return core.InRegion(n, loop)
	}
	if n.Block != nil && n.Block.Stmt != nil {
		return loop.Pos() <= n.Block.Stmt.Pos() && n.Block.Stmt.End() <= loop.End()
	}
	return false
}

// c41ReachWithin: target is reachable from the loop head inside the loop without crossing an edge selected by stop.
func c41ReachWithin(g *core.Graph, loop ast.Stmt, target *core.Node, stop core.EdgePred) bool {
	_, lbody, _ := g.LoopNodes(loop)
	var start []*core.Node
	for _, n := range g.Nodes {
		// the block every iteration starts in (it holds the loop condition, if any)
		if n.Block != nil && n.Block.Stmt == loop && n.Block.Kind == cfg.KindForLoop {
			start = append(start, n)
		}
	}
	if len(start) == 0 && lbody != nil {
		start = []*core.Node{lbody}
	}
	if len(start) == 0 {
		return true
	}
	reach := g.Reach(start, nil, func(e *core.Edge) bool { return stop(e) || !c41InLoop(e.To, loop) })
	return reach[target]
}

// c41LoopTop is the node every iteration of loop starts at: the loop condition
// (the first node of the loop block) when there is one, else the first node of the body.
func c41LoopTop(g *core.Graph, loop ast.Stmt) *core.Node {
	for _, n := range g.Nodes {
		if n.Block != nil && n.Block.Stmt == loop && (n.Block.Kind == cfg.KindForLoop || n.Block.Kind == cfg.KindRangeLoop) {
			return n
		}
	}
	_, lbody, _ := g.LoopNodes(loop)
	return lbody
}

// ---------------------------------------------------------------- (4) clip

// c41ClipOf classifies result k of f: +1 = max(X, Y), -1 = min(X, Y), 0 = not
// recognised. Recognised shapes: min/max builtin; a return of X or Y reached only
// through the comparison that makes it the max (min); a variable defined as one
// of them and conditionally overwritten with the other under that comparison; a
// call of a same-package helper of one of these shapes.
func (c *c41Ctx) clipOf(f *core.Func, k int, isX, isY func(ast.Expr) bool, depth int) int {
	info, g, body := f.Info(), f.Graph(), f.Decl.Body
	kind, n := 0, 0
	merge := func(v int) bool {
		n++
		if v == 0 || (kind != 0 && kind != v) {
			kind = 0
			return false
		}
		kind = v
		return true
	}
	for _, x := range g.Exits {
		rs, ok := x.N.(*ast.ReturnStmt)
		if !ok {
			continue
		}
		var e ast.Expr
		switch {
		case len(rs.Results) > k && len(rs.Results) == f.Obj.Type().(*types.Signature).Results().Len():
			e = rs.Results[k]
		case len(rs.Results) == 0 && f.X1Result(k) != nil && f.X1Result(k).Name() != "":
			e = nil
		default:
			return 0
		}
		var v int
		if e == nil {
			v = c.clipVar(f, x, types.Object(f.X1Result(k)), isX, isY)
		} else {
			v = c.clipExpr(f, x, e, isX, isY, depth)
		}
		if !merge(v) {
			return 0
		}
	}
	_ = info
	_ = body
	if n == 0 {
		return 0
	}
	return kind
}

// clipExpr classifies the value e at node at.
func (c *c41Ctx) clipExpr(f *core.Func, at *core.Node, e ast.Expr, isX, isY func(ast.Expr) bool, depth int) int {
	info, g, body := f.Info(), f.Graph(), f.Decl.Body
	rx := func(e ast.Expr) bool { return isX(c41Resolve(info, body, e)) }
	ry := func(e ast.Expr) bool { return isY(c41Resolve(info, body, e)) }
	r := c41Resolve(info, body, e)
	if cl, ok := r.(*ast.CallExpr); ok {
		for _, b := range []struct {
			name string
			kind int
		}{{"max", 1}, {"min", -1}} {
			if core.Builtin(b.name)(info, cl) && len(cl.Args) == 2 && ((rx(cl.Args[0]) && ry(cl.Args[1])) || (ry(cl.Args[0]) && rx(cl.Args[1]))) {
				return b.kind
			}
		}
		if h := c.p.FuncOf(core.Callee(info, cl)); h != nil && h.Decl.Body != nil && h.Pkg == f.Pkg && depth < 1 && h.Decl.Recv == nil {
			sig := h.Obj.Type().(*types.Signature)
			if sig.Results().Len() == 1 && sig.Params().Len() == len(cl.Args) {
				for i := range cl.Args {
					for j := range cl.Args {
						if i == j || !((rx(cl.Args[i]) && ry(cl.Args[j])) || (ry(cl.Args[i]) && rx(cl.Args[j]))) {
							continue
						}
						hi := h.Info()
						pi, pj := h.Param(i), h.Param(j)
						if v := c.clipOf(h, 0, func(e ast.Expr) bool { return pi != nil && core.ObjOf(hi, e) == types.Object(pi) },
							func(e ast.Expr) bool { return pj != nil && core.ObjOf(hi, e) == types.Object(pj) }, depth+1); v != 0 {
							return v
						}
					}
				}
			}
		}
	}
	switch {
	case isX(r):
		geq := !g.ReachFromEntry(nil, core.X1CmpEdge(rx, ry, core.X1GE))[at]
		leq := !g.ReachFromEntry(nil, core.X1CmpEdge(rx, ry, core.X1LE))[at]
		switch {
		case geq && !leq:
			return 1 // X is delivered only where X >= Y: the larger one
		case leq && !geq:
			return -1
		}
		return 0
	case isY(r):
		leq := !g.ReachFromEntry(nil, core.X1CmpEdge(rx, ry, core.X1LE))[at]
		geq := !g.ReachFromEntry(nil, core.X1CmpEdge(rx, ry, core.X1GE))[at]
		switch {
		case leq && !geq:
			return 1 // Y is delivered only where X <= Y
		case geq && !leq:
			return -1
		}
		return 0
	}
	if o, ok := core.ObjOf(info, core.StripConv(info, e)).(*types.Var); ok && !o.IsField() {
		return c.clipVar(f, at, o, isX, isY)
	}
	return 0
}

// clipVar: variable v at node at was defined as A ∈ {X, Y} and conditionally overwritten with the other one.
func (c *c41Ctx) clipVar(f *core.Func, at *core.Node, v types.Object, isX, isY func(ast.Expr) bool) int {
	info, g, body := f.Info(), f.Graph(), f.Decl.Body
	if v == nil {
		return 0
	}
	type def struct {
		n     *core.Node
		class byte
	}
	var defs []def
	for _, d := range core.DefsOf(info, body, v) {
		if d.Rhs == nil || d.Index != -1 || d.Range != nil {
			return 0
		}
		r := c41Resolve(info, body, d.Rhs)
		cl := byte(0)
		switch {
		case isX(r):
			cl = 'X'
		case isY(r):
			cl = 'Y'
		default:
			return 0
		}
		nd := g.NodeOf(d.Stmt)
		if nd == nil {
			return 0
		}
		defs = append(defs, def{nd, cl})
	}
	if len(defs) != 2 || defs[0].class == defs[1].class {
		return 0
	}
	isDef := func(n *core.Node) bool { return n == defs[0].n || n == defs[1].n }
	// d1: reachable from the entry without passing the other definition
	d1, d2 := defs[0], defs[1]
	if g.ReachFromEntry(func(n *core.Node) bool { return n == d1.n }, nil)[d2.n] && !g.ReachFromEntry(func(n *core.Node) bool { return n == d2.n }, nil)[d1.n] {
		// d2 reachable without d1, d1 only after d2: swap
		d1, d2 = d2, d1
	}
	if g.ReachFromEntry(func(n *core.Node) bool { return n == d1.n }, nil)[at] {
		return 0 // the variable may be undefined by d1 at the use
	}
	isA, isB := isX, isY
	if d1.class == 'Y' {
		isA, isB = isY, isX
	}
	isVA := func(e ast.Expr) bool {
		return core.ObjOf(info, core.StripConv(info, e)) == v || isA(c41Resolve(info, body, e))
	}
	rb := func(e ast.Expr) bool { return isB(c41Resolve(info, body, e)) }
	try := func(le, ge core.X1Rel) bool {
		// overwritten with B only where v <= B (max) …
		if g.ReachFromEntry(nil, core.X1CmpEdge(isVA, rb, le))[d2.n] {
			return false
		}
		// … and kept as A only where v >= B
		return !g.Reach(core.After(d1.n, nil), func(n *core.Node) bool { return n == d2.n }, core.X1CmpEdge(isVA, rb, ge))[at]
	}
	_ = isDef
	switch {
	case try(core.X1LE, core.X1GE):
		return 1
	case try(core.X1GE, core.X1LE):
		return -1
	}
	return 0
}

func (c *c41Ctx) clip() {
	const rule = "clip"
	p, r := c.p, c.r
	bndF := core.LookupField(c.pkT, "table", "bounds")
	bStartF := c.extField("github.com/influxdata/flux/execute", "Bounds", "Start")
	bStopF := c.extField("github.com/influxdata/flux/execute", "Bounds", "Stop")
	if !r.Check(bndF != nil, "anchor", c41Pk+".table.bounds", "unresolved", "-", "field resolved") || bStartF == nil || bStopF == nil {
		return
	}
	nGwb, nSites := 0, 0
	for _, T := range c41Types {
		lt := strings.ToLower(T)
		// ---- getWindowBoundsFor
		if f := r.Need(p, c41Pk, lt+"WindowTable.getWindowBoundsFor"); f != nil {
			info := f.Info()
			par := f.Param(0)
			winEdge := func(m string) func(ast.Expr) bool {
				mm := call(m)
				return func(e ast.Expr) bool {
					cl, ok := e.(*ast.CallExpr)
					return ok && mm(info, cl) && par != nil && core.ObjOf(info, core.Recv(cl)) == types.Object(par)
				}
			}
			rangeEdge := func(fv *types.Var) func(ast.Expr) bool {
				return func(e ast.Expr) bool {
					se, ok := e.(*ast.SelectorExpr)
					return ok && core.FieldOf(info, se) == fv && core.FieldOf(info, se.X) == bndF
				}
			}
			k0 := c.clipOf(f, 0, winEdge(c41BStart), rangeEdge(bStartF), 0)
			k1 := c.clipOf(f, 1, winEdge(c41BStop), rangeEdge(bStopF), 0)
			r.Check(k0 == 1, rule, f.String(), "start-not-clipped-up", f.Pos(), "result 0 is max(window start, bounds.Start): a window that begins before the query range starts at the range start")
			r.Check(k1 == -1, rule, f.String(), "stop-not-clipped-down", f.Pos(), "result 1 is min(window stop, bounds.Stop): a window that ends after the query range stops at the range stop")
			nGwb++
		}
		// ---- createNextBufferTimes: what the start/stop builders receive
		if f := r.Need(p, c41Pk, lt+"WindowTable.createNextBufferTimes"); f != nil {
			info, body := f.Info(), f.Decl.Body
			gwb := call(c41Pk + "." + lt + "WindowTable.getWindowBoundsFor")
			roles := c41ResultBuilders(f)
			for _, cl := range core.AllCalls(info, body, call("*flux/array.IntBuilder.Append")) {
				b := core.ObjOf(info, core.Recv(cl))
				role, known := roles[b]
				if !r.Check(known && len(cl.Args) == 1, rule, f.String(), "builder-without-role", p.Pos(cl.Pos()), "every time builder becomes the start (result 0) or stop (result 1) array") {
					continue
				}
				nSites++
				ok := false
				if o := core.ObjOf(info, core.StripConv(info, cl.Args[0])); o != nil {
					ds := core.DefsOf(info, body, o)
					ok = len(ds) >= 1
					for _, d := range ds {
						dc, isCall := d.Rhs.(*ast.CallExpr)
						if !isCall || !gwb(info, dc) || d.Index != role {
							ok = false
						}
					}
				}
				if ok && role < 2 {
					c.noteRole(f, role, [...]string{"start", "stop"}[role])
				}
				r.Check(ok, rule, f.String(), fmt.Sprintf("append-%s-unclipped", [...]string{"start", "stop"}[role]), p.Pos(cl.Pos()),
					fmt.Sprintf("the %s builder receives result %d of getWindowBoundsFor (the clipped bound)", [...]string{"start", "stop"}[role], role))
			}
		}
		// ---- selector tables: appended window edges
		for _, fn := range []struct {
			typ, name string
			optional  bool
		}{
			{lt + "WindowSelectorTable", "startTimes", false}, {lt + "WindowSelectorTable", "stopTimes", false},
			{lt + "EmptyWindowSelectorTable", "startTimes", false}, {lt + "EmptyWindowSelectorTable", "stopTimes", false},
			{lt + "EmptyWindowSelectorTable", "startStopTimes", false},
		} {
			f := r.Need(p, c41Pk, fn.typ+"."+fn.name)
			if f == nil {
				continue
			}
			nSites += c.clipSites(f, fn.typ, bndF, bStartF, bStopF)
		}
		// ---- range fields of the empty-window table
		c.rangeFields(T, bStartF, bStopF)
	}
	r.Check(nGwb == 5 && nSites >= 5*10, rule, c41Pk, "sites:fewer-than-confirmed", "-", fmt.Sprintf("%d getWindowBoundsFor, %d appends of window bounds examined (5 and 80 confirmed by reading; at least 50 in any equivalent form)", nGwb, nSites))
}

// c41ResultBuilders maps each builder variable of f to the result position its array is returned in.
func c41ResultBuilders(f *core.Func) map[types.Object]int {
	info, body := f.Info(), f.Decl.Body
	out := map[types.Object]int{}
	builderOf := func(e ast.Expr) types.Object {
		cl, ok := ast.Unparen(e).(*ast.CallExpr)
		if !ok || core.Callee(info, cl) == nil {
			return nil
		}
		fn := core.FName(core.Callee(info, cl))
		if !strings.Contains(fn, "Builder.New") || !strings.HasSuffix(fn, "Array") {
			return nil
		}
		return core.ObjOf(info, core.Recv(cl))
	}
	sig := f.Obj.Type().(*types.Signature)
	ast.Inspect(body, func(n ast.Node) bool {
		if _, ok := n.(*ast.FuncLit); ok {
			return false
		}
		rs, ok := n.(*ast.ReturnStmt)
		if !ok {
			return true
		}
		for k := 0; k < sig.Results().Len(); k++ {
			var e ast.Expr
			if len(rs.Results) == sig.Results().Len() {
				e = rs.Results[k]
			} else if len(rs.Results) == 0 && f.X1Result(k) != nil {
				// bare return: the named result
				for _, d := range core.DefsOf(info, body, f.X1Result(k)) {
					if d.Rhs != nil {
						if b := builderOf(d.Rhs); b != nil {
							out[b] = k
						}
					}
				}
				continue
			}
			if e == nil {
				continue
			}
			if b := builderOf(e); b != nil {
				out[b] = k
				continue
			}
			if o := core.ObjOf(info, e); o != nil {
				for _, d := range core.DefsOf(info, body, o) {
					if d.Rhs != nil {
						if b := builderOf(d.Rhs); b != nil {
							out[b] = k
						}
					}
				}
			}
		}
		return true
	})
	return out
}

// clipSites checks the appends to the time builders of a selector-table function.
func (c *c41Ctx) clipSites(f *core.Func, typ string, bndF, bStartF, bStopF *types.Var) int {
	const rule = "clip"
	p, r := c.p, c.r
	info, g, body := f.Info(), f.Graph(), f.Decl.Body
	recv := f.X1Recv()
	wbF := core.LookupField(c.pkT, typ, "windowBounds") // nil for the plain selector table
	rsF := core.LookupField(c.pkT, typ, "rangeStart")
	reF := core.LookupField(c.pkT, typ, "rangeStop")
	latest := call(c41GetLatest)
	isWindow := func(e ast.Expr) bool {
		e = c41Resolve(info, body, e)
		if wbF != nil && fieldOfRoot(info, recv, wbF)(e) {
			return true
		}
		cl, ok := e.(*ast.CallExpr)
		return ok && latest(info, cl)
	}
	winEdge := func(m string) func(ast.Expr) bool {
		mm := call(m)
		return func(e ast.Expr) bool {
			cl, ok := e.(*ast.CallExpr)
			return ok && mm(info, cl) && core.Recv(cl) != nil && isWindow(core.Recv(cl))
		}
	}
	rangeEdge := func(own, bf *types.Var) func(ast.Expr) bool {
		return func(e ast.Expr) bool {
			if own != nil && fieldOfRoot(info, recv, own)(e) {
				return true
			}
			se, ok := e.(*ast.SelectorExpr)
			return ok && core.FieldOf(info, se) == bf && core.FieldOf(info, se.X) == bndF
		}
	}
	type role struct {
		name   string
		isX    func(ast.Expr) bool
		isY    func(ast.Expr) bool
		isMax  bool
		needGE core.X1Rel
	}
	roles := []role{
		{"start", winEdge(c41BStart), rangeEdge(rsF, bStartF), true, core.X1GE},
		{"stop", winEdge(c41BStop), rangeEdge(reF, bStopF), false, core.X1LE},
	}
	builders := c41ResultBuilders(f)
	n := 0
	byBuilder := map[types.Object]string{}
	for _, nd := range g.Nodes {
		if nd.N == nil {
			continue
		}
		for _, cl := range core.CallsIn(info, nd.N, call("*flux/array.IntBuilder.Append"), core.WalkOpts{}) {
			b := core.ObjOf(info, core.Recv(cl))
			if _, flows := builders[b]; !flows || len(cl.Args) != 1 {
				r.Bad(rule, f.String(), "builder-without-role", g.Line(nd), "a time builder whose array is not returned")
				continue
			}
			a := c41Resolve(info, body, cl.Args[0])
			got := ""
			for _, ro := range roles {
				rx := func(e ast.Expr) bool { return ro.isX(c41Resolve(info, body, e)) }
				ry := func(e ast.Expr) bool { return ro.isY(c41Resolve(info, body, e)) }
				keepX, keepY := core.X1GE, core.X1LE // max: the window edge where it is >= the range bound, the range bound where the edge is <= it
				if !ro.isMax {
					keepX, keepY = core.X1LE, core.X1GE
				}
				ok := false
				switch {
				case ro.isX(a):
					ok = !g.ReachFromEntry(nil, core.X1CmpEdge(rx, ry, keepX))[nd]
				case ro.isY(a):
					ok = !g.ReachFromEntry(nil, core.X1CmpEdge(rx, ry, keepY))[nd]
				default:
					if mc, isCall := a.(*ast.CallExpr); isCall && len(mc.Args) == 2 {
						name := map[bool]string{true: "max", false: "min"}[ro.isMax]
						ok = core.Builtin(name)(info, mc) && ((rx(mc.Args[0]) && ry(mc.Args[1])) || (ry(mc.Args[0]) && rx(mc.Args[1])))
					}
				}
				if ok {
					got = ro.name
				}
			}
			if got == "" {
				// a point's own timestamp (the _time column of startStopTimes) is not a window bound
				if builders[b] == 2 {
					c.noteRole(f, 2, "time")
					continue
				}
				r.Bad(rule, f.String(), "append-unclipped", g.Line(nd), "the value appended to a start/stop builder ("+core.Trim(core.ExprStr(cl.Args[0]), 50)+") is neither the window edge nor the range bound under the comparison that makes it max(window start, range start) / min(window stop, range stop)")
				continue
			}
			n++
			if prev, seen := byBuilder[b]; seen && prev != got {
				r.Bad(rule, f.String(), "builder-mixes-roles", g.Line(nd), "one builder receives start and stop bounds")
			}
			byBuilder[b] = got
			// the guard is about the current window: no advance of windowBounds between the comparison and the append
			if wbF != nil {
				anyX := func(e ast.Expr) bool { e = c41Resolve(info, body, e); return roles[0].isX(e) || roles[1].isX(e) }
				anyY := func(e ast.Expr) bool { e = c41Resolve(info, body, e); return roles[0].isY(e) || roles[1].isY(e) }
				anyGuard := core.X1FactEdge(func(ft core.X1Fact) bool {
					x, y, _, ok := core.X1CmpAtom(ft.E)
					return ok && ((anyX(x) && anyY(y)) || (anyX(y) && anyY(x)))
				})
				stale := false
				for m := range g.BackReach14(nd, anyGuard) {
					if m != nd && m.N != nil && g.Assigning(wbF)(m) {
						stale = true
					}
				}
				r.Check(!stale, rule, f.String(), "guard-stale", g.Line(nd), "windowBounds is not advanced between the comparison and the append it guards")
			}
		}
	}
	// the role of each returned array, for the layout rule
	for b, ro := range byBuilder {
		c.noteRole(f, builders[b], ro)
	}
	r.Check(n >= 1, rule, f.String(), "appends:absent", f.Pos(), fmt.Sprintf("%d clipped appends", n))
	_ = p
	return n
}

// rangeFields: rangeStart/rangeStop/windowBounds of the empty-window table come from the query bounds.
func (c *c41Ctx) rangeFields(T string, bStartF, bStopF *types.Var) {
	const rule = "clip"
	p, r := c.p, c.r
	typ := strings.ToLower(T) + "EmptyWindowSelectorTable"
	cf := r.Need(p, c41Pk, "new"+T+"EmptyWindowSelectorTable")
	if cf == nil {
		return
	}
	info, body := cf.Info(), cf.Decl.Body
	var bp *types.Var
	sig := cf.Obj.Type().(*types.Signature)
	for i := 0; i < sig.Params().Len(); i++ {
		if core.NamedName10(sig.Params().At(i).Type()) == "execute.Bounds" {
			bp = cf.Param(i)
		}
	}
	isB := func(fv *types.Var) func(ast.Expr) bool {
		return func(e ast.Expr) bool {
			se, ok := c41Resolve(info, body, e).(*ast.SelectorExpr)
			return ok && core.FieldOf(info, se) == fv && bp != nil && core.ObjOf(info, se.X) == types.Object(bp)
		}
	}
	got := map[string]bool{}
	ast.Inspect(body, func(n ast.Node) bool {
		kv, ok := n.(*ast.KeyValueExpr)
		if !ok {
			return true
		}
		id, ok := kv.Key.(*ast.Ident)
		if !ok {
			return true
		}
		fv, _ := info.Uses[id].(*types.Var)
		if fv == nil || !fv.IsField() {
			return true
		}
		switch fv {
		case core.LookupField(c.pkT, typ, "rangeStart"):
			got["rangeStart"] = isB(bStartF)(kv.Value)
		case core.LookupField(c.pkT, typ, "rangeStop"):
			got["rangeStop"] = isB(bStopF)(kv.Value)
		case core.LookupField(c.pkT, typ, "windowBounds"):
			if cl, ok := c41Resolve(info, body, kv.Value).(*ast.CallExpr); ok && call(c41GetLatest)(info, cl) && len(cl.Args) == 1 {
				got["windowBounds"] = isB(bStartF)(cl.Args[0])
			}
		}
		return true
	})
	r.Check(got["rangeStart"] && got["rangeStop"] && got["windowBounds"], rule, cf.String(), "range-fields", cf.Pos(),
		fmt.Sprintf("rangeStart = bounds.Start, rangeStop = bounds.Stop, windowBounds = GetLatestBounds(bounds.Start) (%v)", got))
}

// ---------------------------------------------------------------- survivor-driven additions

// c41Holds: the condition e, known to have the given truth value, establishes p —
// through one conjunct of a conjunction, or through every alternative of a disjunction.
func c41Holds(e ast.Expr, truth bool, p core.X1FactPred) bool {
	e = ast.Unparen(e)
	switch t := e.(type) {
	case *ast.UnaryExpr:
		if t.Op == token.NOT {
			return c41Holds(t.X, !truth, p)
		}
	case *ast.BinaryExpr:
		switch {
		case (t.Op == token.LAND && truth) || (t.Op == token.LOR && !truth):
			return c41Holds(t.X, truth, p) || c41Holds(t.Y, truth, p)
		case (t.Op == token.LOR && truth) || (t.Op == token.LAND && !truth):
			return c41Holds(t.X, truth, p) && c41Holds(t.Y, truth, p)
		}
	}
	return p(core.X1Fact{E: e, True: truth})
}

func c41HoldsEdge(p core.X1FactPred) core.EdgePred {
	return func(e *core.Edge) bool { return e.Cond != nil && e.Tag == nil && c41Holds(e.Cond, e.Branch, p) }
}

// c41LenZero: fact "X.Len() == 0" (zero=true) or "X.Len() != 0 / > 0" (zero=false) for receivers accepted by isX.
func c41LenZero(info *types.Info, body ast.Node, isX func(ast.Expr) bool, zero bool) core.X1FactPred {
	isLen := func(e ast.Expr) bool {
		cl, ok := c41Resolve(info, body, e).(*ast.CallExpr)
		return ok && core.Callee(info, cl) != nil && core.Callee(info, cl).Name() == "Len" && len(cl.Args) == 0 && core.Recv(cl) != nil && isX(core.Recv(cl))
	}
	isZero := func(e ast.Expr) bool { return core.X1IsConstInt(info, e, 0) }
	return func(ft core.X1Fact) bool {
		x, y, rel, ok := core.X1CmpAtom(ft.E)
		if !ok {
			return false
		}
		if !ft.True {
			rel = [...]core.X1Rel{core.X1GE, core.X1GT, core.X1NE, core.X1EQ, core.X1LT, core.X1LE}[rel]
		}
		if isZero(x) && isLen(y) {
			x, y = y, x
			rel = [...]core.X1Rel{core.X1GT, core.X1GE, core.X1EQ, core.X1NE, core.X1LE, core.X1LT}[rel]
		}
		if !isLen(x) || !isZero(y) {
			return false
		}
		if zero {
			return rel == core.X1EQ || rel == core.X1LE
		}
		return rel == core.X1NE || rel == core.X1GT
	}
}

// oneCellPerIteration: in loop, every iteration that comes back to the top passes
// exactly one node selected by cell.
func c41OneCell(g *core.Graph, loop ast.Stmt, cell core.NodePred) (skip, twice bool) {
	top := c41LoopTop(g, loop)
	if top == nil {
		return true, false
	}
	inLoopOnly := func(e *core.Edge) bool { return !c41InLoop(e.To, loop) }
	skip = g.Reach(core.After(top, nil), cell, inLoopOnly)[top]
	for _, nd := range g.Select(cell) {
		if !c41InLoop(nd, loop) {
			continue
		}
		after := g.Reach(core.After(nd, nil), func(m *core.Node) bool { return m == top }, inLoopOnly)
		for _, m := range g.Select(cell) {
			if after[m] && c41InLoop(m, loop) {
				twice = true
			}
		}
	}
	return
}

func (c *c41Ctx) accounting() {
	const rule = "row-accounting"
	p, r := c.p, c.r
	nLoops := 0
	for _, T := range c41Types {
		lt := strings.ToLower(T)
		for _, fn := range []string{
			lt + "WindowTable.createNextBufferTimes", lt + "WindowSelectorTable.startTimes", lt + "WindowSelectorTable.stopTimes",
			lt + "EmptyWindowSelectorTable.startTimes", lt + "EmptyWindowSelectorTable.stopTimes", lt + "EmptyWindowSelectorTable.startStopTimes",
		} {
			f := r.Need(p, c41Pk, fn)
			if f == nil {
				continue
			}
			info, g, body := f.Info(), f.Graph(), f.Decl.Body
			builders := c41ResultBuilders(f)
			// loops of the function that append to a returned time builder
			ast.Inspect(body, func(n ast.Node) bool {
				var loop ast.Stmt
				switch s := n.(type) {
				case *ast.ForStmt:
					loop = s
				case *ast.RangeStmt:
					loop = s
				default:
					return true
				}
				var bs []types.Object
				seen := map[types.Object]bool{}
				for _, cl := range core.AllCalls(info, loop, call("*flux/array.IntBuilder.Append*")) {
					b := core.ObjOf(info, core.Recv(cl))
					if _, ok := builders[b]; ok && !seen[b] {
						seen[b] = true
						bs = append(bs, b)
					}
				}
				if len(bs) == 0 {
					return true
				}
				nLoops++
				for _, b := range bs {
					cell := func(nd *core.Node) bool {
						if nd.N == nil {
							return false
						}
						for _, cl := range core.CallsIn(info, nd.N, call("*flux/array.IntBuilder.Append*"), core.WalkOpts{}) {
							if core.ObjOf(info, core.Recv(cl)) == b {
								return true
							}
						}
						return false
					}
					skip, twice := c41OneCell(g, loop, cell)
					r.Check(!skip && !twice, rule, f.String(), fmt.Sprintf("one-bound-per-window:result%d", builders[b]), p.Pos(loop.Pos()),
						fmt.Sprintf("every iteration appends exactly one cell to the builder returned as result %d (skipped: %v, twice: %v), so the bounds stay aligned with the values", builders[b], skip, twice))
				}
				return true
			})
		}
		// ---- window table: ends only when the cursor is dry or the enumeration reports no window
		if f := r.Need(p, c41Pk, lt+"WindowTable.advance"); f != nil {
			info, g, body := f.Info(), f.Graph(), f.Decl.Body
			nb := call(c41Pk + "." + lt + "WindowTable.nextBuffer")
			cnb := call(c41Pk + "." + lt + "WindowTable.createNextBufferTimes")
			var okV types.Object
			ast.Inspect(body, func(x ast.Node) bool {
				if as, ok := x.(*ast.AssignStmt); ok && len(as.Lhs) == 3 && len(as.Rhs) == 1 {
					if cl, ok := ast.Unparen(as.Rhs[0]).(*ast.CallExpr); ok && cnb(info, cl) {
						okV = core.ObjOf(info, as.Lhs[2])
					}
				}
				return true
			})
			reason := core.OrEdge(core.AtomEdge(func(x ast.Expr, val bool) bool {
				cl, ok := ast.Unparen(x).(*ast.CallExpr)
				return ok && !val && nb(info, cl)
			}), core.X1BoolEdge(core.X1IsObj(info, okV), false))
			free := g.ReachFromEntry(nil, reason)
			good, nF := okV != nil, 0
			for _, x := range g.Exits {
				if rs, ok := x.N.(*ast.ReturnStmt); ok && len(rs.Results) == 1 && core.X1IsConstBool(info, rs.Results[0], false) {
					nF++
					good = good && !free[x]
				}
			}
			r.Check(good && nF >= 1, rule, f.String(), "ends-only-when-dry", f.Pos(), "advance reports no more rows only after nextBuffer() == false or createNextBufferTimes reported no window")
		}
	}
	for _, T := range c41Types {
		lt := strings.ToLower(T)
		// ---- createNextBufferTimes reports "no window" only when the cursor is dry or no window is left
		if f := r.Need(p, c41Pk, lt+"WindowTable.createNextBufferTimes"); f != nil {
			info, g, body := f.Info(), f.Graph(), f.Decl.Body
			recv := f.X1Recv()
			typ := lt + "WindowTable"
			nb := call(c41Pk + "." + typ + ".nextBuffer")
			wbF := core.LookupField(c.pkT, typ, "windowBounds")
			bndF := core.LookupField(c.pkT, "table", "bounds")
			stopF := c.extField("github.com/influxdata/flux/execute", "Bounds", "Stop")
			isStart := c41MethodOn(info, body, c41BStart, func(rc ast.Expr) bool { return wbF != nil && fieldOfRoot(info, recv, wbF)(c41Resolve(info, body, rc)) })
			isEnd := func(e ast.Expr) bool {
				se, ok := c41Resolve(info, body, e).(*ast.SelectorExpr)
				return ok && core.FieldOf(info, se) == stopF && core.FieldOf(info, se.X) == bndF
			}
			reason := core.OrEdge(core.AtomEdge(func(x ast.Expr, val bool) bool {
				cl, ok := ast.Unparen(x).(*ast.CallExpr)
				return ok && !val && nb(info, cl)
			}), c41HoldsEdge(core.X1CmpFact(isStart, isEnd, core.X1GE)))
			free := g.ReachFromEntry(nil, reason)
			good, nF := true, 0
			for _, x := range g.Exits {
				if rs, ok := x.N.(*ast.ReturnStmt); ok && len(rs.Results) == 3 && core.X1IsConstBool(info, rs.Results[2], false) {
					nF++
					good = good && !free[x]
				}
			}
			r.Check(good && nF >= 1, rule, f.String(), "no-window-only-when-dry-or-exhausted", f.Pos(), "ok=false is returned only after nextBuffer() == false or windowBounds.Start() >= bounds.Stop")
		}
		// ---- plain selector table: ends only when the cursor's next array is empty
		if f := r.Need(p, c41Pk, lt+"WindowSelectorTable.advance"); f != nil {
			info, g, body := f.Info(), f.Graph(), f.Decl.Body
			next := call("tsdb/cursors." + T + "ArrayCursor.Next")
			isArr := func(e ast.Expr) bool {
				cl, ok := c41Resolve(info, body, e).(*ast.CallExpr)
				return ok && next(info, cl)
			}
			free := g.ReachFromEntry(nil, c41HoldsEdge(c41LenZero(info, body, isArr, true)))
			good, nF := true, 0
			for _, x := range g.Exits {
				if rs, ok := x.N.(*ast.ReturnStmt); ok && len(rs.Results) == 1 && core.X1IsConstBool(info, rs.Results[0], false) {
					nF++
					good = good && !free[x]
				}
			}
			r.Check(good && nF >= 1, rule, f.String(), "ends-only-when-dry", f.Pos(), "advance reports no more rows only when cur.Next() delivered an empty array")
		}
	}
	r.Check(nLoops >= 5*7, rule, c41Pk, "loops:fewer-than-confirmed", "-", fmt.Sprintf("%d bound-appending loops examined (35 confirmed by reading)", nLoops))
	// ---- handleRead: a series without cursor is skipped, one with a cursor reaches the dispatch
	if f := r.Need(p, c41Pk, "windowAggregateIterator.handleRead"); f != nil {
		info, g, body := f.Info(), f.Graph(), f.Decl.Body
		var sw *core.TypeSwitch10
		for _, s := range core.TypeSwitches10(info, body) {
			if len(s.Arms) >= 3 {
				sw = s
			}
		}
		if sw != nil {
			curV := core.ObjOf(info, sw.Operand)
			ctor := g.Calling(call(c41Pk + ".new*Table"))
			nonNil := g.NilEdge(core.X1IsObj(info, curV), false)
			isNil := g.NilEdge(core.X1IsObj(info, curV), true)
			free := g.ReachFromEntry(nil, nonNil)
			good := curV != nil
			for _, nd := range g.Select(ctor) {
				good = good && !free[nd]
			}
			// the nil edge does not reach a constructor without a new cursor
			for _, e := range g.Edges(isNil) {
				reach := g.Reach([]*core.Node{e.To}, g.AssigningObj(curV), nil)
				for _, nd := range g.Select(ctor) {
					good = good && !reach[nd]
				}
			}
			r.Check(good, "table-dispatch", f.String(), "cursor-nil-guard", f.Pos(), "tables are built exactly for the series that have a cursor (cur != nil)")
		}
	}
}
