package rules

import (
	"fmt"
	"go/ast"
	"go/constant"
	"go/token"
	"go/types"

	"verif/checker/core"
)

// C25 extension (m5): rules added after triaging the survivors of the generic
// fault enumeration.
//
//	scheduler-failure-fails  a failed Schedule/Release must make the coordinator callback fail
//	                         (the generic failure-propagates pass only locates plain `err != nil`
//	                         tests; the coordinator tests `err != nil && err != ErrTaskNotClaimed`)
//	listing-exhaustive       the start-up notification reports success only after a listing came back empty
//	every-task-visited       no early exit from the loop over a listed page
//	active-task-notified     an iteration for an active task skips TaskCreated only on a failure branch
func init() {
	extend("C25", "(5) scheduler-failure-fails: in Coordinator.TaskCreated/TaskUpdated/TaskDeleted, with the error of Scheduler.Schedule / Scheduler.Release assumed non-nil and different from every sentinel it is compared with, no exit on which the callback reports success is reachable (compound tests are evaluated, not pattern-matched); "+
		"(6) listing-exhaustive: NotifyCoordinatorOfExisting and TaskNotifyCoordinatorOfExisting reach a success exit only through a test that found the last listing empty; every-task-visited: the loop over a listed page is never left early (break / goto / labelled continue); "+
		"active-task-notified: with the listed task assumed active, an iteration reaches the next one, leaves the loop or returns success without calling TaskCreated only through the failure branch of an error test.",
		nil, func(p *core.Prog, r *core.Report, tier string) { m5C25(p, r) })
}

func m5C25(p *core.Prog, r *core.Report) {
	tm := p.Pkg(tmPkg)
	if tm == nil {
		return
	}
	statusF := core.LookupField(tm.Types, "Task", "Status")
	var active string
	if c, _ := tm.Types.Scope().Lookup("TaskActive").(*types.Const); c != nil && c.Val().Kind() == constant.String {
		active = constant.StringVal(c.Val())
	}
	if statusF == nil || active == "" {
		return // reported by the base rules
	}
	schedule := call("task/backend/scheduler.Scheduler.Schedule")
	release := call("task/backend/scheduler.Scheduler.Release")

	// ---- (5) scheduler-failure-fails
	{
		const rule = "scheduler-failure-fails"
		sites := 0
		for _, name := range []string{"Coordinator.TaskCreated", "Coordinator.TaskUpdated", "Coordinator.TaskDeleted"} {
			f := r.Need(p, coordPkg, name)
			if f == nil {
				continue
			}
			g := f.Graph()
			info := g.Info
			success := map[*core.Node]bool{}
			for _, x := range g.SuccessExits() {
				success[x] = true
			}
			for _, nd := range g.Select(g.Calling(core.Or(schedule, release))) {
				cn := "Scheduler.Schedule"
				if len(core.CallsIn(info, nd.N, release, core.WalkOpts{})) > 0 {
					cn = "Scheduler.Release"
				}
				if rs, ok := nd.N.(*ast.ReturnStmt); ok {
					// `return c.sch.Schedule(t)`: forwarded
					fwd := false
					for _, e := range rs.Results {
						if c, ok := ast.Unparen(e).(*ast.CallExpr); ok && (schedule(info, c) || release(info, c)) {
							fwd = true
						}
					}
					if fwd {
						sites++
						r.Ok(rule, f.String()+":"+cn, g.Line(nd), "the scheduler's result is returned as is")
						continue
					}
				}
				v := g.ErrVarOf(nd)
				if !r.Check(v != nil, rule, f.String(), cn+":error-dropped", g.Line(nd), "the error of "+cn+" is assigned to a variable (or returned)") {
					continue
				}
				sites++
				isV := func(e ast.Expr) bool { return core.ObjOf(info, ast.Unparen(e)) == v }
				isSentinel := func(e ast.Expr) bool {
					e = ast.Unparen(e)
					var o types.Object
					switch x := e.(type) {
					case *ast.Ident:
						o = info.Uses[x]
					case *ast.SelectorExpr:
						o = info.Uses[x.Sel]
					}
					pv, ok := o.(*types.Var)
					return ok && !pv.IsField() && pv.Pkg() != nil && pv.Parent() == pv.Pkg().Scope()
				}
				// v holds an error that is neither nil nor one of the sentinels
				leaf := func(e ast.Expr) (val, known bool) {
					switch x := e.(type) {
					case *ast.BinaryExpr:
						if x.Op != token.EQL && x.Op != token.NEQ {
							return false, false
						}
						a, b := ast.Unparen(x.X), ast.Unparen(x.Y)
						if isV(b) {
							a, b = b, a
						}
						if isV(a) && (core.IsNilIdent(info, b) || isSentinel(b)) {
							return x.Op == token.NEQ, true
						}
					case *ast.CallExpr:
						if call("errors.Is")(info, x) && len(x.Args) == 2 && isV(x.Args[0]) && isSentinel(x.Args[1]) {
							return false, true
						}
					}
					return false, false
				}
				reassigned := func(n *core.Node) bool { return n != nd && g.AssigningObj(v)(n) }
				reach := g.ReachUnder(core.After(nd, nil), reassigned, leaf)
				bad := ""
				for x := range reach {
					if len(x.Succ) != 0 || x.Kind == core.KPanic {
						continue
					}
					if rs, ok := x.N.(*ast.ReturnStmt); ok && len(rs.Results) > 0 && isV(rs.Results[len(rs.Results)-1]) {
						continue // returns the scheduler's error
					}
					if success[x] {
						bad = g.Line(x)
					}
				}
				r.Check(bad == "", rule, f.String(), cn+":failure-reports-success", g.Line(nd),
					"when "+cn+" fails (with an error other than a tolerated sentinel) the callback does not report success - otherwise the task service keeps an active task the scheduler does not run / drops a task the scheduler still runs"+m5At(bad))
			}
		}
		r.Check(sites >= 4, rule, coordPkg, "sites:count", "-", fmt.Sprintf("%d Schedule/Release call sites examined (>= 4 confirmed by reading)", sites))
	}

	// ---- (6) start-up notification
	findTasks := call("task/backend.TaskService.FindTasks")
	created := call("task/backend.Coordinator.TaskCreated")
	isTask := func(o types.Object) bool {
		pt, ok := o.Type().(*types.Pointer)
		if !ok {
			return false
		}
		nt, ok := pt.Elem().(*types.Named)
		return ok && nt.Obj().Name() == "Task" && nt.Obj().Pkg() != nil && core.Short(nt.Obj().Pkg().Path()) == tmPkg
	}
	for _, name := range []string{"NotifyCoordinatorOfExisting", "TaskNotifyCoordinatorOfExisting"} {
		f := r.Need(p, backPkg, name)
		if f == nil {
			continue
		}
		g := f.Graph()
		info := g.Info
		// the listing variable: assigned only from FindTasks (result 0)
		var tasks types.Object
		for _, nd := range g.Select(g.Calling(findTasks)) {
			if as, ok := nd.N.(*ast.AssignStmt); ok && len(as.Rhs) == 1 && len(as.Lhs) >= 1 {
				if o := core.ObjOf(info, as.Lhs[0]); o != nil && core.AssignedFrom(info, f.Decl.Body, o, findTasks, 0).OnlyFrom() {
					tasks = o
				}
			}
		}
		if !r.Check(tasks != nil, "listing-exhaustive", f.String(), "listing:absent", f.Pos(), "one variable holds the page returned by FindTasks") {
			continue
		}
		empty := g.EmptyEdge(core.IsObj(info, tasks))
		reach := g.ReachFromEntry(nil, empty)
		bad := ""
		for _, x := range g.SuccessExits() {
			if reach[x] {
				bad = g.Line(x)
			}
		}
		r.Check(bad == "" && len(g.Edges(empty)) >= 1, "listing-exhaustive", f.String(), "success-before-end-of-listing", f.Pos(),
			"success is reported only after a listing came back empty (`len(tasks) == 0` established); an earlier success return leaves the remaining active tasks unscheduled"+m5At(bad))

		loops := core.RangeOver(f.Decl.Body, core.IsObj(info, tasks))
		if !r.Check(len(loops) >= 1, "every-task-visited", f.String(), "page-loop:absent", f.Pos(), "the listed page is iterated") {
			continue
		}
		env := &statusEnv{g: g, status: statusF, val: func(o types.Object) (string, bool) { return active, isTask(o) }}
		for _, rs := range loops {
			esc, ok := g.IterEscapes12(rs, nil, nil)
			if !r.Check(ok, "every-task-visited", f.String(), "page-loop:unreachable", p.Pos(rs.Pos()), "loop found in the graph") {
				continue
			}
			bad := ""
			for _, e := range esc {
				if e.Kind == "leave" {
					bad = g.Line(e.Via)
				}
			}
			r.Check(bad == "", "every-task-visited", f.String(), "page-loop-left-early", p.Pos(rs.Pos()),
				"the loop over the listed page ends only by exhausting the page or by returning: a break would leave the tasks behind it unscheduled"+m5At(bad))

			acc := g.Calling(created)
			esc, _ = g.IterEscapes12(rs, acc, core.OrEdge(env.infeasible, g.ErrNonNilEdge()))
			success := map[*core.Node]bool{}
			for _, x := range g.SuccessExits() {
				success[x] = true
			}
			bad = ""
			for _, e := range esc {
				if e.Kind != "return" || success[e.Via] {
					bad = g.Line(e.Via)
				}
			}
			r.Check(bad == "", "active-task-notified", f.String(), "active-task-skipped", p.Pos(rs.Pos()),
				"with the listed task active, the iteration ends without TaskCreated only through the failure branch of an error test"+m5At(bad))
		}
	}
}
