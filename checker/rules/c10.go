package rules

import (
	"fmt"
	"go/ast"
	"go/constant"
	"go/token"
	"go/types"
	"sort"

	"verif/checker/core"
)

const rw3Internal = "tsdb/internal"

func init() {
	register(&Prop{
		ID:       "C10",
		Patterns: []string{"./tsdb", "./tsdb/engine/tsm1"},
		Level:    "other",
		Explanation: "Necessary-condition rules for \"a field keeps one type, persistently\", decided on statement CFGs with type-resolved callees, fields and variables: " +
			"(1) atomic-field-create: MeasurementFields.CreateFieldIfNotExists touches the field map through exactly one LoadOrStore of &Field{Name: name, Type: typ}; ErrFieldTypeConflict is returned exactly on the edge where the Type of the value LoadOrStore returned differs from typ; the returned field is that value and created is !loaded; " +
			"(2) conflict-rejected: in ValidateAndCreateFields a failed CreateFieldIfNotExists ends in a return carrying &PartialWriteError{Dropped: 1} and never queues a field (shared with C40); " +
			"(3) type-conflict-dropped: in tsm1.Engine.WritePoints every way of finishing a field iteration without storing the value into the map given to Cache.WriteMulti assigns ErrFieldTypeConflict to the variable that every success exit returns, and no value is stored after that assignment; " +
			"(4) change-type-table: the ChangeType constants are distinct, ApplyChanges leaves at most one produced constant to its else arm, the DeleteMeasurement edge passes MeasurementFieldSet.Delete and the other edge CreateFieldIfNotExists; writer and reader of fields.idxl copy Measurement, Change, Field.Name and Field.Type in both directions; " +
			"(5) lossless-change-log: every element of every FieldChanges passed to marshalFieldChanges is appended to the FieldChangeSet that is marshalled; nil-field-guard: a change's Field (nil for DeleteMeasurement, as produced by MeasurementsToFieldChangeDeletions) is dereferenced only behind a nil test or a ChangeType test; " +
			"(6) change-log-io: appendToChangesFile opens with O_CREATE|O_APPEND|O_SYNC, truncates to the last good size before writing unless Stat shows no excess, records the new good size only after a successful Write, writes what marshalFieldChanges returned, propagates every I/O error into the variable that the deferred broadcast sends to every waiter, queues a waiter exactly when it takes its changes; RequestSave returns what it receives on the channel it queued; " +
			"(7) change-log-replay: NewMeasurementFieldSet passes load, load passes ApplyChanges; ApplyChanges loads the log first, applies every entry, and passes WriteToFile unless the log was empty; loadAllFieldChanges accumulates every decoded set and returns the accumulator on EOF / torn tail; " +
			"(8) drop-measurement-persisted: in tsm1.Engine.deleteSeriesRange a measurement is queued for schema deletion only on the true edge of cleanupMeasurement's result, which is only called on the true edge of DropMeasurementIfSeriesNotExist; every success exit after queuing passes fieldset.Save(MeasurementsToFieldChangeDeletions(queue)) with its error propagated; cleanupMeasurement reports deletion as err != abort-sentinel of DeleteWithLock, whose callback scans cache and file store; DeleteWithLock deletes only after the callback succeeded.",
		NotCovered:  "value-level equality of the reloaded schema with the acknowledged history; races between writers beyond the single LoadOrStore; the WriteToFile snapshot protocol (decided under C02); byte-level decoding of a torn fields.idxl tail; the engine-level conflict is reported as a plain error without a dropped count (not a structural clause). Observation not turned into a rule (outside the crash-point quantifier): WriteToFile's deferred closure removes fields.idxl even when writing fields.idx failed, and its assignments to err are lost because the result is unnamed.",
		Assumptions: []string{"O_SYNC makes an append durable before Write returns", "a rule passing means the mechanism is present on every CFG path, not that recovery is value-correct"},
		Run:         runC10,
	})
}

func runC10(p *core.Prog, r *core.Report, tier string) {
	c10AtomicCreate(p, r)
	c40Validator(p, r, "conflict-rejected")
	c10EngineConflict(p, r)
	c10ChangeTable(p, r)
	c10Lossless(p, r)
	c10NilField(p, r)
	c10ChangeLogIO(p, r)
	c10Replay(p, r)
	c10DropMeasurement(p, r)
}

func rw3PkgVar(p *core.Prog, pkg, name string) *types.Var {
	pk := p.Pkg(pkg)
	if pk == nil {
		return nil
	}
	v, _ := pk.Types.Scope().Lookup(name).(*types.Var)
	return v
}

func rw3PkgConst(p *core.Prog, pkg, name string) *types.Const {
	pk := p.Pkg(pkg)
	if pk == nil {
		return nil
	}
	c, _ := pk.Types.Scope().Lookup(name).(*types.Const)
	return c
}

// rw3Uses: expression e denotes the package-level object o (ident or pkg.ident).
func rw3Uses(info *types.Info, e ast.Expr, o types.Object) bool {
	if e == nil || o == nil {
		return false
	}
	switch x := ast.Unparen(e).(type) {
	case *ast.Ident:
		return info.Uses[x] == o
	case *ast.SelectorExpr:
		return info.Uses[x.Sel] == o
	}
	return false
}

// ---- (1) CreateFieldIfNotExists
func c10AtomicCreate(p *core.Prog, r *core.Report) {
	const rule = "atomic-field-create"
	f := r.Need(p, tsdbP, "MeasurementFields.CreateFieldIfNotExists")
	if f == nil {
		return
	}
	info, g, name := f.Info(), f.Graph(), f.String()
	sig, _ := f.Obj.Type().(*types.Signature)
	conflict := rw3PkgVar(p, tsdbP, "ErrFieldTypeConflict")
	fieldsF := core.LookupField(f.Pkg.Types, "MeasurementFields", "fields")
	typeF := core.LookupField(f.Pkg.Types, "Field", "Type")
	nameF := core.LookupField(f.Pkg.Types, "Field", "Name")
	if !r.Check(sig != nil && sig.Params().Len() == 2 && sig.Results().Len() == 3 && conflict != nil && fieldsF != nil && typeF != nil && nameF != nil,
		"anchor", name+" signature / ErrFieldTypeConflict / Field.Type", "unresolved", f.Pos(), "anchors resolved") {
		return
	}
	pName, pTyp := types.Object(sig.Params().At(0)), types.Object(sig.Params().At(1))
	los := core.AllCalls(info, f.Decl.Body, call("pkg/data/gensyncmap.Map.LoadOrStore"))
	mapOps := core.AllCalls(info, f.Decl.Body, call("pkg/data/gensyncmap.Map.*", "sync.Map.*"))
	if !r.Check(len(los) == 1, rule, name, "LoadOrStore:absent", f.Pos(), "exactly one LoadOrStore") {
		return
	}
	r.Check(len(mapOps) == 1, rule, name, "check-then-act", f.Pos(), "LoadOrStore is the only operation on the field map (single atomic step)")
	lc := los[0]
	sel, _ := ast.Unparen(lc.Fun).(*ast.SelectorExpr)
	r.Check(sel != nil && core.FieldOf(info, sel.X) == fieldsF, rule, name, "LoadOrStore-receiver", p.Pos(lc.Pos()), "LoadOrStore operates on MeasurementFields.fields")
	// stored value
	var lit *ast.CompositeLit
	var litObj types.Object
	if len(lc.Args) == 2 {
		if lit = rw3Lit(lc.Args[1]); lit == nil {
			litObj = core.ObjOf(info, lc.Args[1])
			if ds := rw3Defs(info, f.Decl.Body, litObj); len(ds) == 1 && ds[0].Rhs != nil {
				lit = rw3Lit(ds[0].Rhs)
			}
		}
	}
	okLit := lit != nil && rw3IsNamed(info.TypeOf(lit), tsdbP, "Field") &&
		core.ObjOf(info, rw3LitField(info, lit, typeF)) == pTyp && core.ObjOf(info, rw3LitField(info, lit, nameF)) == pName
	r.Check(okLit, rule, name, "stored-value", p.Pos(lc.Pos()), "the value offered to LoadOrStore is &Field{Name: name, Type: typ}")
	okKey := false
	if len(lc.Args) == 2 {
		k := ast.Unparen(lc.Args[0])
		if core.ObjOf(info, k) == pName {
			okKey = true
		} else if ks, ok := k.(*ast.SelectorExpr); ok && core.FieldOf(info, ks) == nameF && litObj != nil && core.ObjOf(info, ks.X) == litObj {
			okKey = true
		}
	}
	r.Check(okKey, rule, name, "stored-key", p.Pos(lc.Pos()), "the map key is the field name")
	// results of LoadOrStore
	ln := g.NodeOf(lc)
	var vObj, loadedObj types.Object
	if ln != nil {
		if as, ok := ln.N.(*ast.AssignStmt); ok && len(as.Lhs) == 2 && len(as.Rhs) == 1 {
			vObj, loadedObj = core.ObjOf(info, as.Lhs[0]), core.ObjOf(info, as.Lhs[1])
		}
	}
	if !r.Check(vObj != nil && loadedObj != nil, rule, name, "LoadOrStore-results", p.Pos(lc.Pos()), "both results of LoadOrStore are kept") {
		return
	}
	r.Check(len(rw3Defs(info, f.Decl.Body, vObj)) == 1 && len(rw3Defs(info, f.Decl.Body, loadedObj)) == 1, rule, name, "LoadOrStore-results:reassigned", p.Pos(lc.Pos()), "the results of LoadOrStore are not reassigned")
	// the decision
	typeCmp := func(want bool) core.EdgePred { // edge implies (value.Type != typ) == want
		return func(e *core.Edge) bool {
			return rw3EdgeImplies(e, func(c ast.Expr, val bool) bool {
				be, ok := c.(*ast.BinaryExpr)
				if !ok || (be.Op != token.NEQ && be.Op != token.EQL) {
					return false
				}
				isT := func(x ast.Expr) bool {
					s, ok := ast.Unparen(x).(*ast.SelectorExpr)
					return ok && core.FieldOf(info, s) == typeF && core.ObjOf(info, s.X) == vObj
				}
				isP := func(x ast.Expr) bool { return core.ObjOf(info, x) == pTyp }
				if !((isT(be.X) && isP(be.Y)) || (isT(be.Y) && isP(be.X))) {
					return false
				}
				return ((be.Op == token.NEQ) == val) == want
			})
		}
	}
	differs, same := typeCmp(true), typeCmp(false)
	noDiffer := g.ReachFromEntry(nil, differs)
	noSame := g.ReachFromEntry(nil, same)
	nConf, nOK := 0, 0
	for _, x := range g.Exits {
		rs, ok := x.N.(*ast.ReturnStmt)
		if !ok || len(rs.Results) != 3 {
			r.Bad(rule, name, "return-form", g.Line(x), "every exit is `return field, created, err`")
			continue
		}
		r.Check(core.ObjOf(info, rs.Results[0]) == vObj, rule, name, "returned-field", g.Line(x), "the returned field is the value LoadOrStore returned (the stored type)")
		switch {
		case rw3Uses(info, rs.Results[2], conflict):
			nConf++
			r.Check(!noDiffer[x], rule, name, "conflict-decision", g.Line(x), "ErrFieldTypeConflict is returned only on the edge where the stored Type differs from typ")
			v := core.ConstVal(info, rs.Results[1])
			r.Check(v != nil && v.Kind() == constant.Bool && !constant.BoolVal(v), rule, name, "conflict-created", g.Line(x), "a conflict never reports created")
		case core.IsNilIdent(info, rs.Results[2]):
			nOK++
			r.Check(!noSame[x], rule, name, "accept-decision", g.Line(x), "success is returned only on the edge where the stored Type equals typ")
			u, ok := ast.Unparen(rs.Results[1]).(*ast.UnaryExpr)
			r.Check(ok && u.Op == token.NOT && core.ObjOf(info, u.X) == loadedObj, rule, name, "created-is-not-loaded", g.Line(x), "created is !loaded of the same LoadOrStore (a new field is queued for persistence)")
		default:
			r.Bad(rule, name, "return-form", g.Line(x), "the error result is neither nil nor ErrFieldTypeConflict")
		}
	}
	r.Check(nConf >= 1 && nOK >= 1, rule, name, "returns:count", f.Pos(), fmt.Sprintf("%d conflict and %d success return(s)", nConf, nOK))
}

// ---- (3) tsm1.Engine.WritePoints
func c10EngineConflict(p *core.Prog, r *core.Report) {
	const rule = "type-conflict-dropped"
	f := r.Need(p, tsm1, "Engine.WritePoints")
	if f == nil {
		return
	}
	info, g, name := f.Info(), f.Graph(), f.String()
	conflict := rw3PkgVar(p, tsdbP, "ErrFieldTypeConflict")
	if !r.Check(conflict != nil, "anchor", "tsdb.ErrFieldTypeConflict", "unresolved", f.Pos(), "variable resolved") {
		return
	}
	// the variable carrying the conflict
	flagObjs := map[types.Object]bool{}
	isFlagStmt := func(n ast.Node, o types.Object) bool {
		as, ok := n.(*ast.AssignStmt)
		if !ok || len(as.Lhs) != len(as.Rhs) {
			return false
		}
		for i := range as.Lhs {
			if rw3Uses(info, as.Rhs[i], conflict) {
				if lo := core.ObjOf(info, as.Lhs[i]); lo != nil && (o == nil || lo == o) {
					if o == nil {
						flagObjs[lo] = true
					}
					return true
				}
			}
		}
		return false
	}
	ast.Inspect(f.Decl.Body, func(n ast.Node) bool { isFlagStmt(n, nil); return true })
	if !r.Check(len(flagObjs) == 1, rule, name, "conflict-variable:absent", f.Pos(), "exactly one variable receives ErrFieldTypeConflict") {
		return
	}
	var flagObj types.Object
	for o := range flagObjs {
		flagObj = o
	}
	// the map written to the cache
	cw := core.AllCalls(info, f.Decl.Body, call("tsdb/engine/tsm1.Cache.WriteMulti"))
	if !r.Check(len(cw) == 1 && len(cw[0].Args) == 1 && core.ObjOf(info, cw[0].Args[0]) != nil, rule, name, "Cache.WriteMulti:absent", f.Pos(), "one Cache.WriteMulti(values)") {
		return
	}
	values := core.ObjOf(info, cw[0].Args[0])
	for _, c := range core.AllCalls(info, f.Decl.Body, call("tsdb/engine/tsm1.WAL.WriteMulti")) {
		r.Check(len(c.Args) == 2 && core.ObjOf(info, c.Args[1]) == values, rule, name, "WAL-values", p.Pos(c.Pos()), "the WAL receives the same map as the cache")
	}
	isAccept := func(n *core.Node) bool {
		as, ok := n.N.(*ast.AssignStmt)
		if !ok {
			return false
		}
		for _, l := range as.Lhs {
			if ix, ok := ast.Unparen(l).(*ast.IndexExpr); ok && core.ObjOf(info, ix.X) == values {
				return true
			}
		}
		return false
	}
	isFlag := func(n *core.Node) bool { return n.N != nil && isFlagStmt(n.N, flagObj) }
	var loop *rw3Loop
	for _, s := range rw3TopLoops(f.Decl.Body) {
		if fs, ok := s.(*ast.ForStmt); ok && fs.Cond != nil && len(core.AllCalls(info, fs.Cond, call("models.FieldIterator.Next"))) > 0 {
			loop = rw3FindLoop(g, fs)
		}
	}
	if !r.Check(loop != nil, rule, name, "field-loop:absent", f.Pos(), "loop over the fields of a point found") {
		return
	}
	var accepts, flags []*core.Node
	for _, n := range g.Nodes {
		if loop.In(n) && isAccept(n) {
			accepts = append(accepts, n)
		}
		if loop.In(n) && isFlag(n) {
			flags = append(flags, n)
		}
	}
	r.Check(len(accepts) >= 1, rule, name, "store:absent", f.Pos(), "a value is stored into the map")
	r.Check(len(flags) >= 3, rule, name, "conflict-sites:count", f.Pos(), fmt.Sprintf("%d conflict assignments in the loop (3 confirmed by reading)", len(flags)))
	sink := core.AnyOf(isAccept, isFlag)
	if esc := loop.Escapes(g, sink, nil); len(esc) == 0 {
		r.Ok(rule, name+":skip-sets-conflict", p.Pos(loop.Stmt.Pos()), fmt.Sprintf("every field iteration stores the value (%d site), returns an error, or sets %s (%d sites)", len(accepts), flagObj.Name(), len(flags)))
	} else {
		r.Bad(rule, name, "skip-without-conflict", rw3EscapeWhere(g, loop, sink, nil), "a field can be skipped without storing it and without setting the conflict error")
	}
	okx := true
	for _, fl := range flags {
		for n := range loop.Within(g, fl) {
			if isAccept(n) {
				okx = false
				r.Bad(rule, name, "stored-after-conflict", g.Line(n), "a value can be stored after its type conflict was detected at "+g.Line(fl))
			}
		}
	}
	if okx {
		r.Ok(rule, name+":conflict-not-stored", p.Pos(loop.Stmt.Pos()), "no store is reachable in the iteration after a conflict assignment")
	}
	exits := g.SuccessExits()
	r.Check(len(exits) >= 1, rule, name, "success-exit:absent", f.Pos(), "success exits found")
	for _, x := range exits {
		rs, ok := x.N.(*ast.ReturnStmt)
		r.Check(ok && len(rs.Results) == 1 && core.ObjOf(info, rs.Results[0]) == flagObj, rule, name, "conflict-not-returned", g.Line(x), "every success exit returns the conflict variable")
	}
	core.RuleMustPass(r, f, rule, "Cache.WriteMulti", call("tsdb/engine/tsm1.Cache.WriteMulti"), false)
}

// ---- (4) ChangeType table
func c10ChangeTable(p *core.Prog, r *core.Report) {
	const rule = "change-type-table"
	pk, ipk := p.Pkg(tsdbP), p.Pkg(rw3Internal)
	if pk == nil || ipk == nil {
		r.Bad("anchor", "tsdb, tsdb/internal", "unresolved", "-", "packages not loaded")
		return
	}
	consts := core.ConstsOfType(pk.Types, "ChangeType")
	r.Check(len(consts) >= 2, rule, "tsdb.ChangeType", "constants:count", "-", fmt.Sprintf("%d ChangeType constants (2 confirmed by reading)", len(consts)))
	seen := map[string]string{}
	var cnames []string
	for n := range consts {
		cnames = append(cnames, n)
	}
	sort.Strings(cnames)
	for _, n := range cnames {
		k := consts[n].Val().ExactString()
		if prev, dup := seen[k]; dup {
			r.Bad(rule, "tsdb.ChangeType", "duplicate-value:"+n, "-", n+" has the same value as "+prev)
		} else {
			seen[k] = n
		}
	}
	delC, addC := consts["DeleteMeasurement"], consts["AddMeasurementField"]
	if !r.Check(delC != nil && addC != nil, "anchor", "tsdb.DeleteMeasurement/AddMeasurementField", "unresolved", "-", "constants resolved") {
		return
	}
	ctF := core.LookupField(pk.Types, "FieldChange", "ChangeType")
	fcMeasF := core.LookupField(pk.Types, "FieldCreate", "Measurement")
	fcFieldF := core.LookupField(pk.Types, "FieldCreate", "Field")
	fNameF, fTypeF := core.LookupField(pk.Types, "Field", "Name"), core.LookupField(pk.Types, "Field", "Type")
	iMeasF := core.LookupField(ipk.Types, "MeasurementFieldChange", "Measurement")
	iChangeF := core.LookupField(ipk.Types, "MeasurementFieldChange", "Change")
	iFieldF := core.LookupField(ipk.Types, "MeasurementFieldChange", "Field")
	iNameF, iTypeF := core.LookupField(ipk.Types, "Field", "Name"), core.LookupField(ipk.Types, "Field", "Type")
	for _, v := range []*types.Var{ctF, fcMeasF, fcFieldF, fNameF, fTypeF, iMeasF, iChangeF, iFieldF, iNameF, iTypeF} {
		if v == nil {
			r.Bad("anchor", "tsdb.FieldChange / internal.MeasurementFieldChange fields", "unresolved", "-", "struct fields of the change record not found")
			return
		}
	}
	// produced constants: FieldChange literals in tsdb
	produced := map[string]bool{}
	for _, fn := range p.Funcs(tsdbP) {
		ast.Inspect(fn.Decl, func(n ast.Node) bool {
			cl, ok := n.(*ast.CompositeLit)
			if !ok || !rw3IsNamed(fn.Info().TypeOf(cl), tsdbP, "FieldChange") {
				return true
			}
			if v := rw3LitField(fn.Info(), cl, ctF); v != nil {
				if c, ok := core.ObjOf(fn.Info(), v).(*types.Const); ok {
					produced[c.Name()] = true
				}
			}
			return true
		})
	}
	r.Check(produced["DeleteMeasurement"] && produced["AddMeasurementField"], rule, "tsdb.FieldChange", "producers", "-", fmt.Sprintf("%d ChangeType constant(s) are produced in FieldChange literals (both confirmed by reading)", len(produced)))

	if f := r.Need(p, tsdbP, "MeasurementFieldSet.ApplyChanges"); f != nil {
		info, g, name := f.Info(), f.Graph(), f.String()
		cmpWith := func(c ast.Expr, k *types.Const) (eq bool, ok bool) {
			be, isB := c.(*ast.BinaryExpr)
			if !isB || (be.Op != token.EQL && be.Op != token.NEQ) {
				return false, false
			}
			if (core.FieldOf(info, be.X) == ctF && core.ObjOf(info, be.Y) == types.Object(k)) || (core.FieldOf(info, be.Y) == ctF && core.ObjOf(info, be.X) == types.Object(k)) {
				return be.Op == token.EQL, true
			}
			return false, false
		}
		compared := map[string]bool{}
		for _, n := range g.Nodes {
			if e, ok := n.N.(ast.Expr); ok {
				ast.Inspect(e, func(x ast.Node) bool {
					if be, ok := x.(*ast.BinaryExpr); ok {
						for cn, k := range consts {
							if _, ok := cmpWith(be, k); ok {
								compared[cn] = true
							}
						}
					}
					return true
				})
			}
		}
		var rest []string
		for cn := range produced {
			if !compared[cn] {
				rest = append(rest, cn)
			}
		}
		sort.Strings(rest)
		r.Check(len(compared) >= 1 && len(rest) <= 1, rule, name, "unhandled-change-type", f.Pos(), fmt.Sprintf("ApplyChanges tests %d constant(s) explicitly and leaves %v to its else arm (at most one)", len(compared), rest))
		isDelEdge := func(want bool) core.EdgePred {
			return func(e *core.Edge) bool {
				return rw3EdgeImplies(e, func(c ast.Expr, val bool) bool {
					if eq, ok := cmpWith(c, delC); ok && (eq == val) == want {
						return true
					}
					if eq, ok := cmpWith(c, addC); ok && len(consts) == 2 && (eq == val) == !want {
						return true
					}
					return false
				})
			}
		}
		var loop *rw3Loop
		for _, s := range rw3TopLoops(f.Decl.Body) {
			if rs, ok := s.(*ast.RangeStmt); ok && rw3IsNamed(info.TypeOf(rs.X), tsdbP, "FieldChanges") {
				loop = rw3FindLoop(g, rs)
			}
		}
		if r.Check(loop != nil, rule, name, "apply-loop:absent", f.Pos(), "loop over the changes of a set found") {
			del := g.Calling(call("tsdb.MeasurementFieldSet.Delete", "tsdb.MeasurementFieldSet.deleteNoLock", "tsdb.MeasurementFieldSet.DeleteWithLock"))
			add := g.Calling(call("tsdb.MeasurementFields.CreateFieldIfNotExists"))
			nd, na := 0, 0
			for _, n := range g.Nodes {
				for _, e := range n.Succ {
					if !loop.In(n) {
						continue
					}
					if isDelEdge(true)(e) {
						nd++
						r.Check(len(loop.EscapesFrom(g, []*core.Node{e.To}, del, nil)) == 0, rule, name, "delete-arm", g.Line(n), "a DeleteMeasurement change passes MeasurementFieldSet.Delete")
						reach := g.Reach([]*core.Node{e.To}, func(x *core.Node) bool { return !loop.In(x) }, nil)
						bad := false
						for x := range reach {
							if add(x) {
								bad = true
							}
						}
						r.Check(!bad, rule, name, "delete-arm-creates", g.Line(n), "a DeleteMeasurement change never reaches CreateFieldIfNotExists")
					}
					if isDelEdge(false)(e) {
						na++
						r.Check(len(loop.EscapesFrom(g, []*core.Node{e.To}, add, nil)) == 0, rule, name, "add-arm", g.Line(n), "any other change passes CreateFieldIfNotExists")
						reach := g.Reach([]*core.Node{e.To}, func(x *core.Node) bool { return !loop.In(x) }, nil)
						bad := false
						for x := range reach {
							if del(x) {
								bad = true
							}
						}
						r.Check(!bad, rule, name, "add-arm-deletes", g.Line(n), "an AddMeasurementField change never reaches Delete")
					}
				}
			}
			r.Check(nd >= 1 && na >= 1, rule, name, "change-type-test:absent", f.Pos(), "the ChangeType of each entry is tested")
			if esc := loop.Escapes(g, core.AnyOf(del, add), nil); len(esc) > 0 {
				r.Bad(rule, name, "entry-not-applied", rw3EscapeWhere(g, loop, core.AnyOf(del, add), nil), "an entry of the change log can be skipped without being applied")
			} else {
				r.Ok(rule, name+":every-entry-applied", p.Pos(loop.Stmt.Pos()), "every entry passes Delete or CreateFieldIfNotExists")
			}
		}
	}

	// writer / reader field coverage
	type cov struct {
		fn       string
		litPkg   string
		litType  string
		key, src *types.Var
	}
	covs := []cov{
		{"marshalFieldChanges", rw3Internal, "MeasurementFieldChange", iMeasF, fcMeasF},
		{"marshalFieldChanges", rw3Internal, "MeasurementFieldChange", iChangeF, ctF},
		{"marshalFieldChanges", rw3Internal, "Field", iNameF, fNameF},
		{"marshalFieldChanges", rw3Internal, "Field", iTypeF, fTypeF},
		{"measurementFieldSetChangeMgr.loadFieldChangeSet", tsdbP, "FieldCreate", fcMeasF, iMeasF},
		{"measurementFieldSetChangeMgr.loadFieldChangeSet", tsdbP, "FieldChange", ctF, iChangeF},
		{"measurementFieldSetChangeMgr.loadFieldChangeSet", tsdbP, "Field", fNameF, iNameF},
		{"measurementFieldSetChangeMgr.loadFieldChangeSet", tsdbP, "Field", fTypeF, iTypeF},
	}
	for _, c := range covs {
		f := r.Need(p, tsdbP, c.fn)
		if f == nil {
			continue
		}
		info := f.Info()
		found := false
		ast.Inspect(f.Decl.Body, func(n ast.Node) bool {
			switch x := n.(type) {
			case *ast.CompositeLit:
				if rw3IsNamed(info.TypeOf(x), c.litPkg, c.litType) {
					if v := rw3LitField(info, x, c.key); v != nil && rw3Mentions(info, v, c.src) {
						found = true
					}
				}
			case *ast.AssignStmt:
				for i, l := range x.Lhs {
					if len(x.Lhs) == len(x.Rhs) && core.FieldOf(info, l) == c.key && rw3Mentions(info, x.Rhs[i], c.src) {
						found = true
					}
				}
			}
			return true
		})
		r.Check(found, rule, f.String(), "copy:"+c.litType+"."+c.key.Name(), f.Pos(), fmt.Sprintf("%s.%s is set from %s", c.litType, c.key.Name(), c.src.Name()))
	}
	// the Field sub-record is attached on both sides
	for _, c := range []struct {
		fn            string
		key           *types.Var
		litPkg, litTy string
	}{{"marshalFieldChanges", iFieldF, rw3Internal, "Field"}, {"measurementFieldSetChangeMgr.loadFieldChangeSet", fcFieldF, tsdbP, "Field"}} {
		f := p.Func(tsdbP, c.fn)
		if f == nil {
			continue
		}
		info := f.Info()
		found := false
		isRec := func(e ast.Expr) bool {
			cl := rw3Lit(e)
			if cl != nil {
				return rw3IsNamed(info.TypeOf(cl), c.litPkg, c.litTy)
			}
			if o := core.ObjOf(info, e); o != nil {
				for _, d := range rw3Defs(info, f.Decl.Body, o) {
					if cl := rw3Lit(d.Rhs); cl != nil && rw3IsNamed(info.TypeOf(cl), c.litPkg, c.litTy) {
						return true
					}
				}
			}
			return false
		}
		ast.Inspect(f.Decl.Body, func(n ast.Node) bool {
			switch x := n.(type) {
			case *ast.KeyValueExpr:
				if id, ok := x.Key.(*ast.Ident); ok && info.Uses[id] == types.Object(c.key) && isRec(x.Value) {
					found = true
				}
			case *ast.AssignStmt:
				for i, l := range x.Lhs {
					if len(x.Lhs) == len(x.Rhs) && core.FieldOf(info, l) == c.key && isRec(x.Rhs[i]) {
						found = true
					}
				}
			}
			return true
		})
		r.Check(found, rule, f.String(), "copy:Field", f.Pos(), "the Field sub-record is attached to the change")
	}
}

// ---- (5a) marshalFieldChanges is a lossless map
func c10Lossless(p *core.Prog, r *core.Report) {
	const rule = "lossless-change-log"
	f := r.Need(p, tsdbP, "marshalFieldChanges")
	ipk := p.Pkg(rw3Internal)
	if f == nil || ipk == nil {
		return
	}
	info, g, name := f.Info(), f.Graph(), f.String()
	changesF := core.LookupField(ipk.Types, "FieldChangeSet", "Changes")
	if !r.Check(changesF != nil, "anchor", "tsdb/internal.FieldChangeSet.Changes", "unresolved", f.Pos(), "field resolved") {
		return
	}
	var setObj types.Object // the FieldChangeSet variable appended to
	isSink := func(n *core.Node) bool {
		if n.N == nil {
			return false
		}
		args := rw3AppendTo(info, n.N, func(e ast.Expr) bool { return core.FieldOf(info, e) == changesF })
		if args == nil {
			return false
		}
		if s, ok := ast.Unparen(n.N.(*ast.AssignStmt).Lhs[0]).(*ast.SelectorExpr); ok {
			setObj = core.ObjOf(info, s.X)
		}
		return true
	}
	sinks := g.Select(isSink)
	r.Check(len(sinks) >= 1, rule, name, "append:absent", f.Pos(), "changes are appended to FieldChangeSet.Changes")
	marsh := g.Calling(call("google.golang.org/protobuf/proto.MarshalOptions.MarshalAppend", "google.golang.org/protobuf/proto.Marshal", "google.golang.org/protobuf/proto.MarshalOptions.Marshal"))
	mns := g.Select(marsh)
	if !r.Check(len(mns) >= 1, rule, name, "marshal:absent", f.Pos(), "the change set is marshalled") {
		return
	}
	for _, c := range core.AllCalls(info, f.Decl.Body, call("google.golang.org/protobuf/proto.MarshalOptions.MarshalAppend", "google.golang.org/protobuf/proto.Marshal", "google.golang.org/protobuf/proto.MarshalOptions.Marshal")) {
		last := c.Args[len(c.Args)-1]
		var o types.Object
		if u, ok := ast.Unparen(last).(*ast.UnaryExpr); ok && u.Op == token.AND {
			o = core.ObjOf(info, u.X)
		} else {
			o = core.ObjOf(info, last)
		}
		r.Check(o != nil && o == setObj, rule, name, "marshalled-set", p.Pos(c.Pos()), "the marshalled message is the set the changes were appended to")
	}
	before := g.ReachFromEntry(marsh, nil)
	nloops := 0
	for _, s := range rw3TopLoops(f.Decl.Body) {
		rs, ok := s.(*ast.RangeStmt)
		if !ok || !rw3IsNamed(info.TypeOf(rs.X), tsdbP, "FieldChanges") {
			continue
		}
		l := rw3FindLoop(g, rs)
		if l == nil || !before[l.Head] {
			continue
		}
		nloops++
		// the appended record is built from the loop element
		if l.Val != nil {
			okSrc := false
			for _, sn := range sinks {
				if !l.In(sn) {
					continue
				}
				for _, a := range rw3AppendTo(info, sn.N, func(e ast.Expr) bool { return core.FieldOf(info, e) == changesF }) {
					var lit *ast.CompositeLit
					if lit = rw3Lit(a); lit == nil {
						if ds := rw3Defs(info, f.Decl.Body, core.ObjOf(info, a)); len(ds) >= 1 {
							lit = rw3Lit(ds[0].Rhs)
						}
					}
					if lit != nil {
						ast.Inspect(lit, func(x ast.Node) bool {
							if id, ok := x.(*ast.Ident); ok && info.Uses[id] == l.Val {
								okSrc = true
							}
							return true
						})
					}
				}
			}
			r.Check(okSrc, rule, name, "appended-record", p.Pos(rs.Pos()), "the appended record is built from the loop element")
		}
		if esc := l.Escapes(g, isSink, nil); len(esc) == 0 {
			r.Ok(rule, name, p.Pos(rs.Pos()), "every input change reaches FieldChangeSet.Changes")
		} else {
			r.Bad(rule, name, "append-skipped", rw3EscapeWhere(g, l, isSink, nil),
				"an input change can finish its iteration without being appended to FieldChangeSet.Changes: it never reaches fields.idxl (today: a change whose Field is nil, i.e. every DeleteMeasurement change built by MeasurementsToFieldChangeDeletions)")
		}
	}
	r.Check(nloops >= 1, rule, name, "input-loop:absent", f.Pos(), "loop over the input changes found")
}

// ---- (5b) the optional Field of a change is dereferenced only behind a guard
func c10NilField(p *core.Prog, r *core.Report) {
	const rule = "nil-field-guard"
	pk, ipk := p.Pkg(tsdbP), p.Pkg(rw3Internal)
	if pk == nil || ipk == nil {
		return
	}
	fcFieldF := core.LookupField(pk.Types, "FieldCreate", "Field")
	iFieldF := core.LookupField(ipk.Types, "MeasurementFieldChange", "Field")
	ctF := core.LookupField(pk.Types, "FieldChange", "ChangeType")
	delC := rw3PkgConst(p, tsdbP, "DeleteMeasurement")
	addC := rw3PkgConst(p, tsdbP, "AddMeasurementField")
	if !r.Check(fcFieldF != nil && iFieldF != nil && ctF != nil && delC != nil && addC != nil, "anchor", "FieldCreate.Field / MeasurementFieldChange.Field", "unresolved", "-", "fields resolved") {
		return
	}
	// producers of a nil Field
	nprod := 0
	for _, fn := range p.Funcs(tsdbP) {
		ast.Inspect(fn.Decl, func(n ast.Node) bool {
			cl, ok := n.(*ast.CompositeLit)
			if !ok || !rw3IsNamed(fn.Info().TypeOf(cl), tsdbP, "FieldCreate") {
				return true
			}
			if len(cl.Elts) > 0 {
				if _, keyed := cl.Elts[0].(*ast.KeyValueExpr); !keyed {
					return true // positional literal: Field is given
				}
			}
			v := rw3LitField(fn.Info(), cl, fcFieldF)
			if v == nil || core.IsNilIdent(fn.Info(), v) {
				nprod++
			}
			return true
		})
	}
	r.Check(nprod >= 1, rule, "tsdb.FieldCreate", "nil-producer:absent", "-", fmt.Sprintf("%d FieldCreate literal(s) leave Field nil (MeasurementsToFieldChangeDeletions)", nprod))
	total := 0
	for _, fname := range []string{"marshalFieldChanges", "measurementFieldSetChangeMgr.loadFieldChangeSet", "MeasurementFieldSet.ApplyChanges"} {
		f := r.Need(p, tsdbP, fname)
		if f == nil {
			continue
		}
		info, g := f.Info(), f.Graph()
		// dereferences: <base>.Field.<x>
		type deref struct {
			sel  *ast.SelectorExpr
			base types.Object
		}
		var ds []deref
		ast.Inspect(f.Decl.Body, func(n ast.Node) bool {
			s, ok := n.(*ast.SelectorExpr)
			if !ok || core.FieldOf(info, s) == nil {
				return true
			}
			in, ok := ast.Unparen(s.X).(*ast.SelectorExpr)
			if !ok {
				return true
			}
			if fv := core.FieldOf(info, in); fv == fcFieldF || fv == iFieldF {
				ds = append(ds, deref{s, core.ObjOf(info, in.X)})
			}
			return true
		})
		total += len(ds)
		bad := 0
		var first string
		for _, d := range ds {
			n := g.NodeOf(d.sel)
			if n == nil || d.base == nil {
				bad++
				continue
			}
			guard := func(e *core.Edge) bool {
				return rw3EdgeImplies(e, func(c ast.Expr, val bool) bool {
					if x, nonNilOnTrue, ok := core.NilTest(info, c); ok {
						if xs, ok := x.(*ast.SelectorExpr); ok && (core.FieldOf(info, xs) == fcFieldF || core.FieldOf(info, xs) == iFieldF) && core.ObjOf(info, xs.X) == d.base {
							return val == nonNilOnTrue
						}
					}
					if be, ok := c.(*ast.BinaryExpr); ok && (be.Op == token.EQL || be.Op == token.NEQ) {
						for _, pr := range [][2]ast.Expr{{be.X, be.Y}, {be.Y, be.X}} {
							xs, ok := ast.Unparen(pr[0]).(*ast.SelectorExpr)
							if !ok || core.FieldOf(info, xs) != ctF || core.ObjOf(info, xs.X) != d.base {
								continue
							}
							eq := (be.Op == token.EQL) == val
							if core.ObjOf(info, pr[1]) == types.Object(delC) && !eq {
								return true
							}
							if core.ObjOf(info, pr[1]) == types.Object(addC) && eq {
								return true
							}
						}
					}
					return false
				})
			}
			if g.ReachFromEntry(nil, guard)[n] {
				bad++
				if first == "" {
					first = p.Pos(d.sel.Pos())
				}
			}
		}
		if bad == 0 {
			r.Ok(rule, f.String(), f.Pos(), fmt.Sprintf("%d dereference(s) of a change's Field, each behind `Field != nil` or a ChangeType test", len(ds)))
		} else {
			r.Bad(rule, f.String(), "Field-deref-unguarded", first, fmt.Sprintf("%d of %d dereference(s) of a change's Field are reachable without `Field != nil` and without a ChangeType test; Field is nil for DeleteMeasurement changes", bad, len(ds)))
		}
	}
	r.Check(total >= 5, rule, "tsdb", "dereferences:count", "-", fmt.Sprintf("%d Field dereferences examined (>= 5 confirmed by reading)", total))
}

// ---- (6) fields.idxl append protocol
func c10ChangeLogIO(p *core.Prog, r *core.Report) {
	const rule = "change-log-io"
	f := r.Need(p, tsdbP, "measurementFieldSetChangeMgr.appendToChangesFile")
	if f != nil {
		info, g, name := f.Info(), f.Graph(), f.String()
		sizeF := core.LookupField(f.Pkg.Types, "measurementFieldSetChangeMgr", "changeFileSize")
		reqF := core.LookupField(f.Pkg.Types, "measurementFieldSetChangeMgr", "writeRequests")
		wrChanges := core.LookupField(f.Pkg.Types, "writeRequest", "changes")
		wrRet := core.LookupField(f.Pkg.Types, "writeRequest", "errorReturn")
		if !r.Check(sizeF != nil && reqF != nil && wrChanges != nil && wrRet != nil, "anchor", "measurementFieldSetChangeMgr.changeFileSize / writeRequest", "unresolved", f.Pos(), "fields resolved") {
			return
		}
		// open flags
		osPk := p.All["os"]
		opens := core.AllCalls(info, f.Decl.Body, call("os.OpenFile"))
		okFlags := len(opens) == 1 && osPk != nil
		if okFlags {
			fl, ok := rw3Int(info, opens[0].Args[1])
			okFlags = ok
			for _, cn := range []string{"O_SYNC", "O_APPEND", "O_CREATE"} {
				c, _ := osPk.Types.Scope().Lookup(cn).(*types.Const)
				if c == nil {
					okFlags = false
					continue
				}
				v, _ := constant.Int64Val(c.Val())
				if v == 0 || fl&v != v {
					okFlags = false
				}
			}
		}
		r.Check(okFlags, rule, name, "open-flags", f.Pos(), "fields.idxl is opened with O_CREATE|O_APPEND|O_SYNC (constant flag argument)")
		write := g.Calling(call("os.File.Write"))
		trunc := g.Calling(call("os.File.Truncate"))
		wns := g.Select(write)
		if !r.Check(len(wns) == 1, rule, name, "Write:absent", f.Pos(), "one File.Write") {
			return
		}
		// truncate-to-last-good before the write unless Stat shows no excess
		noExcess := func(e *core.Edge) bool {
			return core.EdgeEstablishingM3(info, f.Decl.Body, func(c ast.Expr, val bool) bool { // also through `excess := size > good; if excess`
				be, ok := c.(*ast.BinaryExpr)
				if !ok {
					return false
				}
				isSize := func(x ast.Expr) bool {
					cx, ok := ast.Unparen(x).(*ast.CallExpr)
					return ok && call("io/fs.FileInfo.Size")(info, cx)
				}
				isGood := func(x ast.Expr) bool { return core.FieldOf(info, x) == sizeF }
				switch {
				case isSize(be.X) && isGood(be.Y):
					return (be.Op == token.GTR && !val) || (be.Op == token.LEQ && val)
				case isGood(be.X) && isSize(be.Y):
					return (be.Op == token.LSS && !val) || (be.Op == token.GEQ && val)
				}
				return false
			})(e)
		}
		tns := g.Select(trunc)
		if r.Check(len(tns) >= 1, rule, name, "Truncate:absent", f.Pos(), "a partial append is truncated away") {
			reach := g.ReachFromEntry(trunc, noExcess)
			r.Check(!reach[wns[0]], rule, name, "truncate<write", g.Line(wns[0]), "the append is reached only after Truncate(last good size) or the edge on which Stat shows size <= last good size")
			for _, c := range core.AllCalls(info, f.Decl.Body, call("os.File.Truncate")) {
				r.Check(len(c.Args) == 1 && core.FieldOf(info, c.Args[0]) == sizeF, rule, name, "truncate-offset", p.Pos(c.Pos()), "the truncation offset is the recorded last good size")
			}
		}
		// bookkeeping of the good size
		stores := g.Select(g.Assigning(sizeF))
		if r.Check(len(stores) >= 1, rule, name, "good-size:absent", f.Pos(), "the last good size is recorded") {
			pre := g.ReachFromEntry(write, nil)
			fail, _, has := g.ErrEdges(wns[0])
			r.Check(has, rule, name, "Write-untested", g.Line(wns[0]), "the error of Write is tested")
			var afterFail map[*core.Node]bool
			if has {
				afterFail = g.Reach([]*core.Node{fail.To}, nil, nil)
			}
			for _, s := range stores {
				r.Check(!pre[s], rule, name, "write<good-size", g.Line(s), "the good size is advanced only after the Write")
				r.Check(!afterFail[s], rule, name, "good-size-after-failed-write", g.Line(s), "the good size is not advanced after a failed Write")
				as, _ := s.N.(*ast.AssignStmt)
				okv := as != nil && len(as.Rhs) == 1 && len(core.AllCalls(info, as.Rhs[0], call("io/fs.FileInfo.Size"))) == 1
				r.Check(okv, rule, name, "good-size-value", g.Line(s), "the recorded size is FileInfo.Size()")
			}
		}
		// written bytes = marshalFieldChanges(...)
		wc := core.AllCalls(info, f.Decl.Body, call("os.File.Write"))[0]
		okb := len(wc.Args) == 1 && rw3SoleCallDef(info, f.Decl.Body, core.ObjOf(info, wc.Args[0]), call("tsdb.marshalFieldChanges"), 0) != nil
		r.Check(okb, rule, name, "written-bytes", p.Pos(wc.Pos()), "the bytes written are the result of marshalFieldChanges")
		// the marshalled changes are the collected ones
		var changesObj, chansObj types.Object
		for _, c := range core.AllCalls(info, f.Decl.Body, call("tsdb.marshalFieldChanges")) {
			if len(c.Args) == 1 && c.Ellipsis.IsValid() {
				changesObj = core.ObjOf(info, c.Args[0])
			}
		}
		r.Check(changesObj != nil, rule, name, "marshal-argument", f.Pos(), "marshalFieldChanges receives the collected change sets")
		// error discipline
		core.RuleErrorsUsed(r, f, rule, "open/stat/truncate/marshal/write", call("os.OpenFile", "os.File.Stat", "os.File.Truncate", "os.File.Write", "tsdb.marshalFieldChanges"), false, 6)
		// the broadcast: deferred literal sends the function's error variable to every queued channel
		var errObj types.Object
		if as, ok := wns[0].N.(*ast.AssignStmt); ok {
			errObj = core.ObjOf(info, as.Lhs[len(as.Lhs)-1])
		}
		okSend := false
		ast.Inspect(f.Decl.Body, func(n ast.Node) bool {
			d, ok := n.(*ast.DeferStmt)
			if !ok {
				return true
			}
			fl, ok := ast.Unparen(d.Call.Fun).(*ast.FuncLit)
			if !ok {
				return true
			}
			ast.Inspect(fl.Body, func(m ast.Node) bool {
				rs, ok := m.(*ast.RangeStmt)
				if !ok || rs.Value == nil {
					return true
				}
				ast.Inspect(rs.Body, func(k ast.Node) bool {
					if s, ok := k.(*ast.SendStmt); ok && errObj != nil && core.ObjOf(info, s.Value) == errObj && core.ObjOf(info, s.Chan) == core.ObjOf(info, rs.Value) {
						okSend = true
						chansObj = core.ObjOf(info, rs.X)
					}
					return true
				})
				return true
			})
			return true
		})
		r.Check(okSend && chansObj != nil, rule, name, "broadcast", f.Pos(), "a deferred closure sends the error variable assigned by Write to every queued waiter")
		// every I/O error lands in that variable
		for _, c := range core.AllCalls(info, f.Decl.Body, call("os.OpenFile", "os.File.Stat", "os.File.Truncate", "os.File.Write", "tsdb.marshalFieldChanges")) {
			n := g.NodeOf(c)
			okv := false
			if n != nil {
				if as, ok := n.N.(*ast.AssignStmt); ok && len(as.Lhs) >= 1 {
					okv = core.ObjOf(info, as.Lhs[len(as.Lhs)-1]) == errObj
				}
			}
			r.Check(okv, rule, name, "error-variable:"+core.FName(core.Callee(info, c)), p.Pos(c.Pos()), "its error is assigned to the variable that is broadcast")
		}
		// a waiter is queued exactly when its changes are taken
		if changesObj != nil && chansObj != nil {
			takeC := func(n *core.Node) (types.Object, bool) {
				if n.N == nil {
					return nil, false
				}
				for _, a := range rw3AppendTo(info, n.N, func(e ast.Expr) bool { return core.ObjOf(info, e) == changesObj }) {
					if s, ok := ast.Unparen(a).(*ast.SelectorExpr); ok && core.FieldOf(info, s) == wrChanges {
						return core.ObjOf(info, s.X), true
					}
				}
				return nil, false
			}
			takeW := func(n *core.Node) (types.Object, bool) {
				if n.N == nil {
					return nil, false
				}
				for _, a := range rw3AppendTo(info, n.N, func(e ast.Expr) bool { return core.ObjOf(info, e) == chansObj }) {
					if s, ok := ast.Unparen(a).(*ast.SelectorExpr); ok && core.FieldOf(info, s) == wrRet {
						return core.ObjOf(info, s.X), true
					}
				}
				return nil, false
			}
			nc := 0
			for _, n := range g.Nodes {
				if b, ok := takeC(n); ok {
					nc++
					paired := false
					for _, m := range g.Nodes {
						if b2, ok := takeW(m); ok && m.Block == n.Block && b2 == b {
							paired = true
						}
					}
					r.Check(paired, rule, name, "queue-pairing", g.Line(n), "taking a request's changes and queuing its waiter happen in the same block")
				}
				if b, ok := takeW(n); ok {
					paired := false
					for _, m := range g.Nodes {
						if b2, ok := takeC(m); ok && m.Block == n.Block && b2 == b {
							paired = true
						}
					}
					r.Check(paired, rule, name, "queue-pairing", g.Line(n), "queuing a waiter and taking its changes happen in the same block")
				}
			}
			r.Check(nc >= 1, rule, name, "queue-pairing:absent", f.Pos(), "pending requests are combined")
			// the first request is in both
			for _, o := range []types.Object{changesObj, chansObj} {
				ds := rw3Defs(info, f.Decl.Body, o)
				okf := false
				for _, d := range ds {
					if cl := rw3Lit(d.Rhs); cl != nil && len(cl.Elts) == 1 {
						if s, ok := ast.Unparen(cl.Elts[0]).(*ast.SelectorExpr); ok && (core.FieldOf(info, s) == wrChanges || core.FieldOf(info, s) == wrRet) {
							okf = true
						}
					}
				}
				r.Check(okf, rule, name, "first-request:"+o.Name(), f.Pos(), o.Name()+" starts with the request that woke the writer")
			}
		}
	}
	if f := r.Need(p, tsdbP, "measurementFieldSetChangeMgr.RequestSave"); f != nil {
		info, g, name := f.Info(), f.Graph(), f.String()
		reqF := core.LookupField(f.Pkg.Types, "measurementFieldSetChangeMgr", "writeRequests")
		wrChanges := core.LookupField(f.Pkg.Types, "writeRequest", "changes")
		wrRet := core.LookupField(f.Pkg.Types, "writeRequest", "errorReturn")
		sig, _ := f.Obj.Type().(*types.Signature)
		var ch types.Object
		nsend := 0
		for _, n := range g.Nodes {
			s, ok := n.N.(*ast.SendStmt)
			if !ok || core.FieldOf(info, s.Chan) != reqF {
				continue
			}
			nsend++
			cl := rw3Lit(s.Value)
			okr := cl != nil && sig != nil && sig.Params().Len() == 1 && core.ObjOf(info, rw3LitField(info, cl, wrChanges)) == types.Object(sig.Params().At(0))
			r.Check(okr, rule, name, "request-changes", g.Line(n), "the queued request carries the caller's changes")
			if cl != nil {
				ch = core.ObjOf(info, rw3LitField(info, cl, wrRet))
			}
		}
		r.Check(nsend == 1 && ch != nil, rule, name, "request:absent", f.Pos(), "one request with a reply channel is queued")
		for _, x := range g.Exits {
			rs, ok := x.N.(*ast.ReturnStmt)
			okr := false
			if ok && len(rs.Results) == 1 {
				if u, ok := ast.Unparen(rs.Results[0]).(*ast.UnaryExpr); ok && u.Op == token.ARROW && core.ObjOf(info, u.X) == ch && ch != nil {
					okr = true
				}
			}
			r.Check(okr, rule, name, "reply-returned", g.Line(x), "Save returns what the writer sent on the request's reply channel")
		}
	}
	if f := r.Need(p, tsdbP, "MeasurementFieldSet.Save"); f != nil {
		core.RuleMustPass(r, f, rule, "RequestSave", call("tsdb.measurementFieldSetChangeMgr.RequestSave"), false)
	}
	if f := r.Need(p, tsdbP, "measurementFieldSetChangeMgr.SaveWriter"); f != nil {
		core.RuleHasCall(r, f, rule, "appendToChangesFile", call("tsdb.measurementFieldSetChangeMgr.appendToChangesFile"))
	}
	if f := r.Need(p, tsdbP, "Shard.saveFieldsAndMeasurements"); f != nil {
		// every created field becomes an AddMeasurementField change that is saved
		info, g := f.Info(), f.Graph()
		exempt := func(e *core.Edge) bool {
			sig, _ := f.Obj.Type().(*types.Signature)
			return sig != nil && sig.Params().Len() == 1 && rw3ZeroEdge(info, e, sig.Params().At(0))
		}
		core.RuleMustPassN(r, f, g, rule, "MeasurementFieldSet.Save", g.Calling(call("tsdb.MeasurementFieldSet.Save")), exempt)
		core.RuleErrorsUsed(r, f, rule, "Save", call("tsdb.MeasurementFieldSet.Save"), false, 1)
	}
}

// ---- (7) replay on open
func c10Replay(p *core.Prog, r *core.Report) {
	const rule = "change-log-replay"
	if f := r.Need(p, tsdbP, "NewMeasurementFieldSet"); f != nil {
		core.RuleMustPass(r, f, rule, "MeasurementFieldSet.load", call("tsdb.MeasurementFieldSet.load"), false)
	}
	if f := r.Need(p, tsdbP, "MeasurementFieldSet.load"); f != nil {
		core.RuleMustPass(r, f, rule, "ApplyChanges", call("tsdb.MeasurementFieldSet.ApplyChanges"), false)
		core.RuleErrorsUsed(r, f, rule, "ApplyChanges/loadParseFieldIndexPB", call("tsdb.MeasurementFieldSet.ApplyChanges", "tsdb.MeasurementFieldSet.loadParseFieldIndexPB"), false, 2)
	}
	if f := r.Need(p, tsdbP, "MeasurementFieldSet.ApplyChanges"); f != nil {
		info, g := f.Info(), f.Graph()
		la := call("tsdb.measurementFieldSetChangeMgr.loadAllFieldChanges")
		wtf := call("tsdb.MeasurementFieldSet.WriteToFile")
		core.RulePrecede(r, f, rule, "loadAllFieldChanges", la, "WriteToFile", wtf)
		var changes types.Object
		for _, n := range g.Select(g.Calling(la)) {
			if as, ok := n.N.(*ast.AssignStmt); ok && len(as.Lhs) == 2 {
				changes = core.ObjOf(info, as.Lhs[0])
			}
		}
		if r.Check(changes != nil, rule, f.String(), "loaded-changes", f.Pos(), "the loaded change sets are kept") {
			core.RuleMustPassN(r, f, g, rule, "WriteToFile", g.Calling(wtf), func(e *core.Edge) bool { return rw3ZeroEdge(info, e, changes) })
			// the outer loop ranges over them
			ok := false
			for _, s := range rw3TopLoops(f.Decl.Body) {
				if rs, isR := s.(*ast.RangeStmt); isR && core.ObjOf(info, rs.X) == changes {
					ok = true
				}
			}
			r.Check(ok, rule, f.String(), "replay-loop:absent", f.Pos(), "every loaded change set is walked")
		}
		core.RuleErrorsUsed(r, f, rule, "load/create/write/remove", call("tsdb.measurementFieldSetChangeMgr.loadAllFieldChanges", "tsdb.MeasurementFields.CreateFieldIfNotExists", "tsdb.MeasurementFieldSet.WriteToFile", "os.RemoveAll"), false, 4)
	}
	if f := r.Need(p, tsdbP, "measurementFieldSetChangeMgr.loadAllFieldChanges"); f != nil {
		info, g, name := f.Info(), f.Graph(), f.String()
		sig, _ := f.Obj.Type().(*types.Signature)
		lf := call("tsdb.measurementFieldSetChangeMgr.loadFieldChangeSet")
		// accumulator: the variable returned with a nil error
		var acc types.Object
		okRet := true
		nret := 0
		notExist := func(e *core.Edge) bool {
			return rw3EdgeImplies(e, func(c ast.Expr, val bool) bool {
				cx, ok := c.(*ast.CallExpr)
				return ok && val && call("os.IsNotExist")(info, cx)
			})
		}
		onlyNotExist := g.ReachFromEntry(nil, notExist)
		for _, x := range g.Exits {
			rs, ok := x.N.(*ast.ReturnStmt)
			if !ok || len(rs.Results) != 2 || !core.IsNilIdent(info, rs.Results[1]) {
				continue
			}
			if !onlyNotExist[x] {
				continue // the file does not exist
			}
			nret++
			o := core.ObjOf(info, rs.Results[0])
			if o == nil || (acc != nil && o != acc) {
				okRet = false
				r.Bad(rule, name, "decoded-sets-dropped", g.Line(x), "a nil-error return does not hand back the accumulated change sets")
				continue
			}
			acc = o
		}
		// (which errors end in such a return is decided by rule replay-exit-table; EOF and the
		// torn tail may share one return statement)
		r.Check(okRet && nret >= 1 && acc != nil, rule, name, "accumulator-returns:count", f.Pos(), fmt.Sprintf("%d nil-error return(s) (EOF, torn tail) hand back the accumulator", nret))
		_ = sig
		var loop *rw3Loop
		for _, s := range rw3TopLoops(f.Decl.Body) {
			if fs, ok := s.(*ast.ForStmt); ok && fs.Cond != nil && (len(core.AllCalls(info, fs.Init, lf)) > 0 || len(core.AllCalls(info, fs.Post, lf)) > 0) {
				loop = rw3FindLoop(g, fs)
			}
		}
		if r.Check(loop != nil && acc != nil, rule, name, "decode-loop:absent", f.Pos(), "decode loop found") {
			isAcc := func(n *core.Node) bool {
				return n.N != nil && rw3AppendTo(info, n.N, func(e ast.Expr) bool { return core.ObjOf(info, e) == acc }) != nil
			}
			if esc := loop.Escapes(g, isAcc, nil); len(esc) == 0 {
				r.Ok(rule, name+":every-set-kept", p.Pos(loop.Stmt.Pos()), "every decoded change set is appended to the accumulator")
			} else {
				r.Bad(rule, name, "decoded-set-skipped", rw3EscapeWhere(g, loop, isAcc, nil), "a decoded change set can be skipped")
			}
			// the appended value is the decoded one
			fs := loop.Stmt.(*ast.ForStmt)
			var dec types.Object
			if as, ok := fs.Init.(*ast.AssignStmt); ok && len(as.Lhs) == 2 {
				dec = core.ObjOf(info, as.Lhs[0])
			}
			okv := false
			for _, n := range g.Select(isAcc) {
				for _, a := range rw3AppendTo(info, n.N, func(e ast.Expr) bool { return core.ObjOf(info, e) == acc }) {
					if dec != nil && core.ObjOf(info, a) == dec {
						okv = true
					}
				}
			}
			r.Check(okv, rule, name, "accumulated-value", p.Pos(loop.Stmt.Pos()), "the accumulated value is the set just decoded")
		}
	}
}

// ---- (8) dropping a measurement is persisted
func c10DropMeasurement(p *core.Prog, r *core.Report) {
	const rule = "drop-measurement-persisted"
	if f := r.Need(p, tsm1, "Engine.deleteSeriesRange"); f != nil {
		info, g, name := f.Info(), f.Graph(), f.String()
		save := call("tsdb.MeasurementFieldSet.Save")
		cleanup := call("tsdb/engine/tsm1.Engine.cleanupMeasurement")
		dropM := call("tsdb.Index.DropMeasurementIfSeriesNotExist")
		saves := core.AllCalls(info, f.Decl.Body, save)
		var queue types.Object
		if len(saves) == 1 && len(saves[0].Args) == 1 {
			if c, ok := ast.Unparen(saves[0].Args[0]).(*ast.CallExpr); ok && call("tsdb.MeasurementsToFieldChangeDeletions")(info, c) && len(c.Args) == 1 {
				queue = core.ObjOf(info, c.Args[0])
			}
		}
		if !r.Check(queue != nil, rule, name, "Save(deletions):absent", f.Pos(), "fieldset.Save(MeasurementsToFieldChangeDeletions(queue)) found") {
			return
		}
		isQ := func(n *core.Node) bool {
			return n.N != nil && rw3AppendTo(info, n.N, func(e ast.Expr) bool { return core.ObjOf(info, e) == queue }) != nil
		}
		qs := g.Select(isQ)
		r.Check(len(qs) >= 1, rule, name, "queue:absent", f.Pos(), "measurements are queued for schema deletion")
		// cleanupMeasurement result
		var deleted, dropped types.Object
		var keyObj types.Object
		for _, n := range g.Select(g.Calling(cleanup)) {
			if as, ok := n.N.(*ast.AssignStmt); ok && len(as.Lhs) == 2 {
				deleted = core.ObjOf(info, as.Lhs[0])
			}
		}
		for _, n := range g.Select(g.Calling(dropM)) {
			if as, ok := n.N.(*ast.AssignStmt); ok && len(as.Lhs) == 2 {
				dropped = core.ObjOf(info, as.Lhs[0])
			}
		}
		if r.Check(deleted != nil && dropped != nil, rule, name, "results-kept", f.Pos(), "the boolean results of DropMeasurementIfSeriesNotExist and cleanupMeasurement are kept") {
			noDel := g.ReachFromEntry(nil, func(e *core.Edge) bool { return rw3BoolEdge(info, e, deleted, true) })
			for _, q := range qs {
				r.Check(!noDel[q], rule, name, "queued-only-if-deleted", g.Line(q), "a measurement is queued only on the true edge of cleanupMeasurement's result")
			}
			noDrop := g.ReachFromEntry(nil, func(e *core.Edge) bool { return rw3BoolEdge(info, e, dropped, true) })
			for _, n := range g.Select(g.Calling(cleanup)) {
				r.Check(!noDrop[n], rule, name, "cleanup-only-if-dropped", g.Line(n), "cleanupMeasurement runs only on the true edge of DropMeasurementIfSeriesNotExist")
			}
		}
		// same measurement key flows through drop, cleanup and queue
		for _, s := range rw3TopLoops(f.Decl.Body) {
			if rs, ok := s.(*ast.RangeStmt); ok && rs.Key != nil && len(core.AllCalls(info, rs.Body, cleanup)) > 0 {
				keyObj = core.ObjOf(info, rs.Key)
			}
		}
		okKey := keyObj != nil
		uses := func(e ast.Node) bool {
			found := false
			ast.Inspect(e, func(n ast.Node) bool {
				if id, ok := n.(*ast.Ident); ok && info.Uses[id] == keyObj {
					found = true
				}
				return true
			})
			return found
		}
		if okKey {
			for _, c := range core.AllCalls(info, f.Decl.Body, core.Or(cleanup, dropM)) {
				if len(c.Args) != 1 || !uses(c.Args[0]) {
					okKey = false
				}
			}
			for _, q := range qs {
				for _, a := range rw3AppendTo(info, q.N, func(e ast.Expr) bool { return core.ObjOf(info, e) == queue }) {
					if !uses(a) {
						okKey = false
					}
				}
			}
		}
		r.Check(okKey, rule, name, "measurement-key", f.Pos(), "DropMeasurementIfSeriesNotExist, cleanupMeasurement and the queue use the same loop key")
		// after queuing, success needs Save
		gate := g.Calling(save)
		okS := true
		for _, q := range qs {
			if miss := rw3SuccessMissing(g, core.After(q, nil), gate, func(e *core.Edge) bool { return rw3ZeroEdge(info, e, queue) }); len(miss) > 0 {
				okS = false
				r.Bad(rule, name, "queued-not-saved", g.Line(miss[0]), "after a measurement was queued a success exit is reachable without fieldset.Save(deletions)")
			}
		}
		if okS && len(qs) > 0 {
			r.Ok(rule, name+":queued-then-saved", g.Line(qs[0]), "every success exit after queuing passes fieldset.Save(deletions) unless the queue is empty")
		}
		core.RuleErrorsUsed(r, f, rule, "Save/cleanupMeasurement/DropMeasurementIfSeriesNotExist", core.Or(save, cleanup, dropM), false, 3)
	}
	if f := r.Need(p, tsm1, "Engine.cleanupMeasurement"); f != nil {
		info, g, name := f.Info(), f.Graph(), f.String()
		dwl := core.AllCalls(info, f.Decl.Body, call("tsdb.MeasurementFieldSet.DeleteWithLock"))
		if r.Check(len(dwl) == 1 && len(dwl[0].Args) == 2, rule, name, "DeleteWithLock:absent", f.Pos(), "the schema is deleted through DeleteWithLock") {
			fl, _ := ast.Unparen(dwl[0].Args[1]).(*ast.FuncLit)
			sig, _ := f.Obj.Type().(*types.Signature)
			r.Check(sig != nil && sig.Params().Len() == 1 && func() bool {
				found := false
				ast.Inspect(dwl[0].Args[0], func(n ast.Node) bool {
					if id, ok := n.(*ast.Ident); ok && info.Uses[id] == types.Object(sig.Params().At(0)) {
						found = true
					}
					return true
				})
				return found
			}(), rule, name, "deleted-name", p.Pos(dwl[0].Pos()), "the deleted schema is the measurement passed in")
			if r.Check(fl != nil, rule, name, "callback:absent", p.Pos(dwl[0].Pos()), "DeleteWithLock gets a literal callback") {
				r.Check(len(core.AllCalls(info, fl.Body, call("tsdb/engine/tsm1.Cache.ApplyEntryFn"))) >= 1, rule, name, "cache-scan:absent", p.Pos(fl.Pos()), "the callback scans the cache")
				r.Check(len(core.AllCalls(info, fl.Body, call("tsdb/engine/tsm1.FileStore.WalkKeys"))) >= 1, rule, name, "filestore-scan:absent", p.Pos(fl.Pos()), "the callback scans the file store")
				// sentinel returned by both scans
				sentinels := map[types.Object]int{}
				ast.Inspect(fl.Body, func(n ast.Node) bool {
					if inner, ok := n.(*ast.FuncLit); ok && inner != fl {
						ast.Inspect(inner.Body, func(m ast.Node) bool {
							if rs, ok := m.(*ast.ReturnStmt); ok && len(rs.Results) == 1 {
								if o, ok := core.ObjOf(info, rs.Results[0]).(*types.Var); ok && !core.IsNilIdent(info, rs.Results[0]) {
									sentinels[o]++
								}
							}
							return true
						})
					}
					return true
				})
				var sentinel types.Object
				for o, n := range sentinels {
					if n >= 2 {
						sentinel = o
					}
				}
				if r.Check(sentinel != nil, rule, name, "abort-sentinel:absent", p.Pos(fl.Pos()), "both scans abort with the same sentinel error") {
					// err of DeleteWithLock
					var errObj types.Object
					if n := g.NodeOf(dwl[0]); n != nil {
						if as, ok := n.N.(*ast.AssignStmt); ok && len(as.Lhs) == 1 {
							errObj = core.ObjOf(info, as.Lhs[0])
						}
					}
					nok := 0
					for _, x := range g.Exits {
						rs, ok := x.N.(*ast.ReturnStmt)
						if !ok || len(rs.Results) != 2 || !core.IsNilIdent(info, rs.Results[1]) {
							continue
						}
						nok++
						if _, isConst := core.ConstBool(info, rs.Results[0]); isConst {
							// `return true, nil` / `return false, nil` on a branch: which branch it is
							// is decided by the decision table of rule deleted-iff-no-error
							continue
						}
						be, ok := ast.Unparen(rs.Results[0]).(*ast.BinaryExpr)
						if !ok || be.Op != token.NEQ {
							r.Bad(rule, name, "deleted-result", g.Line(x), "deleted is not computed as err != abort-sentinel")
							continue
						}
						var other ast.Expr
						switch {
						case core.ObjOf(info, be.Y) == sentinel:
							other = be.X
						case core.ObjOf(info, be.X) == sentinel:
							other = be.Y
						}
						oo := core.ObjOf(info, other)
						detail := "deleted is reported as (error returned by DeleteWithLock) != abort-sentinel"
						if other != nil && oo != errObj && oo != nil {
							detail = fmt.Sprintf("deleted compares variable %q declared at %s with the abort sentinel, but the error returned by DeleteWithLock lives in a different variable (declared at %s, scoped to the if statement): the compared variable is never assigned from DeleteWithLock, so an aborted deletion (data still present) is reported as deleted",
								oo.Name(), p.Pos(oo.Pos()), p.Pos(errObj.Pos()))
						}
						r.Check(other != nil && errObj != nil && oo == errObj, rule, name, "deleted-result", g.Line(x), detail)
					}
					r.Check(nok >= 1, rule, name, "deleted-result:absent", f.Pos(), "nil-error return found")
				}
				// errors of the scans are propagated inside the callback
				core.RuleErrorsUsed(r, f, rule, "ApplyEntryFn/WalkKeys/DeleteWithLock", call("tsdb/engine/tsm1.Cache.ApplyEntryFn", "tsdb/engine/tsm1.FileStore.WalkKeys", "tsdb.MeasurementFieldSet.DeleteWithLock"), false, 3)
			}
		}
	}
	if f := r.Need(p, tsdbP, "MeasurementFieldSet.DeleteWithLock"); f != nil {
		info, g, name := f.Info(), f.Graph(), f.String()
		sig, _ := f.Obj.Type().(*types.Signature)
		var fnNode *core.Node
		if sig != nil && sig.Params().Len() == 2 {
			for _, n := range g.Nodes {
				if n.N == nil {
					continue
				}
				for _, c := range core.CallsIn(info, n.N, func(_ *types.Info, c *ast.CallExpr) bool {
					return core.ObjOf(info, c.Fun) == types.Object(sig.Params().At(1))
				}, core.WalkOpts{}) {
					_ = c
					fnNode = n
				}
			}
		}
		del := g.Calling(call("tsdb.MeasurementFieldSet.deleteNoLock"))
		if r.Check(fnNode != nil && len(g.Select(del)) >= 1, rule, name, "callback/delete:absent", f.Pos(), "the callback is invoked and the schema deleted") {
			fail, _, has := g.ErrEdges(fnNode)
			if r.Check(has, rule, name, "callback-untested", g.Line(fnNode), "the callback's error is tested") {
				bad := false
				for n := range g.Reach([]*core.Node{fail.To}, nil, nil) {
					if del(n) {
						bad = true
					}
				}
				r.Check(!bad, rule, name, "delete-after-abort", g.Line(fnNode), "the schema is not deleted when the callback failed / aborted")
			}
			pre := g.ReachFromEntry(func(n *core.Node) bool { return n == fnNode }, nil)
			for _, d := range g.Select(del) {
				r.Check(!pre[d], rule, name, "callback<delete", g.Line(d), "the data check precedes the deletion")
			}
			core.RuleMustPassN(r, f, g, rule, "deleteNoLock", del, nil)
		}
	}
}
