package rules

import (
	"fmt"
	"go/ast"
	"go/token"
	"go/types"
	"sort"
	"strings"

	"verif/checker/core"
)

func init() {
	register(&Prop{
		ID:        "C21",
		Patterns:  []string{"./storage/reads"},
		Level:     "other",
		Technique: "static analysis: type-switch coverage, sibling uniformity of the generated multi-shard/filter cursors, CFG path rules for shard advancing, per-row re-initialisation of the reused cursors, ordering and comparator shape of the group sort",
		Explanation: "Decided for the storage read path in storage/reads: " +
			"(1) sibling-uniformity — the *MultiShardArrayCursor, *ArrayFilterCursor and *EmptyArrayCursor functions of array_cursor.gen.go are token-identical to their Float sibling up to the value-type tokens (also inside messages). " +
			"(2) create-cursor-arms — multiShardArrayCursors.createCursor has exactly one arm per cursor interface (Integer, Float, Unsigned, String, Boolean); each arm resets one typed multi-shard cursor with (the bound cursor, the not yet visited shards row.Query, the row's value condition) and returns the address of that same cursor; groupResultSet.seriesHasPoints covers the same five types plus nil. " +
			"(3) shard-advance — in createCursor and in every nextArrayCursor the pending shard list is advanced only by `x, list = list[0], list[1:]`, once per loop iteration and before the popped iterator's Next is called, so no shard is visited twice or skipped; nextArrayCursor reports true only when the next cursor had the expected type and installs a cursor (next shard's or the empty one) on every path that has shards left. " +
			"(4) multishard-next — *MultiShardArrayCursor.Next returns an empty array only after nextArrayCursor said no shard is left. " +
			"(5) reset-completeness — the five typed multi-shard cursors are single objects reused for every series row; every field that Next/nextArrayCursor read and that is not fixed at construction (embedded cursor, itrs, err, filter) must be re-established by reset on every path (assigned, or re-configured through it). " +
			"(6) filter-cursor — the value filter stores a point only behind cond.EvalBool for that point's value, pairs value and timestamp of the same index, saves the unread tail [i+1:] when the block is full (the point was emitted), reads a pending tail first and clears it before fetching. " +
			"(7) range-translation — newMultiShardArrayCursors turns [start,end) into the inclusive cursor request (StartTime=start, EndTime=end-1, Ascending=asc) and hands the same context to all five cursors. " +
			"(8) group-sort — groupBySort appends every kept row with a sort key built from the group key values in request order (empty value replaced by nilSort, separator after each), sorts that slice with a strict bytes.Compare on SortKey of the same slice and only then publishes it to g.seriesRows; NewGroupResultSet runs groupBySort (GroupBy) / groupNoneSort (GroupNone) before a result set is returned and selects the matching next-group function; groupByNextGroup hands out seriesRows[g.i:j] for the maximal run of equal sort keys starting at g.i, then sets g.i=j and eof exactly at the end, so every row is in exactly one group. " +
			"(9) resultset-next — resultSet.Next reports a series only after copying the row the series cursor returned, and the cursor is created from that row. " +
			"(10) ts-values-lockstep — reslicing and stores on Timestamps/Values are twins in the filter cursors.",
		NotCovered:  "the contents returned by the TSM cursors and the index series cursor (v1/services/storage), predicate translation (predicate.go, influxql_predicate.go), the merge of tag keys, the order of shards in row.Query, value equality of group keys.",
		Assumptions: []string{"the Float instantiation is the comparison reference of each sibling group"},
		Run:         runC21,
	})
}

func runC21(p *core.Prog, r *core.Report, tier string) {
	keep := func(k string) bool {
		return strings.Contains(k, "MultiShardArrayCursor") || strings.Contains(k, "ArrayFilterCursor") || strings.Contains(k, "FilterArrayCursor") || strings.Contains(k, "EmptyArrayCursor")
	}
	core.RuleSiblings10(r, p, readsPk10, genCursors10, "sibling-uniformity", keep, nil, 13, 65)
	c21CreateCursor(p, r)
	c21MultiShard(p, r)
	c21Range(p, r)
	c21Group(p, r)
	c21ResultSet(p, r)
	c20Lockstep(p, r, func(k string) bool { return strings.Contains(k, "ArrayFilterCursor") }, 5)
}

var c21Types = []string{"Boolean", "Float", "Integer", "String", "Unsigned"}

// ---------------------------------------------------------------- pop-the-head rule

// c21Pop checks the advance of a pending iterator list inside the loop that
// contains it. isList accepts the expressions denoting the list.
func c21Pop(r *core.Report, f *core.Func, rule string, isList func(ast.Expr) bool, listName string) (popped types.Object, loop *ast.ForStmt) {
	info, g := f.Info(), f.Graph()
	var pops, writes []*core.Node
	for _, n := range g.Nodes {
		as, ok := n.N.(*ast.AssignStmt)
		if !ok {
			continue
		}
		for i, l := range as.Lhs {
			if !isList(ast.Unparen(l)) {
				continue
			}
			writes = append(writes, n)
			if len(as.Lhs) != 2 || len(as.Rhs) != 2 || i != 1 {
				continue
			}
			sl, _ := ast.Unparen(as.Rhs[1]).(*ast.SliceExpr)
			ix, _ := ast.Unparen(as.Rhs[0]).(*ast.IndexExpr)
			if sl == nil || ix == nil || !isList(ast.Unparen(sl.X)) || !isList(ast.Unparen(ix.X)) || sl.High != nil || sl.Max != nil {
				continue
			}
			lo, ok1 := core.ConstInt(info, sl.Low)
			at, ok2 := core.ConstInt(info, ix.Index)
			if sl.Low == nil || !ok1 || lo != 1 || !ok2 || at != 0 {
				continue
			}
			if o := core.ObjOf(info, as.Lhs[0]); o != nil {
				popped = o
				pops = append(pops, n)
			}
		}
	}
	if !r.Check(len(pops) == 1 && len(writes) == 1, rule, f.String(), "pop:"+listName, f.Pos(),
		fmt.Sprintf("%s is advanced only by `x, %s = %s[0], %s[1:]` (%d such statement, %d writes in all)", listName, listName, listName, listName, len(pops), len(writes))) {
		return nil, nil
	}
	pop := pops[0]
	ast.Inspect(f.Decl.Body, func(n ast.Node) bool {
		if fs, ok := n.(*ast.ForStmt); ok && fs.Pos() <= pop.N.Pos() && pop.N.End() <= fs.End() {
			loop = fs
		}
		return true
	})
	if !r.Check(loop != nil, rule, f.String(), "pop-loop:absent", g.Line(pop), "the list is advanced inside the shard loop") {
		return nil, nil
	}
	head, body, _ := g.LoopNodes(loop)
	isPop := func(n *core.Node) bool { return n == pop }
	if r.Check(head != nil && body != nil, rule, f.String(), "pop-loop:unresolved", g.Line(pop), "loop head and body resolved") {
		free := g.Reach([]*core.Node{body}, isPop, nil)
		r.Check(!free[head], rule, f.String(), "pop-every-iteration", g.Line(pop), "every iteration of the shard loop removes the head of "+listName+" (no shard is asked twice)")
		// the popped iterator is the one asked, after the pop
		asked := 0
		for _, n := range g.Nodes {
			if n.N == nil || !core.InRegion(n, loop) {
				continue
			}
			for _, cl := range core.CallsIn(info, n.N, call("tsdb/cursors.CursorIterator.Next"), core.WalkOpts{}) {
				asked++
				r.Check(core.ObjOf(info, core.Recv(cl)) == popped && !free[n], rule, f.String(), "ask-popped", g.Line(n), "the iterator asked for a cursor is the one just removed from "+listName)
			}
		}
		r.Check(asked == 1, rule, f.String(), "ask:count", g.Line(pop), fmt.Sprintf("exactly one shard iterator is asked per iteration (%d)", asked))
	}
	return popped, loop
}

// ---------------------------------------------------------------- createCursor

func c21CreateCursor(p *core.Prog, r *core.Report) {
	const rule = "create-cursor-arms"
	f := r.Need(p, readsPk10, "multiShardArrayCursors.createCursor")
	if f == nil {
		return
	}
	info := f.Info()
	rowP := f.Param(0)
	queryF := core.LookupField(f.Pkg.Types, "SeriesRow", "Query")
	condF := core.LookupField(f.Pkg.Types, "SeriesRow", "ValueCond")
	isQuery := func(e ast.Expr) bool {
		se, ok := ast.Unparen(e).(*ast.SelectorExpr)
		return ok && queryF != nil && core.FieldOf(info, se) == queryF && core.ObjOf(info, se.X) == rowP
	}
	// the cursor variable switched on
	var sw *core.TypeSwitch10
	for _, s := range core.TypeSwitches10(info, f.Decl.Body) {
		sw = s
	}
	if !r.Check(sw != nil && core.ObjOf(info, sw.Operand) != nil, rule, f.String(), "type-switch:absent", f.Pos(), "dispatches on the dynamic type of the first shard's cursor") {
		return
	}
	curV := core.ObjOf(info, sw.Operand)
	// value condition: cond is &astExpr{row.ValueCond} under row.ValueCond != nil
	var condV types.Object
	ast.Inspect(f.Decl.Body, func(n ast.Node) bool {
		as, ok := n.(*ast.AssignStmt)
		if !ok || len(as.Lhs) != 1 || len(as.Rhs) != 1 {
			return true
		}
		found := false
		ast.Inspect(as.Rhs[0], func(x ast.Node) bool {
			if se, ok := x.(*ast.SelectorExpr); ok && condF != nil && core.FieldOf(info, se) == condF && core.ObjOf(info, se.X) == rowP {
				found = true
			}
			return true
		})
		if found {
			condV = core.ObjOf(info, as.Lhs[0])
		}
		return true
	})
	r.Check(condV != nil, rule, f.String(), "value-cond:absent", f.Pos(), "the row's value condition is wrapped into the filter expression")
	var arms []string
	fields := map[*types.Var]string{}
	for _, a := range sw.Arms {
		if len(a.Types) != 1 || a.Types[0] == nil {
			r.Bad(rule, f.String(), "arm:untyped", p.Pos(a.Clause.Pos()), "an arm must name exactly one cursor interface")
			continue
		}
		tn := core.NamedName10(a.Types[0])
		arms = append(arms, tn)
		// x.reset(c, row.Query, cond); return &x
		var reset *ast.CallExpr
		for _, cl := range core.AllCalls(info, a.Clause, call(readsPk10+".*MultiShardArrayCursor.reset")) {
			reset = cl
		}
		rets := core.ReturnsOf10(a.Clause)
		good := reset != nil && len(rets) == 1 && len(rets[0].Results) == 1 && len(reset.Args) == 3 &&
			core.ObjOf(info, reset.Args[0]) == a.Bound && a.Bound != nil && isQuery(reset.Args[1]) && core.ObjOf(info, reset.Args[2]) == condV && condV != nil
		var fld *types.Var
		if good {
			u, ok := ast.Unparen(rets[0].Results[0]).(*ast.UnaryExpr)
			good = ok && u.Op == token.AND && core.SameExpr(info, u.X, core.Recv(reset))
			fld = core.FieldOf(info, core.Recv(reset))
			good = good && fld != nil
		}
		if r.Check(good, rule, f.String(), "arm:"+tn, p.Pos(a.Clause.Pos()), "resets one typed cursor with (bound cursor, remaining shards row.Query, value condition) and returns that same cursor") {
			if prev, dup := fields[fld]; dup {
				r.Bad(rule, f.String(), "arm:"+tn+":distinct", p.Pos(a.Clause.Pos()), "same cursor object as arm "+prev)
			}
			fields[fld] = tn
		}
	}
	r.Check(sameSet10(arms, c20AllTypes), rule, f.String(), "arms", f.Pos(), fmt.Sprintf("one arm per cursor interface (5); found %v", arms))
	// default arm must not silently yield a cursor
	if sw.Default != nil {
		quiet := false
		for _, rs := range core.ReturnsOf10(sw.Default) {
			if len(rs.Results) == 1 && !core.IsNilIdent(info, rs.Results[0]) {
				quiet = true
			}
		}
		r.Check(!quiet, rule, f.String(), "default-arm", p.Pos(sw.Default.Pos()), "an unknown cursor type does not yield some other typed cursor")
	}
	// first-shard loop
	popped, loop := c21Pop(r, f, "shard-advance", isQuery, "row.Query")
	if popped != nil && loop != nil {
		// the cursor switched on is the one the popped shard returned
		okSrc := false
		for _, d := range core.DefsOf(info, f.Decl.Body, curV) {
			if cl, ok := d.Rhs.(*ast.CallExpr); ok && core.FName(core.Callee(info, cl)) == "tsdb/cursors.CursorIterator.Next" && core.ObjOf(info, core.Recv(cl)) == popped {
				okSrc = true
			}
		}
		r.Check(okSrc, "shard-advance", f.String(), "first-cursor-source", f.Pos(), "the typed cursor handed to reset is the one returned by the shard just removed from row.Query")
	}
	// seriesHasPoints covers the same types
	if h := r.Need(p, readsPk10, "groupResultSet.seriesHasPoints"); h != nil {
		var got []string
		hasNil := false
		for _, s := range core.TypeSwitches10(h.Info(), h.Decl.Body) {
			for _, a := range s.Arms {
				for _, t := range a.Types {
					if t == nil {
						hasNil = true
					} else {
						got = append(got, core.NamedName10(t))
					}
				}
			}
		}
		r.Check(sameSet10(got, c20AllTypes) && hasNil, rule, h.String(), "arms", h.Pos(), fmt.Sprintf("the has-points probe covers the five cursor interfaces and nil; found %v nil=%v", got, hasNil))
	}
}

// ---------------------------------------------------------------- typed multi-shard cursors

func c21MultiShard(p *core.Prog, r *core.Report) {
	pk := p.Pkg(readsPk10)
	if pk == nil {
		return
	}
	itrsF := core.LookupField(pk.Types, "cursorContext", "itrs")
	errF := core.LookupField(pk.Types, "cursorContext", "err")
	r.Check(itrsF != nil && errF != nil, "anchor", "reads.cursorContext.{itrs,err}", "unresolved", "-", "fields resolved")
	for _, T := range c21Types {
		typ := strings.ToLower(T) + "MultiShardArrayCursor"
		embName := T + "ArrayCursor"
		embF := core.LookupField(pk.Types, typ, embName)
		filterF := core.LookupField(pk.Types, typ, "filter")
		if !r.Check(embF != nil && filterF != nil, "anchor", "reads."+typ, "unresolved", "-", "struct with embedded cursor and filter resolved") {
			continue
		}
		// ---- nextArrayCursor
		if f := r.Need(p, readsPk10, typ+".nextArrayCursor"); f != nil {
			const rule = "shard-advance"
			info, g := f.Info(), f.Graph()
			recv := info.Defs[f.Decl.Recv.List[0].Names[0]]
			isItrs := func(e ast.Expr) bool {
				se, ok := ast.Unparen(e).(*ast.SelectorExpr)
				return ok && core.FieldOf(info, se) == itrsF && core.ObjOf(info, se.X) == recv
			}
			c21Pop(r, f, rule, isItrs, "c.itrs")
			// result: the ok of the type assertion to this cursor type
			var okV types.Object
			good := true
			rets := core.ReturnsOf10(f.Decl.Body)
			for _, rs := range rets {
				if len(rs.Results) != 1 {
					good = false
					continue
				}
				if core.X1IsConstBool(info, rs.Results[0], false) {
					continue
				}
				o := core.ObjOf(info, rs.Results[0])
				if o == nil || (okV != nil && o != okV) {
					good = false
				}
				okV = o
			}
			if good && okV != nil {
				n := 0
				for _, d := range core.DefsOf(info, f.Decl.Body, okV) {
					ta, isTA := d.Rhs.(*ast.TypeAssertExpr)
					if !isTA || d.Index != 1 || core.NamedName10(info.TypeOf(ta.Type)) != "cursors."+embName {
						good = false
					}
					n++
				}
				good = good && n == 1
			}
			r.Check(good && okV != nil, rule, f.String(), "result-is-type-ok", f.Pos(), "reports success only when the next shard's cursor has this cursor's value type")
			// a cursor is installed on every path that had shards left
			stores := g.Select(g.Assigning(embF))
			empty := g.EmptyEdge(isItrs)
			bad := ""
			reach := g.ReachFromEntry(g.Assigning(embF), empty)
			for _, x := range g.Exits {
				if reach[x] {
					bad = g.Line(x)
				}
			}
			r.Check(len(stores) >= 2 && bad == "", rule, f.String(), "cursor-installed", f.Pos(), "after advancing, the current cursor is replaced (next shard's cursor or the empty cursor) on every path "+bad)
			// error recorded
			r.Check(len(g.Select(g.Assigning(errF))) >= 1, rule, f.String(), "error-recorded", f.Pos(), "the shard's error is kept in c.err")
		}
		// ---- Next
		if f := r.Need(p, readsPk10, typ+".Next"); f != nil {
			const rule = "multishard-next"
			info, g := f.Info(), f.Graph()
			nac := call(readsPk10 + "." + typ + ".nextArrayCursor")
			hasData := core.AtomEdge(func(x ast.Expr, val bool) bool {
				_, eval, ok := lenCallCmp10(info, x, func(cl *ast.CallExpr) bool { return strings.HasSuffix(core.FName(core.Callee(info, cl)), "Array.Len") })
				return ok && !eval(0, val)
			})
			noMore := core.AtomEdge(func(x ast.Expr, val bool) bool {
				cl, ok := ast.Unparen(x).(*ast.CallExpr)
				return ok && nac(info, cl) && !val
			})
			reach := g.ReachFromEntry(nil, core.OrEdge(hasData, noMore))
			bad := ""
			rets := 0
			for _, x := range g.Exits {
				if _, ok := x.N.(*ast.ReturnStmt); ok {
					rets++
					if reach[x] {
						bad = g.Line(x)
					}
				}
			}
			r.Check(rets >= 1 && bad == "" && len(g.Select(g.Calling(nac))) >= 1, rule, f.String(), "empty-only-at-end", f.Pos(),
				"an empty array is returned only after nextArrayCursor reported that no shard is left "+bad)
		}
		// ---- reset completeness
		if f := r.Need(p, readsPk10, typ+".reset"); f != nil {
			const rule = "reset-completeness"
			info, g := f.Info(), f.Graph()
			recv := info.Defs[f.Decl.Recv.List[0].Names[0]]
			// fields read by the iteration methods
			read := map[*types.Var]bool{}
			for _, m := range []string{"Next", "nextArrayCursor", "Err", "Stats"} {
				if mf := p.Func(readsPk10, typ+"."+m); mf != nil {
					mi := mf.Info()
					mrecv := mi.Defs[mf.Decl.Recv.List[0].Names[0]]
					ast.Inspect(mf.Decl.Body, func(n ast.Node) bool {
						if se, ok := n.(*ast.SelectorExpr); ok && core.ObjOf(mi, se.X) == mrecv {
							if fv := core.FieldOf(mi, se); fv != nil {
								read[fv] = true
							}
						}
						return true
					})
				}
			}
			// per-row state: fields the cursor's own methods assign (ctx/req are fixed when the request context is copied in)
			var names []string
			byName := map[string]*types.Var{}
			for fv := range read {
				perRow := false
				for _, w := range core.FieldWriters(p, readsPk10, fv) {
					if w.Kind == "assign" && strings.HasPrefix(w.Func.Name, typ+".") {
						perRow = true
					}
				}
				if !perRow {
					continue // never assigned by the cursor's own methods (ctx, req: fixed when the request's cursorContext is copied in)
				}
				names = append(names, fv.Name())
				byName[fv.Name()] = fv
			}
			sort.Strings(names)
			r.Check(len(names) >= 4, rule, f.String(), "state-fields", f.Pos(), fmt.Sprintf("per-row state read while iterating: %v (>= 4 confirmed by reading)", names))
			for _, n := range names {
				fv := byName[n]
				// re-established: assigned, or stored through (c.filter.cond = …)
				touch := func(nd *core.Node) bool {
					if nd.N == nil {
						return false
					}
					hit := false
					core.Walk(nd.N, core.WalkOpts{}, func(x ast.Node) bool {
						as, ok := x.(*ast.AssignStmt)
						if !ok {
							return true
						}
						for _, l := range as.Lhs {
							l = ast.Unparen(l)
							for {
								se, ok := l.(*ast.SelectorExpr)
								if !ok {
									break
								}
								if core.FieldOf(info, se) == fv && core.ObjOf(info, se.X) == recv {
									hit = true
								}
								l = ast.Unparen(se.X)
							}
						}
						return true
					})
					return hit
				}
				reach := g.ReachFromEntry(touch, nil)
				bad := ""
				for _, x := range g.Exits {
					if reach[x] {
						bad = g.Line(x)
					}
				}
				what := n + "-not-reinitialised"
				r.Check(bad == "", rule, f.String(), what, f.Pos(),
					fmt.Sprintf("field %s, read by Next/nextArrayCursor, is re-established on every path of reset (the cursor object is reused for every series row) %s", n, bad))
			}
		}
		// ---- filter cursor
		c21Filter(p, r, strings.ToLower(T)+"ArrayFilterCursor")
	}
}

func c21Filter(p *core.Prog, r *core.Report, typ string) {
	const rule = "filter-cursor"
	f := r.Need(p, readsPk10, typ+".Next")
	if f == nil {
		return
	}
	c := newC20cur(p, f)
	info, g := c.info, c.g
	if !r.Check(len(c.stores) == 1 && c.stores[0].idx != nil && c.stores[0].tsVal != nil, rule, f.String(), "store:absent", f.Pos(), "one paired store res.Timestamps[pos] / res.Values[pos]") {
		return
	}
	st := c.stores[0]
	var rng *ast.RangeStmt
	ast.Inspect(f.Decl.Body, func(n ast.Node) bool {
		if rs, ok := n.(*ast.RangeStmt); ok && rs.Pos() <= st.stmt.Pos() && st.stmt.End() <= rs.End() {
			rng = rs
		}
		return true
	})
	arrBase := ast.Expr(nil)
	if rng != nil {
		arrBase = c.arrField(rng.X, "Values")
	}
	if !r.Check(rng != nil && rng.Key != nil && rng.Value != nil && arrBase != nil, rule, f.String(), "scan:absent", f.Pos(), "points are scanned by `for i, v := range a.Values`") {
		return
	}
	iObj, vObj := core.ObjOf(info, rng.Key), core.ObjOf(info, rng.Value)
	arr, ti := c.inputElem(st.tsVal, "Timestamps")
	r.Check(core.ObjOf(info, st.val) == vObj && arr == core.ObjOf(info, arrBase) && core.ObjOf(info, ti) == iObj, rule, f.String(), "point-pairing", p.Pos(st.stmt.Pos()),
		"the stored value is the scanned v and the stored timestamp is a.Timestamps[i] of the same index")
	// the predicate is evaluated on this point's value
	mV := core.LookupField(f.Pkg.Types, "singleValue", "v")
	setM := func(n *core.Node) bool {
		as, ok := n.N.(*ast.AssignStmt)
		return ok && len(as.Lhs) == 1 && len(as.Rhs) == 1 && mV != nil && core.FieldOf(info, as.Lhs[0]) == mV && core.ObjOf(info, as.Rhs[0]) == vObj
	}
	pass := core.AtomEdge(func(x ast.Expr, val bool) bool {
		cl, ok := ast.Unparen(x).(*ast.CallExpr)
		return ok && val && core.FName(core.Callee(info, cl)) == readsPk10+".expression.EvalBool" && c.recvField(core.Recv(cl), "cond")
	})
	_, body, _ := g.LoopNodes(rng)
	sn := g.NodeOf(st.stmt)
	if r.Check(body != nil && sn != nil && len(g.Edges(pass)) >= 1, rule, f.String(), "predicate:absent", f.Pos(), "c.cond.EvalBool decides about each point") {
		r.Check(!g.Reach([]*core.Node{body}, nil, pass)[sn], rule, f.String(), "store-behind-predicate", g.Line(sn), "a point is emitted only when the value condition holds for it")
		free := g.Reach([]*core.Node{body}, setM, nil)
		badE := ""
		for _, e := range g.Edges(pass) {
			if free[e.From] {
				badE = g.Line(e.From)
			}
		}
		r.Check(badE == "", rule, f.String(), "predicate-sees-point", g.Line(sn), "the condition is evaluated after c.m.v was set to the scanned value "+badE)
	}
	// carry-over
	kn, low, ok, why := c.tmpSave()
	if r.Check(ok && kn != nil, "carry-over", f.String(), "tmp-save", f.Pos(), "unread tail saved as a.Timestamps[k:] / a.Values[k:] with one k "+why) {
		r.Check(!g.ReachFromEntry(nil, c.fullGate())[kn], "carry-over", f.String(), "tmp-save-only-when-full", g.Line(kn), "the tail is saved only when the output block holds MaxPointsPerBlock points")
		before := body != nil && sn != nil && !g.Reach([]*core.Node{body}, func(n *core.Node) bool { return n == sn }, nil)[kn]
		r.Check(before && lowIs10(info, low, iObj, 1), "carry-over", f.String(), "tmp-save-bound", g.Line(kn), "the current point was already emitted, so the saved tail starts at i+1")
		head, _, _ := g.LoopNodes(rng)
		after := g.Reach(core.After(kn, nil), nil, nil)
		r.Check(head != nil && !after[head] && !after[sn], "carry-over", f.String(), "tmp-save-then-return", g.Line(kn), "after saving the tail nothing more is scanned or emitted in this call")
	}
	var outer ast.Stmt = rng
	ast.Inspect(f.Decl.Body, func(n ast.Node) bool {
		if fs, ok := n.(*ast.ForStmt); ok && fs.Pos() <= rng.Pos() && rng.End() <= fs.End() {
			outer = fs
		}
		return true
	})
	c.tmpProtocol(r, outer)
	c.refillAfterClear(r, rng)
}

// ---------------------------------------------------------------- range translation

func c21Range(p *core.Prog, r *core.Report) {
	const rule = "range-translation"
	f := r.Need(p, readsPk10, "newMultiShardArrayCursors")
	if f == nil {
		return
	}
	info := f.Info()
	startP, endP, ascP := f.Param(1), f.Param(2), f.Param(3)
	var lit *ast.CompositeLit
	ast.Inspect(f.Decl.Body, func(n ast.Node) bool {
		if cl, ok := n.(*ast.CompositeLit); ok && core.NamedName10(info.TypeOf(cl)) == "cursors.CursorRequest" {
			lit = cl
		}
		return true
	})
	if !r.Check(lit != nil, rule, f.String(), "request:absent", f.Pos(), "the cursor request is built here") {
		return
	}
	got := map[string]ast.Expr{}
	for _, e := range lit.Elts {
		if kv, ok := e.(*ast.KeyValueExpr); ok {
			if id, ok := kv.Key.(*ast.Ident); ok {
				got[id.Name] = kv.Value
			}
		}
	}
	r.Check(core.ObjOf(info, got["StartTime"]) == startP && startP != nil, rule, f.String(), "StartTime", p.Pos(lit.Pos()), "StartTime is the inclusive start of the range")
	endOK := false
	if be, ok := ast.Unparen(got["EndTime"]).(*ast.BinaryExpr); ok && be.Op == token.SUB && core.ObjOf(info, be.X) == endP {
		if v, ok := core.ConstInt(info, be.Y); ok && v == 1 {
			endOK = true
		}
	}
	r.Check(endOK, rule, f.String(), "EndTime", p.Pos(lit.Pos()), "EndTime is end-1: the request range is inclusive while [start,end) excludes end")
	r.Check(core.ObjOf(info, got["Ascending"]) == ascP && ascP != nil, rule, f.String(), "Ascending", p.Pos(lit.Pos()), "scan direction is the caller's")
	// all five typed cursors share the context
	ccF := map[string]bool{}
	ast.Inspect(f.Decl.Body, func(n ast.Node) bool {
		as, ok := n.(*ast.AssignStmt)
		if !ok || len(as.Lhs) != 1 {
			return true
		}
		se, ok := ast.Unparen(as.Lhs[0]).(*ast.SelectorExpr)
		if !ok || se.Sel.Name != "cursorContext" {
			return true
		}
		if nt := core.NamedOf(info.TypeOf(se.X)); nt != nil {
			ccF[nt.Obj().Name()] = true
		}
		return true
	})
	r.Check(len(ccF) == 5, rule, f.String(), "context-for-all-types", f.Pos(), fmt.Sprintf("the request context is given to all five typed cursors (%d)", len(ccF)))
}

// ---------------------------------------------------------------- group result set

func c21Group(p *core.Prog, r *core.Report) {
	const rule = "group-sort"
	pk := p.Pkg(readsPk10)
	rowsF := core.LookupField(pk.Types, "groupResultSet", "seriesRows")
	iF := core.LookupField(pk.Types, "groupResultSet", "i")
	eofF := core.LookupField(pk.Types, "groupResultSet", "eof")
	keysF := core.LookupField(pk.Types, "groupResultSet", "keys")
	nilSortF := core.LookupField(pk.Types, "groupResultSet", "nilSort")
	nextFnF := core.LookupField(pk.Types, "groupResultSet", "nextGroupFn")
	sortKeyF := core.LookupField(pk.Types, "SeriesRow", "SortKey")
	if !r.Check(rowsF != nil && iF != nil && eofF != nil && keysF != nil && nilSortF != nil && nextFnF != nil && sortKeyF != nil, "anchor", "reads.groupResultSet fields", "unresolved", "-", "fields resolved") {
		return
	}
	if f := r.Need(p, readsPk10, "groupResultSet.groupBySort"); f != nil {
		info, g := f.Info(), f.Graph()
		sortM := call("sort.Slice", "sort.SliceStable")
		sorts := core.AllCalls(info, f.Decl.Body, sortM)
		if r.Check(len(sorts) == 1, rule, f.String(), "sort:absent", f.Pos(), "the collected rows are sorted once") {
			sc := sorts[0]
			srV := core.ObjOf(info, sc.Args[0])
			sortN := g.NodeOf(sc)
			isSort := func(n *core.Node) bool { return n == sortN }
			// published slice is the sorted one, after the sort
			pubs := g.Select(g.Assigning(rowsF))
			okPub := len(pubs) == 1 && srV != nil
			if okPub {
				as, _ := pubs[0].N.(*ast.AssignStmt)
				okPub = as != nil && len(as.Rhs) == 1 && core.ObjOf(info, as.Rhs[0]) == srV
			}
			r.Check(okPub, rule, f.String(), "publish-sorted-slice", f.Pos(), "g.seriesRows receives the very slice that was sorted")
			if okPub && sortN != nil {
				r.Check(!g.ReachFromEntry(isSort, nil)[pubs[0]], rule, f.String(), "sort<publish", g.Line(pubs[0]), "the rows are published to g.seriesRows only after they were sorted")
				after := g.Reach(core.After(sortN, nil), nil, nil)
				late := ""
				for _, n := range g.Select(g.AssigningObj(srV)) {
					if after[n] {
						late = g.Line(n)
					}
				}
				r.Check(late == "", rule, f.String(), "no-append-after-sort", g.Line(sortN), "no row is added after the sort "+late)
				// success exits pass the publication, except "no series cursor"
				var scV types.Object
				for _, cl := range core.AllCalls(info, f.Decl.Body, core.FieldCall(core.LookupField(pk.Types, "groupResultSet", "newSeriesCursorFn"))) {
					ast.Inspect(f.Decl.Body, func(n ast.Node) bool {
						if as, ok := n.(*ast.AssignStmt); ok && len(as.Rhs) == 1 && ast.Unparen(as.Rhs[0]) == ast.Expr(cl) && len(as.Lhs) == 2 {
							scV = core.ObjOf(info, as.Lhs[0])
						}
						return true
					})
				}
				exempt := g.NilEdge(func(e ast.Expr) bool { return scV != nil && core.ObjOf(info, e) == scV }, true)
				core.RuleMustPassN(r, f, g, rule, "publication of the sorted rows", g.Assigning(rowsF), exempt)
			}
			// comparator
			good := false
			if fl, ok := ast.Unparen(sc.Args[1]).(*ast.FuncLit); ok && len(fl.Body.List) == 1 && fl.Type.Params.NumFields() == 2 {
				var ps []types.Object
				for _, fd := range fl.Type.Params.List {
					for _, nm := range fd.Names {
						ps = append(ps, info.Defs[nm])
					}
				}
				keyOf := func(e ast.Expr) int { // srV[p].SortKey -> index of p
					se, ok := ast.Unparen(e).(*ast.SelectorExpr)
					if !ok || core.FieldOf(info, se) != sortKeyF {
						return -1
					}
					ix, ok := ast.Unparen(se.X).(*ast.IndexExpr)
					if !ok || core.ObjOf(info, ix.X) != srV {
						return -1
					}
					for k, po := range ps {
						if core.ObjOf(info, ix.Index) == po {
							return k
						}
					}
					return -1
				}
				if rs, ok := fl.Body.List[0].(*ast.ReturnStmt); ok && len(rs.Results) == 1 && len(ps) == 2 {
					if be, ok := ast.Unparen(rs.Results[0]).(*ast.BinaryExpr); ok {
						cmp, _ := ast.Unparen(be.X).(*ast.CallExpr)
						kv, isC := core.ConstInt(info, be.Y)
						if cmp != nil && isC && core.FName(core.Callee(info, cmp)) == "bytes.Compare" && len(cmp.Args) == 2 {
							a, b := keyOf(cmp.Args[0]), keyOf(cmp.Args[1])
							less := (be.Op == token.EQL && kv == -1) || (be.Op == token.LSS && kv == 0)
							greater := (be.Op == token.EQL && kv == 1) || (be.Op == token.GTR && kv == 0)
							good = (a == 0 && b == 1 && less) || (a == 1 && b == 0 && greater)
						}
					}
				}
			}
			r.Check(good, rule, f.String(), "comparator", p.Pos(sc.Pos()), "less(i,j) is the strict byte order of rows[i].SortKey before rows[j].SortKey on the slice being sorted")
			// sort key construction
			c21SortKey(p, r, f, srV, keysF, nilSortF, sortKeyF)
		}
	}
	// NewGroupResultSet
	if f := r.Need(p, readsPk10, "NewGroupResultSet"); f != nil {
		info, g := f.Info(), f.Graph()
		dt := p.Pkg(datatypesPk10)
		groupF := core.LookupField(dt.Types, "ReadGroupRequest", "Group")
		consts := core.ConstsOfType(dt.Types, "ReadGroupRequest_Group")
		isGroup := func(e ast.Expr) bool { return groupF != nil && core.FieldOf(info, e) == groupF }
		rows := []struct{ k, sortFn, nextFn string }{
			{"ReadGroupRequest_GroupBy", readsPk10 + ".groupResultSet.groupBySort", "groupByNextGroup"},
			{"ReadGroupRequest_GroupNone", readsPk10 + ".groupResultSet.groupNoneSort", "groupNoneNextGroup"},
		}
		sortM := call(readsPk10 + ".groupResultSet.group*Sort")
		for _, row := range rows {
			k := consts[row.k]
			if !r.Check(k != nil, "anchor", "datatypes."+row.k, "unresolved", "-", "group mode constant resolved") {
				continue
			}
			reach := g.ReachUnder10([]*core.Node{g.Entry}, nil, core.ConstEqLeaf10(info, isGroup, k.Val()))
			names, _ := g.CallsReached10(reach, sortM)
			r.Check(sameSet10(names, []string{row.sortFn}), rule, f.String(), "mode="+row.k+":sort", f.Pos(), fmt.Sprintf("this group mode prepares its rows with %s (found %v)", strings.TrimPrefix(row.sortFn, readsPk10+".groupResultSet."), names))
			// next-group function
			var fns []string
			for _, n := range g.Select(g.Assigning(nextFnF)) {
				if !reach[n] {
					continue
				}
				if as, ok := n.N.(*ast.AssignStmt); ok && len(as.Rhs) == 1 {
					if fo, ok := core.ObjOf(info, as.Rhs[0]).(*types.Func); ok {
						fns = append(fns, fo.Name())
					} else {
						fns = append(fns, "?")
					}
				}
			}
			r.Check(sameSet10(fns, []string{row.nextFn}), rule, f.String(), "mode="+row.k+":next", f.Pos(), fmt.Sprintf("groups are handed out by %s (found %v)", row.nextFn, fns))
			// a result set is returned only after the preparation ran
			prepared := g.ReachUnder10([]*core.Node{g.Entry}, g.Calling(sortM), core.ConstEqLeaf10(info, isGroup, k.Val()))
			bad := ""
			for _, x := range g.Exits {
				rs, ok := x.N.(*ast.ReturnStmt)
				if ok && prepared[x] && !g.Calling(sortM)(x) && len(rs.Results) == 1 && !core.IsNilIdent(info, rs.Results[0]) {
					bad = g.Line(x)
				}
			}
			r.Check(bad == "", rule, f.String(), "mode="+row.k+":sort-before-return", f.Pos(), "no result set is returned before its rows were prepared "+bad)
		}
	}
	// groupByNextGroup
	if f := r.Need(p, readsPk10, "groupByNextGroup"); f != nil {
		info, g := f.Info(), f.Graph()
		gP := f.Param(0)
		// g.<field>, or a local temporary that stands for it: a variable defined once
		// from g.<field> before its use, the field (and g) not being stored between the
		// definition and the use (introduced temporary / hoisted invariant).
		gFixed := gP != nil && len(core.DefsOf(info, f.Decl.Body, gP)) == 0
		isFldDirect := func(fv *types.Var) func(ast.Expr) bool {
			return func(e ast.Expr) bool {
				se, ok := ast.Unparen(e).(*ast.SelectorExpr)
				return ok && core.FieldOf(info, se) == fv && core.ObjOf(info, se.X) == gP
			}
		}
		isFld := func(fv *types.Var) func(ast.Expr) bool {
			direct := isFldDirect(fv)
			return func(e ast.Expr) bool {
				if direct(e) {
					return true
				}
				rhs, def, use, ok := g.Hoisted(e)
				return ok && gFixed && direct(rhs) && g.StableBetween(def, use, g.Assigning(fv))
			}
		}
		isRows, isI := isFld(rowsF), isFld(iF)
		// len(g.seriesRows), or a temporary hoisted from it while g.seriesRows is not stored
		isLenRows := func(e ast.Expr) bool {
			lenOf := func(e ast.Expr) ast.Expr {
				if cl, ok := ast.Unparen(e).(*ast.CallExpr); ok && len(cl.Args) == 1 && core.Builtin("len")(info, cl) {
					return cl.Args[0]
				}
				return nil
			}
			if x := lenOf(e); x != nil {
				return isRows(x)
			}
			if rhs, def, use, ok := g.Hoisted(e); ok && gFixed {
				if x := lenOf(rhs); x != nil && isRows(x) {
					return g.StableBetween(def, use, g.Assigning(rowsF))
				}
			}
			return false
		}
		// the group handed out
		resets := core.AllCalls(info, f.Decl.Body, call(readsPk10+".groupByCursor.reset"))
		var jV types.Object
		good := len(resets) == 1
		if good {
			sl, ok := ast.Unparen(resets[0].Args[0]).(*ast.SliceExpr)
			good = ok && isRows(sl.X) && sl.Low != nil && isI(sl.Low) && sl.High != nil && sl.Max == nil
			if good {
				jV = core.ObjOf(info, sl.High)
				good = jV != nil
			}
		}
		if !r.Check(good, rule, f.String(), "group-slice", f.Pos(), "the group handed out is g.seriesRows[g.i:j]") {
			return
		}
		// j starts at g.i and only grows by one
		startOK, incs := false, 0
		for _, d := range core.DefsOf(info, f.Decl.Body, jV) {
			switch s := d.Stmt.(type) {
			case *ast.IncDecStmt:
				if s.Tok == token.INC {
					incs++
				} else {
					startOK = false
				}
			default:
				if d.Rhs != nil && isI(d.Rhs) {
					startOK = true
				} else {
					incs = -100
				}
			}
		}
		r.Check(startOK && incs == 1, rule, f.String(), "group-scan", f.Pos(), "j starts at g.i and advances by one row at a time")
		// loop condition: j in range and same sort key as the first row of the group
		var loop *ast.ForStmt
		ast.Inspect(f.Decl.Body, func(n ast.Node) bool {
			if fs, ok := n.(*ast.ForStmt); ok && fs.Cond != nil && core.Mentions(info, fs.Cond, jV) {
				loop = fs
			}
			return true
		})
		condOK := false
		if loop != nil {
			atoms, conj := core.X1Conjuncts(loop.Cond)
			inRange, sameKey := false, false
			if conj {
				for _, a := range atoms {
					if rel, ok := core.X4Cmp(a, func(e ast.Expr) bool { return core.ObjOf(info, e) == jV }, isLenRows); ok && rel.Op == token.LSS {
						inRange = true
					}
					if cl, ok := ast.Unparen(a).(*ast.CallExpr); ok && core.FName(core.Callee(info, cl)) == "bytes.Equal" && len(cl.Args) == 2 {
						keyAt := func(e ast.Expr) string { // "first" for rows[g.i].SortKey, "j" for rows[j].SortKey
							e = core.ResolveLocal(info, f.Decl.Body, e)
							se, ok := ast.Unparen(e).(*ast.SelectorExpr)
							if !ok || core.FieldOf(info, se) != sortKeyF {
								return ""
							}
							base := core.ResolveLocal(info, f.Decl.Body, se.X)
							ix, ok := ast.Unparen(base).(*ast.IndexExpr)
							if !ok || !isRows(ix.X) {
								return ""
							}
							switch {
							case isI(ix.Index):
								return "first"
							case core.ObjOf(info, ix.Index) == jV:
								return "j"
							}
							return ""
						}
						x, y := keyAt(cl.Args[0]), keyAt(cl.Args[1])
						sameKey = (x == "first" && y == "j") || (x == "j" && y == "first")
					}
				}
			}
			condOK = inRange && sameKey && len(atoms) == 2
		}
		r.Check(condOK, rule, f.String(), "group-extent", f.Pos(), "the group extends while j < len(g.seriesRows) and row j has the sort key of the group's first row")
		// g.i = j after the hand-out, on every path; eof exactly at the end
		resetN := g.NodeOf(resets[0])
		setI := func(n *core.Node) bool {
			as, ok := n.N.(*ast.AssignStmt)
			return ok && len(as.Lhs) == 1 && len(as.Rhs) == 1 && isFldDirect(iF)(as.Lhs[0]) && core.ObjOf(info, as.Rhs[0]) == jV
		}
		iStores := g.Select(g.Assigning(iF))
		okI := len(iStores) == 1 && setI(iStores[0]) && resetN != nil
		if okI {
			okI = !g.ReachFromEntry(func(n *core.Node) bool { return n == resetN }, nil)[iStores[0]]
			reach := g.ReachFromEntry(setI, nil)
			for _, x := range g.Exits {
				if reach[x] {
					okI = false
				}
			}
		}
		r.Check(okI, rule, f.String(), "advance-to-next-group", f.Pos(), "g.i = j, once, after the group was handed out and on every path: the next group starts where this one ended")
		atEnd := core.AtomEdge(func(x ast.Expr, val bool) bool {
			rel, ok := core.X4Cmp(x, func(e ast.Expr) bool { return core.ObjOf(info, e) == jV }, isLenRows)
			return ok && (rel.On(val) == token.EQL || rel.On(val) == token.GEQ)
		})
		eofs := g.Select(g.Assigning(eofF))
		okE := len(eofs) == 1
		if okE {
			okE = !g.ReachFromEntry(nil, atEnd)[eofs[0]]
		}
		r.Check(okE, rule, f.String(), "eof-at-end", f.Pos(), "g.eof is set exactly when the handed-out group reached the last row")
	}
	if f := r.Need(p, readsPk10, "groupResultSet.Next"); f != nil {
		info, g := f.Info(), f.Graph()
		recv := info.Defs[f.Decl.Recv.List[0].Names[0]]
		eofTrue := core.AtomEdge(func(x ast.Expr, val bool) bool {
			se, ok := ast.Unparen(x).(*ast.SelectorExpr)
			return ok && val && core.FieldOf(info, se) == eofF && core.ObjOf(info, se.X) == recv
		})
		callFn := g.Calling(core.FieldCall(nextFnF))
		ok := len(g.Select(callFn)) >= 1
		for _, n := range g.Select(callFn) {
			// not reachable through eof == true
			viaEOF := false
			for _, e := range g.Edges(eofTrue) {
				if g.Reach([]*core.Node{e.To}, nil, nil)[n] {
					viaEOF = true
				}
			}
			ok = ok && !viaEOF
		}
		r.Check(ok, rule, f.String(), "no-group-after-eof", f.Pos(), "after the last group was handed out Next returns nil instead of asking for another group")
	}
}

// c21SortKey: every appended row carries a sort key built from the group key values.
func c21SortKey(p *core.Prog, r *core.Report, f *core.Func, srV types.Object, keysF, nilSortF, sortKeyF *types.Var) {
	const rule = "group-sort"
	info, g := f.Info(), f.Graph()
	recv := info.Defs[f.Decl.Recv.List[0].Names[0]]
	isRecvField := func(e ast.Expr, fv *types.Var) bool {
		se, ok := ast.Unparen(e).(*ast.SelectorExpr)
		return ok && core.FieldOf(info, se) == fv && core.ObjOf(info, se.X) == recv
	}
	// append of the row
	var appendN *core.Node
	var rowV types.Object
	for _, n := range g.Select(g.AssigningObj(srV)) {
		as, ok := n.N.(*ast.AssignStmt)
		if !ok || len(as.Rhs) != 1 {
			continue
		}
		if ap, ok := ast.Unparen(as.Rhs[0]).(*ast.CallExpr); ok && core.Builtin("append")(info, ap) && len(ap.Args) == 2 && core.ObjOf(info, ap.Args[0]) == srV {
			if u, ok := ast.Unparen(ap.Args[1]).(*ast.UnaryExpr); ok && u.Op == token.AND {
				rowV = core.ObjOf(info, u.X)
				appendN = n
			}
		}
	}
	if !r.Check(appendN != nil && rowV != nil, rule, f.String(), "row-append:absent", f.Pos(), "kept rows are copied and appended to the slice that is sorted") {
		return
	}
	// vals[i] = row.Tags.Get(k) for i, k := range g.keys ; nilSort for empty
	var keyLoop *ast.RangeStmt
	for _, rs := range core.RangeOver(f.Decl.Body, func(x ast.Expr) bool { return isRecvField(x, keysF) }) {
		keyLoop = rs
	}
	var valsV types.Object
	fill, nilFill := false, false
	if keyLoop != nil && keyLoop.Key != nil && keyLoop.Value != nil {
		iO, kO := core.ObjOf(info, keyLoop.Key), core.ObjOf(info, keyLoop.Value)
		ast.Inspect(keyLoop.Body, func(n ast.Node) bool {
			as, ok := n.(*ast.AssignStmt)
			if !ok || len(as.Lhs) != 1 || len(as.Rhs) != 1 {
				return true
			}
			ix, ok := ast.Unparen(as.Lhs[0]).(*ast.IndexExpr)
			if !ok || core.ObjOf(info, ix.Index) != iO || core.ObjOf(info, ix.X) == nil {
				return true
			}
			if cl, ok := ast.Unparen(as.Rhs[0]).(*ast.CallExpr); ok && core.FName(core.Callee(info, cl)) == "models.Tags.Get" && len(cl.Args) == 1 && core.ObjOf(info, cl.Args[0]) == kO {
				if se, ok := ast.Unparen(core.Recv(cl)).(*ast.SelectorExpr); ok && core.ObjOf(info, se.X) == rowV && se.Sel.Name == "Tags" {
					fill = true
					valsV = core.ObjOf(info, ix.X)
				}
			}
			if isRecvField(as.Rhs[0], nilSortF) {
				// only under len(vals[i]) == 0
				is := innermostIfThen10(keyLoop.Body, as)
				if is != nil {
					if x, br, ok := core.EmptyOn(info, is.Cond); ok && br {
						if ix2, ok := ast.Unparen(x).(*ast.IndexExpr); ok && core.ObjOf(info, ix2.Index) == iO {
							nilFill = true
						}
					}
				}
			}
			return true
		})
	}
	r.Check(fill && nilFill && valsV != nil, rule, f.String(), "key-values", f.Pos(), "for each requested group key, in request order, the row's tag value is taken (g.nilSort when the tag is absent or empty)")
	// SortKey = concat(vals[i] + separator)
	var keyStores []*core.Node
	concat, sep := false, false
	for _, n := range g.Nodes {
		as, ok := n.N.(*ast.AssignStmt)
		if !ok || len(as.Lhs) != 1 || len(as.Rhs) != 1 {
			continue
		}
		se, ok := ast.Unparen(as.Lhs[0]).(*ast.SelectorExpr)
		if !ok || core.FieldOf(info, se) != sortKeyF || core.ObjOf(info, se.X) != rowV {
			continue
		}
		keyStores = append(keyStores, n)
		ap, ok := ast.Unparen(as.Rhs[0]).(*ast.CallExpr)
		if !ok || !core.Builtin("append")(info, ap) || len(ap.Args) != 2 {
			continue
		}
		if ap.Ellipsis.IsValid() {
			// v... where v ranges over vals
			for _, rs := range core.RangeOver(f.Decl.Body, func(x ast.Expr) bool { return valsV != nil && core.ObjOf(info, x) == valsV }) {
				if rs.Value != nil && core.ObjOf(info, ap.Args[1]) == core.ObjOf(info, rs.Value) && core.InRegion(n, rs) {
					concat = true
				}
			}
		} else if v, ok := core.ConstInt(info, ap.Args[1]); ok && v == 0 {
			sep = true
		}
	}
	r.Check(concat && sep, rule, f.String(), "sort-key-built", f.Pos(), "SortKey is the concatenation of the key values, each followed by a NUL separator")
	if len(keyStores) > 0 {
		isKeyStore := func(n *core.Node) bool {
			for _, k := range keyStores {
				if k == n {
					return true
				}
			}
			return false
		}
		r.Check(!g.ReachFromEntry(isKeyStore, nil)[appendN], rule, f.String(), "sort-key<append", g.Line(appendN), "a row is appended only after its sort key was built")
	}
}

// ---------------------------------------------------------------- filter result set

func c21ResultSet(p *core.Prog, r *core.Report) {
	const rule = "resultset-next"
	pk := p.Pkg(readsPk10)
	rowF := core.LookupField(pk.Types, "resultSet", "seriesRow")
	if f := r.Need(p, readsPk10, "resultSet.Next"); f != nil && rowF != nil {
		info, g := f.Info(), f.Graph()
		nexts := core.AllCalls(info, f.Decl.Body, call(readsPk10+".SeriesCursor.Next"))
		var rowV types.Object
		if len(nexts) == 1 {
			ast.Inspect(f.Decl.Body, func(n ast.Node) bool {
				if as, ok := n.(*ast.AssignStmt); ok && len(as.Rhs) == 1 && len(as.Lhs) == 1 && ast.Unparen(as.Rhs[0]) == ast.Expr(nexts[0]) {
					rowV = core.ObjOf(info, as.Lhs[0])
				}
				return true
			})
		}
		if r.Check(rowV != nil, rule, f.String(), "advance:absent", f.Pos(), "Next advances the series cursor exactly once") {
			store := func(n *core.Node) bool {
				as, ok := n.N.(*ast.AssignStmt)
				if !ok || len(as.Lhs) != 1 || len(as.Rhs) != 1 || core.FieldOf(info, as.Lhs[0]) != rowF {
					return false
				}
				st, ok := ast.Unparen(as.Rhs[0]).(*ast.StarExpr)
				return ok && core.ObjOf(info, st.X) == rowV
			}
			reach := g.ReachFromEntry(store, nil)
			bad := ""
			for _, x := range g.Exits {
				if rs, ok := x.N.(*ast.ReturnStmt); ok && reach[x] && len(rs.Results) == 1 && !core.X1IsConstBool(info, rs.Results[0], false) {
					bad = g.Line(x)
				}
			}
			r.Check(bad == "" && len(g.Select(store)) == 1, rule, f.String(), "row-copied", f.Pos(), "true is returned only after the cursor's row was copied into r.seriesRow "+bad)
		}
	}
	if f := r.Need(p, readsPk10, "resultSet.Cursor"); f != nil && rowF != nil {
		info := f.Info()
		good := false
		for _, cl := range core.AllCalls(info, f.Decl.Body, call(readsPk10+".multiShardCursors.createCursor")) {
			if len(cl.Args) == 1 && core.FieldOf(info, cl.Args[0]) == rowF {
				good = true
			}
		}
		r.Check(good, rule, f.String(), "cursor-of-current-row", f.Pos(), "the cursor is created for the current series row")
	}
}
