package rules

import (
	"fmt"
	"go/ast"
	"go/token"
	"go/types"

	"verif/checker/core"
)

// C23 — InfluxQL transformation functions follow their definitions.
//
// The property as a whole (the emitted VALUES equal the documented definition)
// is value-level. The structural necessary conditions decided here are the
// state machines around the arithmetic: which point is "previous" and which
// "current", when nothing may be emitted, which timestamp goes out, when a
// negative difference is dropped, how the moving window is filled and evicted,
// the tie-break order of the top/bottom heaps and of the value sorts, and the
// dispatch from function name to reducer.
const qP = "influxql/query"

var c23Num = []string{"Float", "Integer", "Unsigned"}
var c23All = []string{"Float", "Integer", "Unsigned", "String", "Boolean"}

func init() {
	register(&Prop{
		ID:       "C23",
		Patterns: []string{"./influxql/query"},
		Level:    "other",
		Explanation: "Narrow structural necessary conditions of the InfluxQL transformation functions (influxql/query reducers), decided on CFG paths with type-resolved fields, callees and constants — NOT the computed values: " +
			"(1) two-point-window (derivative, non_negative_derivative, difference, non_negative_difference, elapsed; 11 reducers): Aggregate moves curr into prev before it stores the new point into curr, writes prev/curr nowhere else, and leaves without storing only on a path that established curr.Nil == false and curr.Time == p.Time (duplicate timestamp); Emit produces a point only on a path that established prev.Nil == false (nothing before the second point), derivative/difference mark prev as read before every emission; " +
			"(2) non-negative-drop (6 reducers): an emission is reachable only through an edge that established isNonNegative == false or (current − previous) >= 0, where the tested difference has the current value as minuend; conversely, once a previous point exists Emit returns without a point only on a path that established isNonNegative == true and (current − previous) < 0; " +
			"(3) operand-roles: every subtraction between the Value (or Time) of curr and prev in Emit has curr as the minuend (a directly negated reversed subtraction is accepted); spread emits max − min; " +
			"(4) output-time: derivative/difference/elapsed emit Time = curr.Time; moving_average emits the time field that Aggregate sets to p.Time on every path; cumulative_sum emits its curr whose Time is set to p.Time on every path; integral sends Time = window.start and Value = sum; percentile and distinct take Time and Value (and Aux) from the SAME selected element; " +
			"(5) moving-window (3 reducers): Emit produces a point only under len(buf) == cap(buf); Aggregate appends only while len(buf) != cap(buf), overwrites buf[pos] only when full and only after subtracting the evicted buf[pos] from sum with pos unchanged in between, adds p.Value to sum and advances pos exactly once on every path, and leaves only with pos reset to 0 or pos < cap(buf) established; " +
			"(6) running-sum (3 cumulative_sum reducers): Aggregate adds p.Value to curr.Value, sets curr.Time and clears curr.Nil on every path; Emit produces a point only under curr.Nil == false; " +
			"(7) spread-extrema: min is lowered / max is raised only under the matching comparison with p.Value (or through math.Min/math.Max of the field and p.Value), the constructor seeds min with the greatest and max with the least value of the field type, count is incremented on every path; " +
			"(8) heap-order (top/bottom, 6 comparators + 6 Aggregate methods): the comparator literal handed to the heap is enumerated on every ordering of (a.Value,b.Value,a.Time,b.Time) and must equal 'a is worse than b' (top: smaller value, bottom: larger value; equal values: later time is worse, so the earliest of tied points is kept); Aggregate pushes only while the heap is not full, replaces the root only on the edge cmp(root, p) == true with the arguments in that order and re-establishes the heap (heap.Fix at index 0) on every path after the replacement; " +
			"(9) value-sort tables: {float,integer,unsigned,string}PointsByValue.Less is exactly a[i].Value < a[j].Value and {float,integer,unsigned,string}Points.Less is exactly (Time, Value) lexicographic, on every ordering; percentile/median/mode sort before they select or scan; percentile indexes only under 0 <= i < len; " +
			"(10) distinct-first-wins (5 reducers): the map is written only under a failed lookup of the same key p.Value, Emit ranges over the map and sorts before returning; " +
			"(11) integral-window (3 reducers): every path of Aggregate stores the new point into prev; the first point (prev.Nil) is stored without accumulating; a finished window is sent before sum is reset and sum is reset before it accumulates again; (window.start, window.end) are taken from Window(t) in that order only under opt.Ascending == true and swapped only under false; Close sends only when prev.Nil == false and closes the channel on every path; Emit polls the channel without blocking and emits the received point exactly on the ok == true edge; " +
			"(12) dispatch: every function name the compiler accepts has a case in buildCallIterator (or in NewCallIterator for the names routed to the storage call iterator); each transformation name reaches exactly the builder of that function; the non-negative flag handed to the derivative/difference builders is the comparison of the call name with the non_negative_ name, and reaches the isNonNegative field of the reducer; every builder constructs, per input type, a reducer of its own family and wraps streaming functions in a stream iterator and window functions in a reduce iterator.",
		NotCovered:  "The value-level behaviour — that the emitted numbers equal the documented definition (the derivative/integral/moving-average/stddev/median/percentile-rank arithmetic, float rounding and NaN handling, integer overflow, the unit normalisation by the interval, the mode tie-break, linear interpolation at integral window ends, the exponential/Kaufman/Chande/Holt-Winters functions, sample) — is NOT decided. Which timestamp the aggregate reducers (spread, median, mode, stddev) carry is not claimed: the interval iterator rewrites it. Only non-test code of influxql/query is analysed.",
		Assumptions: []string{"a rule passing means the mechanism is in place on every CFG path, not that the computed values are correct", "container/heap and sort implement their contracts"},
		Run:         runC23,
	})
}

type c23 struct {
	p    *core.Prog
	r    *core.Report
	pk   *types.Package
	info *types.Info
	res  *core.N1Resolver
}

func runC23(p *core.Prog, r *core.Report, tier string) {
	pkg := p.Pkg(qP)
	if !r.Check(pkg != nil, "anchor", qP, "unresolved", "", "package loaded") {
		return
	}
	c := &c23{p: p, r: r, pk: pkg.Types, info: pkg.TypesInfo, res: core.NewN1Resolver(pkg.TypesInfo, pkg.Syntax)}
	c.window()
	c.movingWindow()
	c.runningSum()
	c.spread()
	c.heapOrder()
	c.sortTables()
	c.selection()
	c.distinct()
	c.integral()
	c.dispatch()
}

// ---------------------------------------------------------------- reducer context

type c23Red struct {
	c        *c23
	typ      string
	agg, em  *core.Func
	ina, ine *core.Inlined
	ga, ge   *core.Graph
	inPt     types.Type // type of the point handed to Aggregate
}

// isPt: a query point struct (Time, Value, Nil, Aggregated).
func c23IsPt(t types.Type) bool {
	return core.N1FieldOfType(t, "Time") != nil && core.N1FieldOfType(t, "Value") != nil && core.N1FieldOfType(t, "Nil") != nil && core.N1FieldOfType(t, "Aggregated") != nil
}

func (c *c23) red(kind, family string) *c23Red {
	typ := kind + family + "Reducer"
	rc := &c23Red{c: c, typ: typ}
	rc.agg = c.r.Need(c.p, qP, typ+".Aggregate"+kind)
	rc.em = c.r.Need(c.p, qP, typ+".Emit")
	if rc.agg == nil || rc.em == nil {
		return nil
	}
	rc.ina, rc.ine = rc.agg.Inline(nil), rc.em.Inline(nil)
	rc.ga, rc.ge = rc.ina.G, rc.ine.G
	if pv := rc.agg.X1Param(0); pv != nil {
		if pt, ok := pv.Type().Underlying().(*types.Pointer); ok {
			rc.inPt = pt.Elem()
		}
	}
	if !c.r.Check(rc.inPt != nil && c23IsPt(rc.inPt), "anchor", qP+"."+typ, "aggregate-param:not-a-point", rc.agg.Pos(), "Aggregate takes a *Point") {
		return nil
	}
	return rc
}

func (rc *c23Red) fld(name string) *types.Var {
	v := core.LookupField(rc.c.pk, rc.typ, name)
	rc.c.r.Check(v != nil, "anchor", qP+"."+rc.typ+"."+name, "unresolved", "", "field resolved")
	return v
}

func (rc *c23Red) in(name string) *types.Var { return core.N1FieldOfType(rc.inPt, name) }

// emitSites: nodes of Emit that build a non-empty slice of points.
func (rc *c23Red) emitSites(g *core.Graph) core.NodePred {
	return g.N1Containing(core.N1NonEmptySliceLit(rc.c.info, c23IsPt))
}

// emitElems lists the element expressions of every non-empty point-slice literal in the roots.
func (c *c23) emitElems(roots []ast.Node) []ast.Expr {
	var out []ast.Expr
	is := core.N1NonEmptySliceLit(c.info, c23IsPt)
	for _, root := range roots {
		ast.Inspect(root, func(n ast.Node) bool {
			if e, ok := n.(ast.Expr); ok && is(e) {
				out = append(out, e.(*ast.CompositeLit).Elts...)
			}
			return true
		})
	}
	return out
}

func (c *c23) line(g *core.Graph, n *core.Node) string {
	if n == nil {
		return ""
	}
	return g.Line(n)
}

// ---------------------------------------------------------------- (1)(2)(3)(4) two-point window

func (c *c23) window() {
	n := 0
	for _, fam := range []struct {
		family string
		kinds  []string
		nonNeg bool
	}{{"Derivative", c23Num, true}, {"Difference", c23Num, true}, {"Elapsed", c23All, false}} {
		for _, k := range fam.kinds {
			rc := c.red(k, fam.family)
			if rc == nil {
				continue
			}
			n++
			c.windowOne(rc, fam.nonNeg)
		}
	}
	c.r.Check(n >= 11, "two-point-window", qP, "reducers:fewer-than-confirmed", "", fmt.Sprintf("%d prev/curr reducers examined (11 confirmed by reading)", n))
}

func (c *c23) windowOne(rc *c23Red, nonNeg bool) {
	const rule = "two-point-window"
	info := c.info
	prev, curr := rc.fld("prev"), rc.fld("curr")
	if prev == nil || curr == nil {
		return
	}
	pNil, pTime, pVal := core.N1FieldOfType(prev.Type(), "Nil"), core.N1FieldOfType(prev.Type(), "Time"), core.N1FieldOfType(prev.Type(), "Value")
	inTime := rc.in("Time")
	if !c.r.Check(pNil != nil && pTime != nil && pVal != nil && inTime != nil && types.Identical(prev.Type(), curr.Type()), "anchor", qP+"."+rc.typ, "prev/curr:not-points", "", "prev and curr are points of one type") {
		return
	}
	name := rc.agg.String()

	// ---- Aggregate: shift, then store
	g := rc.ga
	isPrev, isCurr := c.path(prev), c.path(curr)
	shift := g.N1Assign(token.ASSIGN, isPrev, isCurr)
	store := g.N1Assign(token.ASSIGN, isCurr, core.N1DerefOfType(info, rc.inPt))
	shifts, stores := g.Select(shift), g.Select(store)
	if c.r.Check(len(shifts) >= 1, rule, name, "shift:absent", rc.agg.Pos(), "prev = curr present") &&
		c.r.Check(len(stores) >= 1, rule, name, "store:absent", rc.agg.Pos(), "curr = *p present") {
		bad := g.N1ReachableWithout(store, shift, nil)
		c.r.Check(bad == nil, rule, name, "store-before-shift", c.line(g, bad), "curr = *p is reached only after prev = curr (otherwise prev and curr hold the same point)")
		late := g.N1Between(stores, nil, shift)
		c.r.Check(late == nil, rule, name, "shift-after-store", c.line(g, late), "no prev = curr after curr = *p")
		// nothing else writes prev / curr (or a part of them)
		var stray *core.Node
		for _, nd := range g.Nodes {
			if nd.N == nil || shift(nd) || store(nd) {
				continue
			}
			if g.N1Stores(func(e ast.Expr) bool { return c.underField(e, prev) || c.underField(e, curr) })(nd) {
				stray = nd
				break
			}
		}
		c.r.Check(stray == nil, rule, name, "other-write-of-prev/curr", c.line(g, stray), "Aggregate writes prev and curr only through the shift and the store")
		// leaving without the store: only on the duplicate-timestamp path
		notNil := c.boolEdge(c.path(curr, pNil), false)
		sameT := c.cmpEdge(c.path(curr, pTime), c.path(inTime), core.X1EQ)
		x1, x2 := g.N1ExitsWithout(store, notNil), g.N1ExitsWithout(store, sameT)
		var first *core.Node
		if len(x1) > 0 {
			first = x1[0]
		} else if len(x2) > 0 {
			first = x2[0]
		}
		c.r.Check(first == nil, rule, name, "skip-without-duplicate-test", c.line(g, first), "a path that leaves without storing the point established curr.Nil == false and curr.Time == p.Time")
	}

	// ---- Emit: nothing before the second point
	ge := rc.ge
	ename := rc.em.String()
	sites := rc.emitSites(ge)
	if !c.r.Check(len(ge.Select(sites)) >= 1, rule, ename, "emission:absent", rc.em.Pos(), "Emit builds a point") {
		return
	}
	havePrev := c.boolEdge(c.path(prev, pNil), false)
	bad := ge.N1ReachableWithout(sites, nil, havePrev)
	c.r.Check(bad == nil, rule, ename, "emission-without-previous-point", c.line(ge, bad), "a point is built only on a path that established prev.Nil == false")

	// ---- (4) output time = curr.Time
	isCurrTime := c.path(curr, pTime)
	nT := 0
	for _, el := range c.emitElems(rc.ine.Roots) {
		cl, ok := ast.Unparen(el).(*ast.CompositeLit)
		if !ok {
			c.r.Bad("output-time", ename, "element-not-a-literal", c.p.Pos(el.Pos()), core.ExprStr(el))
			continue
		}
		outTime := core.N1FieldOfType(info.TypeOf(cl), "Time")
		v := core.N1KeyValue(info, cl, outTime)
		nT++
		ok = v != nil && isCurrTime(core.N1ResolveIn(info, rc.ine.Roots, v))
		c.r.Check(ok, "output-time", ename, "time-is-not-curr.Time", c.p.Pos(cl.Pos()), "the emitted point carries the time of the current point")
	}
	c.r.Check(nT >= 1, "output-time", ename, "emitted-literal:absent", rc.em.Pos(), "emitted point literal found")

	// ---- (3) operand roles
	c.operandRoles(rc, curr, prev, []*types.Var{pVal, pTime}, 1)

	if !nonNeg {
		return
	}
	// ---- mark-read before every emission (a duplicate timestamp re-enters Emit without a shift)
	mark := ge.N1Assign(token.ASSIGN, c.path(prev, pNil), func(e ast.Expr) bool { return core.X1IsConstBool(info, e, true) })
	bad = ge.N1ReachableWithout(sites, mark, nil)
	c.r.Check(bad == nil, rule, ename, "emission-without-mark-read", c.line(ge, bad), "prev.Nil = true precedes every emission (so that a skipped duplicate does not emit the same point again)")

	// ---- (2) non-negative drop
	const nn = "non-negative-drop"
	flag := rc.fld("isNonNegative")
	if flag == nil {
		return
	}
	isCV, isPV := c.pathConv(curr, pVal), c.pathConv(prev, pVal)
	// locals that hold (curr.Value − prev.Value)
	diffs := map[types.Object]bool{}
	for _, root := range rc.ine.Roots {
		ast.Inspect(root, func(n ast.Node) bool {
			id, ok := n.(*ast.Ident)
			if !ok {
				return true
			}
			v, ok := info.Defs[id].(*types.Var)
			if !ok || v.IsField() {
				return true
			}
			rhs, opaque := core.AssignedExprs14(info, root, v)
			if opaque || len(rhs) == 0 {
				return true
			}
			for _, e := range rhs {
				if c.orient(e, isCV, isPV) != 1 {
					return true
				}
			}
			diffs[v] = true
			return true
		})
	}
	isDiff := func(e ast.Expr) bool { return diffs[core.ObjOf(info, ast.Unparen(e))] }
	isZero := func(e ast.Expr) bool {
		v := core.ConstVal(info, e)
		return v != nil && (v.String() == "0" || v.String() == "0.0")
	}
	ok := c.factEdge(core.X1AnyFact(
		core.X1BoolFact(c.path(flag), false),
		core.X1CmpFact(isDiff, isZero, core.X1GE),
		core.X1CmpFact(isCV, isPV, core.X1GE)))
	bad = ge.N1ReachableWithout(sites, nil, ok)
	c.r.Check(bad == nil, nn, ename, "emission-of-negative-difference", c.line(ge, bad),
		"a point is built only on a path that established isNonNegative == false or current − previous >= 0")
	c.r.Check(len(ge.Select(ge.N1Containing(c.path(flag)))) >= 1, nn, ename, "flag-test:absent", rc.em.Pos(), "Emit reads isNonNegative")
	// converse: once a previous point exists, Emit returns WITHOUT a point only on a
	// path that established isNonNegative == true and current − previous < 0
	noPrev := c.boolEdge(c.path(prev, pNil), true)
	flagSet := c.factEdge(core.X1BoolFact(c.path(flag), true))
	negative := c.factEdge(core.X1AnyFact(core.X1CmpFact(isDiff, isZero, core.X1LT), core.X1CmpFact(isCV, isPV, core.X1LT)))
	d1 := ge.N1ExitsWithout(sites, core.X1OrEdges(noPrev, flagSet))
	d2 := ge.N1ExitsWithout(sites, core.X1OrEdges(noPrev, negative))
	var first *core.Node
	if len(d1) > 0 {
		first = d1[0]
	} else if len(d2) > 0 {
		first = d2[0]
	}
	c.r.Check(first == nil, nn, ename, "drop-of-wanted-difference", c.line(ge, first),
		"with a previous point, Emit returns no point only on a path that established isNonNegative == true and current − previous < 0")
}

// underField: e designates field f of the reducer or a part of it (r.f, r.f.g, r.f[i]).
func (c *c23) underField(e ast.Expr, f *types.Var) bool {
	for {
		e = ast.Unparen(e)
		switch t := e.(type) {
		case *ast.SelectorExpr:
			if core.FieldOf(c.info, t) == f {
				return true
			}
			e = t.X
		case *ast.IndexExpr:
			e = t.X
		case *ast.StarExpr:
			e = t.X
		default:
			return false
		}
	}
}

// orient: +1 when e is (a − b), −1 when it is (b − a), seen through parentheses,
// conversions, unary minus; 0 otherwise.
func (c *c23) orient(e ast.Expr, isA, isB func(ast.Expr) bool) int {
	e = core.StripConv(c.info, e)
	switch t := e.(type) {
	case *ast.UnaryExpr:
		if t.Op == token.SUB {
			return -c.orient(t.X, isA, isB)
		}
	case *ast.BinaryExpr:
		if t.Op == token.SUB {
			switch {
			case isA(t.X) && isB(t.Y):
				return 1
			case isB(t.X) && isA(t.Y):
				return -1
			}
		}
	}
	return 0
}

// operandRoles: every subtraction between hi.F and lo.F (F in fields) in Emit has
// hi as the minuend, unless it is directly negated.
func (c *c23) operandRoles(rc *c23Red, hi, lo *types.Var, fields []*types.Var, min int) {
	const rule = "operand-roles"
	info := c.info
	n := 0
	for _, root := range c.deepRoots(rc.ine) {
		var stack []ast.Node
		ast.Inspect(root, func(x ast.Node) bool {
			if x == nil {
				stack = stack[:len(stack)-1]
				return true
			}
			stack = append(stack, x)
			be, ok := x.(*ast.BinaryExpr)
			if !ok || be.Op != token.SUB {
				return true
			}
			for _, f := range fields {
				isHi, isLo := c.pathConv(hi, f), c.pathConv(lo, f)
				o := c.orient(be, isHi, isLo)
				if o == 0 {
					continue
				}
				n++
				// enclosing negations / conversions / parentheses
				for i := len(stack) - 2; i >= 0; i-- {
					switch p := stack[i].(type) {
					case *ast.ParenExpr:
						continue
					case *ast.UnaryExpr:
						if p.Op == token.SUB {
							o = -o
							continue
						}
					case *ast.CallExpr:
						if tv, ok := info.Types[p.Fun]; ok && tv.IsType() {
							continue
						}
					}
					break
				}
				c.r.Check(o == 1, rule, rc.em.String(), "reversed:"+hi.Name()+"."+f.Name()+"-"+lo.Name()+"."+f.Name(), c.p.Pos(be.Pos()),
					"the subtraction is "+hi.Name()+"."+f.Name()+" − "+lo.Name()+"."+f.Name()+" ("+core.ExprStr(be)+")")
			}
			return true
		})
	}
	c.r.Check(n >= min, rule, rc.em.String(), "subtraction:absent", rc.em.Pos(), fmt.Sprintf("%d subtractions between %s and %s examined", n, hi.Name(), lo.Name()))
}

// ---------------------------------------------------------------- (5) moving window

func (c *c23) movingWindow() {
	const rule = "moving-window"
	info := c.info
	n := 0
	for _, k := range c23Num {
		rc := c.red(k, "MovingAverage")
		if rc == nil {
			continue
		}
		buf, pos, sum, tm := rc.fld("buf"), rc.fld("pos"), rc.fld("sum"), rc.fld("time")
		inVal, inTime := rc.in("Value"), rc.in("Time")
		if buf == nil || pos == nil || sum == nil || tm == nil || inVal == nil || inTime == nil {
			continue
		}
		n++
		isBuf, isPos, isSum := c.path(buf), c.path(pos), c.path(sum)
		isInVal := c.pathConv(inVal)
		lenBuf := core.X1IsLenOf(info, isBuf)
		capBuf := func(e ast.Expr) bool {
			cl, ok := ast.Unparen(e).(*ast.CallExpr)
			return ok && core.Builtin("cap")(info, cl) && len(cl.Args) == 1 && isBuf(ast.Unparen(cl.Args[0]))
		}
		full := c.cmpEdge(lenBuf, capBuf, core.X1EQ)
		notFull := c.cmpEdge(lenBuf, capBuf, core.X1NE)
		slot := func(e ast.Expr) bool { // buf[pos]
			ix, ok := ast.Unparen(e).(*ast.IndexExpr)
			return ok && isBuf(ast.Unparen(ix.X)) && isPos(ast.Unparen(ix.Index))
		}

		// ---- Emit
		ge, ename := rc.ge, rc.em.String()
		sites := rc.emitSites(ge)
		if c.r.Check(len(ge.Select(sites)) >= 1, rule, ename, "emission:absent", rc.em.Pos(), "Emit builds a point") {
			bad := ge.N1ReachableWithout(sites, nil, full)
			c.r.Check(bad == nil, rule, ename, "emission-before-window-full", c.line(ge, bad), "a point is built only on a path that established len(buf) == cap(buf)")
		}
		nT := 0
		for _, el := range c.emitElems(rc.ine.Roots) {
			cl, ok := ast.Unparen(el).(*ast.CompositeLit)
			if !ok {
				continue
			}
			nT++
			v := core.N1KeyValue(info, cl, core.N1FieldOfType(info.TypeOf(cl), "Time"))
			c.r.Check(v != nil && c.path(tm)(core.N1ResolveIn(info, rc.ine.Roots, v)), "output-time", ename, "time-is-not-the-last-point's", c.p.Pos(cl.Pos()),
				"the emitted point carries the reducer's time field (set from p.Time by Aggregate)")
		}
		c.r.Check(nT >= 1, "output-time", ename, "emitted-literal:absent", rc.em.Pos(), "emitted point literal found")

		// ---- Aggregate
		g, name := rc.ga, rc.agg.String()
		appendN := g.N1Assign(token.ASSIGN, isBuf, func(e ast.Expr) bool {
			cl, ok := e.(*ast.CallExpr)
			return ok && core.Builtin("append")(info, cl) && len(cl.Args) == 2 && isBuf(ast.Unparen(cl.Args[0])) && isInVal(cl.Args[1])
		})
		overwrite := g.N1Assign(token.ASSIGN, slot, isInVal)
		evict := g.N1Assign(token.SUB_ASSIGN, isSum, slot)
		add := g.N1Assign(token.ADD_ASSIGN, isSum, isInVal)
		setTime := g.N1Assign(token.ASSIGN, c.path(tm), c.path(inTime))
		incr := g.N1Incr(isPos)
		reset := g.N1Assign(token.ASSIGN, isPos, core.X1IsIntConst(info, 0))
		for _, x := range []struct {
			what string
			p    core.NodePred
		}{{"append(buf, p.Value)", appendN}, {"buf[pos] = p.Value", overwrite}, {"sum -= buf[pos]", evict}, {"sum += p.Value", add}, {"time = p.Time", setTime}, {"pos++", incr}, {"pos = 0", reset}} {
			c.r.Check(len(g.Select(x.p)) >= 1, rule, name, x.what+":absent", rc.agg.Pos(), x.what+" present")
		}
		bad := g.N1ReachableWithout(appendN, nil, notFull)
		c.r.Check(bad == nil, rule, name, "append-when-full", c.line(g, bad), "the buffer grows only on a path that established len(buf) != cap(buf)")
		bad = g.N1ReachableWithout(overwrite, nil, full)
		c.r.Check(bad == nil, rule, name, "overwrite-before-full", c.line(g, bad), "a slot is overwritten only on a path that established len(buf) == cap(buf)")
		bad = g.N1ReachableWithout(overwrite, evict, nil)
		c.r.Check(bad == nil, rule, name, "overwrite-without-eviction", c.line(g, bad), "sum -= buf[pos] precedes buf[pos] = p.Value on every path")
		bad = g.N1Between(g.Select(evict), overwrite, g.N1Stores(isPos))
		c.r.Check(bad == nil, rule, name, "pos-changes-between-eviction-and-overwrite", c.line(g, bad), "pos is not written between the eviction and the overwrite")
		// every store into buf is one of the two
		var stray *core.Node
		for _, nd := range g.Nodes {
			if nd.N != nil && !appendN(nd) && !overwrite(nd) && g.N1Stores(func(e ast.Expr) bool { return c.underField(e, buf) })(nd) {
				stray = nd
				break
			}
		}
		c.r.Check(stray == nil, rule, name, "other-write-of-buf", c.line(g, stray), "buf is written only by the append and the overwrite")
		// once per call, on every path
		for _, x := range []struct {
			what string
			p    core.NodePred
		}{{"sum += p.Value", add}, {"time = p.Time", setTime}, {"pos++", incr}} {
			miss := g.N1ExitsWithout(x.p, nil)
			var m *core.Node
			if len(miss) > 0 {
				m = miss[0]
			}
			c.r.Check(m == nil, rule, name, x.what+":not-on-every-path", c.line(g, m), x.what+" on every path")
			twice := g.N1Between(g.Select(x.p), nil, x.p)
			c.r.Check(twice == nil, rule, name, x.what+":twice", c.line(g, twice), x.what+" at most once per point")
		}
		// one of append / overwrite on every path
		miss := g.N1ExitsWithout(core.AnyOf(appendN, overwrite), nil)
		var m *core.Node
		if len(miss) > 0 {
			m = miss[0]
		}
		c.r.Check(m == nil, rule, name, "point-not-buffered", c.line(g, m), "every path stores p.Value into the buffer")
		// pos stays inside the buffer
		inRange := c.cmpEdge(isPos, capBuf, core.X1LT)
		miss = g.N1ExitsWithout(reset, inRange)
		m = nil
		if len(miss) > 0 {
			m = miss[0]
		}
		c.r.Check(m == nil, rule, name, "pos-not-wrapped", c.line(g, m), "every path leaves with pos = 0 or pos < cap(buf) established")
		bad = g.N1ReachableWithout(reset, nil, c.cmpEdge(isPos, capBuf, core.X1GE))
		c.r.Check(bad == nil, rule, name, "pos-reset-early", c.line(g, bad), "pos is reset only under pos >= cap(buf)")
		late := g.N1Between(g.Select(reset), nil, incr)
		c.r.Check(late == nil, rule, name, "increment-after-wrap", c.line(g, late), "the wrap test follows the increment")
	}
	c.r.Check(n >= 3, rule, qP, "reducers:fewer-than-confirmed", "", fmt.Sprintf("%d moving-average reducers examined", n))
}

// ---------------------------------------------------------------- (6) running sum

func (c *c23) runningSum() {
	const rule = "running-sum"
	info := c.info
	n := 0
	for _, k := range c23Num {
		rc := c.red(k, "CumulativeSum")
		if rc == nil {
			continue
		}
		curr := rc.fld("curr")
		if curr == nil {
			continue
		}
		cNil, cTime, cVal := core.N1FieldOfType(curr.Type(), "Nil"), core.N1FieldOfType(curr.Type(), "Time"), core.N1FieldOfType(curr.Type(), "Value")
		inVal, inTime := rc.in("Value"), rc.in("Time")
		if cNil == nil || cTime == nil || cVal == nil || inVal == nil || inTime == nil {
			continue
		}
		n++
		g, name := rc.ga, rc.agg.String()
		for _, x := range []struct {
			what string
			p    core.NodePred
		}{
			{"curr.Value += p.Value", g.N1Assign(token.ADD_ASSIGN, c.path(curr, cVal), c.path(inVal))},
			{"curr.Time = p.Time", g.N1Assign(token.ASSIGN, c.path(curr, cTime), c.path(inTime))},
			{"curr.Nil = false", g.N1Assign(token.ASSIGN, c.path(curr, cNil), func(e ast.Expr) bool { return core.X1IsConstBool(info, e, false) })},
		} {
			if !c.r.Check(len(g.Select(x.p)) >= 1, rule, name, x.what+":absent", rc.agg.Pos(), x.what+" present") {
				continue
			}
			miss := g.N1ExitsWithout(x.p, nil)
			var m *core.Node
			if len(miss) > 0 {
				m = miss[0]
			}
			c.r.Check(m == nil, rule, name, x.what+":not-on-every-path", c.line(g, m), x.what+" on every path")
			twice := g.N1Between(g.Select(x.p), nil, x.p)
			c.r.Check(twice == nil, rule, name, x.what+":twice", c.line(g, twice), x.what+" at most once per point")
		}
		// no other write of curr
		var stray *core.Node
		for _, nd := range g.Nodes {
			if nd.N == nil {
				continue
			}
			if as, ok := nd.N.(*ast.AssignStmt); ok && len(as.Lhs) == 1 {
				l := ast.Unparen(as.Lhs[0])
				if c.path(curr, cVal)(l) && as.Tok == token.ADD_ASSIGN || c.path(curr, cTime)(l) || c.path(curr, cNil)(l) {
					continue
				}
			}
			if g.N1Stores(func(e ast.Expr) bool { return c.underField(e, curr) })(nd) {
				stray = nd
				break
			}
		}
		c.r.Check(stray == nil, rule, name, "other-write-of-curr", c.line(g, stray), "curr is written only by the three updates (the sum is never overwritten)")

		ge, ename := rc.ge, rc.em.String()
		sites := rc.emitSites(ge)
		if c.r.Check(len(ge.Select(sites)) >= 1, rule, ename, "emission:absent", rc.em.Pos(), "Emit builds a point") {
			bad := ge.N1ReachableWithout(sites, nil, c.boolEdge(c.path(curr, cNil), false))
			c.r.Check(bad == nil, rule, ename, "emission-before-first-point", c.line(ge, bad), "a point is built only on a path that established curr.Nil == false")
		}
		nE := 0
		for _, el := range c.emitElems(rc.ine.Roots) {
			nE++
			c.r.Check(c.path(curr)(core.N1ResolveIn(info, rc.ine.Roots, el)), "output-time", ename, "emitted-point-is-not-curr", c.p.Pos(el.Pos()),
				"the emitted point is the reducer's curr (time of the last point, running sum)")
		}
		c.r.Check(nE >= 1, "output-time", ename, "emitted-element:absent", rc.em.Pos(), "emitted element found")
	}
	c.r.Check(n >= 3, rule, qP, "reducers:fewer-than-confirmed", "", fmt.Sprintf("%d cumulative-sum reducers examined", n))
}

// ---------------------------------------------------------------- (7) spread

func (c *c23) spread() {
	const rule = "spread-extrema"
	info := c.info
	n := 0
	for _, k := range c23Num {
		rc := c.red(k, "Spread")
		if rc == nil {
			continue
		}
		mn, mx, cnt := rc.fld("min"), rc.fld("max"), rc.fld("count")
		inVal := rc.in("Value")
		if mn == nil || mx == nil || cnt == nil || inVal == nil {
			continue
		}
		n++
		g, name := rc.ga, rc.agg.String()
		isIn := c.path(inVal)
		for _, side := range []struct {
			f      *types.Var
			rel    core.X1Rel
			callee string
			what   string
		}{{mn, core.X1LE, "math.Min", "min"}, {mx, core.X1GE, "math.Max", "max"}} {
			isF := c.path(side.f)
			stores := g.Select(g.N1Stores(isF))
			c.r.Check(len(stores) >= 1, rule, name, side.what+"-store:absent", rc.agg.Pos(), side.what+" is updated")
			for _, nd := range stores {
				as, ok := nd.N.(*ast.AssignStmt)
				if !ok || as.Tok != token.ASSIGN || len(as.Lhs) != 1 || len(as.Rhs) != 1 {
					c.r.Bad(rule, name, side.what+"-store:not-a-plain-store", g.Line(nd), "")
					continue
				}
				rhs := ast.Unparen(as.Rhs[0])
				if cl, ok := rhs.(*ast.CallExpr); ok {
					okCall := call(side.callee)(info, cl) && len(cl.Args) == 2 &&
						((isF(ast.Unparen(cl.Args[0])) && isIn(ast.Unparen(cl.Args[1]))) || (isF(ast.Unparen(cl.Args[1])) && isIn(ast.Unparen(cl.Args[0]))))
					c.r.Check(okCall, rule, name, side.what+"-store:wrong-call", g.Line(nd), side.what+" = "+side.callee+"("+side.what+", p.Value)")
					miss := g.N1ExitsWithout(func(x *core.Node) bool { return x == nd }, nil)
					c.r.Check(len(miss) == 0, rule, name, side.what+"-store:not-on-every-path", g.Line(nd), "the "+side.callee+" update runs for every point")
					continue
				}
				guard := c.cmpEdge(isIn, isF, side.rel)
				okStore := isIn(rhs) && !g.BackReach14(nd, guard)[g.Entry]
				c.r.Check(okStore, rule, name, side.what+"-store:unguarded", g.Line(nd), side.what+" = p.Value only under p.Value "+map[core.X1Rel]string{core.X1LE: "<", core.X1GE: ">"}[side.rel]+" "+side.what)
			}
		}
		miss := g.N1ExitsWithout(g.N1Incr(c.path(cnt)), nil)
		c.r.Check(len(miss) == 0, rule, name, "count++:not-on-every-path", rc.agg.Pos(), "count is incremented for every point")

		// Emit: max − min
		nS := 0
		for _, el := range c.emitElems(rc.ine.Roots) {
			cl, ok := ast.Unparen(el).(*ast.CompositeLit)
			if !ok {
				continue
			}
			v := core.N1KeyValue(info, cl, core.N1FieldOfType(info.TypeOf(cl), "Value"))
			if v == nil {
				continue
			}
			nS++
			o := c.orient(core.N1ResolveIn(info, rc.ine.Roots, v), c.path(mx), c.path(mn))
			c.r.Check(o == 1, "operand-roles", rc.em.String(), "spread-is-not-max-minus-min", c.p.Pos(cl.Pos()), "the emitted value is max − min")
		}
		c.r.Check(nS >= 1, "operand-roles", rc.em.String(), "emitted-value:absent", rc.em.Pos(), "emitted value found")

		// constructor seeds
		ctor := c.r.Need(c.p, qP, "New"+rc.typ)
		if ctor == nil {
			continue
		}
		var lit *ast.CompositeLit
		ast.Inspect(ctor.Decl.Body, func(x ast.Node) bool {
			if cl, ok := x.(*ast.CompositeLit); ok && lit == nil {
				if nt, ok := info.TypeOf(cl).(*types.Named); ok && nt.Obj().Name() == rc.typ {
					lit = cl
				}
			}
			return true
		})
		if !c.r.Check(lit != nil, rule, ctor.String(), "literal:absent", ctor.Pos(), "constructor builds the reducer with a literal") {
			continue
		}
		c.r.Check(c.extreme(core.N1KeyValue(info, lit, mn), mn.Type(), true), rule, ctor.String(), "min-seed-is-not-the-greatest-value", c.p.Pos(lit.Pos()), "min starts at the greatest value of its type")
		c.r.Check(c.extreme(core.N1KeyValue(info, lit, mx), mx.Type(), false), rule, ctor.String(), "max-seed-is-not-the-least-value", c.p.Pos(lit.Pos()), "max starts at the least value of its type")
	}
	c.r.Check(n >= 3, rule, qP, "reducers:fewer-than-confirmed", "", fmt.Sprintf("%d spread reducers examined", n))
}

// extreme: e is the greatest (least) value of basic type t: ±Inf for floats, the
// integer bounds otherwise; a missing initialiser is the zero value.
func (c *c23) extreme(e ast.Expr, t types.Type, greatest bool) bool {
	b, ok := t.Underlying().(*types.Basic)
	if !ok {
		return false
	}
	if b.Info()&types.IsFloat != 0 {
		cl, ok := ast.Unparen(e).(*ast.CallExpr)
		if !ok || !call("math.Inf")(c.info, cl) || len(cl.Args) != 1 {
			return false
		}
		s, ok := core.ConstInt(c.info, cl.Args[0])
		return ok && ((greatest && s >= 0) || (!greatest && s < 0))
	}
	var want string
	switch b.Kind() {
	case types.Int64:
		want = map[bool]string{true: "9223372036854775807", false: "-9223372036854775808"}[greatest]
	case types.Uint64:
		want = map[bool]string{true: "18446744073709551615", false: "0"}[greatest]
	default:
		return false
	}
	if e == nil {
		return want == "0"
	}
	v := core.ConstVal(c.info, e)
	return v != nil && v.ExactString() == want
}
