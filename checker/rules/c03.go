package rules

import (
	"fmt"
	"go/ast"
	"go/token"
	"go/types"
	"sort"
	"strings"

	"verif/checker/core"
)

func init() {
	register(&Prop{
		ID:       "C03",
		Patterns: []string{"./tsdb/engine/tsm1"},
		Level:    "other",
		Explanation: "Necessary-condition rules for \"deleted points never reappear\", decided on CFG paths, resolved callees, objects and fields of tsm1: " +
			"(1) delete-order (Engine.deleteSeriesRange): tombstone batch on every TSM file (FileStore.Apply whose callback ends in BatchDeleter.Commit or Rollback) before Cache.DeleteRange before WAL.DeleteRange before any success return, the same min/max and the same cache key list in all layers, cache keys taken from the cache's own enumeration, nothing applied to the cache after a failed tombstone batch; delete-errors: the errors of FileStore.Apply, BatchDeleter.*, WAL.DeleteRange are propagated; " +
			"(2) compactions-disabled: in DeleteSeriesRangeWithPredicate a key enters the delete batch only after disableLevelCompactions(true) with its deferred enableLevelCompactions(true) and the series-file pair (once-flag idiom proved, not assumed); the TSI pair is taken when the index is TSI; deleteSeriesRange has no effect for an empty batch; " +
			"(3) abort-mechanism: disableLevelCompactions disables the compactor before closing e.done and then waits for the workers; level workers are counted under `wait`; enableLevelCompactions restarts only at zero workers; Compactor.DisableCompactions clears the flag and closes the interrupt channel that compact hands to the merge iterator, whose Read fails once it is closed; CompactFull/CompactFast re-check the flag after compact; compactGroup replaces files only after an error-free compaction; " +
			"(4) tombstone-read-filter: each of the 30 block reads in the 10 KeyCursor.Read*Block functions is followed by excludeTombstones*(TombstoneRange(c.key) of the same file) on the block just read before it is merged, returned or the next block is read; the 10 excludeTombstones* helpers exclude [t.Min, t.Max] of every range; FileStore.locations skips a block only when one tombstone covers it entirely; " +
			"(5) tombstone-commit: batchDelete.Commit flushes the tombstone file before applying it to the in-memory index (never after a failed flush), batchDelete.DeleteRange reaches Tombstoner.AddRange unless keys/time range cannot overlap, AddRange records (key, min, max) of its parameters, applyTombstones applies every batch including the last, TSMReader.Delete orders Add, Flush, index.Delete; " +
			"(6) store-coverage: every cache store that Cache.Values reads must be filtered by Cache.DeleteRange (or deletes and snapshots must exclude each other); " +
			"(7) wal-delete-record: WAL.DeleteRange/Delete log their parameters, CacheLoader.Load replays Keys/Min/Max of the entry; " +
			"(8) cache-delete-range: Cache.DeleteRange filters or removes every key it finds with its own min/max, entry.filter excludes [min,max]; " +
			"(9) compaction-applies-tombstones: blocks carry the file's TombstoneRange into the merge, tombstoned blocks are always decoded and every range is excluded before merging.",
		NotCovered:  "the interleavings themselves; value arithmetic of Exclude/FindRange; the index reconciliation half of deleteSeriesRange (series/measurement removal); tombstone file encoding (C08) and crash durability of the tombstone file (C02); deletes issued through other entry points than DeleteSeriesRangeWithPredicate.",
		Assumptions: []string{"a passing rule means the mechanism is in place on every CFG path; a failing store-coverage rule is a real window, see known findings"},
		Run:         x1RunC03,
	})
}

func x1RunC03(p *core.Prog, r *core.Report, tier string) {
	x1C03DeleteOrder(p, r)
	x1C03CompactionsDisabled(p, r)
	x1C03Abort(p, r)
	x1C03ReadFilter(p, r)
	x1C03TombstoneCommit(p, r)
	x1C03StoreCoverage(p, r)
	x1C03WalRecord(p, r)
	x1C03CacheDelete(p, r)
	x1CompactionTombstones(p, r, "compaction-applies-tombstones")
}

// x1LitArgWith returns the function-literal argument of call c that contains a call of class m.
func x1LitArgWith(info *types.Info, c *ast.CallExpr, m core.Matcher) *ast.FuncLit {
	for _, a := range c.Args {
		if fl, ok := ast.Unparen(a).(*ast.FuncLit); ok && len(core.AllCalls(info, fl.Body, m)) > 0 {
			return fl
		}
	}
	return nil
}

// ---------------------------------------------------------------- (1) delete order

func x1C03DeleteOrder(p *core.Prog, r *core.Report) {
	const rule = "delete-order"
	f := r.Need(p, tsm1, "Engine.deleteSeriesRange")
	if f == nil {
		return
	}
	info, g := f.Info(), f.Graph()
	applyC := call("tsdb/engine/tsm1.FileStore.Apply")
	commitC := call("tsdb/engine/tsm1.BatchDeleter.Commit")
	rollC := call("tsdb/engine/tsm1.BatchDeleter.Rollback")
	bdrC := call("tsdb/engine/tsm1.BatchDeleter.DeleteRange")
	cdC := call("tsdb/engine/tsm1.Cache.DeleteRange")
	wdC := call("tsdb/engine/tsm1.WAL.DeleteRange")
	enumC := call("tsdb/engine/tsm1.Cache.ApplyEntryFn")
	var tlit *ast.FuncLit
	tomb := g.X1CallingWith(applyC, func(c *ast.CallExpr) bool {
		if fl := x1LitArgWith(info, c, call("tsdb/engine/tsm1.TSMFile.BatchDelete")); fl != nil {
			tlit = fl
			return true
		}
		return false
	})
	T := g.Select(tomb)
	cds, wds := g.Select(g.Calling(cdC)), g.Select(g.Calling(wdC))
	if !r.Check(len(T) == 1 && len(cds) == 1 && len(wds) == 1, rule, f.String(), "layers:absent", f.Pos(), "one tombstone FileStore.Apply (callback opens a BatchDelete), one Cache.DeleteRange, one WAL.DeleteRange") {
		return
	}
	r.Check(!g.ReachFromEntry(tomb, nil)[cds[0]], rule, f.String(), "tombstones<cache", g.Line(cds[0]), "Cache.DeleteRange is reached only after the tombstone batch")
	r.Check(!g.ReachFromEntry(g.Calling(cdC), nil)[wds[0]], rule, f.String(), "cache<wal", g.Line(wds[0]), "WAL.DeleteRange is reached only after Cache.DeleteRange")
	if fail, _, ok := g.ErrEdges(T[0]); r.Check(ok, rule, f.String(), "tombstone-error-untested", g.Line(T[0]), "the error of the tombstone batch is tested") {
		after := g.Reach([]*core.Node{fail.To}, nil, nil)
		r.Check(!after[cds[0]] && !after[wds[0]], rule, f.String(), "no-cache-delete-after-failed-tombstones", g.Line(T[0]), "after a failed tombstone batch neither cache nor WAL are touched (the delete is reported failed as a whole)")
	}
	// success exits pass all three layers (exempt: empty key list, nothing overlaps, WAL disabled)
	keysP := types.Object(f.X1Param(1))
	var flag types.Object // the "something overlaps" flag set inside the first Apply callback
	for _, n := range g.Select(g.Calling(applyC)) {
		for _, c := range core.CallsIn(info, n.N, applyC, core.WalkOpts{}) {
			for _, a := range c.Args {
				fl, ok := ast.Unparen(a).(*ast.FuncLit)
				if !ok || fl == tlit {
					continue
				}
				ast.Inspect(fl.Body, func(x ast.Node) bool {
					if as, ok := x.(*ast.AssignStmt); ok && len(as.Lhs) == 1 && len(as.Rhs) == 1 && core.X1IsConstBool(info, as.Rhs[0], true) {
						if o := core.ObjOf(info, as.Lhs[0]); o != nil && o.Pos() < fl.Pos() && flag == nil {
							flag = o
						}
					}
					return true
				})
			}
		}
	}
	exempt := core.X1FactEdge(core.X1AnyFact(core.X1LenZeroFact(info, core.X1IsObj(info, keysP), true), core.X1BoolFact(core.X1IsObj(info, flag), false)))
	walEnabled := core.LookupField(f.Pkg.Types, "Engine", "WALEnabled")
	core.RuleMustPassN(r, f, g, rule, "tombstone batch", tomb, exempt)
	core.RuleMustPassN(r, f, g, rule, "Cache.DeleteRange", g.Calling(cdC), exempt)
	core.RuleMustPassN(r, f, g, rule, "WAL.DeleteRange(unless !WALEnabled)", g.Calling(wdC), core.X1OrEdges(exempt, core.X1BoolEdge(core.X1IsField(info, walEnabled), false)))
	// same range and same key list in all layers
	minP, maxP := types.Object(f.X1Param(2)), types.Object(f.X1Param(3))
	cd := core.CallsIn(info, cds[0].N, cdC, core.WalkOpts{})[0]
	wd := core.CallsIn(info, wds[0].N, wdC, core.WalkOpts{})[0]
	okRange := x1ArgObj(info, cd, 1) == minP && x1ArgObj(info, cd, 2) == maxP && x1ArgObj(info, wd, 2) == minP && x1ArgObj(info, wd, 3) == maxP
	bdr := core.AllCalls(info, tlit.Body, bdrC)
	for _, c := range bdr {
		if x1ArgObj(info, c, 1) != minP || x1ArgObj(info, c, 2) != maxP {
			okRange = false
		}
	}
	r.Check(okRange && len(bdr) >= 1, rule, f.String(), "same-range", f.Pos(), "tombstones, cache and WAL all receive the function's own (min, max)")
	dk := x1ArgObj(info, cd, 0)
	okKeys := dk != nil && dk == x1ArgObj(info, wd, 1)
	// provenance of the cache key list
	var enumLit *ast.FuncLit
	for _, c := range core.AllCalls(info, f.Decl.Body, enumC) {
		if len(c.Args) == 1 {
			enumLit, _ = ast.Unparen(c.Args[0]).(*ast.FuncLit)
		}
	}
	nApp := 0
	for _, a := range core.X1AssignmentsTo(info, f.Decl.Body, dk) {
		c, isCall := a.Rhs.(*ast.CallExpr)
		switch {
		case a.Rhs != nil && isCall && core.Builtin("make")(info, c):
		case a.Rhs != nil && isCall && core.Builtin("append")(info, c) && len(c.Args) == 2 && core.ObjOf(info, c.Args[0]) == dk &&
			enumLit != nil && enumLit.Pos() <= c.Pos() && c.End() <= enumLit.End() &&
			len(enumLit.Type.Params.List) >= 1 && len(enumLit.Type.Params.List[0].Names) == 1 &&
			core.ObjOf(info, c.Args[1]) == info.Defs[enumLit.Type.Params.List[0].Names[0]]:
			nApp++
		default:
			okKeys = false
		}
	}
	enumN := g.Select(g.Calling(enumC))
	r.Check(okKeys && nApp >= 1 && len(enumN) == 1 && !g.ReachFromEntry(g.Calling(enumC), nil)[cds[0]], rule, f.String(), "cache-keys-from-cache", g.Line(cds[0]),
		"cache and WAL get one key list that is filled only with keys enumerated from the cache (Cache.ApplyEntryFn) before Cache.DeleteRange")
	// the tombstone callback: BatchDelete is always committed or rolled back, success only via Commit
	tg := f.LitGraph(tlit)
	bN := tg.Select(tg.Calling(call("tsdb/engine/tsm1.TSMFile.BatchDelete")))
	if r.Check(len(bN) == 1, rule, f.String(), "BatchDelete:absent", p.Pos(tlit.Pos()), "the callback opens one BatchDelete") {
		open := core.X1ExitsIn(tg.Reach(core.X1Succs(bN[0]), core.AnyOf(tg.Calling(commitC), tg.Calling(rollC)), nil))
		r.Check(len(open) == 0, rule, f.String(), "batch-closed", tg.Line(bN[0]), "every path from BatchDelete() ends in Commit or Rollback (tombstones flushed or dropped, delete lock released)")
		bad := false
		for _, x := range core.X1ExitsIn(tg.Reach(core.X1Succs(bN[0]), tg.Calling(commitC), nil)) {
			for _, s := range tg.SuccessExits() {
				if s == x {
					bad = true
				}
			}
		}
		r.Check(!bad, rule, f.String(), "success-only-via-Commit", tg.Line(bN[0]), "the callback reports success for a file it opened a batch on only through Commit")
	}
	// effects only for a non-empty key list
	nonEmpty := g.ReachFromEntry(nil, core.X1LenZeroEdge(info, core.X1IsObj(info, keysP), false))
	okGate := true
	for _, n := range g.Select(core.AnyOf(g.Calling(applyC), g.Calling(cdC), g.Calling(wdC))) {
		if nonEmpty[n] {
			okGate = false
		}
	}
	r.Check(okGate, rule, f.String(), "no-effect-for-empty-batch", f.Pos(), "files, cache and WAL are touched only after len(seriesKeys) == 0 was refuted")

	// error discipline
	// each FileStore.Apply by role, so that one dropped error cannot hide another
	uses := core.ErrorsUsed(f, applyC, false)
	r.Check(len(uses) >= 3, "delete-errors", f.String(), "FileStore.Apply:count", f.Pos(), fmt.Sprintf("%d FileStore.Apply calls (overlap probe, tombstone batch, index reconcile)", len(uses)))
	for _, u := range uses {
		role := "index-reconcile"
		for _, a := range u.Call.Args {
			if fl, ok := ast.Unparen(a).(*ast.FuncLit); ok {
				switch {
				case fl == tlit:
					role = "tombstone-batch"
				case flag != nil && core.X1MentionsObj(info, fl.Body, flag):
					role = "overlap-probe"
				}
			}
		}
		r.Check(u.OK, "delete-errors", f.String(), "FileStore.Apply#"+role, p.Pos(u.Call.Pos()), "error of FileStore.Apply ("+role+"): "+u.Why)
	}
	core.RuleErrorsUsed(r, f, "delete-errors", "BatchDeleter.DeleteRange/Commit, WAL.DeleteRange", core.Or(bdrC, commitC, wdC), false, 3)
}

// ---------------------------------------------------------------- (2) compactions disabled

// x1ConstTrueCall matches calls of class m whose first argument is the constant true.
func x1ConstTrueCall(info *types.Info, m core.Matcher) core.Matcher {
	return func(i *types.Info, c *ast.CallExpr) bool {
		return m(i, c) && len(c.Args) == 1 && core.X1IsConstBool(info, c.Args[0], true)
	}
}

func x1C03CompactionsDisabled(p *core.Prog, r *core.Report) {
	const rule = "compactions-disabled"
	f := r.Need(p, tsm1, "Engine.DeleteSeriesRangeWithPredicate")
	if f == nil {
		return
	}
	info, g := f.Info(), f.Graph()
	delC := call("tsdb/engine/tsm1.Engine.deleteSeriesRange")
	disAny, enAny := call("tsdb/engine/tsm1.Engine.disableLevelCompactions"), call("tsdb/engine/tsm1.Engine.enableLevelCompactions")
	dis := g.Calling(x1ConstTrueCall(info, disAny))
	en := g.Deferring(x1ConstTrueCall(info, enAny))
	// no disable/enable with another argument
	okArgs := len(core.AllCalls(info, f.Decl.Body, disAny)) == len(g.Select(dis)) && len(core.AllCalls(info, f.Decl.Body, enAny)) == len(g.Select(en))
	r.Check(okArgs && len(g.Select(dis)) == 1 && len(g.Select(en)) == 1, rule, f.String(), "disable(true)/defer-enable(true)", f.Pos(),
		"level compactions are disabled with wait=true (counted) and re-enabled by a deferred enableLevelCompactions(true)")
	dels := core.AllCalls(info, f.Decl.Body, delC)
	if !r.Check(len(dels) >= 2, rule, f.String(), "deleteSeriesRange:absent", f.Pos(), "two deleteSeriesRange sites (flush in loop, final batch)") {
		return
	}
	batch := x1ArgObj(info, dels[0], 1)
	okBatch := batch != nil
	for _, c := range dels {
		if x1ArgObj(info, c, 1) != batch {
			okBatch = false
		}
	}
	// assignments to the batch: make(…, 0, n), batch[:0], append(batch, key)
	var appends []*core.Node
	for _, n := range g.Select(g.X1StoresToObj(batch)) {
		as, ok := n.N.(*ast.AssignStmt)
		if !ok || len(as.Lhs) != 1 || len(as.Rhs) != 1 {
			okBatch = false
			continue
		}
		switch rhs := ast.Unparen(as.Rhs[0]).(type) {
		case *ast.CallExpr:
			switch {
			case core.Builtin("make")(info, rhs) && len(rhs.Args) >= 2 && core.X1IsConstInt(info, rhs.Args[1], 0):
			case core.Builtin("append")(info, rhs) && core.ObjOf(info, rhs.Args[0]) == batch:
				appends = append(appends, n)
			default:
				okBatch = false
			}
		case *ast.SliceExpr:
			if core.ObjOf(info, rhs.X) != batch || rhs.High == nil || !core.X1IsConstInt(info, rhs.High, 0) {
				okBatch = false
			}
		default:
			okBatch = false
		}
	}
	if !r.Check(okBatch && len(appends) >= 1, rule, f.String(), "batch-shape", f.Pos(), "every deleteSeriesRange gets the one batch slice, which starts empty and only grows by append") {
		return
	}
	// the once flag: a local bool set to true behind the disable call
	var flag types.Object
	// (found behind any disable call, whatever its argument, so that a wrong argument is reported once)
	behind := g.ReachFromEntry(core.AnyOf(g.Calling(disAny), g.Calling(call("tsdb.SeriesFile.DisableCompactions"))), nil)
	for _, n := range g.Nodes {
		if as, ok := n.N.(*ast.AssignStmt); ok && len(as.Lhs) == 1 && len(as.Rhs) == 1 && core.X1IsConstBool(info, as.Rhs[0], true) && !behind[n] {
			if o := core.ObjOf(info, as.Lhs[0]); o != nil {
				flag = o
			}
		}
	}
	check := func(what string, gate core.NodePred) {
		ungated, ok, why := g.X1OnceGate(gate, flag)
		if !r.Check(ok, rule, f.String(), what+":once-flag", f.Pos(), "the run-once flag guarding "+what+" starts false, is only ever set to true, and only behind the gate "+why) {
			return
		}
		bad := false
		for _, a := range appends {
			if ungated[a] {
				bad = true
			}
		}
		r.Check(!bad, rule, f.String(), what+"<batch-append", g.Line(appends[0]), "a key enters the delete batch only after "+what)
	}
	check("disableLevelCompactions(true)", dis)
	check("defer enableLevelCompactions(true)", en)
	sfDis, sfEn := g.Calling(call("tsdb.SeriesFile.DisableCompactions")), g.Deferring(call("tsdb.SeriesFile.EnableCompactions"))
	if r.Check(len(g.Select(sfDis)) == 1 && len(g.Select(sfEn)) == 1, rule, f.String(), "SeriesFile.Disable/EnableCompactions:absent", f.Pos(), "series-file compactions are disabled with a deferred enable") {
		check("SeriesFile.DisableCompactions", sfDis)
		check("defer SeriesFile.EnableCompactions", sfEn)
	}
	// pairing: from each disable every path registers the matching deferred enable before it can leave
	pair := func(what string, d, e core.NodePred) {
		ok := len(g.Select(d)) >= 1
		for _, n := range g.Select(d) {
			if len(core.X1ExitsIn(g.Reach(core.X1Succs(n), e, nil))) > 0 {
				ok = false
			}
		}
		r.Check(ok, rule, f.String(), what+":paired", f.Pos(), "after "+what+" no exit is reachable before its enable is deferred")
	}
	pair("disableLevelCompactions", dis, en)
	pair("SeriesFile.DisableCompactions", sfDis, sfEn)
	tsiDis, tsiEn := g.Calling(call("tsdb/index/tsi1.Index.DisableCompactions")), g.Deferring(call("tsdb/index/tsi1.Index.EnableCompactions"))
	if r.Check(len(g.Select(tsiDis)) == 1 && len(g.Select(tsiEn)) == 1, rule, f.String(), "tsi1.Disable/EnableCompactions:absent", f.Pos(), "TSI compactions are disabled with a deferred enable") {
		pair("tsi1.Index.DisableCompactions", tsiDis, tsiEn)
		// taken whenever the index is a TSI index: deleteSeriesRange is reachable without it only through the failed type assertion
		var okVar types.Object
		ast.Inspect(f.Decl.Body, func(n ast.Node) bool {
			if as, ok := n.(*ast.AssignStmt); ok && len(as.Lhs) == 2 && len(as.Rhs) == 1 {
				if ta, ok := ast.Unparen(as.Rhs[0]).(*ast.TypeAssertExpr); ok && ta.Type != nil && strings.HasSuffix(types.TypeString(info.TypeOf(ta.Type), nil), "tsi1.Index") {
					okVar = core.ObjOf(info, as.Lhs[1])
				}
			}
			return true
		})
		noTsi := g.ReachFromEntry(tsiDis, core.X1BoolEdge(core.X1IsObj(info, okVar), false))
		bad := okVar == nil
		for _, a := range appends {
			if noTsi[a] {
				bad = true
			}
		}
		r.Check(!bad, rule, f.String(), "tsi-disable<batch-append", f.Pos(), "when the index is a *tsi1.Index its compactions are disabled before any key is batched")
	}
	core.RuleErrorsUsed(r, f, "delete-errors", "deleteSeriesRange", delC, false, 2)
}

// ---------------------------------------------------------------- (3) abort mechanism

func x1CloseOfField(g *core.Graph, fld *types.Var) core.NodePred {
	return g.X1CallingWith(core.Builtin("close"), func(c *ast.CallExpr) bool {
		return fld != nil && len(c.Args) == 1 && core.FieldOf(g.Info, c.Args[0]) == fld
	})
}

func x1C03Abort(p *core.Prog, r *core.Report) {
	const rule = "abort-mechanism"
	pk := p.Pkg(tsm1).Types
	doneF := core.LookupField(pk, "Engine", "done")
	workersF := core.LookupField(pk, "Engine", "levelWorkers")
	if !r.Check(doneF != nil && workersF != nil, "anchor", "tsm1.Engine.done/levelWorkers", "unresolved", "-", "fields resolved") {
		return
	}
	counted := func(f *core.Func, g *core.Graph, tok token.Token, opTok token.Token, what string) {
		info := f.Info()
		waitP := types.Object(f.X1Param(0))
		unwaited := g.ReachFromEntry(nil, core.X1BoolEdge(core.X1IsObj(info, waitP), true))
		st := g.Select(g.Assigning(workersF))
		ok := len(st) == 1
		for _, n := range st {
			switch s := n.N.(type) {
			case *ast.IncDecStmt:
				ok = ok && s.Tok == tok
			case *ast.AssignStmt:
				ok = ok && s.Tok == opTok && len(s.Rhs) == 1 && core.X1IsConstInt(info, s.Rhs[0], 1)
			default:
				ok = false
			}
			if unwaited[n] {
				ok = false
			}
		}
		r.Check(ok, rule, f.String(), "levelWorkers-"+what, f.Pos(), "levelWorkers is "+what+" by exactly one, only under wait == true")
	}
	if f := r.Need(p, tsm1, "Engine.disableLevelCompactions"); f != nil {
		g := f.Graph()
		closeDone := x1CloseOfField(g, doneF)
		cd := g.Select(closeDone)
		disC := g.Calling(call("tsdb/engine/tsm1.Compactor.DisableCompactions"))
		if r.Check(len(cd) == 1 && len(g.Select(disC)) >= 1, rule, f.String(), "close(e.done)/DisableCompactions:absent", f.Pos(), "stops the compactor and closes e.done") {
			r.Check(!g.ReachFromEntry(disC, nil)[cd[0]], rule, f.String(), "DisableCompactions<close(done)", g.Line(cd[0]), "running compactions are interrupted (Compactor.DisableCompactions) before the workers are told to stop")
			r.Check(len(core.X1ExitsIn(g.Reach(core.X1Succs(cd[0]), g.Calling(call("sync.WaitGroup.Wait")), nil))) == 0, rule, f.String(), "waits-for-workers", g.Line(cd[0]),
				"after stopping the workers every return passes WaitGroup.Wait (no compaction goroutine is still installing files when the delete starts)")
		}
		counted(f, g, token.INC, token.ADD_ASSIGN, "incremented")
	}
	if f := r.Need(p, tsm1, "Engine.enableLevelCompactions"); f != nil {
		info, g := f.Info(), f.Graph()
		enN := g.Select(g.Calling(call("tsdb/engine/tsm1.Compactor.EnableCompactions")))
		zero := core.X1CmpEdge(core.X1IsField(info, workersF), core.X1IsIntConst(info, 0), core.X1EQ)
		ok := len(enN) == 1
		for _, n := range enN {
			if g.ReachFromEntry(nil, zero)[n] {
				ok = false
			}
		}
		r.Check(ok, rule, f.String(), "enable-at-zero-workers", f.Pos(), "Compactor.EnableCompactions is reachable only through a branch that established levelWorkers == 0 (a second, still running delete keeps compactions off)")
		counted(f, g, token.DEC, token.SUB_ASSIGN, "decremented")
	}
	enabledF := core.LookupField(pk, "Compactor", "compactionsEnabled")
	intrF := core.LookupField(pk, "Compactor", "compactionsInterrupt")
	if f := r.Need(p, tsm1, "Compactor.DisableCompactions"); f != nil {
		info, g := f.Info(), f.Graph()
		clr := func(n *core.Node) bool {
			as, ok := n.N.(*ast.AssignStmt)
			return ok && len(as.Lhs) == 1 && len(as.Rhs) == 1 && core.FieldOf(info, as.Lhs[0]) == enabledF && core.X1IsConstBool(info, as.Rhs[0], false)
		}
		okClr := len(g.Select(g.Assigning(enabledF))) == len(g.Select(clr)) && len(g.Select(clr)) >= 1 && len(core.X1ExitsIn(g.ReachFromEntry(clr, nil))) == 0
		r.Check(okClr, rule, f.String(), "clears-flag", f.Pos(), "every path sets compactionsEnabled = false")
		cl := x1CloseOfField(g, intrF)
		left := core.X1ExitsIn(g.ReachFromEntry(cl, core.X1NilEdge(info, core.X1IsField(info, intrF), true)))
		r.Check(len(g.Select(cl)) == 1 && len(left) == 0, rule, f.String(), "closes-interrupt", f.Pos(), "every path closes compactionsInterrupt unless it is already nil")
	}
	if f := r.Need(p, tsm1, "Compactor.compact"); f != nil {
		info := f.Info()
		ni := x1FirstCall(f, call("tsdb/engine/tsm1.NewTSMBatchKeyIterator"))
		ok := false
		if ni != nil && len(ni.Args) >= 4 {
			as := core.X1AssignmentsTo(info, f.Decl.Body, x1ArgObj(info, ni, 3))
			ok = len(as) == 1 && as[0].Rhs != nil && core.FieldOf(info, as[0].Rhs) == intrF
		}
		r.Check(ok, rule, f.String(), "interrupt-handed-to-iterator", f.Pos(), "the merge iterator receives c.compactionsInterrupt")
	}
	if f := r.Need(p, tsm1, "NewTSMBatchKeyIterator"); f != nil {
		info := f.Info()
		ok := false
		ast.Inspect(f.Decl.Body, func(n ast.Node) bool {
			if kv, isKV := n.(*ast.KeyValueExpr); isKV {
				if k, isID := kv.Key.(*ast.Ident); isID && k.Name == "interrupt" && core.ObjOf(info, kv.Value) == types.Object(f.X1Param(3)) {
					ok = true
				}
			}
			return true
		})
		r.Check(ok, rule, f.String(), "stores-interrupt", f.Pos(), "the iterator keeps the interrupt channel it was given")
	}
	if f := r.Need(p, tsm1, "tsmBatchKeyIterator.Read"); f != nil {
		info, g := f.Info(), f.Graph()
		itF := core.LookupField(pk, "tsmBatchKeyIterator", "interrupt")
		var comm []*core.Node
		for _, n := range g.Nodes {
			if es, ok := n.N.(*ast.ExprStmt); ok {
				if u, ok := ast.Unparen(es.X).(*ast.UnaryExpr); ok && u.Op == token.ARROW && core.FieldOf(info, u.X) == itF && itF != nil {
					comm = append(comm, n)
				}
			}
		}
		ok := len(comm) == 1
		if ok {
			// the receive clause is the first successor; everything reachable from it fails
			body := comm[0].Succ[0].To
			exits := core.X1ExitsIn(g.Reach([]*core.Node{body}, nil, nil))
			ok = len(exits) >= 1 && len(comm[0].Succ) == 2
			for _, x := range exits {
				if g.X1IsSuccessExit(x) {
					ok = false
				}
			}
			// and the receive is evaluated before any block is handed out
			for _, x := range g.Exits {
				if rs, isRet := x.N.(*ast.ReturnStmt); isRet && len(rs.Results) == 5 && !core.IsNilIdent(info, rs.Results[0]) && g.ReachFromEntry(func(n *core.Node) bool { return n == comm[0] }, nil)[x] {
					ok = false
				}
			}
		}
		r.Check(ok, rule, f.String(), "read-fails-when-interrupted", f.Pos(), "Read polls the interrupt channel first and returns an error once it is closed (the compaction's output is then discarded by Compactor.write)")
	}
	x1AbortRecheck(p, r, rule)
	x1CompactGroupRule(p, r, rule)
}

// ---------------------------------------------------------------- (4) read filter

func x1C03ReadFilter(p *core.Prog, r *core.Report) {
	const rule = "tombstone-read-filter"
	pk := p.Pkg(tsm1).Types
	keyF := core.LookupField(pk, "KeyCursor", "key")
	trMin, trMax := core.LookupField(pk, "TimeRange", "Min"), core.LookupField(pk, "TimeRange", "Max")
	trC := call("tsdb/engine/tsm1.TSMFile.TombstoneRange")
	sites := 0
	for _, t := range x1TsmT {
		for _, arr := range []bool{false, true} {
			fn, readName, exName := "KeyCursor.Read"+t+"Block", "tsdb/engine/tsm1.TSMFile.Read"+t+"BlockAt", "tsdb/engine/tsm1.excludeTombstones"+t+"Values"
			if arr {
				fn, readName, exName = "KeyCursor.Read"+t+"ArrayBlock", "tsdb/engine/tsm1.TSMFile.Read"+t+"ArrayBlockAt", "tsdb/engine/tsm1.excludeTombstones"+t+"Array"
			}
			f := r.Need(p, tsm1, fn)
			if f == nil {
				continue
			}
			info, g := f.Info(), f.Graph()
			readC, exC := call(readName), call(exName)
			reads := g.Select(g.Calling(readC))
			ok := len(reads) == 3
			for _, n := range reads {
				rc := core.CallsIn(info, n.N, readC, core.WalkOpts{})[0]
				loc := core.X1RootObj(info, x1RecvExpr(rc)) // first / cur
				var target types.Object                     // the values just read
				if arr {
					target = core.X1RootObj(info, rc.Args[1])
				} else if as, isAs := n.N.(*ast.AssignStmt); isAs && len(as.Lhs) == 2 {
					target = core.ObjOf(info, as.Lhs[0])
				}
				filtered := g.X1CallingWith(exC, func(c *ast.CallExpr) bool {
					if len(c.Args) != 2 || core.X1RootObj(info, c.Args[1]) != target {
						return false
					}
					cs, from := core.X1OnlyFromCall(info, f.Decl.Body, core.ObjOf(info, c.Args[0]), trC, 0)
					if !from || len(cs) != 1 {
						return false
					}
					return core.X1RootObj(info, x1RecvExpr(cs[0])) == loc && len(cs[0].Args) == 1 && core.FieldOf(info, cs[0].Args[0]) == keyF
				})
				raw := g.Reach(core.X1Succs(n), filtered, nil)
				bad := loc == nil || target == nil || len(g.Select(filtered)) == 0
				for _, m := range reads {
					if raw[m] {
						bad = true
					}
				}
				for _, x := range core.X1ExitsIn(raw) {
					if g.X1IsSuccessExit(x) {
						bad = true
					}
				}
				// non-array form: the filtered result replaces the values
				if !arr {
					for _, fnode := range g.Select(filtered) {
						if !raw[fnode] && !x1FirstStop(g, n, filtered, fnode) {
							continue
						}
						as, isAs := fnode.N.(*ast.AssignStmt)
						if !isAs || len(as.Lhs) != 1 || core.ObjOf(info, as.Lhs[0]) != target {
							bad = true
						}
					}
				}
				if bad {
					ok = false
					r.Bad(rule, f.String(), "unfiltered-block", g.Line(n), "a block read here can be merged/returned, or the next block read, without excludeTombstones(TombstoneRange(c.key) of the same file)")
				} else {
					sites++
				}
			}
			if ok {
				r.Ok(rule, f.String(), f.Pos(), "all 3 block reads are followed by the tombstone filter of their own file before use")
			} else if len(reads) != 3 {
				r.Bad(rule, f.String(), "reads:count", f.Pos(), fmt.Sprintf("%d block reads found, 3 confirmed by reading", len(reads)))
			}
			// helper
			hn := strings.TrimPrefix(exName, "tsdb/engine/tsm1.")
			if h := r.Need(p, tsm1, hn); h != nil {
				hi := h.Info()
				exclC := call("tsdb/engine/tsm1."+t+"Values.Exclude", "tsdb/cursors."+t+"Array.Exclude")
				okH := false
				ast.Inspect(h.Decl.Body, func(x ast.Node) bool {
					rs, isR := x.(*ast.RangeStmt)
					if !isR || core.ObjOf(hi, rs.X) != types.Object(h.X1Param(0)) {
						return true
					}
					for _, c := range core.AllCalls(hi, rs.Body, exclC) {
						if core.X1RootObj(hi, x1RecvExpr(c)) == types.Object(h.X1Param(1)) && len(c.Args) == 2 &&
							core.FieldOf(hi, c.Args[0]) == trMin && core.X1RootObj(hi, c.Args[0]) == types.Object(h.X1Param(0)) &&
							core.FieldOf(hi, c.Args[1]) == trMax && core.X1RootObj(hi, c.Args[1]) == types.Object(h.X1Param(0)) {
							okH = true
							// index expression is the loop variable (every range is applied)
							for _, a := range c.Args {
								if ix, isIx := ast.Unparen(a).(*ast.SelectorExpr).X.(*ast.IndexExpr); !isIx || rs.Key == nil || core.ObjOf(hi, ix.Index) != core.ObjOf(hi, rs.Key) {
									okH = false
								}
							}
						}
					}
					// unconditional body
					if len(rs.Body.List) != 1 {
						okH = false
					}
					return true
				})
				if !arr && okH {
					// result flows back: values = values.Exclude(…); return values
					hg := h.Graph()
					for _, x := range hg.Exits {
						if rs, isRet := x.N.(*ast.ReturnStmt); !isRet || len(rs.Results) != 1 || core.ObjOf(hi, rs.Results[0]) != types.Object(h.X1Param(1)) {
							okH = false
						}
					}
					for _, a := range core.X1AssignmentsTo(hi, h.Decl.Body, h.X1Param(1)) {
						c, isCall := a.Rhs.(*ast.CallExpr)
						if a.Rhs == nil || !isCall || !exclC(hi, c) {
							okH = false
						}
					}
					if len(core.X1AssignmentsTo(hi, h.Decl.Body, h.X1Param(1))) != 1 {
						okH = false
					}
				}
				r.Check(okH, rule, h.String(), "excludes-every-range", h.Pos(), "for every i: values.Exclude(t[i].Min, t[i].Max) on the values passed in (result kept)")
			}
		}
	}
	r.Check(sites >= 30, rule, "tsm1.KeyCursor.Read*Block", "count", "-", fmt.Sprintf("%d filtered block reads verified (30 confirmed by reading)", sites))

	// FileStore.locations: a block is skipped only when one tombstone covers it completely
	if f := r.Need(p, tsm1, "FileStore.locations"); f != nil {
		info := f.Info()
		ieMin, ieMax := core.LookupField(pk, "IndexEntry", "MinTime"), core.LookupField(pk, "IndexEntry", "MaxTime")
		n, ok := 0, true
		ast.Inspect(f.Decl.Body, func(x ast.Node) bool {
			rs, isR := x.(*ast.RangeStmt)
			if !isR {
				return true
			}
			if _, from := core.X1OnlyFromCall(info, f.Decl.Body, core.ObjOf(info, rs.X), trC, 0); !from {
				return true
			}
			n++
			for _, st := range rs.Body.List {
				is, isIf := st.(*ast.IfStmt)
				if !isIf {
					ok = false // anything else in the tombstone loop could skip blocks
					continue
				}
				skips := false
				ast.Inspect(is.Body, func(y ast.Node) bool {
					if b, isB := y.(*ast.BranchStmt); isB && (b.Tok == token.CONTINUE || b.Tok == token.BREAK || b.Tok == token.GOTO) {
						skips = true
					}
					return true
				})
				if !skips {
					continue
				}
				atoms, conj := core.X1Conjuncts(is.Cond)
				lo, hi := false, false
				for _, a := range atoms {
					if core.X1AtomHolds(a, core.X1IsField(info, trMin), core.X1IsField(info, ieMin), core.X1LE) {
						lo = true
					}
					if core.X1AtomHolds(a, core.X1IsField(info, trMax), core.X1IsField(info, ieMax), core.X1GE) {
						hi = true
					}
				}
				if !conj || !lo || !hi || is.Else != nil {
					ok = false
				}
			}
			return true
		})
		r.Check(n == 1 && ok, rule, f.String(), "skip-only-if-covered", f.Pos(), "a block is dropped from the read plan only under t.Min <= entry.MinTime && t.Max >= entry.MaxTime (points outside the deleted range stay readable)")
		core.RuleHasCall(r, f, rule, "TSMFile.TombstoneRange", trC)
	}
}

// ---------------------------------------------------------------- (5) tombstone commit

func x1C03TombstoneCommit(p *core.Prog, r *core.Report) {
	const rule = "tombstone-commit"
	flushC := call("tsdb/engine/tsm1.Tombstoner.Flush")
	applyT := call("tsdb/engine/tsm1.TSMReader.applyTombstones")
	if f := r.Need(p, tsm1, "batchDelete.Commit"); f != nil {
		core.RuleOrder(r, f, rule, []string{"Tombstoner.Flush", "applyTombstones"}, []core.Matcher{flushC, applyT})
		core.RuleNotAfterFailure(r, f, rule, "Tombstoner.Flush", flushC, "applyTombstones", applyT)
		core.RuleMustPass(r, f, rule, "applyTombstones", applyT, false)
		core.RuleErrorsUsed(r, f, rule, "Flush/applyTombstones", core.Or(flushC, applyT), false, 2)
	}
	if f := r.Need(p, tsm1, "batchDelete.Rollback"); f != nil {
		core.RuleMustPass(r, f, rule, "Tombstoner.Rollback", call("tsdb/engine/tsm1.Tombstoner.Rollback"), false)
	}
	if f := r.Need(p, tsm1, "batchDelete.DeleteRange"); f != nil {
		info, g := f.Info(), f.Graph()
		addC := call("tsdb/engine/tsm1.Tombstoner.AddRange")
		noOverlap := core.X1FactPred(func(ft core.X1Fact) bool {
			c, ok := ft.E.(*ast.CallExpr)
			return ok && !ft.True && call("tsdb/engine/tsm1.TSMIndex.OverlapsKeyRange", "tsdb/engine/tsm1.TSMIndex.OverlapsTimeRange")(info, c)
		})
		exempt := core.X1FactEdge(core.X1AnyFact(core.X1LenZeroFact(info, core.X1IsObj(info, f.X1Param(0)), true), noOverlap))
		core.RuleMustPassN(r, f, g, rule, "Tombstoner.AddRange", g.Calling(addC), exempt)
		c := x1FirstCall(f, addC)
		r.Check(c != nil && x1ArgObj(info, c, 0) == types.Object(f.X1Param(0)) && x1ArgObj(info, c, 1) == types.Object(f.X1Param(1)) && x1ArgObj(info, c, 2) == types.Object(f.X1Param(2)),
			rule, f.String(), "AddRange-arguments", f.Pos(), "AddRange(keys, minTime, maxTime) gets the parameters unchanged")
		core.RuleErrorsUsed(r, f, rule, "AddRange", addC, false, 1)
	}
	if f := r.Need(p, tsm1, "Tombstoner.AddRange"); f != nil {
		info := f.Info()
		n, ok := 0, true
		ast.Inspect(f.Decl.Body, func(x ast.Node) bool {
			cl, isCL := x.(*ast.CompositeLit)
			if !isCL {
				return true
			}
			if nt, isNamed := info.TypeOf(cl).(*types.Named); !isNamed || nt.Obj().Name() != "Tombstone" {
				return true
			}
			n++
			got := map[string]types.Object{}
			for _, el := range cl.Elts {
				if kv, isKV := el.(*ast.KeyValueExpr); isKV {
					if k, isID := kv.Key.(*ast.Ident); isID {
						got[k.Name] = core.ObjOf(info, kv.Value)
					}
				}
			}
			// Key is the range variable of a loop over the keys parameter
			keyOK := false
			ast.Inspect(f.Decl.Body, func(y ast.Node) bool {
				if rs, isR := y.(*ast.RangeStmt); isR && core.ObjOf(info, rs.X) == types.Object(f.X1Param(0)) && rs.Value != nil &&
					core.ObjOf(info, rs.Value) == got["Key"] && rs.Pos() <= cl.Pos() && cl.End() <= rs.End() {
					keyOK = true
				}
				return true
			})
			if !keyOK || got["Min"] != types.Object(f.X1Param(1)) || got["Max"] != types.Object(f.X1Param(2)) {
				ok = false
			}
			return true
		})
		r.Check(n == 2 && ok, rule, f.String(), "tombstone-record", f.Pos(), "both Tombstone literals record (key of the loop over keys, min, max) of the parameters")
		core.RuleErrorsUsed(r, f, rule, "writeTombstone/writeTombstoneV3/prepareV4", call("tsdb/engine/tsm1.Tombstoner.writeTombstone", "tsdb/engine/tsm1.Tombstoner.writeTombstoneV3", "tsdb/engine/tsm1.Tombstoner.prepareV4"), false, 3)
	}
	if f := r.Need(p, tsm1, "TSMReader.applyTombstones"); f != nil {
		info, g := f.Info(), f.Graph()
		idr := call("tsdb/engine/tsm1.TSMIndex.DeleteRange")
		all := core.AllCalls(info, f.Decl.Body, idr)
		r.Check(len(all) >= 3, rule, f.String(), "index.DeleteRange:count", f.Pos(), fmt.Sprintf("%d TSMIndex.DeleteRange sites (range change, full batch, final batch)", len(all)))
		// the final batch: success exits pass DeleteRange unless the batch is empty
		last := g.Calling(idr)
		var batch types.Object
		for _, c := range core.CallsIn(info, x1FirstNodeN(g, last), idr, core.WalkOpts{}) {
			batch = x1ArgObj(info, c, 0)
		}
		core.RuleMustPassN(r, f, g, rule, "final index.DeleteRange(unless batch empty)", last, core.X1LenZeroEdge(info, core.X1IsObj(info, batch), true))
		core.RuleErrorsUsed(r, f, rule, "Tombstoner.Walk", call("tsdb/engine/tsm1.Tombstoner.Walk"), false, 1)
		// the ranges applied are those of the tombstones walked (fields Min/Max of Tombstone)
		tMin, tMax := core.LookupField(f.Pkg.Types, "Tombstone", "Min"), core.LookupField(f.Pkg.Types, "Tombstone", "Max")
		ok := true
		for _, c := range all {
			if len(c.Args) != 3 || core.FieldOf(info, c.Args[1]) != tMin || core.FieldOf(info, c.Args[2]) != tMax || core.X1RootObj(info, c.Args[1]) != core.X1RootObj(info, c.Args[2]) {
				ok = false
			}
		}
		r.Check(ok, rule, f.String(), "applies-Min-Max", f.Pos(), "every index.DeleteRange gets (batch, x.Min, x.Max) of one tombstone")
	}
	if f := r.Need(p, tsm1, "TSMReader.Delete"); f != nil {
		core.RuleOrder(r, f, rule, []string{"Tombstoner.Add", "Tombstoner.Flush", "TSMIndex.Delete"},
			[]core.Matcher{call("tsdb/engine/tsm1.Tombstoner.Add"), flushC, call("tsdb/engine/tsm1.TSMIndex.Delete")})
		core.RuleErrorsUsed(r, f, rule, "Add/Flush", core.Or(call("tsdb/engine/tsm1.Tombstoner.Add"), flushC), false, 2)
	}
	if f := r.Need(p, tsm1, "TSMReader.DeleteRange"); f != nil {
		core.RuleMustPassN(r, f, f.Graph(), rule, "BatchDeleter.Commit", f.Graph().Calling(call("tsdb/engine/tsm1.BatchDeleter.Commit")), core.X1LenZeroEdge(f.Info(), core.X1IsObj(f.Info(), f.X1Param(0)), true))
		core.RuleErrorsUsed(r, f, rule, "DeleteRange/Commit", call("tsdb/engine/tsm1.BatchDeleter.DeleteRange", "tsdb/engine/tsm1.BatchDeleter.Commit"), false, 2)
	}
	if f := r.Need(p, tsm1, "indirectIndex.TombstoneRange"); f != nil {
		tf := core.LookupField(f.Pkg.Types, "indirectIndex", "tombstones")
		r.Check(core.X1MentionsField(f.Info(), f.Decl.Body, tf), rule, f.String(), "reads-tombstones", f.Pos(), "returns the ranges recorded in d.tombstones")
	}
	if f := r.Need(p, tsm1, "indirectIndex.DeleteRange"); f != nil {
		tf := core.LookupField(f.Pkg.Types, "indirectIndex", "tombstones")
		g := f.Graph()
		r.Check(len(g.Select(g.Assigning(tf))) >= 1 && core.HasCall(f, call("tsdb/engine/tsm1.indirectIndex.Delete")), rule, f.String(), "records-ranges", f.Pos(),
			"partial ranges are stored in d.tombstones, fully covered keys are dropped through d.Delete")
	}
}

func x1FirstNodeN(g *core.Graph, p core.NodePred) ast.Node {
	ns := g.Select(p)
	if len(ns) == 0 {
		return nil
	}
	return ns[len(ns)-1].N
}

// ---------------------------------------------------------------- (6) store coverage

// x1StorePaths collects the field chains (relative to the receiver) through which
// methods of the cache's storer are invoked in f, resolving one level of local
// aliases (`store := c.store`).
func x1StorePaths(f *core.Func, m core.Matcher) map[string]string {
	info := f.Info()
	out := map[string]string{}
	recv := types.Object(f.X1Recv())
	for _, c := range core.AllCalls(info, f.Decl.Body, m) {
		root, path, ok := core.X1FieldPath(info, x1RecvExpr(c))
		if !ok {
			continue
		}
		if root != recv && len(path) == 0 {
			as := core.X1AssignmentsTo(info, f.Decl.Body, root)
			if len(as) == 1 && as[0].Rhs != nil {
				root, path, ok = core.X1FieldPath(info, as[0].Rhs)
			}
		}
		if ok && root == recv && len(path) > 0 {
			out[core.X1PathString(path)] = f.Prog.Pos(c.Pos())
		}
	}
	return out
}

func x1C03StoreCoverage(p *core.Prog, r *core.Report) {
	const rule = "store-coverage"
	rd := r.Need(p, tsm1, "Cache.Values")
	del := r.Need(p, tsm1, "Cache.DeleteRange")
	enum := r.Need(p, tsm1, "Cache.ApplyEntryFn")
	if rd == nil || del == nil || enum == nil {
		return
	}
	read := x1StorePaths(rd, call("tsdb/engine/tsm1.storer.entry"))
	filtered := x1StorePaths(del, call("tsdb/engine/tsm1.storer.entry"))
	enumerated := x1StorePaths(enum, call("tsdb/engine/tsm1.storer.apply*", "tsdb/engine/tsm1.storer.keys"))
	var rs []string
	for k := range read {
		rs = append(rs, k)
	}
	sort.Strings(rs)
	if !r.Check(len(read) >= 2 && len(filtered) >= 1 && len(enumerated) >= 1, rule, del.String(), "paths:absent", del.Pos(),
		fmt.Sprintf("read path consults %v, DeleteRange filters %v, delete enumerates keys of %v", rs, x1KeysOf(filtered), x1KeysOf(enumerated))) {
		return
	}
	// mutual exclusion of delete and snapshot? (delete would have to stop snapshots or hold e.mu exclusively)
	excl := false
	for _, n := range []string{"Engine.DeleteSeriesRangeWithPredicate", "Engine.deleteSeriesRange"} {
		if f := r.Need(p, tsm1, n); f != nil {
			if core.HasCall(f, call("tsdb/engine/tsm1.Engine.disableSnapshotCompactions", "tsdb/engine/tsm1.Compactor.DisableSnapshots")) {
				excl = true
			}
			// e.mu.Lock() held across the delete
			for _, c := range core.AllCalls(f.Info(), f.Decl.Body, call("sync.RWMutex.Lock")) {
				if _, path, ok := core.X1FieldPath(f.Info(), x1RecvExpr(c)); ok && len(path) == 1 && path[0] == core.LookupField(f.Pkg.Types, "Engine", "mu") {
					excl = true
				}
			}
		}
	}
	for _, k := range rs {
		ok := (filtered[k] != "" && enumerated[k] != "") || excl
		r.Check(ok, rule, del.String(), k, read[k],
			"Cache.Values reads c."+k+"; a range delete must filter it too (Cache.DeleteRange filters "+strings.Join(x1KeysOf(filtered), ",")+", deleteSeriesRange enumerates keys of "+strings.Join(x1KeysOf(enumerated), ",")+
				fmt.Sprintf("; delete/snapshot mutually exclusive: %v)", excl))
	}
}

func x1KeysOf(m map[string]string) []string {
	var out []string
	for k := range m {
		out = append(out, k)
	}
	sort.Strings(out)
	return out
}

// ---------------------------------------------------------------- (7) WAL record

func x1C03WalRecord(p *core.Prog, r *core.Report) {
	const rule = "wal-delete-record"
	litFields := func(f *core.Func, typ string) (map[string]types.Object, int) {
		got, n := map[string]types.Object{}, 0
		ast.Inspect(f.Decl.Body, func(x ast.Node) bool {
			cl, ok := x.(*ast.CompositeLit)
			if !ok {
				return true
			}
			if nt, isNamed := f.Info().TypeOf(cl).(*types.Named); !isNamed || nt.Obj().Name() != typ {
				return true
			}
			n++
			for _, el := range cl.Elts {
				if kv, isKV := el.(*ast.KeyValueExpr); isKV {
					if k, isID := kv.Key.(*ast.Ident); isID {
						got[k.Name] = core.ObjOf(f.Info(), kv.Value)
					}
				}
			}
			return true
		})
		return got, n
	}
	wtl := call("tsdb/engine/tsm1.WAL.writeToLog")
	if f := r.Need(p, tsm1, "WAL.DeleteRange"); f != nil {
		got, n := litFields(f, "DeleteRangeWALEntry")
		r.Check(n == 1 && got["Keys"] == types.Object(f.X1Param(1)) && got["Min"] == types.Object(f.X1Param(2)) && got["Max"] == types.Object(f.X1Param(3)), rule, f.String(), "entry-fields", f.Pos(),
			"the logged DeleteRangeWALEntry carries Keys, Min, Max of the parameters")
		core.RuleMustPassN(r, f, f.Graph(), rule, "writeToLog(unless no keys)", f.Graph().Calling(wtl), core.X1LenZeroEdge(f.Info(), core.X1IsObj(f.Info(), f.X1Param(1)), true))
	}
	if f := r.Need(p, tsm1, "WAL.Delete"); f != nil {
		got, n := litFields(f, "DeleteWALEntry")
		r.Check(n == 1 && got["Keys"] == types.Object(f.X1Param(1)), rule, f.String(), "entry-fields", f.Pos(), "the logged DeleteWALEntry carries the Keys parameter")
		core.RuleMustPassN(r, f, f.Graph(), rule, "writeToLog(unless no keys)", f.Graph().Calling(wtl), core.X1LenZeroEdge(f.Info(), core.X1IsObj(f.Info(), f.X1Param(1)), true))
	}
	if f := r.Need(p, tsm1, "CacheLoader.Load"); f != nil {
		info := f.Info()
		pk := f.Pkg.Types
		ok, n := true, 0
		for _, c := range core.AllCalls(info, f.Decl.Body, call("tsdb/engine/tsm1.Cache.DeleteRange")) {
			n++
			want := []*types.Var{core.LookupField(pk, "DeleteRangeWALEntry", "Keys"), core.LookupField(pk, "DeleteRangeWALEntry", "Min"), core.LookupField(pk, "DeleteRangeWALEntry", "Max")}
			for i, w := range want {
				if len(c.Args) != 3 || w == nil || core.FieldOf(info, c.Args[i]) != w || core.X1RootObj(info, c.Args[i]) != core.X1RootObj(info, c.Args[0]) {
					ok = false
				}
			}
			if core.X1RootObj(info, x1RecvExpr(c)) != types.Object(f.X1Param(0)) {
				ok = false
			}
		}
		r.Check(ok && n == 1, rule, f.String(), "replays-range", f.Pos(), "replay applies cache.DeleteRange(t.Keys, t.Min, t.Max) of the logged entry to the cache being loaded")
	}
}

// ---------------------------------------------------------------- (8) Cache.DeleteRange

func x1C03CacheDelete(p *core.Prog, r *core.Report) {
	const rule = "cache-delete-range"
	if f := r.Need(p, tsm1, "Cache.DeleteRange"); f != nil {
		info, g := f.Info(), f.Graph()
		entryC := call("tsdb/engine/tsm1.storer.entry")
		filtC := call("tsdb/engine/tsm1.entry.filter")
		remC := call("tsdb/engine/tsm1.storer.remove")
		look := g.Select(g.Calling(entryC))
		if r.Check(len(look) >= 1, rule, f.String(), "lookup:absent", f.Pos(), "store lookups per key found") {
			okAll := true
			for _, L := range look {
				var e types.Object
				if as, ok := L.N.(*ast.AssignStmt); ok && len(as.Lhs) == 1 {
					e = core.ObjOf(info, as.Lhs[0])
				}
				missing := core.X1NilEdge(info, core.X1IsObj(info, e), true)
				handled := core.AnyOf(g.Calling(remC), g.X1CallingWith(filtC, func(c *ast.CallExpr) bool { return core.X1RootObj(info, x1RecvExpr(c)) == e }))
				un := g.Reach(core.X1Succs(L), handled, missing)
				if e == nil || un[L] || len(core.X1ExitsIn(un)) > 0 {
					okAll = false
				}
			}
			r.Check(okAll, rule, f.String(), "every-found-key-filtered", g.Line(look[0]),
				"a key found in a store is filtered (entry.filter on that entry) or removed before the next key or return")
			// the loop visits every key passed in
			okLoop := false
			ast.Inspect(f.Decl.Body, func(x ast.Node) bool {
				if rs, isR := x.(*ast.RangeStmt); isR && core.ObjOf(info, rs.X) == types.Object(f.X1Param(0)) && rs.Value != nil {
					for _, c := range core.AllCalls(info, rs.Body, entryC) {
						if x1ArgObj(info, c, 0) == core.ObjOf(info, rs.Value) {
							okLoop = true
						}
					}
				}
				return true
			})
			r.Check(okLoop, rule, f.String(), "all-keys", f.Pos(), "the loop ranges over the whole keys parameter")
		}
		ok := false
		for _, c := range core.AllCalls(info, f.Decl.Body, filtC) {
			ok = x1ArgObj(info, c, 0) == types.Object(f.X1Param(1)) && x1ArgObj(info, c, 1) == types.Object(f.X1Param(2))
		}
		r.Check(ok, rule, f.String(), "filter(min,max)", f.Pos(), "entry.filter receives the function's own (min, max)")
	}
	if f := r.Need(p, tsm1, "entry.filter"); f != nil {
		info, g := f.Info(), f.Graph()
		vals := core.LookupField(f.Pkg.Types, "entry", "values")
		exC := call("tsdb/engine/tsm1.Values.Exclude")
		ok := false
		for _, n := range g.Select(g.Assigning(vals)) {
			as, isAs := n.N.(*ast.AssignStmt)
			if !isAs || len(as.Rhs) != 1 {
				continue
			}
			c, isCall := as.Rhs[0].(*ast.CallExpr)
			if isCall && exC(info, c) && core.FieldOf(info, x1RecvExpr(c)) == vals && x1ArgObj(info, c, 0) == types.Object(f.X1Param(0)) && x1ArgObj(info, c, 1) == types.Object(f.X1Param(1)) {
				ok = len(core.X1ExitsIn(g.ReachFromEntry(func(m *core.Node) bool { return m == n }, nil))) == 0
			}
		}
		r.Check(ok, rule, f.String(), "values=Exclude(min,max)", f.Pos(), "on every path e.values is replaced by e.values.Exclude(min, max)")
		// Exclude needs sorted, deduplicated input: skipped only for at most one value
		small := core.X1CmpEdge(core.X1IsLenOf(info, core.X1IsField(info, vals)), core.X1IsIntConst(info, 1), core.X1LE)
		raw := g.ReachFromEntry(g.Calling(call("tsdb/engine/tsm1.Values.Deduplicate")), small)
		okD := len(g.Select(g.Calling(exC))) >= 1
		for _, n := range g.Select(g.Calling(exC)) {
			if raw[n] {
				okD = false
			}
		}
		r.Check(okD, rule, f.String(), "Deduplicate<Exclude", f.Pos(), "Exclude runs on deduplicated (sorted) values, Deduplicate is skipped only for len(e.values) <= 1")
	}
	if f := r.Need(p, tsm1, "Cache.Delete"); f != nil {
		core.RuleMustPass(r, f, rule, "Cache.DeleteRange", call("tsdb/engine/tsm1.Cache.DeleteRange"), false)
	}
}
