package rules

import (
	"fmt"
	"go/constant"
	"go/types"
	"runtime/debug"
	"sort"
	"strconv"
	"strings"
	"time"

	"verif/checker/core"
)

// DISCOVERY AID for C41 — NOT part of the registered check.
//
// DiscoverC41 explores the table state machines of storage/flux by abstract
// execution (core.N2Exec, a syntax-tree interpreter) on a finite family of small
// timelines. That is bounded scenario exploration, not static analysis in the
// sense of this checker, so nothing registered calls it; it is reachable only
// through a debug flag. It found the two C41 defects that the structural rules
// of rules/c41.go now decide. What it explores: the table state machines of storage/flux (handleRead dispatch,
// *WindowTable, *WindowSelectorTable, *EmptyWindowSelectorTable, splitWindows)
// are evaluated ABSTRACTLY (core.N2Exec: a walk over the type-checked syntax
// tree, nothing is compiled or run) on a finite family of small timelines.
// Times are members of a small integer universe that realises every ordering
// pattern of (window start/stop, range start/stop, point time); data values are
// opaque symbols that can only be moved, never computed with. The tables the
// abstract run hands to the consumer are compared with the windows enumerated
// from the property statement.

const c41Pk = "storage/flux"

var c41Types = []string{"Float", "Integer", "Unsigned", "String", "Boolean"}
var c41Kinds = []string{"count", "sum", "mean", "min", "max", "first", "last"}

func c41IsSelector(kind string) bool {
	return kind == "min" || kind == "max" || kind == "first" || kind == "last"
}

// c41Scn is one abstract scenario.
type c41Scn struct {
	typ    string // cursor value type
	kind   string // pushed-down aggregate
	fa, ce bool   // ForceAggregate, CreateEmpty
	tc     string // TimeColumn: "", "_start", "_stop"
	every  int64
	offset int64
	rs, re int64 // query bounds [rs, re)
	set    uint  // bit k: the k-th window intersecting the bounds has data
	last   bool  // selector point at the last (else first) instant of the clipped window
	single bool  // the cursor returns one point per array (else all in one array)
	block  int64 // MaxPointsPerBlock of the abstract run
	core   bool  // member of the core family evaluated for every instantiation
	two    bool  // the result set holds two series with the same data (else one)
}

func (s c41Scn) mode() string {
	cl := "aggregate"
	if c41IsSelector(s.kind) {
		cl = "selector"
		if s.fa {
			cl = "selector(forceAggregate)"
		}
	} else if s.kind == "count" {
		cl = "count"
	}
	return fmt.Sprintf("%s,createEmpty=%v", cl, s.ce)
}

func (s c41Scn) String() string {
	return fmt.Sprintf("%s cursor, aggregate=%s forceAggregate=%v createEmpty=%v timeColumn=%q, window every=%d offset=%d, bounds=[%d,%d), windows with data=%s, point at %s instant, %s, MaxPointsPerBlock=%d",
		s.typ, s.kind, s.fa, s.ce, s.tc, s.every, s.offset, s.rs, s.re, s.dataWindows(), map[bool]string{false: "first", true: "last"}[s.last],
		map[bool]string{false: "one array", true: "one point per array"}[s.single]+map[bool]string{false: "", true: ", two series"}[s.two], s.block)
}

type c41Win struct{ start, stop int64 }

func floorDiv(a, b int64) int64 {
	q := a / b
	if a%b != 0 && (a < 0) != (b < 0) {
		q--
	}
	return q
}

// windows intersecting the bounds, in order.
func (s c41Scn) windows() []c41Win {
	var ws []c41Win
	k := floorDiv(s.rs-s.offset, s.every)
	for {
		st := s.offset + k*s.every
		if st >= s.re {
			break
		}
		ws = append(ws, c41Win{st, st + s.every})
		k++
	}
	return ws
}

func (s c41Scn) dataWindows() string {
	var ps []string
	for i, w := range s.windows() {
		if s.set&(1<<uint(i)) != 0 {
			ps = append(ps, fmt.Sprintf("[%d,%d)", w.start, w.stop))
		}
	}
	return "{" + strings.Join(ps, " ") + "}"
}

func (s c41Scn) clip(w c41Win) (int64, int64) {
	return max(w.start, s.rs), min(w.stop, s.re)
}

// points the window cursor of storage/reads hands to the table: (ts, value
// symbol) per window with data. Aggregates (count/sum/mean) carry the window's
// stop time, selectors the time of the selected point.
type c41Pt struct {
	ts  int64
	val string
}

func (s c41Scn) points() []c41Pt {
	var ps []c41Pt
	for i, w := range s.windows() {
		if s.set&(1<<uint(i)) == 0 {
			continue
		}
		cs, ce := s.clip(w)
		ts := w.stop
		if c41IsSelector(s.kind) {
			ts = cs
			if s.last {
				ts = ce - 1
			}
		}
		ps = append(ps, c41Pt{ts, fmt.Sprintf("v%d", i)})
	}
	return ps
}

// c41Table is an observed / expected table: key (_start, _stop) and rows as
// label -> rendered cell.
type c41Table struct {
	start, stop string
	rest        string // the other key columns (compared when the expectation names them)
	rows        []map[string]string
	alt         []map[string]string // second acceptable row set (nil: none)
}

func renderRows(rows []map[string]string) string {
	var out []string
	for _, r := range rows {
		var ks []string
		for k := range r {
			ks = append(ks, k)
		}
		sort.Strings(ks)
		var ps []string
		for _, k := range ks {
			ps = append(ps, k+"="+r[k])
		}
		out = append(out, "{"+strings.Join(ps, " ")+"}")
	}
	return "[" + strings.Join(out, " ") + "]"
}

func (t c41Table) String() string {
	return fmt.Sprintf("table[%s,%s)%s", t.start, t.stop, renderRows(t.rows))
}

const c41Null = "null"

var c41Tags = [][2]string{{"_measurement", "m0"}, {"t0", "a0"}}

// expected enumerates the tables the property statement prescribes.
func (s c41Scn) expected() []c41Table {
	one := s.expected1()
	if s.two {
		return append(append([]c41Table{}, one...), one...)
	}
	return one
}

func (s c41Scn) expected1() []c41Table {
	ws := s.windows()
	if s.set == 0 {
		return nil // a series without points in the bounds yields no table
	}
	sel := c41IsSelector(s.kind)
	pts := map[int]c41Pt{}
	{
		j := 0
		ps := s.points()
		for i := range ws {
			if s.set&(1<<uint(i)) != 0 {
				pts[i] = ps[j]
				j++
			}
		}
	}
	fill := c41Null
	if s.kind == "count" {
		fill = "0"
	}
	type row struct {
		cs, ce int64
		time   string
		val    string
		empty  bool
	}
	var rows []row
	for i, w := range ws {
		cs, ce := s.clip(w)
		p, has := pts[i]
		switch {
		case has:
			rows = append(rows, row{cs: cs, ce: ce, time: strconv.FormatInt(p.ts, 10), val: p.val})
		case s.ce:
			rows = append(rows, row{cs: cs, ce: ce, time: c41Null, val: fill, empty: true})
		}
	}
	withTags := func(m map[string]string) map[string]string {
		for _, t := range c41Tags {
			m[t[0]] = strconv.Quote(t[1])
		}
		return m
	}
	itoa := func(i int64) string { return strconv.FormatInt(i, 10) }
	var out []c41Table
	if s.tc != "" {
		// one table per series: _start/_stop are the query bounds, _time the clipped window edge
		if sel && !s.fa {
			// aggregateWindow drops empty selector windows later on: none are produced here
			var keep []row
			for _, r := range rows {
				if !r.empty {
					keep = append(keep, r)
				}
			}
			rows = keep
		}
		t := c41Table{start: itoa(s.rs), stop: itoa(s.re)}
		for _, r := range rows {
			tm := r.ce
			if s.tc == "_start" {
				tm = r.cs
			}
			t.rows = append(t.rows, withTags(map[string]string{"_start": itoa(s.rs), "_stop": itoa(s.re), "_time": itoa(tm), "_value": r.val}))
		}
		return []c41Table{t}
	}
	for _, r := range rows {
		t := c41Table{start: itoa(r.cs), stop: itoa(r.ce)}
		switch {
		case sel && !s.fa:
			if !r.empty {
				t.rows = []map[string]string{withTags(map[string]string{"_start": itoa(r.cs), "_stop": itoa(r.ce), "_time": r.time, "_value": r.val})}
			}
		case sel && s.fa && r.empty:
			// forced aggregate form of a selector: an empty table or a single null row
			t.alt = []map[string]string{withTags(map[string]string{"_start": itoa(r.cs), "_stop": itoa(r.ce), "_value": r.val})}
		default:
			t.rows = []map[string]string{withTags(map[string]string{"_start": itoa(r.cs), "_stop": itoa(r.ce), "_value": r.val})}
		}
		out = append(out, t)
	}
	return out
}

func c41Diff(want, got []c41Table) string {
	n := max(len(want), len(got))
	for i := 0; i < n; i++ {
		switch {
		case i >= len(got):
			return fmt.Sprintf("table %d of %d missing: expected %s, the run produced only %d tables", i+1, len(want), want[i], len(got))
		case i >= len(want):
			return fmt.Sprintf("unexpected table %d: %s (expected %d tables)", i+1, got[i], len(want))
		}
		w, g := want[i], got[i]
		if w.rest != "" && w.rest != g.rest {
			return fmt.Sprintf("table %d: expected the other key columns %s, got %s", i+1, w.rest, g.rest)
		}
		if w.start != g.start || w.stop != g.stop {
			return fmt.Sprintf("table %d: expected key [%s,%s), got %s", i+1, w.start, w.stop, g)
		}
		if renderRows(w.rows) != renderRows(g.rows) && (w.alt == nil || renderRows(w.alt) != renderRows(g.rows)) {
			return fmt.Sprintf("table %d: expected %s, got %s", i+1, w, g)
		}
	}
	return ""
}

var _ = types.Identical

// ---------------------------------------------------------------- abstract run

type c41Env struct {
	p        *core.Prog
	handle   *core.Func
	arrTyp   map[string]types.Type // value type -> cursors.<T>Array
	tagTyp   types.Type
	tagsTyp  types.Type
	entered  map[string]int
	nRuns    int
	nSteps   int
	maxSteps int
	names    map[*types.Func]string
}

type c41Builder struct{ elems []core.N2Val }
type c41Window struct{ every, period, offset int64 }
type c41Bounds struct{ start, stop int64 }
type c41Key struct{ cols, vals *core.N2Obj }

var c41NullV = core.N2Unk(c41Null)

func c41Cell(v core.N2Val) string {
	if v.K == core.N2KRef && v.O.Kind == "vtime" {
		return strconv.FormatInt(v.O.Data.(int64), 10)
	}
	return v.Render()
}

func (e *c41Env) array(x *core.N2Exec, elems []core.N2Val) core.N2Val {
	o := x.NewObj(nil, "")
	o.Kind = "array"
	o.Term = fmt.Sprintf("array#%d", o.ID)
	o.Data = append([]core.N2Val(nil), elems...)
	return core.N2Ref(o)
}

func c41Repeat(v core.N2Val, n int64) []core.N2Val {
	out := make([]core.N2Val, 0, n)
	for i := int64(0); i < n; i++ {
		out = append(out, v)
	}
	return out
}

func lastName(fname string) string {
	if i := strings.LastIndexByte(fname, '.'); i >= 0 {
		return fname[i+1:]
	}
	return fname
}

// run executes handleRead abstractly on the scenario and returns the tables the consumer received.
func (e *c41Env) run(s c41Scn, debug bool) (tables []c41Table, x *core.N2Exec) {
	x = e.machine(s.block)
	x.Debug = debug
	m := x.Model
	m["wai.spec.CreateEmpty"] = core.N2Bool(s.ce)
	m["wai.spec.ForceAggregate"] = core.N2Bool(s.fa)
	m["wai.spec.TimeColumn"] = core.N2Str(s.tc)
	m["wai.spec.Aggregates"] = core.N2Ref(x.NewSlice(nil, "wai.spec.Aggregates", []core.N2Val{core.N2Str(s.kind)}))
	m["wai.spec.ReadFilterSpec.Bounds.Start"] = core.N2Int(s.rs)
	m["wai.spec.ReadFilterSpec.Bounds.Stop"] = core.N2Int(s.re)
	m["wai.spec.Window.Every"] = core.N2Int(s.every)
	m["wai.spec.Window.Period"] = core.N2Int(s.every)
	m["wai.spec.Window.Offset"] = core.N2Int(s.offset)
	return e.drive(s, x)
}

// machine builds an abstract machine with the library contracts installed.
func (e *c41Env) machine(block int64) *core.N2Exec {
	p := e.p
	x := core.NewN2(p)
	x.Budget = 8000
	x.Names = e.names
	x.Inline = func(fn *types.Func) bool {
		if fn.Pkg() == nil {
			return false
		}
		switch core.Short(fn.Pkg().Path()) {
		case c41Pk:
			return true
		case "tsdb/cursors":
			return fn.Name() == "Len"
		}
		return false
	}
	x.Consts["storage/reads.MaxPointsPerBlock"] = core.N2Int(block)

	// ---- library contracts
	x.Intrinsic("*flux/interval.NewWindow", func(x *core.N2Exec, c *core.N2Call) (core.N2Val, bool) {
		if len(c.Args) != 3 || c.Args[0].K != core.N2KInt || c.Args[1].K != core.N2KInt || c.Args[2].K != core.N2KInt {
			x.Undecided(c.Pos, "interval.NewWindow is not given the (every, period, offset) durations of the spec")
			return core.N2Nil(), true
		}
		o := x.NewObj(nil, "window")
		o.Kind = "window"
		o.Data = c41Window{c.Args[0].I, c.Args[1].I, c.Args[2].I}
		return core.N2Tuple(core.N2Ref(o), core.N2Nil()), true
	})
	mkBounds := func(x *core.N2Exec, a, b int64) core.N2Val {
		o := x.NewObj(nil, fmt.Sprintf("bounds[%d,%d)", a, b))
		o.Kind = "bounds"
		o.Data = c41Bounds{a, b}
		return core.N2Ref(o)
	}
	x.Intrinsic("*flux/interval.Window.*", func(x *core.N2Exec, c *core.N2Call) (core.N2Val, bool) {
		if c.Recv == nil || c.Recv.K != core.N2KRef || c.Recv.O.Kind != "window" {
			x.Undecided(c.Pos, "%s on a window the scenario does not know", c.Name)
			return core.N2Nil(), true
		}
		w := c.Recv.O.Data.(c41Window)
		argB := func() (c41Bounds, bool) {
			if len(c.Args) == 1 && c.Args[0].K == core.N2KRef && c.Args[0].O.Kind == "bounds" {
				return c.Args[0].O.Data.(c41Bounds), true
			}
			x.Undecided(c.Pos, "%s needs a window bounds value", c.Name)
			return c41Bounds{}, false
		}
		switch c.Fn.Name() {
		case "GetLatestBounds":
			if len(c.Args) != 1 || c.Args[0].K != core.N2KInt {
				x.Undecided(c.Pos, "GetLatestBounds of an opaque time")
				return core.N2Nil(), true
			}
			st := floorDiv(c.Args[0].I-w.offset, w.every)*w.every + w.offset
			return mkBounds(x, st, st+w.period), true
		case "NextBounds":
			if b, ok := argB(); ok {
				return mkBounds(x, b.start+w.every, b.stop+w.every), true
			}
			return core.N2Nil(), true
		case "PrevBounds":
			if b, ok := argB(); ok {
				return mkBounds(x, b.start-w.every, b.stop-w.every), true
			}
			return core.N2Nil(), true
		case "IsZero":
			return core.N2Bool(false), true
		}
		x.Undecided(c.Pos, "%s has no abstract contract", c.Name)
		return core.N2Nil(), true
	})
	x.Intrinsic("*flux/interval.Bounds.*", func(x *core.N2Exec, c *core.N2Call) (core.N2Val, bool) {
		if c.Recv == nil || c.Recv.K != core.N2KRef || c.Recv.O.Kind != "bounds" {
			x.Undecided(c.Pos, "%s on bounds the scenario does not know", c.Name)
			return core.N2Nil(), true
		}
		b := c.Recv.O.Data.(c41Bounds)
		switch c.Fn.Name() {
		case "Start":
			return core.N2Int(b.start), true
		case "Stop":
			return core.N2Int(b.stop), true
		}
		x.Undecided(c.Pos, "%s has no abstract contract", c.Name)
		return core.N2Nil(), true
	})
	x.Intrinsic("*flux/arrow.New*Builder", func(x *core.N2Exec, c *core.N2Call) (core.N2Val, bool) {
		o := x.NewObj(nil, "")
		o.Kind = "builder"
		o.Term = fmt.Sprintf("builder#%d", o.ID)
		o.Data = &c41Builder{}
		return core.N2Ref(o), true
	})
	x.Intrinsic("*flux/arrow.New*", func(x *core.N2Exec, c *core.N2Call) (core.N2Val, bool) {
		switch c.Fn.Name() {
		case "NewInt", "NewFloat", "NewUint", "NewString", "NewBool":
		default:
			return core.N2Nil(), false
		}
		if len(c.Args) < 1 {
			return core.N2Nil(), false
		}
		switch v := c.Args[0]; v.K {
		case core.N2KNil:
			return e.array(x, nil), true
		case core.N2KRef:
			if v.O.Len >= 0 {
				return e.array(x, x.Elems(v.O)), true
			}
		}
		x.Undecided(c.Pos, "%s of a slice of unknown length", c.Name)
		return core.N2Nil(), true
	})
	x.Intrinsic("*flux/arrow.Slice", func(x *core.N2Exec, c *core.N2Call) (core.N2Val, bool) {
		if len(c.Args) == 3 && c.Args[0].K == core.N2KRef && c.Args[0].O.Kind == "array" && c.Args[1].K == core.N2KInt && c.Args[2].K == core.N2KInt {
			el := c.Args[0].O.Data.([]core.N2Val)
			i, j := c.Args[1].I, c.Args[2].I
			if i < 0 || j < i || j > int64(len(el)) {
				x.PanicAt(c.Pos, "arrow.Slice [%d:%d] of an array of %d", i, j, len(el))
				return core.N2Nil(), true
			}
			return e.array(x, el[i:j]), true
		}
		if len(c.Args) == 3 && c.Args[0].K == core.N2KNil {
			x.PanicAt(c.Pos, "arrow.Slice of a nil column")
			return core.N2Nil(), true
		}
		x.Undecided(c.Pos, "arrow.Slice with opaque operands")
		return core.N2Nil(), true
	})
	x.Intrinsic("*flux/values.NewTime", func(x *core.N2Exec, c *core.N2Call) (core.N2Val, bool) {
		if len(c.Args) == 1 && c.Args[0].K == core.N2KInt {
			o := x.NewObj(nil, fmt.Sprintf("time(%d)", c.Args[0].I))
			o.Kind = "vtime"
			o.Data = c.Args[0].I
			return core.N2Ref(o), true
		}
		return core.N2Nil(), false
	})
	x.Intrinsic("*flux/execute.ColIdx", func(x *core.N2Exec, c *core.N2Call) (core.N2Val, bool) {
		if len(c.Args) != 2 || c.Args[1].K != core.N2KRef || c.Args[1].O.Len < 0 {
			x.Undecided(c.Pos, "execute.ColIdx over columns of unknown length")
			return core.N2Nil(), true
		}
		for i, col := range x.Elems(c.Args[1].O) {
			if col.K != core.N2KRef {
				continue
			}
			eq, known := x.Equal(x.Field(col.O, "Label"), c.Args[0])
			if !known {
				x.Undecided(c.Pos, "execute.ColIdx compares opaque labels")
				return core.N2Nil(), true
			}
			if eq {
				return core.N2Int(int64(i)), true
			}
		}
		return core.N2Int(-1), true
	})
	x.Intrinsic("*flux/execute.NewGroupKey", func(x *core.N2Exec, c *core.N2Call) (core.N2Val, bool) {
		if len(c.Args) == 2 && c.Args[0].K == core.N2KRef && c.Args[1].K == core.N2KRef {
			o := x.NewObj(nil, "")
			o.Kind = "groupkey"
			o.Term = fmt.Sprintf("groupkey#%d", o.ID)
			o.Data = c41Key{c.Args[0].O, c.Args[1].O}
			return core.N2Ref(o), true
		}
		x.Undecided(c.Pos, "execute.NewGroupKey with opaque operands")
		return core.N2Nil(), true
	})
	x.Intrinsic("*flux/execute.NewEmptyTable", func(x *core.N2Exec, c *core.N2Call) (core.N2Val, bool) {
		o := x.NewObj(nil, "")
		o.Kind = "emptytable"
		o.Term = fmt.Sprintf("emptytable#%d", o.ID)
		o.Data = append([]core.N2Val(nil), c.Args...)
		return core.N2Ref(o), true
	})
	x.Intrinsic("*flux/execute.CheckColType", func(x *core.N2Exec, c *core.N2Call) (core.N2Val, bool) {
		if len(c.Args) == 2 && c.Args[0].K == core.N2KRef && c.Args[1].K == core.N2KInt {
			if t := x.Field(c.Args[0].O, "Type"); t.K == core.N2KInt && t.I != c.Args[1].I {
				x.PanicAt(c.Pos, "column %s has type %d, accessed as %d", x.Field(c.Args[0].O, "Label").Render(), t.I, c.Args[1].I)
			}
		}
		return core.N2Nil(), true
	})
	x.Intrinsic("sync/atomic.*", func(x *core.N2Exec, c *core.N2Call) (core.N2Val, bool) {
		if len(c.Args) < 1 || c.Args[0].K != core.N2KPtr {
			return core.N2Nil(), false
		}
		cur := x.PtrLoad(c.Args[0])
		switch {
		case strings.HasPrefix(c.Fn.Name(), "CompareAndSwap") && len(c.Args) == 3:
			eq, known := x.Equal(cur, c.Args[1])
			if !known {
				x.Undecided(c.Pos, "compare-and-swap on an opaque cell")
				return core.N2Nil(), true
			}
			if eq {
				x.PtrStore(c.Args[0], c.Args[2])
			}
			return core.N2Bool(eq), true
		case strings.HasPrefix(c.Fn.Name(), "Load"):
			return cur, true
		case strings.HasPrefix(c.Fn.Name(), "Store") && len(c.Args) == 2:
			x.PtrStore(c.Args[0], c.Args[1])
			return core.N2Nil(), true
		case strings.HasPrefix(c.Fn.Name(), "Add") && len(c.Args) == 2 && cur.K == core.N2KInt && c.Args[1].K == core.N2KInt:
			v := core.N2Int(cur.I + c.Args[1].I)
			x.PtrStore(c.Args[0], v)
			return v, true
		}
		return core.N2Nil(), false
	})
	x.Intrinsic(c41Pk+".tagsCache.*", func(x *core.N2Exec, c *core.N2Call) (core.N2Val, bool) {
		switch c.Fn.Name() {
		case "GetBounds":
			if len(c.Args) == 3 && c.Args[0].K == core.N2KRef && c.Args[1].K == core.N2KInt {
				st, sp := x.Field(c.Args[0].O, "Start"), x.Field(c.Args[0].O, "Stop")
				return core.N2Tuple(e.array(x, c41Repeat(st, c.Args[1].I)), e.array(x, c41Repeat(sp, c.Args[1].I))), true
			}
		case "GetTag":
			if len(c.Args) == 3 && c.Args[1].K == core.N2KInt {
				return e.array(x, c41Repeat(c.Args[0], c.Args[1].I)), true
			}
		case "Release":
			return core.N2Nil(), true
		}
		x.Undecided(c.Pos, "%s with opaque operands", c.Name)
		return core.N2Nil(), true
	})
	// builders, arrays, group keys: by the kind of the receiver
	x.Intrinsic("*", func(x *core.N2Exec, c *core.N2Call) (core.N2Val, bool) {
		if c.Recv == nil || c.Recv.K != core.N2KRef {
			return core.N2Nil(), false
		}
		o := c.Recv.O
		name := c.Fn.Name()
		switch o.Kind {
		case "builder":
			b := o.Data.(*c41Builder)
			switch {
			case name == "Append" && len(c.Args) == 1:
				b.elems = append(b.elems, c.Args[0])
				return core.N2Nil(), true
			case name == "AppendNull":
				b.elems = append(b.elems, c41NullV)
				return core.N2Nil(), true
			case name == "Resize" || name == "Reserve" || name == "Release" || name == "Retain":
				return core.N2Nil(), true
			case name == "Len":
				return core.N2Int(int64(len(b.elems))), true
			case strings.HasPrefix(name, "New") && strings.HasSuffix(name, "Array"):
				arr := e.array(x, b.elems)
				b.elems = nil
				return arr, true
			}
			x.Undecided(c.Pos, "builder method %s has no abstract contract", name)
			return core.N2Nil(), true
		case "array":
			el := o.Data.([]core.N2Val)
			at := func() (core.N2Val, bool) {
				if len(c.Args) != 1 || c.Args[0].K != core.N2KInt {
					x.Undecided(c.Pos, "array.%s at an opaque index", name)
					return core.N2Nil(), false
				}
				if c.Args[0].I < 0 || c.Args[0].I >= int64(len(el)) {
					x.PanicAt(c.Pos, "array index %d out of range (length %d)", c.Args[0].I, len(el))
					return core.N2Nil(), false
				}
				return el[c.Args[0].I], true
			}
			switch name {
			case "Len":
				return core.N2Int(int64(len(el))), true
			case "Value":
				v, _ := at()
				return v, true
			case "IsNull", "IsValid":
				v, ok := at()
				if !ok {
					return core.N2Nil(), true
				}
				isNull := v.K == core.N2KUnk && v.S == c41Null
				return core.N2Bool(isNull == (name == "IsNull")), true
			case "Release", "Retain":
				return core.N2Nil(), true
			case "Int64Values", "Float64Values", "Uint64Values":
				return core.N2Ref(x.NewSlice(nil, o.Term+".values", el)), true
			case "NullN":
				n := 0
				for _, v := range el {
					if v.K == core.N2KUnk && v.S == c41Null {
						n++
					}
				}
				return core.N2Int(int64(n)), true
			}
			x.Undecided(c.Pos, "array method %s has no abstract contract", name)
			return core.N2Nil(), true
		case "groupkey":
			k := o.Data.(c41Key)
			switch name {
			case "Cols":
				return core.N2Ref(k.cols), true
			case "Values":
				return core.N2Ref(k.vals), true
			case "Value":
				if len(c.Args) == 1 && c.Args[0].K == core.N2KInt && k.vals.Len >= 0 && c.Args[0].I >= 0 && c.Args[0].I < int64(k.vals.Len) {
					return x.Elems(k.vals)[c.Args[0].I], true
				}
			}
			x.Undecided(c.Pos, "group key method %s has no abstract contract", name)
			return core.N2Nil(), true
		}
		return core.N2Nil(), false
	})
	return x
}

// drive supplies the result set, the cursor and the consumer, and calls handleRead.
func (e *c41Env) drive(s c41Scn, x *core.N2Exec) ([]c41Table, *core.N2Exec) {
	var tables []c41Table
	// cursor output, chunked
	var chunks [][]c41Pt
	pts := s.points()
	if s.single {
		for _, p := range pts {
			chunks = append(chunks, []c41Pt{p})
		}
	} else if len(pts) > 0 {
		chunks = append(chunks, pts)
	}
	nextChunk := 0
	arrT := e.arrTyp[s.typ]
	mkArray := func(ps []c41Pt) core.N2Val {
		o := x.NewObj(arrT, "")
		o.Term = fmt.Sprintf("cursorArray#%d", o.ID)
		var ts, vs []core.N2Val
		for _, p := range ps {
			ts = append(ts, core.N2Int(p.ts))
			vs = append(vs, core.N2Unk(p.val))
		}
		o.Fields["Timestamps"] = core.N2Ref(x.NewSlice(nil, o.Term+".Timestamps", ts))
		o.Fields["Values"] = core.N2Ref(x.NewSlice(nil, o.Term+".Values", vs))
		return core.N2Ref(o)
	}
	// one cursor per series; a closed or superseded cursor delivers nothing
	var curObj *core.N2Obj
	x.Intrinsic("tsdb/cursors.*", func(x *core.N2Exec, c *core.N2Call) (core.N2Val, bool) {
		if c.Recv == nil || c.Recv.K != core.N2KRef || !strings.HasPrefix(c.Recv.O.Term, "cursor") || c.Recv.O.Kind != "cursor" {
			return core.N2Nil(), false
		}
		if c.Recv.O != curObj {
			switch c.Fn.Name() {
			case "Next":
				return mkArray(nil), true
			case "Close", "Err":
				return core.N2Nil(), true
			}
			return core.N2Nil(), false
		}
		switch c.Fn.Name() {
		case "Next":
			if nextChunk < len(chunks) {
				nextChunk++
				return mkArray(chunks[nextChunk-1]), true
			}
			return mkArray(nil), true
		case "Close":
			return core.N2Nil(), true
		case "Err":
			return core.N2Nil(), true
		}
		return core.N2Nil(), false
	})
	var tagVals []core.N2Val
	for _, t := range c41Tags {
		o := x.NewObj(e.tagTyp, "")
		o.Fields["Key"] = core.N2Str(t[0])
		o.Fields["Value"] = core.N2Str(t[1])
		tagVals = append(tagVals, core.N2Ref(o))
	}
	tags := core.N2Ref(x.NewSlice(e.tagsTyp, "tags", tagVals))
	rsObj := x.NewSym(nil, "rs")
	served, nSeries := 0, 1
	if s.two {
		nSeries = 2
	}
	x.Intrinsic("storage/reads.ResultSet.*", func(x *core.N2Exec, c *core.N2Call) (core.N2Val, bool) {
		switch c.Fn.Name() {
		case "Next":
			if served >= nSeries {
				return core.N2Bool(false), true
			}
			served++
			curObj = x.NewSym(nil, fmt.Sprintf("cursor%d", served), "cursors."+s.typ+"ArrayCursor", "cursors.Cursor")
			curObj.Kind = "cursor"
			nextChunk = 0
			return core.N2Bool(true), true
		case "Cursor":
			if curObj == nil {
				return core.N2Nil(), true
			}
			return core.N2Ref(curObj), true
		case "Tags":
			return tags, true
		case "Err", "Close":
			return core.N2Nil(), true
		}
		return core.N2Nil(), false
	})

	consumer := e.consumer(x, &tables)
	recv := core.N2Ref(x.NewSym(nil, "wai"))
	ret := x.CallFunc(e.handle, &recv, []core.N2Val{consumer, core.N2Ref(rsObj)})
	if !x.Stopped() && ret.K != core.N2KNil {
		x.Undecided(0, "handleRead returned the error %s", ret.Render())
	}
	e.nRuns++
	e.nSteps += x.Steps
	for f, n := range x.Entered {
		e.entered[f.String()] += n
	}
	return tables, x
}

// consumer is the function handleRead / splitWindows hand their tables to: it
// reads each table the way a flux transformation does (key, column labels, rows).
func (e *c41Env) consumer(x *core.N2Exec, tables *[]c41Table) core.N2Val {
	keyOf := func(k core.N2Val) (start, stop, rest string) {
		start, stop = "?", "?"
		if k.K != core.N2KRef || k.O.Kind != "groupkey" {
			return
		}
		gk := k.O.Data.(c41Key)
		if gk.cols.Len < 0 || gk.vals.Len < 0 {
			return
		}
		cols, vals := x.Elems(gk.cols), x.Elems(gk.vals)
		for i, c := range cols {
			if c.K != core.N2KRef || i >= len(vals) {
				continue
			}
			switch l := x.Field(c.O, "Label"); {
			case l.K == core.N2KStr && l.S == "_start":
				start = c41Cell(vals[i])
			case l.K == core.N2KStr && l.S == "_stop":
				stop = c41Cell(vals[i])
			default:
				rest += l.Render() + "=" + c41Cell(vals[i]) + ";"
			}
		}
		return
	}
	rowsOf := func(meta, data core.N2Val, n int64) []map[string]string {
		if meta.K != core.N2KRef || data.K != core.N2KRef || meta.O.Len < 0 || data.O.Len < 0 {
			x.Undecided(0, "consumer: table buffer without columns")
			return nil
		}
		ms, ds := x.Elems(meta.O), x.Elems(data.O)
		rows := make([]map[string]string, n)
		for i := range rows {
			rows[i] = map[string]string{}
		}
		for j, mc := range ms {
			label := "?"
			if mc.K == core.N2KRef {
				label = strings.Trim(x.Field(mc.O, "Label").Render(), `"`)
			}
			if j >= len(ds) || ds[j].K != core.N2KRef || ds[j].O.Kind != "array" {
				for i := range rows {
					rows[i][label] = "<no column data>"
				}
				continue
			}
			el := ds[j].O.Data.([]core.N2Val)
			for i := range rows {
				if i < len(el) {
					rows[i][label] = c41Cell(el[i])
				} else {
					rows[i][label] = "<short column>"
				}
			}
			if int64(len(el)) != n {
				for i := range rows {
					rows[i][label] += fmt.Sprintf("<column length %d, buffer length %d>", len(el), n)
				}
			}
		}
		return rows
	}
	return core.N2GoFunc("consumer", func(x *core.N2Exec, args []core.N2Val) core.N2Val {
		if len(args) != 1 || args[0].K != core.N2KRef {
			x.Undecided(0, "consumer: called without a table")
			return core.N2Nil()
		}
		t := args[0].O
		switch {
		case t.Kind == "emptytable":
			a := t.Data.([]core.N2Val)
			tb := c41Table{}
			if len(a) > 0 {
				tb.start, tb.stop, tb.rest = keyOf(a[0])
			}
			*tables = append(*tables, tb)
		case t.Typ != nil && strings.HasSuffix(t.Typ.String(), ".windowTableRow"):
			buf := x.Field(t, "buffer")
			if buf.K != core.N2KRef {
				x.Undecided(0, "consumer: window row without buffer")
				return core.N2Nil()
			}
			tb := c41Table{}
			tb.start, tb.stop, tb.rest = keyOf(x.Field(buf.O, "GroupKey"))
			vals := x.Field(buf.O, "Values")
			n := int64(0)
			if vals.K == core.N2KRef && vals.O.Len > 0 {
				if f := x.Elems(vals.O)[0]; f.K == core.N2KRef && f.O.Kind == "array" {
					n = int64(len(f.O.Data.([]core.N2Val)))
				}
			}
			tb.rows = rowsOf(x.Field(buf.O, "Columns"), vals, n)
			*tables = append(*tables, tb)
		case t.Typ != nil:
			tb := c41Table{}
			tb.start, tb.stop, tb.rest = keyOf(x.CallMethod(args[0], "Key"))
			cb := core.N2GoFunc("colreader", func(x *core.N2Exec, a []core.N2Val) core.N2Val {
				if len(a) != 1 || a[0].K != core.N2KRef {
					x.Undecided(0, "consumer: Do callback without a column reader")
					return core.N2Nil()
				}
				cr := a[0].O
				l := x.Field(cr, "l")
				if l.K != core.N2KInt {
					x.Undecided(0, "consumer: buffer length is opaque")
					return core.N2Nil()
				}
				tb.rows = append(tb.rows, rowsOf(x.Field(cr, "colMeta"), x.Field(cr, "cols"), l.I)...)
				return core.N2Nil()
			})
			if err := x.CallMethod(args[0], "Do", cb); err.K != core.N2KNil && !x.Stopped() {
				x.Undecided(0, "consumer: table.Do returned the error %s", err.Render())
			}
			*tables = append(*tables, tb)
		default:
			x.Undecided(0, "consumer: unknown table %s", args[0].Render())
		}
		return core.N2Nil()
	})
}

func newC41Env(p *core.Prog, r *core.Report) *c41Env {
	e := &c41Env{p: p, arrTyp: map[string]types.Type{}, entered: map[string]int{}, names: map[*types.Func]string{}}
	e.handle = r.Need(p, c41Pk, "windowAggregateIterator.handleRead")
	for _, t := range c41Types {
		e.arrTyp[t] = p.NamedType("tsdb/cursors", t+"Array")
		r.Check(e.arrTyp[t] != nil, "anchor", "tsdb/cursors."+t+"Array", "unresolved", "-", "cursor array type resolved")
	}
	e.tagTyp = p.NamedType("models", "Tag")
	e.tagsTyp = p.NamedType("models", "Tags")
	r.Check(e.tagTyp != nil && e.tagsTyp != nil, "anchor", "models.Tag", "unresolved", "-", "tag types resolved")
	// fields the scenario model and the consumer refer to by name
	okFields := true
	for _, f := range [][3]string{
		{c41Pk, "windowAggregateIterator", "spec"}, {c41Pk, "windowAggregateIterator", "cache"},
		{"query", "ReadWindowAggregateSpec", "CreateEmpty"}, {"query", "ReadWindowAggregateSpec", "ForceAggregate"},
		{"query", "ReadWindowAggregateSpec", "TimeColumn"}, {"query", "ReadWindowAggregateSpec", "Aggregates"},
		{"query", "ReadWindowAggregateSpec", "Window"}, {"query", "ReadWindowAggregateSpec", "ReadFilterSpec"}, {"query", "ReadFilterSpec", "Bounds"},
		{"github.com/influxdata/flux/execute", "Window", "Every"}, {"github.com/influxdata/flux/execute", "Window", "Period"}, {"github.com/influxdata/flux/execute", "Window", "Offset"},
		{"github.com/influxdata/flux/execute", "Bounds", "Start"}, {"github.com/influxdata/flux/execute", "Bounds", "Stop"},
		{c41Pk, "colReader", "cols"}, {c41Pk, "colReader", "colMeta"}, {c41Pk, "colReader", "l"}, {c41Pk, "colReader", "key"},
		{c41Pk, "windowTableRow", "buffer"},
		{"github.com/influxdata/flux/arrow", "TableBuffer", "GroupKey"}, {"github.com/influxdata/flux/arrow", "TableBuffer", "Columns"}, {"github.com/influxdata/flux/arrow", "TableBuffer", "Values"},
		{"github.com/influxdata/flux", "ColMeta", "Label"}, {"github.com/influxdata/flux", "ColMeta", "Type"},
		{"models", "Tag", "Key"}, {"models", "Tag", "Value"},
	} {
		pk := p.Pkg(f[0])
		ok := pk != nil && pk.Types != nil && core.LookupField(pk.Types, f[1], f[2]) != nil
		if !ok {
			okFields = false
			r.Bad("anchor", core.Short(f[0])+"."+f[1]+"."+f[2], "unresolved", "-", "field named by the scenario model / the consumer not found in the current tree")
		}
	}
	if pk := p.Pkg(readsPk10); pk == nil || pk.Types.Scope().Lookup("MaxPointsPerBlock") == nil {
		okFields = false
		r.Bad("anchor", readsPk10+".MaxPointsPerBlock", "unresolved", "-", "block size constant not found")
	}
	if e.handle == nil || !okFields {
		return nil
	}
	return e
}

type c41Cfg struct{ every, offset, rs, re int64 }

var c41Cfgs = []c41Cfg{
	{2, 0, 1, 5}, // first and last window cut
	{2, 0, 0, 4}, // aligned
	{2, 0, 1, 2}, // bounds inside one window
	{2, 0, 0, 7}, // four windows, last cut
	{2, 1, 0, 4}, // offset: windows [-1,1) [1,3) [3,5)
	{3, 0, 1, 8}, // wider windows
}

func popcount(u uint) int {
	n := 0
	for ; u != 0; u &= u - 1 {
		n++
	}
	return n
}

// family enumerates the scenarios of one (type, kind, fa, ce, tc).
func c41Family(base c41Scn, full bool) []c41Scn {
	var out []c41Scn
	seen := map[c41Scn]bool{}
	inCore := true
	add := func(c c41Cfg, set uint, last, single bool, block int64) {
		s := base
		s.every, s.offset, s.rs, s.re = c.every, c.offset, c.rs, c.re
		s.set, s.last, s.single, s.block = set, last, single, block
		if seen[s] {
			return
		}
		seen[s] = true
		s.core = inCore
		out = append(out, s)
	}
	sel := c41IsSelector(base.kind)
	// core family: evaluated for every (value type, kind, mode)
	{
		c := c41Cfgs[0]
		for _, set := range []uint{0b010, 0b101, 0b111, 0b000} {
			add(c, set, false, false, 1000)
		}
		add(c, 0b101, sel, true, 2)
		add(c, 0b001, false, false, 2) // data only in the first window, block full before the last window
		add(c41Cfgs[4], 0b011, sel, false, 1000)
		add(c41Cfgs[1], 0b01, false, false, 1000) // bounds end on a window boundary
		add(c41Cfgs[1], 0b10, sel, false, 1000)
		two := base
		two.every, two.offset, two.rs, two.re = c.every, c.offset, c.rs, c.re
		two.set, two.block, two.two, two.core = 0b110, 1000, true, true
		out = append(out, two)
	}
	if !full {
		return out
	}
	inCore = false
	for ci, c := range c41Cfgs {
		tmp := base
		tmp.every, tmp.offset, tmp.rs, tmp.re = c.every, c.offset, c.rs, c.re
		n := len(tmp.windows())
		for set := uint(0); set < 1<<uint(n); set++ {
			add(c, set, false, false, 1000)
			if sel && set != 0 {
				add(c, set, true, false, 1000)
			}
			if popcount(set) >= 2 {
				add(c, set, sel, true, 1000)
			}
			if n >= 3 && set != 0 {
				add(c, set, false, false, 2)
			}
			if ci == 0 && set != 0 {
				add(c, set, sel, false, 1)
			}
		}
	}
	return out
}

type c41Fail struct {
	scn   c41Scn
	class string // rows | panic | no-termination | undecided
	what  string
}

func c41dRun(p *core.Prog, r *core.Report) {
	t0 := time.Now()
	// the loaded program is a large live heap: collect more often during the many short runs
	// so that their garbage is reused instead of growing the heap
	defer debug.SetGCPercent(debug.SetGCPercent(50))
	e := newC41Env(p, r)
	if e == nil {
		return
	}
	c41dSelectorTable(p, r, e)
	c41dLayout(p, r, e)
	c41dSplit(p, r, e)

	type cell struct {
		runs  int
		fails []c41Fail
		kinds map[string]bool // aggregate kinds exercised
	}
	// (table type name, mode) -> results
	res := map[[2]string]*cell{}
	tableOf := map[[2]string]map[string]bool{} // (class/fa/ce/tc mode key, value type) -> table kinds constructed
	var order [][2]string
	full := map[string]bool{"Float/sum": true, "Float/first": true, "Integer/count": true}
	nFail := map[string]int{}
	skipped := 0
	for _, typ := range c41Types {
		for _, kind := range c41Kinds {
			if kind == "count" && typ != "Integer" {
				continue // count cursors are Integer cursors (count-is-integer)
			}
			for _, fa := range []bool{false, true} {
				for _, ce := range []bool{false, true} {
					for _, tc := range []string{"", "_start", "_stop"} {
						base := c41Scn{typ: typ, kind: kind, fa: fa, ce: ce, tc: tc}
						for _, s := range c41Family(base, full[typ+"/"+kind]) {
							if nFail[fmt.Sprint(typ, "/", s.mode(), "/", fa, "/", tc)] >= 3 {
								skipped++
								continue // this (type, mode) is already reported with three failing scenarios
							}
							tabs, x := e.run(s, false)
							// which table was built
							tname := ""
							for _, k := range []string{"EmptyWindowSelectorTable", "WindowSelectorTable", "WindowTable"} {
								if f := p.Func(c41Pk, "new"+typ+k); f != nil && x.Entered[f] > 0 {
									tname = strings.ToLower(typ) + k
									break
								}
							}
							dk := [2]string{fmt.Sprintf("%s forceAggregate=%v createEmpty=%v timeColumn=%q", map[bool]string{false: "aggregate", true: "selector"}[c41IsSelector(kind)], fa, ce, tc), typ}
							if tableOf[dk] == nil {
								tableOf[dk] = map[string]bool{}
							}
							tableOf[dk][tname] = true
							if tname == "" {
								tname = "windowAggregateIterator.handleRead[" + typ + "]"
							}
							key := [2]string{tname, s.mode()}
							c := res[key]
							if c == nil {
								c = &cell{kinds: map[string]bool{}}
								res[key] = c
								order = append(order, key)
							}
							c.runs++
							c.kinds[kind] = true
							nf := len(c.fails)
							defer0 := func() {
								if len(c.fails) > nf {
									nFail[fmt.Sprint(typ, "/", s.mode(), "/", fa, "/", tc)]++
								} else if x.Steps > e.maxSteps {
									e.maxSteps = x.Steps
								}
							}
							switch {
							case x.Panic != "":
								c.fails = append(c.fails, c41Fail{s, "panic", "the code panics: " + x.Panic})
							case strings.Contains(x.Fail, "step budget"):
								d := ""
								if len(tabs) > 0 {
									d = fmt.Sprintf("; %d tables so far, e.g. %s", len(tabs), tabs[0])
									if want := s.expected(); len(tabs) > len(want) {
										d += fmt.Sprintf(" … %s (expected %d tables in all)", tabs[len(tabs)-1], len(want))
									}
								}
								c.fails = append(c.fails, c41Fail{s, "no-termination", "the run does not end: " + x.Fail + d})
							case x.Fail != "":
								c.fails = append(c.fails, c41Fail{s, "undecided", "cannot be decided: " + x.Fail})
							default:
								if d := c41Diff(s.expected(), tabs); d != "" {
									c.fails = append(c.fails, c41Fail{s, "rows", d})
								}
							}
							defer0()
						}
					}
				}
			}
		}
	}
	// ---- report
	const rule = "window-tables"
	sort.Slice(order, func(i, j int) bool {
		if order[i][0] != order[j][0] {
			return order[i][0] < order[j][0]
		}
		return order[i][1] < order[j][1]
	})
	// collapse a failure shared by the instantiations of all value types into one obligation
	kindOf := func(tname string) (typ, kind string) {
		for _, t := range c41Types {
			if lt := strings.ToLower(t); strings.HasPrefix(tname, lt) {
				return t, strings.TrimPrefix(tname, lt)
			}
		}
		return "", tname
	}
	// instantiations that deviate in the same way on the core family share one obligation
	sigOf := func(c *cell) string {
		var ps []string
		for _, f := range c.fails {
			if f.scn.core {
				s := f.scn
				s.typ = ""
				ps = append(ps, fmt.Sprint(s)+f.class)
			}
		}
		sort.Strings(ps)
		return strings.Join(ps, "|")
	}
	groups := map[[3]string][]string{} // (table kind, mode, signature) -> value types
	for _, k := range order {
		typ, kind := kindOf(k[0])
		if sig := sigOf(res[k]); typ != "" && sig != "" {
			gk := [3]string{kind, k[1], sig}
			groups[gk] = append(groups[gk], typ)
		}
	}
	reported := map[[3]string]bool{}
	totalRuns := 0
	for _, k := range order {
		c := res[k]
		totalRuns += c.runs
		var ks []string
		for kd := range c.kinds {
			ks = append(ks, kd)
		}
		sort.Strings(ks)
		construct := c41Pk + "." + k[0]
		pos := "-"
		typ, kind := kindOf(k[0])
		if f := p.Func(c41Pk, k[0]+".advance"); f != nil {
			pos = f.Pos()
		}
		if len(c.fails) == 0 {
			r.Ok(rule, construct, pos, fmt.Sprintf("%s (kinds %s): %d abstract scenarios yield exactly the windows, bounds and value placement of the statement", k[1], strings.Join(ks, ","), c.runs))
			continue
		}
		shared := ""
		if gk := [3]string{kind, k[1], sigOf(c)}; typ != "" && len(groups[gk]) >= 3 {
			if reported[gk] {
				continue
			}
			reported[gk] = true
			construct = c41Pk + ".{T}" + kind
			shared = fmt.Sprintf("the %s instantiations deviate identically on the core scenarios; ", strings.Join(groups[gk], ", "))
		}
		what := k[1]
		onlyTwo := true
		for _, f := range c.fails {
			onlyTwo = onlyTwo && f.scn.two
		}
		if onlyTwo {
			// single-series scenarios agree: the iteration over the result set is at fault, not the table
			what = "series-iteration:" + strings.TrimPrefix(construct, c41Pk+".") + ":" + k[1]
			construct = c41Pk + ".windowAggregateIterator.handleRead"
			pos = e.handle.Pos()
		}
		f0 := c.fails[0]
		classes := map[string]int{}
		for _, f := range c.fails {
			classes[f.class]++
		}
		var cs []string
		for cl, n := range classes {
			cs = append(cs, fmt.Sprintf("%s×%d", cl, n))
		}
		sort.Strings(cs)
		r.Bad(rule, construct, what, pos, shared+fmt.Sprintf("%d of %d evaluated scenarios deviate (%s; kinds %s). First: %s — %s", len(c.fails), c.runs, strings.Join(cs, " "), strings.Join(ks, ","), f0.scn, f0.what))
	}
	// ---- dispatch: every mode builds exactly one table of the cursor's value type
	nDisp := 0
	var dks [][2]string
	for dk := range tableOf {
		dks = append(dks, dk)
	}
	sort.Slice(dks, func(i, j int) bool { return dks[i][0]+dks[i][1] < dks[j][0]+dks[j][1] })
	for _, dk := range dks {
		var names []string
		for n := range tableOf[dk] {
			names = append(names, n)
		}
		sort.Strings(names)
		ok := len(names) == 1 && names[0] != "" && strings.HasPrefix(names[0], strings.ToLower(dk[1]))
		if ok {
			nDisp++
		}
		if !ok {
			r.Bad("table-dispatch", c41Pk+".windowAggregateIterator.handleRead", dk[1]+":"+dk[0], e.handle.Pos(), fmt.Sprintf("tables built for a %s cursor: %v (exactly one table of the cursor's value type expected)", dk[1], names))
		}
	}
	r.Check(nDisp >= 5*24, "table-dispatch", c41Pk+".windowAggregateIterator.handleRead", "modes:too-few", e.handle.Pos(),
		fmt.Sprintf("%d (mode, cursor type) combinations each build exactly one table of the cursor's value type (5 types x 2 classes x 12 modes = 120 expected)", nDisp))
	// ---- anti-vacuity: the anchored functions were actually interpreted
	need := []string{"windowAggregateIterator.handleRead", "splitWindows", "windowTableSplitter.Do", "groupKeyForWindow", "getColumnValues",
		"determineTableColsForWindowAggregate", "determineTableColsForSeries", "defaultGroupKeyForSeries", "isSelector", "isAggregateCount",
		"table.do", "table.init", "table.allocateBuffer", "table.appendTheseTags", "table.appendBounds", "table.readTags", "integerWindowTable.mergeValues"}
	for _, t := range c41Types {
		lt := strings.ToLower(t)
		for _, m := range []string{"WindowTable.advance", "WindowTable.createNextBufferTimes", "WindowTable.getWindowBoundsFor", "WindowTable.nextAt", "WindowTable.isInWindow",
			"WindowTable.nextBuffer", "WindowTable.appendValues", "WindowTable.mergeValues", "WindowSelectorTable.advance", "WindowSelectorTable.startTimes", "WindowSelectorTable.stopTimes",
			"EmptyWindowSelectorTable.advance", "EmptyWindowSelectorTable.startStopTimes"} {
			need = append(need, lt+m)
		}
		for _, m := range []string{"WindowTable", "WindowSelectorTable", "EmptyWindowSelectorTable"} {
			need = append(need, "new"+t+m)
		}
	}
	var missing []string
	for _, n := range need {
		f := p.Func(c41Pk, n)
		if f == nil {
			r.Bad("anchor", c41Pk+"."+n, "unresolved", "-", "anchored function not found in the current tree")
			continue
		}
		if e.entered[f.String()] == 0 {
			missing = append(missing, n)
			continue
		}
		r.Saw(f)
	}
	r.Check(len(missing) == 0, rule, c41Pk, "anchors-not-exercised:"+strings.Join(missing, ","), "-",
		fmt.Sprintf("all %d anchored functions were interpreted by the abstract runs (%d runs, %d steps, longest agreeing run %d steps, %.1fs)", len(need), e.nRuns, e.nSteps, e.maxSteps, time.Since(t0).Seconds()))
	r.Check(totalRuns+skipped >= 5000, rule, c41Pk, "scenarios:too-few", "-", fmt.Sprintf("%d abstract scenarios evaluated", totalRuns))
}

// c41dSelectorTable: isSelector on the seven kinds.
func c41dSelectorTable(p *core.Prog, r *core.Report, e *c41Env) {
	const rule = "selector-table"
	f := r.Need(p, c41Pk, "isSelector")
	if f == nil {
		return
	}
	for _, k := range c41Kinds {
		x := core.NewN2(p)
		x.Inline = func(fn *types.Func) bool { return fn.Pkg() != nil && core.Short(fn.Pkg().Path()) == c41Pk }
		v := x.CallFunc(f, nil, []core.N2Val{core.N2Str(k)})
		ok := !x.Stopped() && v.K == core.N2KBool && v.B == c41IsSelector(k)
		r.Check(ok, rule, f.String(), "kind="+k, f.Pos(), fmt.Sprintf("isSelector(%q) = %v (selectors are exactly first, last, min, max) %s%s", k, c41IsSelector(k), x.Fail, x.Panic))
	}
}

// ---------------------------------------------------------------- unit tables (attribution of shared code)

func (e *c41Env) tagSlice(x *core.N2Exec) core.N2Val {
	var tagVals []core.N2Val
	for _, t := range c41Tags {
		o := x.NewObj(e.tagTyp, "")
		o.Fields["Key"] = core.N2Str(t[0])
		o.Fields["Value"] = core.N2Str(t[1])
		tagVals = append(tagVals, core.N2Ref(o))
	}
	return core.N2Ref(x.NewSlice(e.tagsTyp, "tags", tagVals))
}

func c41ConstInt(p *core.Prog, name string) (int64, bool) {
	pk := p.Pkg(c41Pk)
	if pk == nil {
		return 0, false
	}
	c, ok := pk.Types.Scope().Lookup(name).(*types.Const)
	if !ok {
		return 0, false
	}
	return constant.Int64Val(constant.ToInt(c.Val()))
}

// layout evaluates a column-layout function and returns the labels, the type of
// the value column and the tag defaults.
func (e *c41Env) layout(x *core.N2Exec, f *core.Func, hasTime *bool, typ int64) (labels []string, types_ []core.N2Val, defs []core.N2Val, cols core.N2Val, ok bool) {
	args := []core.N2Val{e.tagSlice(x), core.N2Int(typ)}
	if hasTime != nil {
		args = append(args, core.N2Bool(*hasTime))
	}
	ret := x.CallFunc(f, nil, args)
	if x.Stopped() || ret.K != core.N2KTuple || len(ret.T) != 2 || ret.T[0].K != core.N2KRef || ret.T[0].O.Len < 0 {
		return nil, nil, nil, core.N2Nil(), false
	}
	for _, c := range x.Elems(ret.T[0].O) {
		if c.K != core.N2KRef {
			labels = append(labels, "<unset>")
			types_ = append(types_, core.N2Nil())
			continue
		}
		labels = append(labels, strings.Trim(x.Field(c.O, "Label").Render(), `"`))
		types_ = append(types_, x.Field(c.O, "Type"))
	}
	if ret.T[1].K == core.N2KRef && ret.T[1].O.Len >= 0 {
		defs = x.Elems(ret.T[1].O)
	}
	return labels, types_, defs, ret.T[0], true
}

// c41dLayout: the label of every column index the tables store into.
func c41dLayout(p *core.Prog, r *core.Report, e *c41Env) {
	const rule = "column-layout"
	idx := map[string]int64{}
	for _, n := range []string{"startColIdx", "stopColIdx", "timeColIdx", "valueColIdx", "valueColIdxWithoutTime"} {
		v, ok := c41ConstInt(p, n)
		if !r.Check(ok, "anchor", c41Pk+"."+n, "unresolved", "-", "column index constant resolved") {
			return
		}
		idx[n] = v
	}
	check := func(fname string, hasTime *bool, withTime bool) {
		f := r.Need(p, c41Pk, fname)
		if f == nil {
			return
		}
		x := e.machine(1000)
		labels, typs, defs, _, ok := e.layout(x, f, hasTime, 99)
		variant := "withTime"
		if !withTime {
			variant = "withoutTime"
		}
		if !r.Check(ok, rule, f.String(), variant+":undecided", f.Pos(), "layout evaluated "+x.Fail+x.Panic) {
			return
		}
		want := map[int64]string{idx["startColIdx"]: "_start", idx["stopColIdx"]: "_stop"}
		n := int64(3)
		if withTime {
			want[idx["timeColIdx"]] = "_time"
			want[idx["valueColIdx"]] = "_value"
			n = 4
		} else {
			want[idx["valueColIdxWithoutTime"]] = "_value"
		}
		for j, t := range c41Tags {
			want[n+int64(j)] = t[0]
		}
		good := int64(len(labels)) == n+int64(len(c41Tags)) && len(defs) == len(labels)
		why := ""
		for i := int64(0); good && i < int64(len(labels)); i++ {
			if labels[i] != want[i] {
				good, why = false, fmt.Sprintf("column %d is labelled %q, the tables store the %q data there", i, labels[i], want[i])
			}
			switch {
			case want[i] == "_value":
				if typs[i].K != core.N2KInt || typs[i].I != 99 {
					good, why = false, "the value column does not get the cursor's column type"
				}
			case i >= n:
				if defs[i].K != core.N2KStr {
					good, why = false, fmt.Sprintf("tag column %d has no default value", i)
				}
			}
		}
		r.Check(good, rule, f.String(), variant, f.Pos(), fmt.Sprintf("labels %v agree with the column indices the tables store into (startColIdx, stopColIdx, timeColIdx, valueColIdx, valueColIdxWithoutTime), tags follow %s", labels, why))
	}
	t, fl := true, false
	check("determineTableColsForWindowAggregate", &t, true)
	check("determineTableColsForWindowAggregate", &fl, false)
	check("determineTableColsForSeries", nil, true)
}

// c41dSplit: splitWindows on a three-row buffer.
func c41dSplit(p *core.Prog, r *core.Report, e *c41Env) {
	const rule = "split-windows"
	f := r.Need(p, c41Pk, "splitWindows")
	do := r.Need(p, c41Pk, "windowTableSplitter.Do")
	gk := r.Need(p, c41Pk, "groupKeyForWindow")
	crT := p.NamedType(c41Pk, "colReader")
	if f == nil || do == nil || gk == nil || !r.Check(crT != nil, "anchor", c41Pk+".colReader", "unresolved", "-", "column reader type resolved") {
		return
	}
	for _, v := range []struct {
		name     string
		series   bool // series layout (with _time) or aggregate layout
		selector bool
	}{{"selector,series-layout", true, true}, {"aggregate,aggregate-layout", false, false}} {
		x := e.machine(1000)
		var lf *core.Func
		var ht *bool
		if v.series {
			lf = p.Func(c41Pk, "determineTableColsForSeries")
		} else {
			lf = p.Func(c41Pk, "determineTableColsForWindowAggregate")
			b := false
			ht = &b
		}
		if lf == nil {
			continue
		}
		tfloat := int64(-1)
		if pk := p.Pkg("github.com/influxdata/flux"); pk != nil {
			if c, ok := pk.Types.Scope().Lookup("TFloat").(*types.Const); ok {
				tfloat, _ = constant.Int64Val(constant.ToInt(c.Val()))
			}
		}
		labels, _, _, cols, ok := e.layout(x, lf, ht, tfloat)
		if !r.Check(ok, rule, do.String(), v.name+":layout-undecided", do.Pos(), "input layout evaluated "+x.Fail+x.Panic) {
			continue
		}
		ints := func(vs ...int64) []core.N2Val {
			var out []core.N2Val
			for _, i := range vs {
				if i < 0 {
					out = append(out, c41NullV)
				} else {
					out = append(out, core.N2Int(i))
				}
			}
			return out
		}
		var data []core.N2Val
		for _, l := range labels {
			switch l {
			case "_start":
				data = append(data, e.array(x, ints(1, 2, 4)))
			case "_stop":
				data = append(data, e.array(x, ints(2, 4, 5)))
			case "_time":
				data = append(data, e.array(x, ints(1, -1, 4)))
			case "_value":
				data = append(data, e.array(x, []core.N2Val{core.N2Unk("v0"), c41NullV, core.N2Unk("v2")}))
			default:
				tv := ""
				for _, t := range c41Tags {
					if t[0] == l {
						tv = t[1]
					}
				}
				data = append(data, e.array(x, c41Repeat(core.N2Str(tv), 3)))
			}
		}
		// key of the input table: the query bounds and the tags
		var kc, kv []core.N2Val
		mkCol := func(label string) core.N2Val {
			o := x.NewObj(nil, "keycol:"+label)
			o.Fields["Label"] = core.N2Str(label)
			return core.N2Ref(o)
		}
		mkTime := func(t int64) core.N2Val {
			o := x.NewObj(nil, fmt.Sprintf("time(%d)", t))
			o.Kind = "vtime"
			o.Data = t
			return core.N2Ref(o)
		}
		kc = append(kc, mkCol("_start"), mkCol("_stop"))
		kv = append(kv, mkTime(1), mkTime(5))
		rest := ""
		for _, t := range c41Tags {
			kc = append(kc, mkCol(t[0]))
			kv = append(kv, core.N2Unk("tag:"+t[1]))
			rest += strconv.Quote(t[0]) + "=tag:" + t[1] + ";"
		}
		ko := x.NewObj(nil, "inputkey")
		ko.Kind = "groupkey"
		ko.Data = c41Key{x.NewSlice(nil, "inputkey.cols", kc), x.NewSlice(nil, "inputkey.vals", kv)}
		cr := x.NewObj(crT, "")
		cr.Fields["key"] = core.N2Ref(ko)
		cr.Fields["colMeta"] = cols
		cr.Fields["cols"] = core.N2Ref(x.NewSlice(nil, "input.cols", data))
		cr.Fields["l"] = core.N2Int(3)
		cr.Fields["refCount"] = core.N2Int(1)
		in := x.NewSym(nil, "in")
		x.Intrinsic("github.com/influxdata/flux.Table.*", func(x *core.N2Exec, c *core.N2Call) (core.N2Val, bool) {
			if c.Recv == nil || c.Recv.K != core.N2KRef || c.Recv.O != in {
				return core.N2Nil(), false
			}
			switch c.Fn.Name() {
			case "Cols":
				return cols, true
			case "Key":
				return core.N2Ref(ko), true
			case "Do":
				if len(c.Args) == 1 {
					return x.CallValue(c.Args[0], []core.N2Val{core.N2Ref(cr)}, c.Pos), true
				}
			case "Done":
				return core.N2Nil(), true
			case "Empty":
				return core.N2Bool(false), true
			}
			return core.N2Nil(), false
		})
		var got []c41Table
		ret := x.CallFunc(f, nil, []core.N2Val{core.N2Ref(x.NewSym(nil, "ctx")), core.N2Ref(x.NewSym(nil, "alloc")), core.N2Ref(in), core.N2Bool(v.selector), e.consumer(x, &got)})
		if !r.Check(!x.Stopped() && ret.K == core.N2KNil, rule, do.String(), v.name+":undecided", do.Pos(), "splitWindows evaluated on a three-row buffer "+x.Fail+x.Panic) {
			continue
		}
		row := func(st, sp int64, tm, val string) map[string]string {
			m := map[string]string{"_start": strconv.FormatInt(st, 10), "_stop": strconv.FormatInt(sp, 10), "_value": val}
			if v.series {
				m["_time"] = tm
			}
			for _, t := range c41Tags {
				m[t[0]] = strconv.Quote(t[1])
			}
			return m
		}
		want := []c41Table{
			{start: "1", stop: "2", rest: rest, rows: []map[string]string{row(1, 2, "1", "v0")}},
			{start: "2", stop: "4", rest: rest, rows: []map[string]string{row(2, 4, c41Null, c41Null)}},
			{start: "4", stop: "5", rest: rest, rows: []map[string]string{row(4, 5, "4", "v2")}},
		}
		if v.selector {
			want[1].rows = nil // a selector has no row for an empty window
		}
		d := c41Diff(want, got)
		r.Check(d == "", rule, do.String(), v.name, do.Pos(),
			"every row i of the buffer becomes exactly one table keyed by that row's own _start/_stop (other key columns kept) holding the slice [i,i+1) of every column; a null selector row becomes an empty table "+d)
	}
	r.Saw(gk)
}

// DiscoverC41 runs the scenario exploration and returns one line per deviation
// ("key — detail"). Debug entry point only; no registered property calls it.
func DiscoverC41(p *core.Prog) []string {
	r := core.NewReport("C41", "discover")
	c41dRun(p, r)
	var out []string
	for _, o := range r.Obs {
		if o.Status == core.Violation {
			out = append(out, o.Key+" — "+o.Detail)
		}
	}
	return out
}
