package rules

import (
	"fmt"
	"go/ast"
	"go/constant"
	"go/token"
	"go/types"

	"verif/checker/core"
)

// key-length-fits-index. The TSM index stores the length of a key as a uint16
// (`uint16(len(key))`). A key whose length does not fit wraps around silently and
// makes the whole file unreadable on reopen. Structural necessary condition: the
// TSM writer rejects keys with `len(key) > L` where L is a constant that fits the
// narrowest unsigned type a key length is converted to in the writer
// (L <= 65535 for uint16), and every entry point that hands a key to the index
// (Write, WriteBlock) carries that guard.
func init() {
	extend("C08", "key-length-fits-index: every narrowing conversion uintN(len(key)) in the TSM writer (the index stores the key length as uint16) is covered by the writer's key-length limit — the constant compared with len(key) in tsmWriter.Write and tsmWriter.WriteBlock is at most the maximum of that type, and both entry points reject longer keys before anything is written.",
		nil, func(p *core.Prog, r *core.Report, tier string) {
			const rule = "key-length-fits-index"
			pk := p.Pkg(tsm1)
			if pk == nil {
				return
			}
			// narrowest conversion of a len(...) to an unsigned integer type in writer.go functions
			minBits := 0
			nConv := 0
			for _, f := range p.Funcs(tsm1) {
				if f.Decl == nil || f.Decl.Body == nil || p.File(f.Decl.Pos()) != "tsdb/engine/tsm1/writer.go" {
					continue
				}
				info := f.Info()
				ast.Inspect(f.Decl.Body, func(n ast.Node) bool {
					c, ok := n.(*ast.CallExpr)
					if !ok || len(c.Args) != 1 {
						return true
					}
					tv, has := info.Types[c.Fun]
					if !has || !tv.IsType() {
						return true
					}
					b, ok := tv.Type.Underlying().(*types.Basic)
					if !ok || b.Info()&types.IsUnsigned == 0 {
						return true
					}
					lc, ok := ast.Unparen(c.Args[0]).(*ast.CallExpr)
					if !ok || !core.Builtin("len")(info, lc) {
						return true
					}
					bits := map[types.BasicKind]int{types.Uint8: 8, types.Uint16: 16, types.Uint32: 32}[b.Kind()]
					if bits == 0 {
						return true
					}
					nConv++
					r.Saw(f)
					if minBits == 0 || bits < minBits {
						minBits = bits
					}
					return true
				})
			}
			if !r.Check(nConv >= 1 && minBits > 0, rule, tsm1, "len-conversions:absent", "-", fmt.Sprintf("%d narrowing conversions of a length in the TSM writer (>= 1: the index key length)", nConv)) {
				return
			}
			max := constant.MakeUint64(1<<uint(minBits) - 1)
			for _, name := range []string{"tsmWriter.Write", "tsmWriter.WriteBlock"} {
				f := r.Need(p, tsm1, name)
				if f == nil {
					continue
				}
				info := f.Info()
				g := f.Graph()
				key := f.Param(0)
				// guard edges: len(key) > L (true) with L a constant <= max
				okLimit := true
				guard := core.AtomEdge(func(x ast.Expr, val bool) bool {
					be, ok := ast.Unparen(x).(*ast.BinaryExpr)
					if !ok {
						return false
					}
					l, rr, op := be.X, be.Y, be.Op
					if op == token.LSS || op == token.LEQ { // L < len(key)
						l, rr = rr, l
						if op == token.LSS {
							op = token.GTR
						} else {
							op = token.GEQ
						}
					}
					if op != token.GTR && op != token.GEQ {
						return false
					}
					lc, ok := ast.Unparen(l).(*ast.CallExpr)
					if !ok || !core.Builtin("len")(info, lc) || len(lc.Args) != 1 || core.ObjOf(info, ast.Unparen(lc.Args[0])) != types.Object(key) {
						return false
					}
					tv, has := info.Types[rr]
					if !has || tv.Value == nil {
						return false
					}
					lim := tv.Value
					if op == token.GEQ { // len >= L rejects L itself: effective limit L-1
						lim = constant.BinaryOp(lim, token.SUB, constant.MakeInt64(1))
					}
					if val && !constant.Compare(lim, token.LEQ, max) {
						okLimit = false
					}
					return val
				})
				edges := g.Edges(guard)
				if !r.Check(len(edges) >= 1, rule, f.String(), "length-guard:absent", f.Pos(), "the key length is compared with the limit") {
					continue
				}
				r.Check(okLimit, rule, f.String(), "limit-exceeds-index-field", f.Pos(), fmt.Sprintf("the key-length limit fits the %d-bit length field of the index", minBits))
				// the rejecting branch fails, and nothing is written before the guard
				for _, e := range edges {
					bad := false
					for _, x := range g.SuccessExits() {
						if g.Reach([]*core.Node{e.To}, nil, nil)[x] {
							bad = true
						}
					}
					r.Check(!bad, rule, f.String(), "long-key-accepted", g.Line(e.From), "a key longer than the limit makes the call fail")
				}
			}
		})
}
