package rules

import (
	"fmt"
	"go/types"

	"verif/checker/core"
)

// Two structural necessary conditions of "every size written out parses back to
// the identical value, for all uint64/int64":
//
// exact-integer-path. The active Size/SSize types are written as RAW integers
// (no TextMarshaler). Reading goes through UnmarshalText → parseBytesUnsigned /
// parseBytesSigned. humanize.ParseBytes parses the number as a float64, which
// cannot hold every integer above 2^53, so a plain-integer input must be tried
// with an exact integer parser first: humanize.ParseBytes is reachable only
// through the failure branch of strconv.ParseUint / ParseInt.
//
// uint64-text-form. TOML integers are int64: a value of a uint64-based size type
// above MaxInt64 that is written as a raw integer is rejected by the TOML decoder
// itself, before UnmarshalText runs. A uint64-based config type that can be read
// from text must therefore also WRITE itself as text (encoding.TextMarshaler).
func init() {
	extend("C34", "exact-integer-path: in every function of package toml that calls it, the float-based humanize.ParseBytes is reached only through the failure branch of an exact strconv integer parse of the same input; uint64-text-form: every uint64-based type of package toml that implements encoding.TextUnmarshaler also implements encoding.TextMarshaler (raw TOML integers stop at MaxInt64).",
		nil, func(p *core.Prog, r *core.Report, tier string) {
			hum := call("github.com/dustin/go-humanize.ParseBytes")
			exact := call("strconv.ParseUint", "strconv.ParseInt")
			n := 0
			for _, f := range p.Funcs("toml") {
				if f.Decl == nil || f.Decl.Body == nil || len(core.AllCalls(f.Info(), f.Decl.Body, hum)) == 0 {
					continue
				}
				r.Saw(f)
				g := f.Graph()
				hs := g.Select(g.Calling(hum))
				es := g.Select(g.Calling(exact))
				if len(hs) == 0 {
					continue
				}
				n++
				if !r.Check(len(es) >= 1, "exact-integer-path", f.String(), "exact-parse:absent", f.Pos(), "a plain integer is parsed exactly (strconv) before the float-based parser") {
					continue
				}
				// failure edges of the exact parse
				var fails []*core.Edge
				for _, e := range es {
					if fl, _, ok := g.ErrEdges(e); ok {
						fails = append(fails, fl)
					} else {
						// `if v, err := strconv.ParseUint(…); err == nil { return v }`: the failure edge is the false branch of err == nil
						for _, x := range core.FailEdgesOf(g, e) {
							fails = append(fails, x)
						}
					}
				}
				isFail := func(e *core.Edge) bool {
					for _, x := range fails {
						if x == e {
							return true
						}
					}
					return false
				}
				for _, h := range hs {
					r.Check(len(fails) >= 1 && g.OnlyVia(h, isFail), "exact-integer-path", f.String(), "humanize-before-exact", g.Line(h), "humanize.ParseBytes is reached only after the exact integer parse of the input failed")
				}
			}
			r.Check(n >= 1, "exact-integer-path", "toml", "parsers:count", "-", fmt.Sprintf("%d function(s) of package toml call humanize.ParseBytes (>= 1)", n))

			// uint64-text-form
			pk := p.Pkg("toml")
			if pk == nil {
				return
			}
			find := func(path, name string) *types.Interface {
				if ip := p.All[path]; ip != nil {
					if o := ip.Types.Scope().Lookup(name); o != nil {
						if it, ok := o.Type().Underlying().(*types.Interface); ok {
							return it
						}
					}
				}
				return nil
			}
			tm, tu := find("encoding", "TextMarshaler"), find("encoding", "TextUnmarshaler")
			if !r.Check(tm != nil && tu != nil, "anchor", "encoding.TextMarshaler|TextUnmarshaler", "unresolved", "-", "interfaces resolved") {
				return
			}
			m := 0
			for _, nm := range pk.Types.Scope().Names() {
				tn, ok := pk.Types.Scope().Lookup(nm).(*types.TypeName)
				if !ok || tn.IsAlias() {
					continue
				}
				b, ok := tn.Type().Underlying().(*types.Basic)
				if !ok || b.Kind() != types.Uint64 {
					continue
				}
				if !types.Implements(types.NewPointer(tn.Type()), tu) {
					continue
				}
				m++
				okM := types.Implements(tn.Type(), tm) || types.Implements(types.NewPointer(tn.Type()), tm)
				r.Check(okM, "uint64-text-form", "toml."+nm, "no-TextMarshaler", p.Pos(tn.Pos()), "a uint64-based size type readable from text also writes itself as text (a raw TOML integer above MaxInt64 does not load)")
			}
			r.Check(m >= 2, "uint64-text-form", "toml", "types:count", "-", fmt.Sprintf("%d uint64-based text-readable types (>= 2: SizeV1, SizeV2)", m))
		})
}
